"""C03 -- gradients of the sum-product are the true derivatives."""
import random, json, warnings, math, subprocess, tempfile, sys
from concurrent.futures import ThreadPoolExecutor
from fractions import Fraction
from harness.core import *
from harness import gen
from harness.props._sp_util import *

PID = "C03"
LEVEL = "proof"
GRAD_T = Tup(GrammarT, List(Tup(Nat, List(RealW))), Tup(Bool, Nat), List(QQ), List(Tup(Nat, List(Tup(QQ, QQ)))))
CF = CheckFn("grad-real", "Model.Dual", "grad_check_real", GRAD_T)
CF_ALIAS = CheckFn("leaf-alias", "Model.LeafAlias", "alias_check", Tup(List(Nat), List(Nat)))
CHECKFNS = [CF, CF_ALIAS]
ASSUMPTIONS = [
    "the derivative of the sum-product of a recursive FGG (a power series in the weights with non-negative coefficients, finite at the given point) is the limit of the derivatives of its Kleene iterates = the epsilon part of the least fixed point over the dual numbers (termwise differentiation inside the domain of convergence; real analysis, not formalised); for non-recursive FGGs nothing is assumed: the sum-product is a polynomial and the dual-number value is its formal derivative (proved)",
    "recursive grammars: the epsilon part is judged against a certified enclosure computed in exact rational arithmetic at the dual carrier (Kleene from below, a verified m-step pre-fixed point from above, tightened to 2^-27 relative); grammars without a tight certified enclosure (divergent / near-critical) are discarded and counted",
    "Log semiring read through exp: the implementation receives log(w); the observed gradient is compared with w * dZ/dw / Z; cases with log Z = -inf at a start cell are discarded and counted (derivative undefined)",
    "float results are compared inside Coq with rtol 1e-6, atol 1e-9 (iterative methods stop at tol = 1e-10)",
    "torch accumulates gradients per leaf storage: modelled by leaf_grad / observed_grads (Model/LeafAlias.v); 'same storage' is observed as equality of untyped_storage().data_ptr() of the factors' physical tensors (torch runtime, trusted); factorize_fgg is assumed to preserve the sum-product (its own property) when its result is judged against the unfactorized grammar",
    "autograd's accumulation across components is torch runtime: modelled as reverse accumulation over the SCC DAG (backward_nonrec with J, backward_nonrec_log with J_log) and tied to the dual-number derivative per case (verdict 20, exact rational equality) for all non-recursive cases; proved equal to it for Real (C03_nonrecursive_gradient)",
]
METHODS = ["fixed-point", "newton", "linear"]
RTOL, ATOL = Fraction(1, 10**6), Fraction(1, 10**9)
ROUNDS = 3
COT_GRID = [Fraction(-2), Fraction(-1), Fraction(-1, 2), Fraction(0), Fraction(1, 2), Fraction(1), Fraction(1), Fraction(2), Fraction(3)]
EMPTY = (Fraction(1), Fraction(0))     # an interval no number lies in: nan / inf observed

def positive(spec, keep_zero=False):
    """strictly positive finite weights (zeros -> 1/2 unless keep_zero; > 1 is kept for non-recursive specs)"""
    s = dict(spec)
    s["weights"] = {el: gen.nested_map(w, lambda v: (Fraction(1, 2) if (v == 0 and not keep_zero) else v)) for el, w in spec["weights"].items()}
    return s

def add_unused_factor(spec, rng):
    """a terminal edge label with a factor that occurs in no rule: it cannot influence the start symbol"""
    s = dict(spec)
    nl = rng.randrange(len(spec["nlabels"]))
    ty = [nl] * rng.choice([0, 1, 1, 2])
    s["elabels"] = list(spec["elabels"]) + [dict(term=True, type=ty)]
    el = len(s["elabels"]) - 1
    shape = [spec["nlabels"][nl]] * len(ty)
    s["weights"] = dict(spec["weights"]); s["weights"][el] = gen.nested(shape, lambda: rng.choice([Fraction(1, 2), Fraction(1), Fraction(2)]))
    s["features"] = sorted(set(spec["features"]) | {"unused_factor"})
    return s

def shared_factor(spec):
    used = {}
    for ri, r in enumerate(spec["rules"]):
        for el, _ in r["edges"]:
            if spec["elabels"][el]["term"]: used.setdefault(el, set()).add(ri)
    return any(len(v) >= 2 for v in used.values())

def make_productive(spec, rng, p=0.85):
    """give (most) nonterminals without a terminal-only rule a base rule, so that Z > 0 is the common case"""
    s = dict(spec); s["rules"] = list(spec["rules"])
    terms = [i for i, e in enumerate(spec["elabels"]) if e["term"]]
    for x, e in enumerate(spec["elabels"]):
        if e["term"]: continue
        if any(r["lhs"] == x and all(spec["elabels"][el]["term"] for el, _ in r["edges"]) for r in s["rules"]): continue
        if not any(r["lhs"] == x for r in s["rules"]) or rng.random() > p: continue
        nodes = list(e["type"]); edges = []
        if rng.random() < 0.7:
            el = rng.choice(terms); att = []
            for nl in spec["elabels"][el]["type"]:
                cands = [i for i, l in enumerate(nodes) if l == nl]
                if not cands: nodes.append(nl); cands = [len(nodes) - 1]
                att.append(rng.choice(cands))
            edges.append((el, att))
        s["rules"].append(dict(lhs=x, nodes=nodes, edges=edges, ext=list(range(len(e["type"])))))
    return s

def all_assts(shape):
    import itertools
    return list(itertools.product(*[range(n) for n in shape]))

def dead_rule_cells(spec, zpos):
    """rules whose sum-product is zero at some external assignment although all weights are positive
    (zpos[X][flat index] = is the sum-product of nonterminal X positive at that cell).  Returns the list of
    rule indices; used only to classify Log-semiring violations (known finding c03_log_dead_rule_nan)."""
    dead = []
    for ri, r in enumerate(spec["rules"]):
        sizes = [spec["nlabels"][nl] for nl in r["nodes"]]
        def flat_index(el, idx):
            k = 0
            for nl, i in zip(spec["elabels"][el]["type"], idx): k = k * spec["nlabels"][nl] + i
            return k
        alive = set()
        for a in all_assts(sizes):
            ok = True
            for el, att in r["edges"]:
                idx = [a[i] for i in att]
                if spec["elabels"][el]["term"]:
                    w = spec["weights"][el]
                    for i in idx: w = w[i]
                    if w == 0: ok = False; break
                elif not zpos[el][flat_index(el, idx)]: ok = False; break
            if ok: alive.add(tuple(a[i] for i in r["ext"]))
        cells = set(all_assts([spec["nlabels"][nl] for nl in spec["elabels"][r["lhs"]]["type"]]))
        if r["edges"] and alive != cells: dead.append(ri)
    return dead

def start_shape(spec):
    return [spec["nlabels"][nl] for nl in spec["elabels"][spec["start"]]["type"]]

def numel(shape):
    n = 1
    for s in shape: n *= s
    return n

def obs_interval(x):
    x = float(x)
    if x != x or x in (math.inf, -math.inf): return EMPTY
    f = Fraction(x); tol = ATOL + RTOL * abs(f)
    return (f - tol, f + tol)

def run_impl(spec, sr, method, cot, plain=False, ids="explicit", rng=None, tol=1e-10, kmax=400, j_precompute=False, build_kwargs=None):
    """returns (status, warned, {terminal el: [float grad entries]}, z); status in ok | nograd | valueerror"""
    import fggs, torch
    b = gen.build_fgg(spec, sr.wconv, ids=ids, rng=rng, dtype=sr.torch_dtype(), **(build_kwargs or {}))
    for fac in b.factors.values():
        fac.weights.requires_grad_()
    with warnings.catch_warnings(record=True) as wl:
        warnings.simplefilter("always")
        try:
            opts = dict(j_precompute=True) if j_precompute else {}
            z = fggs.sum_product(b.fgg, method=method, semiring=sr.semiring(), tol=tol, kmax=kmax, **opts).to_dense()
        except ValueError as e:
            if "not linearly recursive" in str(e): return "valueerror", False, {}, None
            raise
        if plain:
            loss = z.sum()
        else:
            c = torch.tensor([float(x) for x in cot], dtype=sr.torch_dtype()).reshape(z.shape)
            loss = (z * c).sum()
        status = "ok"
        try:
            loss.backward()
        except RuntimeError as e:
            if "does not require grad" in str(e): status = "nograd"     # Z does not depend on any weight
            else: raise
    warned = any("maximum iteration exceeded" in str(w.message) for w in wl)
    out = {}
    for el, fac in b.factors.items():
        g = fac.weights.grad
        n = numel([spec["nlabels"][nl] for nl in spec["elabels"][el]["type"]])
        out[el] = [0.0] * n if g is None else dense_list(g)
        if len(out[el]) != n: raise AssertionError("gradient of factor %d has %d entries, weights have %d" % (el, len(out[el]), n))
    return status, warned, out, dense_list(z)

def z_positive(spec, scale):
    """which cells of which nonterminal have a positive sum-product (the implementation's own Real result)"""
    import fggs, torch
    sr = SR("real", "float64", scale)
    b = gen.build_fgg(spec, sr.wconv, dtype=torch.float64)
    with warnings.catch_warnings():
        warnings.simplefilter("ignore")
        res = fggs.sum_products(b.fgg, method="fixed-point", semiring=sr.semiring(), tol=1e-10, kmax=400)
    return {i: [x > 0 for x in dense_list(res[b.els[i]])] for i, e in enumerate(spec["elabels"]) if not e["term"]}


def nest(xs, shape):
    if not shape: return xs[0]
    k = len(xs) // shape[0]
    return [nest(xs[i * k:(i + 1) * k], shape[1:]) for i in range(shape[0])]

def _parse_json_line(line):
    val = json.loads(line[line.index(":") + 1:].replace("NaN", '"nan"').replace("-Infinity", '"-inf"').replace("Infinity", '"inf"'))
    return [float(x) for x in gen.flat(val)] if isinstance(val, list) else [float(val)]

def run_bin(spec, method, cot, mode="G", tol=1e-10, kmax=400, scale=Fraction(1), factor=None):
    """bin/sum_product.py on the JSON-serialised grammar (double precision).
    mode 'G': -G (all factors), cotangent passed with -o unless it is None (plain sum);
    mode 'ge': the weights of [factor] are removed from the JSON and passed with -w, options -g -e;
               the expected counts E are converted back to gradients (E * f / w).
    returns (status, {terminal el: [floats]}, {el: [floats]} from -e or None, stderr)"""
    import fggs, torch
    sr = SR("real", "float64", scale)
    b = gen.build_fgg(spec, sr.wconv, dtype=torch.float64)
    j = fggs.fgg_to_json(b.fgg)
    cmd = [sys.executable, "-OO", os.path.join(REPO, "bin", "sum_product.py"), None, "-d", "-m", method, "-l", repr(tol), "-k", str(kmax)]
    names = {gen.el_name(spec, el): el for el in spec["weights"]}
    if mode == "G":
        cmd.append("-G")
    else:
        name = gen.el_name(spec, factor)
        del j["interpretation"]["factors"][name]
        shape = [spec["nlabels"][nl] for nl in spec["elabels"][factor]["type"]]
        wl = [sr.wconv(v) for v in gen.flat(spec["weights"][factor])]
        cmd += ["-w", name, json.dumps(nest(wl, shape)), "-g", "-e"]
    if cot is not None:
        cmd += ["-o", json.dumps(nest([float(c) for c in cot], start_shape(spec)))]
    with tempfile.NamedTemporaryFile("w", suffix=".json", delete=False) as f:
        json.dump(j, f); path = f.name
    cmd[3] = path
    env = dict(os.environ); env["PYTHONPATH"] = REPO
    p = subprocess.run(cmd, stdout=subprocess.PIPE, stderr=subprocess.PIPE, text=True, timeout=300, env=env)
    os.unlink(path)
    if p.returncode != 0:
        if "not linearly recursive" in p.stderr: return "valueerror", None, None, p.stderr
        raise RuntimeError("bin/sum_product.py failed: " + p.stderr[-500:])
    lines = p.stdout.splitlines()
    z = _parse_json_line(":" + lines[0])
    grads, exps = {}, {}
    for line in lines[1:]:
        if line.startswith("grad["):
            grads[names[line[5:line.index("]")]]] = _parse_json_line(line)
        elif line.startswith("E[#"):
            exps[names[line[3:line.index("]")]]] = _parse_json_line(line)
    want = list(spec["weights"]) if mode == "G" else [factor]
    for el in want:
        if el not in grads: raise RuntimeError("no grad line for factor %s: %s" % (el, p.stdout[-300:]))
    gexp = None
    if mode == "ge":
        fval = sum(zi * (float(c) if cot is not None else 1.0) for zi, c in zip(z, cot if cot is not None else [1] * len(z)))
        wl = [sr.wconv(v) for v in gen.flat(spec["weights"][factor])]
        if factor not in exps: raise RuntimeError("no E[#] line for factor %s" % factor)
        gexp = {factor: [e * fval / w for e, w in zip(exps[factor], wl)]} if fval != 0 and fval == fval and abs(fval) != math.inf else None   # E = grad * w / f is 0/0 when f = 0
    return "ok", grads, gexp, p.stderr

def wire_case(spec, sr, cot, grads):
    obs = [(el, [obs_interval(x) for x in grads[el]]) for el in sorted(grads)]
    return (grammar_wire(spec), weights_wire(spec, sr), (sr.name == "log", ROUNDS), [Fraction(c) for c in cot], obs)

def run_model_parallel(values, seed, coq_sample, jobs=6):
    """the extracted check function on all values (several driver processes side by side) + kernel re-evaluation"""
    if not values: return [], 0
    chunks = [values[i::jobs] for i in range(jobs)]
    with ThreadPoolExecutor(jobs) as pool:
        res = list(pool.map(lambda ch: run_ocaml(CF, ch), chunks))
    codes = [None] * len(values)
    for j, r in enumerate(res):
        for k, c in enumerate(r): codes[j + k * jobs] = c
    bad = [i for i in range(len(values)) if codes[i] not in (0, 30, 31)][:6]
    rest = [i for i in range(len(values)) if codes[i] == 0]
    # the kernel VM is much slower than the extracted code: re-evaluate the cheapest accepted cases
    rest.sort(key=lambda i: len(CF.ty.sexp(values[i])))
    pick = sorted(set(bad + rest[:coq_sample]))
    if pick:
        cc = run_coq(CF, [values[i] for i in pick], shard=2, jobs=6, tag="c03", timeout=1500)
        for i, c in zip(pick, cc):
            if c != codes[i]:
                raise BuildError("extracted code and vm_compute disagree on grad-real case %d: %d vs %d" % (i, codes[i], c))
    return codes, len(pick)

def grad_cases(spec, sr, method, ids="explicit", rng=None, j_precompute=False, build_kwargs=None, cot=None, tol=1e-10, kmax=400):
    """The gradient check on one grammar, for reuse by other properties (C11 option matrix, C12 presentations).
    Runs sum_product(...).to_dense() with a cotangent (default: plain .sum(); else a list of Fractions, row-major
    over the start symbol's shape), backward, and returns a list of (check function, wire value, meta) -- empty if
    method='linear' raised its ValueError or the iteration warned (not converged).  Judge with
    run_ocaml(CF, [wire...]) / run_model: verdict 0 ok, 1 wrong gradient, 30 / 31 inconclusive (discard).
    sr: SR("real"|"log", "float64", scale).  build_kwargs are passed to gen.build_fgg (rule_order, names, patterned)."""
    plain = cot is None
    if plain: cot = [Fraction(1)] * numel(start_shape(spec))
    status, warned, grads, z = run_impl(spec, sr, method, cot, plain=plain, ids=ids, rng=rng, tol=tol, kmax=kmax,
                                        j_precompute=j_precompute, build_kwargs=build_kwargs)
    if status == "valueerror" or warned: return []
    case = dict(spec=gen.spec_jsonable(spec), semiring=sr.name, scale=str(sr.scale), method=method, cotangent=[str(c) for c in cot],
                plain=plain, via="api", j_precompute=j_precompute, status=status)
    call = "sum_product(fgg, method=%r, semiring=%s%s).to_dense()%s.backward()" % (method, sr.name, ", j_precompute=True" if j_precompute else "", ".sum()" if plain else " * c).sum(")
    return [(CF, wire_case(spec, sr, cot, grads), dict(case=case, call=call, grads=grads, z=z))]

def jpre_ok_shape(spec):
    """static pre-filter for the j_precompute stream: at most 2 edges per rule, no isolated node, no nullary edge
    and no repeated attachment (J_precompute_products still fails on about a third of these: F9, C11; those runs
    raise AssertionError / 'shape ... is invalid' and are skipped and counted)"""
    for r in spec["rules"]:
        if len(r["edges"]) > 2 or len(r["edges"]) == 0: return False
        if any(len(att) == 0 or len(set(att)) < len(att) for _, att in r["edges"]): return False
        used = {i for _, att in r["edges"] for i in att}
        if len(used) < len(r["nodes"]): return False
    return True

def jpre_spec(rng, recursive):
    """grammars for the j_precompute stream: three components S > X > Y (X, Y of arity 1 over a domain of size 2), rules with
    one or two edges, every node attached, no nullary edge, no repeated attachment; terminals a(n,m), b(n), c(n), d(n).
    labels: 0 S, 1 X, 2 Y, 3 a, 4 b, 5 c, 6 d"""
    W = [Fraction(1, 4), Fraction(1, 2), Fraction(1), Fraction(1), Fraction(2)]
    s_ar1 = rng.random() < 0.25
    elabels = [dict(term=False, type=[0] if s_ar1 else []), dict(term=False, type=[0]), dict(term=False, type=[0]),
               dict(term=True, type=[0, 0]), dict(term=True, type=[0]), dict(term=True, type=[0]), dict(term=True, type=[0])]
    def unary_rules(lhs, lower, rec):
        # rules of a nonterminal N(n) of arity 1 whose nonterminal edges are labelled [lower] (a later component) or, if rec, N itself
        t = [dict(lhs=lhs, nodes=[0], edges=[(rng.choice([4, 5, 6]), [0])], ext=[0]),
             dict(lhs=lhs, nodes=[0, 0], edges=[(3, [0, 1])], ext=[0]),
             dict(lhs=lhs, nodes=[0, 0], edges=[(3, [1, 0]), (rng.choice([4, 5, 6]), [1])], ext=[0]),
             dict(lhs=lhs, nodes=[0], edges=[(rng.choice([4, 5, 6]), [0]), (rng.choice([4, 5, 6]), [0])], ext=[0])]
        if lower is not None:
            t += [dict(lhs=lhs, nodes=[0, 0], edges=[(3, [0, 1]), (lower, [1])], ext=[0]),
                  dict(lhs=lhs, nodes=[0], edges=[(lower, [0]), (rng.choice([4, 5, 6]), [0])], ext=[0]),
                  dict(lhs=lhs, nodes=[0], edges=[(lower, [0])], ext=[0])]
        out = rng.sample(t, rng.choice([1, 2, 2]))
        if lower is not None and not any(el == lower for r in out for el, _ in r["edges"]):
            out.append(dict(lhs=lhs, nodes=[0, 0], edges=[(3, [0, 1]), (lower, [1])], ext=[0]))
        if rec:
            out.append(rng.choice([dict(lhs=lhs, nodes=[0, 0], edges=[(3, [0, 1]), (lhs, [1])], ext=[0]),
                                   dict(lhs=lhs, nodes=[0], edges=[(lhs, [0]), (rng.choice([4, 5, 6]), [0])], ext=[0])]))
        return out
    ext0 = [0] if s_ar1 else []
    srules = [dict(lhs=0, nodes=[0], edges=[(1, [0]), (rng.choice([4, 5, 6]), [0])], ext=ext0)]
    if rng.random() < 0.5: srules.append(dict(lhs=0, nodes=[0], edges=[(rng.choice([1, 2]), [0])], ext=ext0))
    if rng.random() < 0.3: srules.append(dict(lhs=0, nodes=[0], edges=[(rng.choice([4, 5, 6]), [0])], ext=ext0))
    rules = srules + unary_rules(1, 2, recursive and rng.random() < 0.7) + unary_rules(2, None, recursive and rng.random() < 0.5)
    weights = {3: gen.nested([2, 2], lambda: rng.choice(W[:4])), 4: gen.nested([2], lambda: rng.choice(W)),
               5: gen.nested([2], lambda: rng.choice(W)), 6: gen.nested([2], lambda: rng.choice(W))}
    used = {el for r in rules for el, _ in r["edges"]}
    weights = {el: w for el, w in weights.items()}      # unused factors are kept: their gradient must be absent / zero
    return dict(nlabels=[2], elabels=elabels, start=0, rules=rules, weights=weights, features=["jpre_shape"],
                recursive=any(el == r["lhs"] for r in rules for el, _ in r["edges"]))

def lower_scc_factor(spec):
    """>= 2 nonterminals with rules and some factor used in a rule of a non-start nonterminal"""
    return any(r["lhs"] != spec["start"] and any(spec["elabels"][el]["term"] for el, _ in r["edges"]) for r in spec["rules"]) \
        and any(r["lhs"] == spec["start"] and any(not spec["elabels"][el]["term"] for el, _ in r["edges"]) for r in spec["rules"])

WHAT = {1: "a gradient entry differs from the true derivative of the sum-product (dual-number value of the Kleene iterates / certified enclosure of its limit)",
        4: "a gradient has the wrong number of entries", 20: "code-shaped backward model differs from the dual-number derivative (framework bug)"}
ORACLE = "grad_model (dual-number Zk: C03_dual_is_derivative, C03_tree_derivative) / encl2 (C03_encl2_sound)"

def forced_recursive_spec(rng, kind):
    """recursive shapes whose Jacobian block Jx is a genuinely asymmetric matrix, so that solving the
    transposed system matters: (0) matrix recursion X(n) -> a(n,m) X(m) | b(n); (1) mutual recursion
    X -> Y a | b, Y -> X X c | d; (2) non-linear matrix recursion X(n) -> a(n,m) X(m) X(m) | b(n);
    the start symbol contracts X with a vector c (or has arity 1 itself)"""
    W = [Fraction(1, 4), Fraction(1, 2), Fraction(1), Fraction(1), Fraction(2)]
    rw = lambda shape: gen.nested(shape, lambda: rng.choice(W))
    if kind == 3:
        # S -> X(n) c(n);  X(n) -> U(n) b(n)  [dead: U is unproductive, same SCC, listed FIRST]  |  a(n) | X(n) d(n);  U(n) -> X(n) U(n)
        ar = rng.choice([[], [0]])
        att = list(range(len(ar)))
        T = dict(term=True, type=ar)
        elabels = [dict(term=False, type=[]), dict(term=False, type=ar), dict(term=False, type=ar), T, T, T, T]
        rules = [dict(lhs=0, nodes=ar, edges=[(1, att), (3, att)], ext=[]),
                 dict(lhs=1, nodes=ar, edges=[(2, att), (4, att)], ext=att),
                 dict(lhs=1, nodes=ar, edges=[(5, att)], ext=att),
                 dict(lhs=1, nodes=ar, edges=[(1, att), (6, att)], ext=att),
                 dict(lhs=2, nodes=ar, edges=[(1, att), (2, att)], ext=att)]
        sh = [2] * len(ar)
        weights = {3: rw(sh), 4: rw(sh), 5: rw(sh), 6: gen.nested(sh, lambda: rng.choice(W[:4]))}
        return dict(nlabels=[2], elabels=elabels, start=0, rules=rules, weights=weights, features=["forced_dead_rule_first"], recursive=True)
    if kind == 1:
        elabels = [dict(term=False, type=[]), dict(term=False, type=[]), dict(term=False, type=[])] + [dict(term=True, type=[]) for _ in range(4)]
        rules = [dict(lhs=0, nodes=[], edges=[(1, [])], ext=[]),
                 dict(lhs=1, nodes=[], edges=[(2, []), (3, [])], ext=[]), dict(lhs=1, nodes=[], edges=[(4, [])], ext=[]),
                 dict(lhs=2, nodes=[], edges=[(1, []), (1, []), (5, [])], ext=[]), dict(lhs=2, nodes=[], edges=[(6, [])], ext=[])]
        weights = {3: rng.choice(W), 4: rng.choice(W), 5: rng.choice(W), 6: rng.choice(W)}
        return dict(nlabels=[2], elabels=elabels, start=0, rules=rules, weights=weights, features=["forced_mutual_recursion"], recursive=True)
    arity1_start = rng.random() < 0.3
    elabels = [dict(term=False, type=[0] if arity1_start else []), dict(term=False, type=[0]),
               dict(term=True, type=[0, 0]), dict(term=True, type=[0]), dict(term=True, type=[0])]
    xs = [(1, [1])] * (2 if kind == 2 else 1)
    rules = [dict(lhs=0, nodes=[0], edges=[(1, [0]), (4, [0])], ext=[0] if arity1_start else []),
             dict(lhs=1, nodes=[0, 0], edges=[(2, [0, 1])] + xs, ext=[0]),
             dict(lhs=1, nodes=[0], edges=[(3, [0])], ext=[0])]
    weights = {2: gen.nested([2, 2], lambda: rng.choice(W[:4])), 3: rw([2]), 4: rw([2])}
    return dict(nlabels=[2], elabels=elabels, start=0, rules=rules, weights=weights,
                features=["forced_matrix_recursion" if kind == 0 else "forced_nonlinear_matrix_recursion"], recursive=True)

def asym_matrix(rng, W, n=2):
    """an n x n table that differs from its transpose (and is not a multiple of the identity)"""
    while True:
        m = gen.nested([n, n], lambda: rng.choice(W))
        if any(m[i][j] != m[j][i] for i in range(n) for j in range(n)): return m

def forced_hi_arity_recursion_spec(rng, kind):
    """a RECURSIVE component containing a nonterminal with >= 2 external nodes and a Jacobian that is not invariant
    under reversing / permuting the axes of its blocks (asymmetric matrices h), so that the order in which the
    backward pass flattens and transposes the blocks of (I - J)^T matters.  X is the start symbol (any cotangent
    over its cells) or sits under S -> X(a,b) f(a) g(b).  labels: 0 start, then nonterminals, then terminals.
      0: X(a,b) -> p(a,b) | h(a,c) X(c,b)                  (J = H (x) I; reversed axes: I (x) H)
      1: X(a,b) -> f(a) g(b) | X(b,c) h(c,a)               (recursion that also swaps the axes)
      2: X(a,b) -> p(a,b) | X(a,c) X(c,b)                  (non-linear)
      3: X(a,b) -> h(a,b) Y(b) | f(a) g(b);  Y(a) -> X(a,c) f(c) | g(a)     (blocks of mixed arity 2 x 1, 1 x 2)
      4: X(a,b,c) -> h(a,b) f(c) | h(a,d) X(d,b,c)         (arity 3)
      5: X(a,b,c) -> h(a,b) f(c) | h(a,d) X(b,c,d)         (arity 3, recursion rotates the axes)"""
    W = [Fraction(1, 4), Fraction(1, 2), Fraction(1), Fraction(1), Fraction(2)]
    rw = lambda shape: gen.nested(shape, lambda: rng.choice(W))
    NT = lambda ar: dict(term=False, type=[0] * ar)
    TM = lambda ar: dict(term=True, type=[0] * ar)
    ar = 3 if kind >= 4 else 2
    under = kind in (1, 3) and rng.random() < 0.5      # S -> X(a,b) f(a) g(b) on top (kinds with vector factors)
    els = ([NT(0)] if under else []) + [NT(ar)]
    X = len(els) - 1
    rules = []
    if kind == 0:
        p, h = X + 1, X + 2; els += [TM(2), TM(2)]
        rules += [dict(lhs=X, nodes=[0, 0], edges=[(p, [0, 1])], ext=[0, 1]),
                  dict(lhs=X, nodes=[0, 0, 0], edges=[(h, [0, 2]), (X, [2, 1])], ext=[0, 1])]
        weights = {p: asym_matrix(rng, W), h: asym_matrix(rng, W[:4])}
    elif kind == 1:
        f, g, h = X + 1, X + 2, X + 3; els += [TM(1), TM(1), TM(2)]
        rules += [dict(lhs=X, nodes=[0, 0], edges=[(f, [0]), (g, [1])], ext=[0, 1]),
                  dict(lhs=X, nodes=[0, 0, 0], edges=[(X, [1, 2]), (h, [2, 0])], ext=[0, 1])]
        weights = {f: rw([2]), g: rw([2]), h: asym_matrix(rng, W[:4])}
    elif kind == 2:
        p = X + 1; els += [TM(2)]
        rules += [dict(lhs=X, nodes=[0, 0], edges=[(p, [0, 1])], ext=[0, 1]),
                  dict(lhs=X, nodes=[0, 0, 0], edges=[(X, [0, 2]), (X, [2, 1])], ext=[0, 1])]
        weights = {p: asym_matrix(rng, W)}
    elif kind == 3:
        Y = X + 1; els += [NT(1)]
        h, f, g = Y + 1, Y + 2, Y + 3; els += [TM(2), TM(1), TM(1)]
        rules += [dict(lhs=X, nodes=[0, 0], edges=[(h, [0, 1]), (Y, [1])], ext=[0, 1]),
                  dict(lhs=X, nodes=[0, 0], edges=[(f, [0]), (g, [1])], ext=[0, 1]),
                  dict(lhs=Y, nodes=[0, 0], edges=[(X, [0, 1]), (f, [1])], ext=[0]),
                  dict(lhs=Y, nodes=[0], edges=[(g, [0])], ext=[0])]
        weights = {h: asym_matrix(rng, W[:4]), f: rw([2]), g: rw([2])}
    else:
        h, f = X + 1, X + 2; els += [TM(2), TM(1)]
        rec = [3, 1, 2] if kind == 4 else [1, 2, 3]
        rules += [dict(lhs=X, nodes=[0, 0, 0], edges=[(h, [0, 1]), (f, [2])], ext=[0, 1, 2]),
                  dict(lhs=X, nodes=[0, 0, 0, 0], edges=[(h, [0, 3]), (X, rec)], ext=[0, 1, 2])]
        weights = {h: asym_matrix(rng, W[:4]), f: rw([2])}
    if under:
        f, g = (X + 1, X + 2) if kind == 1 else (X + 3, X + 4)
        rules.insert(0, dict(lhs=0, nodes=[0, 0], edges=[(X, [0, 1]), (f, [0]), (g, [1])], ext=[]))
    return dict(nlabels=[2], elabels=els, start=0, rules=rules, weights=weights,
                features=["forced_hi_arity_recursion", "forced_hi_arity_recursion_kind%d" % kind] + (["forced_nonlinear_hi_arity"] if kind == 2 else []),
                recursive=True)

# ----------------------------------------------------------------------------
# stream "paths": grammars with several DISTINCT factors that have EQUAL weight tables, obtained through every
# constructor / loader / copy path of the library; gradients are read per factor from the objects that path returned

PATHS = ["json", "copy", "from_hrg", "factorize", "lists", "json_copy", "shared_by_caller", "copy_factorize", "conjoin"]
PATH_STEPS = {"json": ["json"], "copy": ["copy"], "factorize": ["factorize"], "json_copy": ["json", "copy"],
              "copy_factorize": ["copy", "copy", "factorize"], "direct": []}

def table_shape(spec, el):
    return tuple(spec["nlabels"][nl] for nl in spec["elabels"][el]["type"])

def equalize_tables(spec, rng, p=0.8):
    """terminals whose tables have the same shape receive literally equal tables (copies of one of them); returns (spec, #copies)"""
    import copy
    groups = {}
    for el in sorted(spec["weights"]): groups.setdefault(table_shape(spec, el), []).append(el)
    s = dict(spec); s["weights"] = dict(spec["weights"]); n = 0
    for shape, els in sorted(groups.items()):
        if len(els) < 2: continue
        src = rng.choice(els)
        for el in els:
            if el != src and rng.random() < p:
                s["weights"][el] = copy.deepcopy(spec["weights"][src]); n += 1
    if n: s["features"] = sorted(set(spec["features"]) | {"equal_tables"})
    return s, n

def equal_groups(spec, same_type=False):
    """groups (>= 2) of distinct factors whose tables are equal (same shape, same numbers); same_type: the labels
    also have the same node-label type, so that merging them into one label gives a well-formed grammar (two
    labels of types (B, A) and (A, B) over domains of size 1 have equal 1x1 tables but cannot be one label:
    thorough-tier false alarm 'framework inconsistency (code 2)' of the shared_by_caller control)"""
    groups = {}
    for el in sorted(spec["weights"]):
        ty = tuple(spec["elabels"][int(el)]["type"]) if same_type else ()
        groups.setdefault((table_shape(spec, el), repr(spec["weights"][el]), ty), []).append(el)
    return [els for els in groups.values() if len(els) >= 2]

def equal_tables_spec(rng, kind):
    """forced shapes in which factors with EQUAL tables sit in DIFFERENT positions (so that their true gradients differ):
      0: S -> a(x) X(x);  X(x) -> t(x,y) X(y) | b(x)          a = b   (recursive, domain of size 1 or 2)
      1: S -> a(x) t(x,y) b(y) [c(y)]                          a = b = c  (domain of size 1, 2 or 3)
      2: S -> X c;  X -> X X a | b                             a = b = c  (nullary factors, recursive)
      3: S -> f(x) t(x,y) u(y,z) g(z)                          t = u [f = g]
      4: S -> X(x,y) m(x,y);  X(x,y) -> t(x,y) | u(y,x)        t = u = m  (arity-2 nonterminal)"""
    import copy
    W = [Fraction(1, 4), Fraction(1, 2), Fraction(1), Fraction(2), Fraction(3)]
    T = lambda ar: dict(term=True, type=[0] * ar)
    NTn = lambda ar: dict(term=False, type=[0] * ar)
    def distinct_vec(d):
        while True:
            v = gen.nested([d], lambda: rng.choice(W))
            if d == 1 or len(set(v)) > 1: return v
    d = 2
    if kind == 0:
        d = rng.choice([1, 2, 2]); a = distinct_vec(d)
        els = [NTn(0), NTn(1), T(1), T(1), T(2)]
        rules = [dict(lhs=0, nodes=[0], edges=[(2, [0]), (1, [0])], ext=[]),
                 dict(lhs=1, nodes=[0, 0], edges=[(4, [0, 1]), (1, [1])], ext=[0]),
                 dict(lhs=1, nodes=[0], edges=[(3, [0])], ext=[0])]
        t = asym_matrix(rng, W[:3]) if d == 2 else [[rng.choice(W[:3])]]
        weights = {2: a, 3: copy.deepcopy(a), 4: t}; rec = True
    elif kind == 1:
        d = rng.choice([1, 2, 2, 3]); a = distinct_vec(d); third = d < 3 and rng.random() < 0.5
        els = [NTn(0), T(1), T(1), T(2)] + ([T(1)] if third else [])
        rules = [dict(lhs=0, nodes=[0, 0], edges=[(1, [0]), (3, [0, 1]), (2, [1])] + ([(4, [1])] if third else []), ext=[])]
        t = asym_matrix(rng, W, d) if d >= 2 else [[rng.choice(W)]]
        weights = {1: a, 2: copy.deepcopy(a), 3: t}
        if third: weights[4] = copy.deepcopy(a)
        rec = False
    elif kind == 2:
        v = rng.choice([Fraction(1, 4), Fraction(1, 2), Fraction(1)])
        els = [NTn(0), NTn(0), T(0), T(0), T(0)]
        rules = [dict(lhs=0, nodes=[], edges=[(1, []), (4, [])], ext=[]),
                 dict(lhs=1, nodes=[], edges=[(1, []), (1, []), (2, [])], ext=[]),
                 dict(lhs=1, nodes=[], edges=[(3, [])], ext=[])]
        weights = {2: v, 3: v, 4: v}; rec = True
    elif kind == 3:
        f = distinct_vec(2); g = copy.deepcopy(f) if rng.random() < 0.5 else distinct_vec(2); t = asym_matrix(rng, W)
        els = [NTn(0), T(1), T(2), T(2), T(1)]
        rules = [dict(lhs=0, nodes=[0, 0, 0], edges=[(1, [0]), (2, [0, 1]), (3, [1, 2]), (4, [2])], ext=[])]
        weights = {1: f, 2: t, 3: copy.deepcopy(t), 4: g}; rec = False
    else:
        t = asym_matrix(rng, W)
        els = [NTn(0), NTn(2), T(2), T(2), T(2)]
        rules = [dict(lhs=0, nodes=[0, 0], edges=[(1, [0, 1]), (4, [0, 1])], ext=[]),
                 dict(lhs=1, nodes=[0, 0], edges=[(2, [0, 1])], ext=[0, 1]),
                 dict(lhs=1, nodes=[0, 0], edges=[(3, [1, 0])], ext=[0, 1])]
        weights = {2: t, 3: copy.deepcopy(t), 4: copy.deepcopy(t)}; rec = False
    return dict(nlabels=[d], elabels=els, start=0, rules=rules, weights=weights,
                features=["equal_tables", "forced_equal_tables_kind%d" % kind] + (["size1_domain"] if d == 1 else []), recursive=rec)

def merge_labels(spec, keep, drop):
    """the grammar in which every edge labelled [drop] is labelled [keep] instead (two factors bound to ONE weight tensor by the
    caller are one parameter); [drop] stays as a factor that occurs in no rule"""
    s = dict(spec)
    s["rules"] = [dict(r, edges=[((keep if el == drop else el), att) for el, att in r["edges"]]) for r in spec["rules"]]
    return s

def storage_ids(tensors):
    """small integers naming the physical storage behind each tensor (in the order given); empty tensors get ids of their own"""
    ids = {}; out = []
    for k, t in enumerate(tensors):
        p = t.physical if hasattr(t, "physical") else t
        key = p.untyped_storage().data_ptr() if p.numel() > 0 else ("empty", k)
        out.append(ids.setdefault(key, len(ids)))
    return out

def alias_introduced(pre, post):
    """pairs of positions that share storage after the path although the caller had given them different storage"""
    return [(i, j) for i in range(len(post)) for j in range(i + 1, len(post)) if post[i] == post[j] and pre[i] != pre[j]]

def spec_of_fgg(g, spec, names):
    """read a spec back from an fggs FGG whose terminals are (a subset of) those of [spec] (names: el -> name): for grammars
    produced by a transformation (conjoin_hrgs).  The weights are those of [spec]; the start symbol is label 0.
    Returns (spec', {el' of a terminal: el of spec})"""
    nls = sorted(g.node_labels(), key=lambda l: l.name); nli = {l.name: i for i, l in enumerate(nls)}
    nts = sorted(g.nonterminals(), key=lambda l: (l != g.start, l.name))
    byname = {n: el for el, n in names.items()}
    tms = sorted((l for l in g.terminals() if l.name in byname), key=lambda l: l.name)
    labels = nts + tms; eli = {l.name: i for i, l in enumerate(labels)}
    elabels = [dict(term=l.is_terminal, type=[nli[x.name] for x in l.type]) for l in labels]
    rules = []
    for r in g.all_rules():
        nodes = list(r.rhs.nodes()); ni = {n.id: i for i, n in enumerate(nodes)}
        rules.append(dict(lhs=eli[r.lhs.name], nodes=[nli[n.label.name] for n in nodes],
                          edges=[(eli[e.label.name], [ni[n.id] for n in e.nodes]) for e in r.rhs.edges()],
                          ext=[ni[n.id] for n in r.rhs.ext]))
    back = {eli[l.name]: byname[l.name] for l in tms}
    weights = {e2: spec["weights"][e1] for e2, e1 in back.items()}
    sizes = [g.domains[l.name].size() for l in nls]
    return dict(nlabels=sizes, elabels=elabels, start=0, rules=rules, weights=weights, features=list(spec["features"]),
                recursive=spec["recursive"]), back

def build_via(spec, sr, path, rng, ids="explicit"):
    """The FGG of [spec] obtained through [path].  Returns (fgg, {el: FiniteFactor of THAT fgg}, pre, model_spec):
    pre = storage ids of the weight tensors as the caller supplied them (sorted el order), model_spec = the grammar the
    gradients are to be judged against (its terminal numbering is the one of the returned factor dict)."""
    import fggs, torch
    dtype = sr.torch_dtype()
    names = {el: gen.el_name(spec, el) for el in spec["weights"]}
    els = sorted(spec["weights"])
    old = torch.get_default_dtype(); torch.set_default_dtype(dtype)     # json_to_weights / python lists use the default dtype (as bin/sum_product.py -d)
    try:
        if path in ("from_hrg", "lists", "conjoin"):
            hb = gen.build_hrg(spec, ids=ids, rng=rng)
            hrg = hb.hrg
            if path == "conjoin":
                # conjunction with a grammar of the same skeleton (same node / nonterminal-edge ids, primed nonterminals) that
                # adds one nullary factor u to every rule; its weight equals a nullary weight of spec if there is one
                h2 = fggs.HRG(fggs.EdgeLabel(hb.els[spec["start"]].name + "'", hb.els[spec["start"]].type, is_nonterminal=True))
                prime = {}
                for i, e in enumerate(spec["elabels"]):
                    if not e["term"]:
                        prime[i] = h2.start if i == spec["start"] else fggs.EdgeLabel(hb.els[i].name + "'", hb.els[i].type, is_nonterminal=True)
                extra = fggs.EdgeLabel("u", [], is_terminal=True)
                for (rule, nodes, edges), r in zip(hb.rules, spec["rules"]):
                    gr = fggs.Graph()
                    for n in nodes: gr.add_node(n)
                    for e, (el, att) in zip(edges, r["edges"]):
                        if not spec["elabels"][el]["term"]: gr.add_edge(fggs.Edge(prime[el], e.nodes, id=e.id))
                    gr.add_edge(fggs.Edge(extra, [], id="u"))
                    gr.ext = rule.rhs.ext
                    h2.add_rule(fggs.HRGRule(prime[r["lhs"]], gr))
                hrg = fggs.conjoin_hrgs(hrg, h2)
            g = fggs.FGG.from_hrg(hrg)
            for i, size in enumerate(spec["nlabels"]):
                g.add_domain(hb.nls[i], fggs.FiniteDomain(["v%d_%d" % (i, k) for k in range(size)]))
            supplied = []
            for el in els:
                if path == "lists":     # nested python lists of floats (FiniteFactor converts them itself)
                    g.new_finite_factor(names[el], gen.nested_map(spec["weights"][el], sr.wconv))
                    supplied.append(g.factors[names[el]].weights)
                else:
                    t = gen.weight_tensor(spec, el, sr.wconv, dtype)
                    g.new_finite_factor(names[el], t); supplied.append(t)
            if path != "conjoin":
                return g, {el: g.factors[names[el]] for el in els}, storage_ids(supplied), spec
            scal = [el for el in els if table_shape(spec, el) == ()]
            uval = spec["weights"][scal[0]] if scal else Fraction(1, 2)
            g.new_finite_factor("u", torch.tensor(sr.wconv(uval), dtype=dtype))
            s2 = dict(spec, elabels=list(spec["elabels"]) + [dict(term=True, type=[])], weights=dict(spec["weights"]))
            u = len(s2["elabels"]) - 1; s2["weights"][u] = uval
            names2 = dict(names); names2[u] = "u"
            model_spec, back = spec_of_fgg(g, s2, names2)
            facs = {e2: g.factors[names2[e1]] for e2, e1 in back.items()}
            return g, facs, list(range(len(facs))), model_spec
        b = gen.build_fgg(spec, sr.wconv, ids=ids, rng=rng, dtype=dtype)
        g = b.fgg
        if path == "shared_by_caller":
            # the caller binds two factors with equal tables to ONE tensor: they are one parameter, whose gradient is the
            # derivative of the grammar in which both edge labels are the same label
            grp = equal_groups(spec, same_type=True)
            keep, drop = grp[0][0], grp[0][1]
            b.factors[drop].weights = b.factors[keep].weights
            if rng.random() < 0.5: g = fggs.factorize_fgg(g)
            obs = [el for el in els if el != drop]
            return g, {el: g.factors[names[el]] for el in obs}, storage_ids([b.factors[el].weights for el in obs]), merge_labels(spec, keep, drop)
        pre = storage_ids([b.factors[el].weights for el in els])
        for step in PATH_STEPS[path]:
            if step == "json": g = fggs.json_to_fgg(json.loads(json.dumps(fggs.fgg_to_json(g))))
            elif step == "copy": g = g.copy()
            else: g = fggs.factorize_fgg(g)
        return g, {el: g.factors[names[el]] for el in els}, pre, spec
    finally:
        torch.set_default_dtype(old)

def run_path_case(spec, sr, method, cot, plain, path, ids, seed, inplace):
    """One history on ONE grammar object obtained through [path]: requires_grad_ on the factors of that object, sum_product,
    backward, read every factor's gradient; then (inplace) one factor's weights are halved IN PLACE under no_grad, the
    gradients are cleared and the same object is evaluated again.  Returns (rounds, pre, post): rounds = list of
    (model spec of that round, status, warned, {el of model spec: grads}, z); pre / post = storage ids before / after the path."""
    import fggs, torch
    rng = random.Random(seed)
    g, facs, pre, cur = build_via(spec, sr, path, rng, ids)
    post = storage_ids([facs[el].weights for el in sorted(facs)])
    rounds = []
    for rnd in range(2 if inplace else 1):
        for fac in facs.values():
            fac.weights.requires_grad_(); fac.weights.physical.grad = None
        with warnings.catch_warnings(record=True) as wl:
            warnings.simplefilter("always")
            try:
                z = fggs.sum_product(g, method=method, semiring=sr.semiring(), tol=1e-10, kmax=400).to_dense()
            except ValueError as e:
                if "not linearly recursive" in str(e): rounds.append((cur, "valueerror", False, {}, None)); break
                raise
            loss = z.sum() if plain else (z * torch.tensor([float(x) for x in cot], dtype=sr.torch_dtype()).reshape(z.shape)).sum()
            status = "ok"
            try: loss.backward()
            except RuntimeError as e:
                if "does not require grad" in str(e): status = "nograd"
                else: raise
        warned = any("maximum iteration exceeded" in str(w.message) for w in wl)
        grads = {}
        for el, fac in facs.items():
            gr = fac.weights.grad
            n = numel(table_shape(cur, el))
            grads[el] = [0.0] * n if gr is None else dense_list(gr)
            if len(grads[el]) != n: raise AssertionError("gradient of factor %d has %d entries, weights have %d" % (el, len(grads[el]), n))
        rounds.append((cur, status, warned, grads, dense_list(z)))
        if rnd == 0 and inplace:
            el = sorted(facs)[rng.randrange(len(facs))]
            with torch.no_grad():
                ph = facs[el].weights.physical
                if sr.name == "log": ph.add_(math.log(0.5))
                else: ph.mul_(0.5)
            cur = dict(cur, weights=dict(cur["weights"]))
            cur["weights"][el] = gen.nested_map(cur["weights"][el], lambda v: v / 2)
    return rounds, pre, post

NT0 = dict(term=False, type=[])
def forced_finding_specs():
    """minimal inputs of the defect classes found by this check and since repaired in /repo (b84d904, 839ae95, e1d8ad4, fc474fc, 124928a); kept in every run as regression cases"""
    F = Fraction
    dead = dict(nlabels=[2], elabels=[NT0, NT0, dict(term=True, type=[0])], start=0,
                rules=[dict(lhs=0, nodes=[0], edges=[(2, [0])], ext=[]), dict(lhs=0, nodes=[0], edges=[(2, [0]), (1, [])], ext=[])],
                weights={2: [F(1, 4), F(1, 4)]}, features=["forced_log_dead_rule"], recursive=False)
    unreach = dict(nlabels=[2], elabels=[NT0, NT0, dict(term=True, type=[0]), dict(term=True, type=[0])], start=0,
                   rules=[dict(lhs=0, nodes=[0], edges=[(2, [0])], ext=[]), dict(lhs=1, nodes=[0], edges=[(3, [0])], ext=[])],
                   weights={2: [F(1, 2), F(2)], 3: [F(1), F(3)]}, features=["forced_unreachable_factor"], recursive=False)
    size1 = dict(nlabels=[1], elabels=[NT0, dict(term=True, type=[0])], start=0,
                 rules=[dict(lhs=0, nodes=[0], edges=[(1, [0])], ext=[])],
                 weights={1: [F(1, 4)]}, features=["forced_size1_axis"], recursive=False)
    fp0 = dict(nlabels=[2], elabels=[NT0, dict(term=True, type=[]), dict(term=True, type=[])], start=0,
               rules=[dict(lhs=0, nodes=[], edges=[(0, []), (1, [])], ext=[]), dict(lhs=0, nodes=[], edges=[(2, [])], ext=[])],
               weights={1: F(1), 2: F(0)}, features=["forced_fixed_point_zero_solution"], recursive=True)
    return dead, unreach, size1, fp0

def forced_arity3_spec(rng):
    """a lower-component nonterminal Y of arity 3 (all axes of size 2) whose rules leave some external nodes attached to
    no edge, in various positions, so that the physical axis order of Y's value is a non-trivial permutation (also a
    3-cycle) of its virtual order; the gradient flows through Y:  S -> Y(a,b,c) m(a,b,c) [| Y(a,b,c) m(b,c,a)],
    Y(a,b,c) -> h(x,y) | f(x) | h(x,y) f(z) ...   labels: 0 S, 1 Y, 2 m/3, 3 h/2, 4 f/1"""
    W = [Fraction(1, 4), Fraction(1, 2), Fraction(1), Fraction(2), Fraction(3)]
    elabels = [dict(term=False, type=[]), dict(term=False, type=[0, 0, 0]),
               dict(term=True, type=[0, 0, 0]), dict(term=True, type=[0, 0]), dict(term=True, type=[0])]
    import itertools
    yr = []
    if rng.random() < 0.6:
        # the attached external nodes are a proper prefix of (a, b, c): the unattached ones follow a connected one,
        # which makes the physical axis order of Y's value a cyclic rotation of the virtual order
        k = rng.choice(["f0", "h01", "h10", "h01f", "hh01"])
        edges = {"f0": [(4, [0])], "h01": [(3, [0, 1])], "h10": [(3, [1, 0])],
                 "h01f": [(3, [0, 1]), (4, [rng.choice([0, 1])])], "hh01": [(3, [0, 1]), (3, [1, 0])]}[k]
        yr.append(dict(lhs=1, nodes=[0, 0, 0], edges=edges, ext=[0, 1, 2]))
    for _ in range(rng.choice([1, 1, 2]) if not yr else 0):
        k = rng.choice(["h", "f", "hf", "hh"])
        if k == "h": edges = [(3, list(rng.choice(list(itertools.permutations(range(3), 2)))))]
        elif k == "f": edges = [(4, [rng.randrange(3)])]
        elif k == "hf":
            att = list(rng.choice(list(itertools.permutations(range(3), 2)))); edges = [(3, att), (4, [rng.choice(att)])]
        else:
            edges = [(3, list(rng.choice(list(itertools.permutations(range(3), 2))))), (3, list(rng.choice(list(itertools.permutations(range(3), 2)))))]
        yr.append(dict(lhs=1, nodes=[0, 0, 0], edges=edges, ext=[0, 1, 2]))
    srules = [dict(lhs=0, nodes=[0, 0, 0], edges=[(1, [0, 1, 2]), (2, list(rng.choice(list(itertools.permutations(range(3))))))], ext=[])]
    if rng.random() < 0.3: srules.append(dict(lhs=0, nodes=[0, 0, 0], edges=[(1, list(rng.choice(list(itertools.permutations(range(3)))))), (2, [0, 1, 2])], ext=[]))
    distinct = lambda shape: gen.nested(shape, lambda: rng.choice(W))
    weights = {2: distinct([2, 2, 2]), 3: distinct([2, 2]), 4: distinct([2])}
    return dict(nlabels=[2], elabels=elabels, start=0, rules=srules + yr, weights=weights,
                features=["forced_arity3_unattached_ext"], recursive=False)

def forced_diag_recursion_spec(rng, under_start):
    """a recursive component whose value is patterned (diagonal): X(a,a) -> f(a) | h(a,b) X(b,b) (duplicated external node);
    either X is the start symbol (Real: any cotangent, the off-diagonal derivative is 0) or T -> X(a,b) m(a,b).
    labels: 0 start, (1 X), f/1, h/2, m/2"""
    W = [Fraction(1, 4), Fraction(1, 2), Fraction(1), Fraction(1), Fraction(2)]
    fw = gen.nested([2], lambda: rng.choice(W)); hw = gen.nested([2, 2], lambda: rng.choice(W[:4]))
    if under_start:
        elabels = [dict(term=False, type=[]), dict(term=False, type=[0, 0]), dict(term=True, type=[0]), dict(term=True, type=[0, 0]), dict(term=True, type=[0, 0])]
        X = 1
        rules = [dict(lhs=0, nodes=[0, 0], edges=[(1, [0, 1]), (4, [0, 1])], ext=[])]
        weights = {2: fw, 3: hw, 4: gen.nested([2, 2], lambda: rng.choice(W))}
    else:
        elabels = [dict(term=False, type=[0, 0]), dict(term=True, type=[0]), dict(term=True, type=[0, 0])]
        X = 0; rules = []; weights = {1: fw, 2: hw}
    f, h = (2, 3) if under_start else (1, 2)
    rules += [dict(lhs=X, nodes=[0], edges=[(f, [0])], ext=[0, 0]),
              dict(lhs=X, nodes=[0, 0], edges=[(h, [0, 1]), (X, [1, 1])], ext=[0, 0])]
    if rng.random() < 0.4:      # a non-linear variant
        rules.append(dict(lhs=X, nodes=[0, 0], edges=[(h, [0, 1]), (X, [1, 1]), (X, [1, 1])], ext=[0, 0]))
    return dict(nlabels=[2], elabels=elabels, start=0, rules=rules, weights=weights,
                features=["dup_ext", "forced_diagonal_recursion"], recursive=True)

def gen_spec(rng, i, recursive):
    if not recursive and i % 7 == 3:
        spec = forced_arity3_spec(rng)
        if shared_factor(spec): spec["features"] = sorted(set(spec["features"]) | {"shared_factor"})
        return spec, Fraction(1), False
    if recursive and i % 3 == 2 and (i // 3) % 2 == 0:
        spec = forced_diag_recursion_spec(rng, under_start=(i // 6) % 3 != 0)
        return spec, rng.choice([Fraction(1, 4), Fraction(1, 8)]), False
    if recursive and i % 3 == 0 and (i // 3) % 2 == 0:
        kind = (i // 6) % 6
        spec = forced_hi_arity_recursion_spec(rng, kind)
        if shared_factor(spec): spec["features"] = sorted(set(spec["features"]) | {"shared_factor"})
        return spec, (Fraction(1, 8) if kind in (2, 3) else rng.choice([Fraction(1, 4), Fraction(1, 8)])), False
    if recursive and i % 3 == 1:
        kind = (i // 3) % 4
        spec = forced_recursive_spec(rng, kind)
        scale = Fraction(1, 8) if kind == 2 else rng.choice([Fraction(1, 4), Fraction(1, 8)])
        if shared_factor(spec): spec["features"] = sorted(set(spec["features"]) | {"shared_factor"})
        return spec, scale, False
    if recursive:
        linear = rng.choice([True, False, None])
        spec = gen.random_spec(rng, recursive=True, linear=linear, allow_inf=False, max_nt=3, max_rules=2, max_nodes=3, max_edges=3, max_dom=2)
        spec["weights"] = {el: gen.nested_map(w, lambda v: v if v <= 1 else Fraction(1, 2)) for el, w in spec["weights"].items()}
        scale = rng.choice([Fraction(1, 4), Fraction(1, 4), Fraction(1, 8)])
        if i % 6 != 5: spec = make_productive(spec, rng)
    else:
        spec = gen.random_spec(rng, recursive=False, allow_inf=False, max_nt=3, max_rules=3, max_nodes=4, max_edges=4, max_dom=2)
        scale = Fraction(1)
        if i % 3 == 0: spec = make_productive(spec, rng)
    keep_zero = (i % 5 == 4)          # Real only: zero weights are legitimate points of differentiation
    spec = positive(spec, keep_zero=keep_zero)
    if i % 4 == 1: spec = add_unused_factor(spec, rng)
    if shared_factor(spec): spec["features"] = sorted(set(spec["features"]) | {"shared_factor"})
    return spec, scale, keep_zero

def run(tier, seed):
    rng = random.Random(seed); t_start = time.time()
    n_nonrec, n_rec, n_bin = (70, 40, 3) if tier == "quick" else (900, 450, 40)
    if os.environ.get("VERIF_N"): n_nonrec = n_rec = int(os.environ["VERIF_N"])
    violations = []; vals = []; meta = []
    feats = {}; distinct = set()
    kinds = dict(nonrecursive=0, recursive=0, bin=0, nograd=0, valueerror=0, warned=0, skipped_large=0, log_dead_rule_cases=0)
    hist = dict(semiring={}, method={}, cot={})
    pool = ThreadPoolExecutor(5); bin_jobs = []
    # the command-line tool on a few Real cases: subprocesses started now, collected at the end
    brng = random.Random(seed * 31 + 7); k = 0; tries = 0
    dead_spec, unreach_spec, size1_spec, fp0_spec = forced_finding_specs()
    sr1 = SR("real", "float64", Fraction(1))
    bin_jobs.append((unreach_spec, sr1, "fixed-point", [Fraction(1)], True, False, "G", None, pool.submit(run_bin, unreach_spec, "fixed-point", None, "G")))
    bin_jobs.append((size1_spec, sr1, "newton", [Fraction(1)], True, False, "ge", 1, pool.submit(run_bin, size1_spec, "newton", None, "ge", factor=1)))
    # regression case of 124928a: -e on a factor that cannot influence the start symbol (absent gradient)
    bin_jobs.append((unreach_spec, sr1, "fixed-point", [Fraction(1)], True, False, "ge", 3, pool.submit(run_bin, unreach_spec, "fixed-point", None, "ge", factor=3)))
    n_bin += 3
    while len(bin_jobs) < n_bin and tries < 400:
        tries += 1
        recursive = len(bin_jobs) % 2 == 1
        spec, scale, keep_zero = gen_spec(brng, 2 * tries, recursive)      # even index: no unused factor
        used = {el for r in spec["rules"] for el, _ in r["edges"]}       # F20 (C14): a factor used in no rule does not survive the JSON round trip
        if keep_zero or not spec["weights"] or not all(el in used for el in spec["weights"]) or not used & set(spec["weights"]): continue
        if not any(el in spec["weights"] for r in spec["rules"] if r["lhs"] == spec["start"] for el, _ in r["edges"]): continue
        k = len(bin_jobs); n_c = numel(start_shape(spec))
        sr = SR("real", "float64", scale)
        method = METHODS[k % 3]
        if k % 5 == 2:      # the -o option (cotangent)
            cot = [brng.choice(COT_GRID) for _ in range(n_c)]
            bin_jobs.append((spec, sr, method, cot, False, recursive, "G", None, pool.submit(run_bin, spec, method, cot, "G", scale=scale)))
        elif k % 5 in (0, 3):
            bin_jobs.append((spec, sr, method, [Fraction(1)] * n_c, True, recursive, "G", None, pool.submit(run_bin, spec, method, None, "G", scale=scale)))
        else:
            fac = sorted(spec["weights"])[k % len(spec["weights"])]
            bin_jobs.append((spec, sr, method, [Fraction(1)] * n_c, True, recursive, "ge", fac, pool.submit(run_bin, spec, method, None, "ge", scale=scale, factor=fac)))
    def record(spec, sr, method, cot, plain, recursive, via, grads, case, call, dead):
        kinds["bin" if via != "api" else ("recursive" if recursive else "nonrecursive")] += 1
        hist["semiring"][sr.name] = hist["semiring"].get(sr.name, 0) + 1
        hist["method"][method] = hist["method"].get(method, 0) + 1
        hist["cot"]["plain" if plain else "random"] = hist["cot"].get("plain" if plain else "random", 0) + 1
        vals.append(wire_case(spec, sr, cot, grads)); meta.append((case, call, grads, dead))
        if any(x != 0 for g in grads.values() for x in g):
            distinct.add(json.dumps(case, sort_keys=True))
    for i in range(-2, n_nonrec + n_rec):
        recursive = i >= n_nonrec or i == -2
        # i = -1, -2: the minimal inputs of two known findings (Log dead rule; fixed-point with F(0) = 0: X -> X a | b, b = 0)
        spec, scale, keep_zero = (dead_spec, Fraction(1), False) if i == -1 else (fp0_spec, Fraction(1, 4), True) if i == -2 else gen_spec(rng, i, recursive)
        if sum(numel([spec["nlabels"][nl] for nl in spec["elabels"][el]["type"]]) for el in spec["weights"]) > (10 if recursive else 16):
            kinds["skipped_large"] += 1; continue
        for f in spec["features"]: feats[f] = feats.get(f, 0) + 1
        n_c = numel(start_shape(spec))
        dead = None
        for ci, srn in enumerate(["real", "log"]):
            if srn == "log" and keep_zero: continue
            sr = SR(srn, "float64", scale)
            method = METHODS[(i + ci) % 3] if i != -2 else "fixed-point"
            if any(f in spec["features"] for f in ("forced_mutual_recursion", "forced_nonlinear_matrix_recursion", "forced_dead_rule_first", "forced_diagonal_recursion")):
                method = METHODS[(i // 3 + ci) % 2]      # non-linear recursion: method='linear' would only raise its ValueError
            if "forced_hi_arity_recursion" in spec["features"]:      # i % 6 == 0 here: rotate over all three methods (two when non-linear)
                method = METHODS[(i // 6 + i // 36 + ci) % (2 if "forced_nonlinear_hi_arity" in spec["features"] else 3)]
            plain = (i + ci) % 3 == 0
            cot = [Fraction(1)] * n_c if plain else [rng.choice(COT_GRID) for _ in range(n_c)]
            case = dict(spec=gen.spec_jsonable(spec), semiring=sr.name, scale=str(sr.scale), method=method, cotangent=[str(c) for c in cot], plain=plain, via="api")
            call = "sum_product(fgg, method=%r, semiring=%s).to_dense()%s.backward()" % (method, sr.name, ".sum()" if plain else " * c).sum(")
            try:
                status, warned, grads, z = run_impl(spec, sr, method, cot, plain=plain, ids=["explicit", "implicit", "mixed"][i % 3], rng=rng)
                if srn == "log" and status != "valueerror":
                    if dead is None: dead = dead_rule_cells(spec, z_positive(spec, scale))
                    if dead: kinds["log_dead_rule_cases"] += 1
            except Exception as e:
                violations.append(Violation("gradient computation raised %r" % (e,), case=case, call=call, corr="corr:backward",
                                            oracle="no exception expected (ValueError for method='linear' on non-linear grammars excepted)"))
                continue
            if status == "valueerror": kinds["valueerror"] += 1; continue
            if status == "nograd": kinds["nograd"] += 1
            if warned: kinds["warned"] += 1; continue      # not converged: the property presupposes the computed Z
            record(spec, sr, method, cot, plain, recursive, "api", grads, dict(case, status=status, z_all_zero=all(x == 0 for x in z)), call, dead if srn == "log" else None)
    # option j_precompute=True (J_precompute_products), Real semiring, on the rule shapes it supports
    # (<= 2 edges per rule, no isolated node; F9 / C11 cover the rest), >= 2 components and a factor below the start symbol
    jrng = random.Random(seed * 17 + 3); n_j = 0; tries = 0
    n_jpre = 24 if tier == "quick" else 300
    while n_j < n_jpre and tries < 40 * n_jpre:
        tries += 1
        recursive = tries % 3 == 0
        spec = jpre_spec(jrng, recursive)
        if not (jpre_ok_shape(spec) and lower_scc_factor(spec)): continue
        sr = SR("real", "float64", Fraction(1, 8) if spec["recursive"] else Fraction(1))
        method = METHODS[n_j % 3]
        cot = None if n_j % 2 == 0 else [jrng.choice(COT_GRID) for _ in range(numel(start_shape(spec)))]
        try:
            cs = grad_cases(spec, sr, method, ids=["explicit", "implicit", "mixed"][n_j % 3], rng=jrng, j_precompute=True, cot=cot)
        except (AssertionError, RuntimeError) as e:
            if isinstance(e, AssertionError) or "is invalid for input of size" in str(e):
                # F9 (C11's finding): J_precompute_products / compute_products cannot handle this rule shape; not judged here
                kinds["j_precompute_f9_skipped"] = kinds.get("j_precompute_f9_skipped", 0) + 1
                continue
            violations.append(Violation("gradient computation with j_precompute=True raised %r" % (e,),
                                        case=dict(spec=gen.spec_jsonable(spec), semiring="real", scale=str(sr.scale), method=method, j_precompute=True,
                                                  cotangent=[str(c) for c in (cot or [])], plain=cot is None, via="api"),
                                        call="sum_product(fgg, method=%r, j_precompute=True).to_dense().backward()" % method, corr="corr:backward(j_precompute)"))
            n_j += 1; continue
        except Exception as e:
            violations.append(Violation("gradient computation with j_precompute=True raised %r" % (e,),
                                        case=dict(spec=gen.spec_jsonable(spec), semiring="real", scale=str(sr.scale), method=method, j_precompute=True,
                                                  cotangent=[str(c) for c in (cot or [])], plain=cot is None, via="api"),
                                        call="sum_product(fgg, method=%r, j_precompute=True).to_dense().backward()" % method, corr="corr:backward(j_precompute)",
                                        oracle="no exception expected on rule shapes with <= 2 edges and no isolated node"))
            n_j += 1; continue
        for cf, v, m in cs:
            kinds["j_precompute"] = kinds.get("j_precompute", 0) + 1
            vals.append(v); meta.append((dict(m["case"], via="api-jpre"), m["call"], m["grads"], None))
            if any(x != 0 for g in m["grads"].values() for x in g): distinct.add(json.dumps(m["case"], sort_keys=True))
        n_j += 1
    # stream "paths": distinct factors with EQUAL tables through every constructor / loader / copy path, per-factor gradients
    # read from the objects that path returned, a second evaluation of the same object after an in-place update
    prng = random.Random(seed * 13 + 5); n_path = 27 if tier == "quick" else 360; k = 0; tries = 0
    if os.environ.get("VERIF_N"): n_path = int(os.environ["VERIF_N"])
    alias_vals = []; alias_meta = []
    path_hist = {}; kinds["path_alias_checked"] = 0; kinds["path_equal_pairs_with_different_gradients"] = 0
    while k < n_path and tries < 60 * n_path:
        tries += 1
        path = PATHS[k % len(PATHS)]
        if (k + k // len(PATHS)) % 3 == 0:
            spec = equal_tables_spec(prng, (k // 3) % 5)
            scale = Fraction(1, 4) if spec["recursive"] else Fraction(1)
        else:
            spec, scale, keep_zero = gen_spec(prng, 2 * tries, (k // 2) % 2 == 1)      # even index: no unused factor (F20: lost by the JSON round trip)
            used = {el for r in spec["rules"] for el, _ in r["edges"]}
            if keep_zero or len(spec["weights"]) < 2 or not all(el in used for el in spec["weights"]): continue
            if sum(numel(table_shape(spec, el)) for el in spec["weights"]) > (10 if spec["recursive"] else 16): continue
            spec, n_eq = equalize_tables(spec, prng)
            if n_eq == 0: continue
        if path == "shared_by_caller" and not equal_groups(spec, same_type=True): continue
        if path == "conjoin" and sum(1 for e in spec["elabels"] if not e["term"]) > 2: continue
        sr = SR(["real", "log"][k % 2], "float64", scale)
        nonlin = any(f in spec["features"] for f in ("forced_mutual_recursion", "forced_nonlinear_matrix_recursion", "forced_dead_rule_first",
                                                     "forced_diagonal_recursion", "forced_nonlinear_hi_arity", "forced_equal_tables_kind2"))
        method = METHODS[(k + k // len(PATHS)) % (2 if nonlin else 3)]
        n_c = numel(start_shape(spec)); plain = k % 4 == 3
        cot = [Fraction(1)] * n_c if plain else [prng.choice([c for c in COT_GRID if c != 0 or n_c > 1]) for _ in range(n_c)]
        ids = "explicit" if path == "conjoin" else ["explicit", "implicit"][(k // 2) % 2]
        inplace = (k // 3) % 2 == 0
        cseed = prng.randrange(10**6)
        case0 = dict(spec=gen.spec_jsonable(spec), semiring=sr.name, scale=str(sr.scale), method=method, cotangent=[str(c) for c in cot], plain=plain,
                     via="path-" + path, path=path, ids=ids, case_seed=cseed, inplace=inplace)
        call = "g = <FGG with equal weight tables via %s>; [f.weights.requires_grad_() for f in g.factors.values()]; sum_product(g, method=%r, semiring=%s).to_dense()%s.backward(); g.factors[..].weights.grad" % (
            path, method, sr.name, ".sum()" if plain else " * c).sum(")
        k += 1
        try:
            rounds, pre, post = run_path_case(spec, sr, method, cot, plain, path, ids, cseed, inplace)
        except Exception as e:
            violations.append(Violation("gradient computation on a grammar obtained via %s raised %r" % (path, e), case=case0, call=call, corr="corr:backward(paths)",
                                        oracle="no exception expected"))
            continue
        path_hist[path] = path_hist.get(path, 0) + 1
        for f in spec["features"]: feats[f] = feats.get(f, 0) + 1
        kinds["path_alias_checked"] += 1
        alias_vals.append((list(pre), list(post))); alias_meta.append((case0, call, path))
        for rnd, (cur, status, warned, grads, z) in enumerate(rounds):
            if status == "valueerror": kinds["valueerror"] += 1; continue
            if status == "nograd": kinds["nograd"] += 1
            if warned: kinds["warned"] += 1; continue
            case = dict(case0, round=rnd, model_spec=gen.spec_jsonable(cur), status=status)
            kinds["path"] = kinds.get("path", 0) + 1
            hist["semiring"][sr.name] = hist["semiring"].get(sr.name, 0) + 1
            hist["method"][method] = hist["method"].get(method, 0) + 1
            vals.append(wire_case(cur, sr, cot, grads)); meta.append((case, call + (" [second evaluation of the same object after halving one factor in place]" if rnd else ""), grads, None))
            if any(x != 0 for g_ in grads.values() for x in g_): distinct.add(json.dumps(case, sort_keys=True))
            if rnd == 0 and path != "conjoin":
                kinds["path_equal_pairs_with_different_gradients"] += sum(1 for grp in equal_groups(cur) for a in grp for b_ in grp
                                                                          if a < b_ and a in grads and b_ in grads and grads[a] != grads[b_])
    hist["path"] = path_hist
    # the storage partitions before / after each path, judged by alias_check (extracted code; all of them again in the kernel)
    acodes = run_ocaml(CF_ALIAS, alias_vals)
    if alias_vals:
        cc = run_coq(CF_ALIAS, alias_vals, tag="c03alias", timeout=600)
        if list(cc) != list(acodes): raise BuildError("extracted code and vm_compute disagree on leaf-alias: %r vs %r" % (acodes, cc))
    for (pre, post), (case0, call, path), c in zip(alias_vals, alias_meta, acodes):
        if c == 0: continue
        violations.append(Violation("distinct factors share ONE weight storage after %s although the caller supplied separate tensors (each one's .grad then holds the SUM of both derivatives: C03_shared_storage_sum; an in-place update of one changes the other)" % path,
                                    case=dict(case0, storage_before=pre, storage_after=post, aliased_positions=alias_introduced(pre, post)), observed=post, expected=pre, call=call,
                                    oracle="alias_check (C03_alias_check_exact, C03_alias_check_preserves_separate_storage, C03_separate_storage_own_gradient)",
                                    corr="C03 / corr:weight storage partition", failing_input_found=c == 1))
    t_impl = time.time()
    codes, nk = run_model_parallel(vals, seed, coq_sample=3 if tier == "quick" else 12)
    # the command-line runs were working in the background all along; judge their outputs now
    n_main = len(vals)
    for spec, sr, method, cot, plain, recursive, mode, fac, fut in bin_jobs:
        case = dict(spec=gen.spec_jsonable(spec), semiring="real", scale=str(sr.scale), method=method, cotangent=[str(c) for c in cot], plain=plain, via="bin-" + mode, factor=fac)
        call = "bin/sum_product.py <fgg.json> -d -m %s %s%s" % (method, "-G" if mode == "G" else "-w t%s <weights> -g -e" % fac, "" if plain else " -o <cotangent>")
        try:
            status, grads, gexp, err = fut.result()
        except Exception as e:
            violations.append(Violation("bin/sum_product.py failed: %r" % (e,), case=case, call=call, corr="corr:bin/sum_product.py",
                                        oracle="the command-line tool prints the gradient"))
            continue
        if status == "valueerror": kinds["valueerror"] += 1; continue
        record(spec, sr, method, cot, plain, recursive, "bin", grads, case, call, None)
        if gexp is not None:
            record(spec, sr, method, cot, plain, recursive, "bin", gexp, dict(case, via="bin-e"), call + " (expected counts E * f / w)", None)
    pool.shutdown()
    codes = codes + run_ocaml(CF, vals[n_main:])
    if os.environ.get("VERIF_DEBUG"):
        import collections
        print("impl phase %.1fs, model phase %.1fs" % (t_impl - t_start, time.time() - t_impl), collections.Counter(codes))
    inconclusive = sum(1 for c in codes if c == 30); logzero = sum(1 for c in codes if c == 31)
    conclusive = sum(1 for c in codes if c == 0)
    entries = 0; conclusive_by = {}
    for (case, call, grads, dead), c, v in zip(meta, codes, vals):
        if c == 0:
            entries += sum(len(g) for g in grads.values())
            k = "%s/%s/%s" % (case["semiring"], "recursive" if case["spec"]["recursive"] else "nonrecursive", case["via"])
            conclusive_by[k] = conclusive_by.get(k, 0) + 1
        if c in (0, 30, 31): continue
        violations.append(Violation(WHAT.get(c, "framework inconsistency (code %d)" % c),
                                    case=dict(case, dead_rules=dead), observed=grads, oracle=ORACLE if c == 1 else None,
                                    corr="C03 / corr:backward", failing_input_found=c in (1, 4), call=call))
    s0 = meta[0] if meta else None
    cov = dict(evaluations=len(vals), distinct_nontrivial=len(distinct),
               rule="random FGG specs (<= 3 nonterminals, domains <= 2; non-recursive, and linearly / non-linearly recursive damped by 1/4 or 1/8; most nonterminals given a base rule) with strictly positive dyadic weights (every 5th spec keeps zero weights, Real only), every 4th with a factor used in no rule; x {Real, Log} x method rotating over fixed-point/newton/linear (tol 1e-10, kmax 400) x cotangent (plain sum | random signed dyadic tensor); every entry of every factor's weights.grad (absent = 0) judged in Coq against the dual-number derivative; a few Real cases additionally through bin/sum_product.py (-G, -w/-g/-e, -o); every 6th recursive spec a forced RECURSIVE component with a nonterminal of arity 2 or 3 and asymmetric Jacobian blocks (six shapes: left / axis-swapping / non-linear matrix recursion, mixed arity 2 x 1, arity 3 plain and axis-rotating; all three methods, Real and Log); stream 'paths' (27 quick / 360 thorough histories): grammars in which DISTINCT factors have EQUAL weight tables (five forced shapes incl. size-1 domains, nullary factors and an arity-2 nonterminal; random specs with tables copied between same-shape factors) obtained through json_to_fgg(fgg_to_json), FGG.copy (once, twice), FGG.from_hrg + new_finite_factor (tensors | nested python lists), factorize_fgg, conjoin_hrgs with a primed skeleton grammar + from_hrg (judged against the grammar read back from the result), and two factors bound to ONE tensor by the caller (judged against the grammar with the two labels merged); requires_grad_ on the factors of the RETURNED object, per-factor weights.grad judged by the same oracle; every other history evaluates the same object a second time after halving one factor in place under no_grad; the partition of the factors by physical storage before / after the path is judged by alias_check (Coq); distinct_nontrivial = distinct (spec, semiring, method, cotangent, route) with some non-zero gradient entry",
               case_kinds=kinds, histogram=hist, feature_histogram=feats, gradient_entries_checked=entries,
               conclusive=conclusive, conclusive_by_kind=conclusive_by, inconclusive_discarded=inconclusive, log_minus_inf_discarded=logzero, kernel_reevaluated=nk,
               samples=[dict(case=s0[0], observed=s0[2])] if s0 else [],
               open_items=OPEN_ITEMS)
    return cov, violations

OPEN_ITEMS = [
    "proved (Props/C03.v, 43 closed theorems; generic in the semiring, instances for [0, inf] with the laws discharged by Proofs/SemiringLaws.v): dual numbers are a commutative / ordered / star semiring; Leibniz rule; C03_dual_is_derivative; C03_J_is_formal_derivative (+ partial environments, Jx / J_inputs); C03_scc_vjp_onestep; C03_nonrecursive_gradient (+ _ereal); C03_tree_derivative (+ _ereal), C03_expected_count_numerator; C03_encl2_sound; C03_check_oracle_sound, C03_entry_interval_sound (+ _ereal, no premises), C03_start_bounds_sound; C03_log (J_log as it is now = diag(1/F) J diag(x), only guard: finite values), C03_log_ereal, C03_log_partial, C03_log_dead_rule_now; about the code before b84d904: C03_log_old_guarded, C03_log_old_dead_rule_refuted; C03_zero_weight_derivative_witness; leaf aliasing: C03_alias_check_exact, C03_alias_check_preserves_separate_storage, C03_separate_storage_own_gradient, C03_shared_storage_sum, C03_shared_storage_witness",
    "open (analysis, not formalised): derivative of the limit = limit of the derivatives of the Kleene iterates for recursive grammars (termwise differentiation of a power series with non-negative coefficients inside its domain of convergence); proved up to: the epsilon part of every sufficiently late dual Kleene iterate lies in the certified interval",
    "open (tier B): the Log analogue of C03_nonrecursive_gradient (reverse accumulation with J_log = d log Z / d log w) is checked per case (verdict 20: backward_nonrec_log vs the dual-number oracle, exact rational equality) but not proved; log_softmax's inf branch is not modelled (finite values)",
    "open (tier B): linearly recursive grammars -- derivative of the rational least solution equals the implicit-function result of backward; the backward pass of iteratively solved components (multi_solve on the transposed system) is not modelled, it is judged by the enclosure oracle",
    "open: J_precompute_products is not modelled; with j_precompute=True the gradients are judged by the same oracle on grammars of three components with one- and two-edge rules; runs on which it raises AssertionError / 'shape ... is invalid' (F9, C11) are skipped and counted",
]

def replay(path):
    r = json.load(open(path)); c = r["case"]
    spec = gen.spec_from_json(c["spec"])
    sr = SR(c["semiring"], "float64", Fraction(c["scale"]))
    cot = [Fraction(x) for x in c["cotangent"]]
    if c.get("via", "api").startswith("path-"):
        rounds, pre, post = run_path_case(spec, sr, c["method"], cot, c["plain"], c["path"], c["ids"], c["case_seed"], c["inplace"])
        bad = alias_introduced(pre, post)
        acode = run_ocaml(CF_ALIAS, [(list(pre), list(post))])[0]
        print("storage ids before", pre, "after", post, "aliasing introduced at positions", bad, "alias_check verdict", acode)
        rc = 1 if acode != 0 else 0
        for rnd, (cur, status, warned, grads, z) in enumerate(rounds):
            print("round", rnd, "status", status, "warned", warned, "z", z)
            if status == "valueerror" or warned: continue
            code = run_ocaml(CF, [wire_case(cur, sr, cot, grads)])[0]
            print("gradients", grads, "verdict code", code)
            if code not in (0, 30, 31): rc = 1
        return rc
    if c.get("via", "api").startswith("bin"):
        status, grads, gexp, err = run_bin(spec, c["method"], None if c["plain"] else cot, "ge" if c["via"] in ("bin-ge", "bin-e") else "G", scale=sr.scale, factor=c.get("factor"))
        print("status", status, err[-300:])
        if status != "ok": return 0
        if c["via"] == "bin-e": grads = gexp
    else:
        status, warned, grads, z = run_impl(spec, sr, c["method"], cot, plain=c["plain"], j_precompute=c.get("j_precompute", False))
        print("status", status, "warned", warned, "z", z)
    code = run_ocaml(CF, [wire_case(spec, sr, cot, grads)])[0]
    print("gradients", grads, "verdict code", code)
    return 1 if code not in (0, 30, 31) else 0

MANIFEST = dict(
    level="proof",
    text="Coq: the dual numbers over a commutative (ordered) semiring are a commutative (ordered) semiring; running the sum-product definitions over them yields the ordinary value in the first component and the formal derivative in the epsilon component (Leibniz rule for rule values, recurrence eps Z_{k+1} = J(Z_k) eps Z_k + dF/dw, sum over derivation trees and over the occurrences of the weight entry); the code's J (leave one edge out) is that Jacobian, the one-step backward pass is its vector-Jacobian product and reverse accumulation over a non-recursive grammar's components equals the dual-number derivative; J_log (nan_to_num per contribution) = diag(1/F) J diag(x) on finite values; instances for [0, inf] with the semiring laws proved. Per-leaf accumulation (two factors in one storage both read the sum of their derivatives; separate storages: each its own) and the exactness of the storage-partition check. Correspondence: every entry of every factor's weights.grad after sum_product(...).backward() (Real and Log, three methods, random cotangents, also via bin/sum_product.py, with j_precompute=True, on recursive components of arity 2 / 3, and on grammars with equal weight tables obtained through every constructor / loader / copy path incl. a second evaluation after an in-place update) is judged inside Coq against the dual-number derivative (exact for non-recursive grammars, certified enclosure for recursive ones).",
    note="Trusted: Coq kernel, extraction cross-checked by vm_compute, harness; for recursive grammars the interchange of limit and derivative (analysis) is assumed; grammars without a tight certified enclosure are discarded (counted).",
    technique="Coq proof (dual numbers / Leibniz / reverse = forward accumulation) + certified-enclosure oracle on implementation gradients",
    design_ref="DESIGN.md section 6, C03")
