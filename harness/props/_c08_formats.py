"""C08, float level for both dtypes of the library (float32, float64): every result of the
torch primitives and of the semiring methods of /repo on operand BIT PATTERNS is compared,
bit for bit (any NaN = any NaN; maximum and PatternedTensor results up to the sign of zero),
with the Flocq model Model/FloatFormat.v ([fp_*] over Binary.binary_float with Flocq's
binop_nan_pl32/64), evaluated inside Coq by vm_compute through Bits.b32_of_bits /
bits_of_b32 (b64...).  No extraction of Flocq is involved.

Sources of cases (all de-duplicated on (format, op, operand bits, result bits)):
  * 1-dim tensors: all pairs of the boundary set (+-0, subnormals, min/max normal, +-inf, NaNs
    with and without payload, 1, 1 +- ulp, values whose sum/product rounds, overflows,
    underflows, lands exactly on a tie) plus seeded random bit patterns;
  * 0-dim tensors and the in-place add_ on a sample of the pairs;
  * PatternedTensors with a default (several patterns x defaults), every element;
  * star / nan_to_num / relu, comparisons lt/le/eq, from_int.
"""
import random, struct, math, os, re, shutil
from harness.core import *

class _Packed(Ty):
    """one case packed into a single integer literal (layout: Model/FloatFormat.v, unpack_fmt)"""
    def __init__(self, kind): self.kind = kind
    def pack(self, v):
        fmt, d = v
        w = fmt
        if self.kind == "bin": op, x, y, r = d; rest = x | (y << w) | (r << (2 * w))
        elif self.kind == "un": op, x, r = d; rest = x | (r << w)
        elif self.kind == "cmp": op, x, y, r = d; rest = x | (y << w) | (int(bool(r)) << (2 * w))
        else: op, k, r = d; assert 0 <= k < 2 ** 64; rest = k | (r << 64)
        assert 0 <= op < 256
        n = (rest << 9) | (op << 1) | (1 if fmt == 64 else 0)
        assert 0 <= n < 2 ** 248
        return n
    def coq(self, v): return "(%d)%%Z" % self.pack(v)
    def sexp(self, v): raise NotImplementedError
    def dec(self): raise NotImplementedError
    def coqty(self): return "Z"
FFBIN = CheckFn("c08-ffbin", "Model.FloatFormat", "ffmt_binop_check_z", _Packed("bin"))
FFUN = CheckFn("c08-ffun", "Model.FloatFormat", "ffmt_unop_check_z", _Packed("un"))
FFCMP = CheckFn("c08-ffcmp", "Model.FloatFormat", "ffmt_cmp_check_z", _Packed("cmp"))
FFINT = CheckFn("c08-ffint", "Model.FloatFormat", "ffmt_from_int_check_z", _Packed("int"))

WIRE = {"c08-ffbin": "ffw_binop", "c08-ffun": "ffw_unop", "c08-ffcmp": "ffw_cmp", "c08-ffint": "ffw_from_int"}
_RES = re.compile(r"=\s*(\[[^\]]*\])\s*:\s*list nat", re.S)
def run_flocq(groups, tag):
    """[(cf, values)] -> [codes]: ONE Coq file; every case travels as four primitive 62-bit integers
    (Model/FloatFormatWire.v) in list literals of 500 cases; one vm_compute per group"""
    d = os.path.join(BUILD, "cases", tag)
    shutil.rmtree(d, ignore_errors=True); os.makedirs(d)
    path = os.path.join(d, "Cases_%s.v" % tag.replace("-", "_"))
    M62 = (1 << 62) - 1
    with open(path, "w") as f:
        f.write("From Coq Require Import List ZArith Uint63.\nImport ListNotations.\n"
                "Require Import Fggs.Model.FloatFormat Fggs.Model.FloatFormatWire.\nLocal Open Scope uint63_scope.\n")
        for k, (cf, vs) in enumerate(groups):
            ints = []
            for v in vs:
                n = cf.ty.pack(v)
                ints += [(n >> (62 * i)) & M62 for i in range(4)]
            names = []
            for j in range(0, len(ints), 2000):
                names.append("c%d_%d" % (k, j // 2000))
                f.write("Definition %s : list int := [\n%s\n].\n" % (names[-1], ";".join(map(str, ints[j:j + 2000]))))
            f.write("Eval vm_compute in (%s (%s)).\n" % (WIRE[cf.kind], " ++ ".join(names) if names else "[]"))
    rc, out = sh(["timeout", "900", "coqc", "-q", "-noglob", "-R", os.path.join(COQDIR, "theories"), "Fggs", path], timeout=1000, cwd=d)
    if rc != 0: raise BuildError("coqc failed on %s:\n%s" % (path, out[-3000:]))
    res = _RES.findall(out)
    if len(res) != len(groups): raise BuildError("could not parse coqc output of %s (%d results for %d groups)" % (path, len(res), len(groups)))
    codes = []
    for (cf, vs), body in zip(groups, res):
        cs = [int(x) for x in re.findall(r"\d+", body.replace("%nat", ""))]
        if len(cs) != len(vs): raise BuildError("coqc printed %d codes for %d cases of %s" % (len(cs), len(vs), cf.kind))
        codes.append(cs)
    return codes

FMTS = {32: dict(eb=8, mb=23, pack="<f", upack="<I"), 64: dict(eb=11, mb=52, pack="<d", upack="<Q")}
BINOPS = {0: "RealSemiring.add", 1: "RealSemiring.mul", 2: "RealSemiring.sub", 3: "ViterbiSemiring.add",
          4: "ViterbiSemiring.mul", 5: "ViterbiSemiring.sub", 6: "torch.add", 7: "torch.mul", 8: "torch.sub", 9: "torch.div"}
UNOPS = {0: "RealSemiring.star", 1: "ViterbiSemiring.star", 2: "torch.nan_to_num", 3: "relu"}
CMPOPS = {0: "lt", 1: "le", 2: "eq"}
F22_KEY = "float32_patterned_default_beyond_float32_range"

def f2bits(v, fmt):
    f = FMTS[fmt]
    return struct.unpack(f["upack"], struct.pack(f["pack"], v))[0]
def bits2f(b, fmt):
    f = FMTS[fmt]
    return struct.unpack(f["pack"], struct.pack(f["upack"], b))[0]
def is_nan_bits(b, fmt):
    f = FMTS[fmt]; em = ((1 << f["eb"]) - 1) << f["mb"]
    return (b & em) == em and (b & ((1 << f["mb"]) - 1)) != 0
def show(b, fmt):
    v = bits2f(b, fmt)
    return "%s (0x%0*x)" % (repr(v) if v == v else "nan", fmt // 4, b)

def boundary(fmt):
    """name -> bit pattern"""
    f = FMTS[fmt]; eb, mb = f["eb"], f["mb"]
    sign = 1 << (eb + mb); em = ((1 << eb) - 1) << mb; bias = (1 << (eb - 1)) - 1
    one = bias << mb
    def p2(e): return (e + bias) << mb          # 2^e, normal range
    emin_sub = 1 - bias - mb                      # exponent of the least subnormal
    lo, hi = emin_sub // 2, emin_sub - emin_sub // 2     # 2^lo * 2^hi = least subnormal, 2^lo * 2^lo is a tie to zero
    half = (bias + 1) // 2                        # 2^half * 2^half = 2^(bias+1): overflow exactly
    d = {"+0": 0, "-0": sign, "minsub": 1, "2minsub": 2, "3minsub": 3, "maxsub": (1 << mb) - 1, "minnorm": 1 << mb,
         "minnorm+": (1 << mb) + 1, "max": em - 1, "max-": em - 2, "+inf": em, "-inf": sign | em,
         "nan": em | (1 << (mb - 1)), "nan-payload": em | (1 << (mb - 1)) | 1, "-nan": sign | em | (1 << (mb - 1)), "snan": em | 1,
         "1": one, "1+ulp": one + 1, "1-ulp/2": one - 1, "1.5": one + (1 << (mb - 1)), "2": p2(1), "3": p2(1) + (1 << (mb - 1)),
         "0.5": p2(-1), "0.1": f2bits(0.1, fmt), "0.7": f2bits(0.7, fmt), "10": f2bits(10.0, fmt),
         "2^half": p2(half), "2^half-": p2(half) - 1, "2^(half-1)": p2(half - 1),
         "2^lo": p2(lo), "2^hi": p2(hi), "1.5*2^lo": p2(lo) + (1 << (mb - 1)),
         "halfulp(max)": p2(bias - mb - 1), "halfulp(max)-": p2(bias - mb - 1) - 1, "2^bias": p2(bias),
         "-1": sign | one, "-(1+ulp)": sign | (one + 1), "-3": sign | (p2(1) + (1 << (mb - 1))), "-0.5": sign | p2(-1),
         "-minsub": sign | 1, "-max": sign | (em - 1), "-2^half": sign | p2(half), "-0.1": sign | f2bits(0.1, fmt)}
    return d

def random_bits(fmt, rng, n):
    f = FMTS[fmt]; w = 1 + f["eb"] + f["mb"]
    out = []
    for _ in range(n):
        k = rng.random()
        if k < 0.5: out.append(rng.getrandbits(w))                                   # anything, NaNs included
        elif k < 0.8: out.append(f2bits((rng.random() * 4 - 2) * 2.0 ** rng.randint(-12, 12), fmt))   # moderate values
        else: out.append(rng.getrandbits(f["mb"] + 2) | (rng.choice([0, 1]) << (w - 1)))   # subnormals and tiny normals
    return out

def tens(bits, fmt, torch):
    if fmt == 32:
        return torch.tensor([b - (1 << 32) if b >= (1 << 31) else b for b in bits], dtype=torch.int32).view(torch.float32)
    return torch.tensor([b - (1 << 64) if b >= (1 << 63) else b for b in bits], dtype=torch.int64).view(torch.float64)
def tens0(b, fmt, torch):
    return tens([b], fmt, torch)[0].clone()
def tbits(t, fmt, torch):
    if fmt == 32: return [v & 0xffffffff for v in t.contiguous().view(torch.int32).reshape(-1).tolist()]
    return [v & 0xffffffffffffffff for v in t.contiguous().view(torch.int64).reshape(-1).tolist()]

def ibits(t, fmt, torch):
    """bit patterns as a flat int64 tensor (float64: two's complement; mask with 2^64-1 in Python)"""
    if fmt == 32: return t.contiguous().view(torch.int32).reshape(-1).to(torch.int64) & 0xffffffff
    return t.contiguous().view(torch.int64).reshape(-1)

class Cases:
    """de-duplicated cases per check function, with the provenance of the first occurrence"""
    def __init__(self): self.d = {FFBIN.kind: {}, FFUN.kind: {}, FFCMP.kind: {}, FFINT.kind: {}}
    def add(self, cf, val, info):
        dd = self.d[cf.kind]
        if val not in dd: dd[val] = info
        return val

def semirings(fmt, torch):
    from fggs.semirings import RealSemiring, LogSemiring, ViterbiSemiring
    dt = torch.float32 if fmt == 32 else torch.float64
    return RealSemiring(dtype=dt), LogSemiring(dtype=dt), ViterbiSemiring(dtype=dt)

def impl_binops(fmt, torch):
    R, L, V = semirings(fmt, torch)
    def add_(S):
        def f(x, y):
            x = x.clone(); S.add_(x, y); return x
        return f
    # op code -> [(variant name, callable)]
    return {0: [("RealSemiring.add", R.add), ("RealSemiring.add_", add_(R))],
            1: [("RealSemiring.mul", R.mul)], 2: [("RealSemiring.sub", R.sub)],
            3: [("ViterbiSemiring.add", V.add), ("ViterbiSemiring.add_", add_(V)), ("torch.maximum", torch.maximum)],
            4: [("ViterbiSemiring.mul", V.mul), ("LogSemiring.mul", L.mul)], 5: [("ViterbiSemiring.sub", V.sub)],
            7: [("torch.mul", torch.mul)], 8: [("torch.sub", torch.sub)], 9: [("torch.div", torch.div)]}

def part_formats(ctx, Violation_cls=Violation):
    """collects the cases; returns (Cases, counts).  ctx: the C08 Ctx (count/nontrivial/viol/samples)."""
    import torch
    import fggs.indices as ind
    cases = Cases()
    quick = ctx.tier == "quick"
    for fmt in (32, 64):
        rng = random.Random(ctx.seed * 9176 + fmt)
        B = boundary(fmt)
        names = {v: k for k, v in B.items()}
        vals = list(dict.fromkeys(list(B.values()) + random_bits(fmt, rng, 8 if quick else 40)))
        ops = impl_binops(fmt, torch)
        R, L, V = semirings(fmt, torch)
        n = len(vals)
        X = tens([a for a in vals for _ in vals], fmt, torch); Y = tens([b for _ in vals for b in vals], fmt, torch)
        xb = [a for a in vals for _ in vals]; yb = [b for _ in vals for b in vals]
        # ---- 1-dim tensors, all pairs
        for op, variants in ops.items():
            for vname, fn in variants:
                try:
                    rb = tbits(fn(X, Y), fmt, torch)
                    if quick and op in (7, 8):      # the bare torch.mul / torch.sub underneath Real mul / sub: a third of the pairs
                        rb = [r if i % 3 == 0 else None for i, r in enumerate(rb)]
                    if quick and op == 5:           # ViterbiSemiring.sub returns x
                        rb = [r if i % 10 == 0 else None for i, r in enumerate(rb)]
                except Exception as e:
                    ctx.viol.append(Violation_cls("%s raised %r on 1-dim %s tensors" % (vname, e, "float%d" % fmt),
                                                  case=dict(kind="ffbin", fmt=fmt, op=op, variant=vname), corr="corr:ffmt_binop_check"))
                    continue
                ctx.count("float%d/%s (1-dim)" % (fmt, vname), sum(1 for r in rb if r is not None))
                for a, b, r in zip(xb, yb, rb):
                    if r is None: continue
                    cases.add(FFBIN, (fmt, (op, a, b, r)), dict(variant=vname, rep="1-dim"))
                    ctx.nontrivial.add(("ff", fmt, op, a, b))
        # ---- 0-dim tensors: a sample of the pairs
        pairs = [(a, b) for a in vals for b in vals]
        sample = rng.sample(pairs, min(len(pairs), 80 if quick else 600))
        for op, variants in ops.items():
            for vname, fn in variants:
                for a, b in sample:
                    try:
                        r = tbits(fn(tens0(a, fmt, torch), tens0(b, fmt, torch)), fmt, torch)[0]
                    except Exception as e:
                        ctx.viol.append(Violation_cls("%s raised %r on 0-dim float%d tensors (%s, %s)" % (vname, e, fmt, show(a, fmt), show(b, fmt)),
                                                      case=dict(kind="ffbin", fmt=fmt, op=op, variant=vname, x=a, y=b, rep="0-dim"), corr="corr:ffmt_binop_check"))
                        continue
                    ctx.count("float%d/%s (0-dim)" % (fmt, vname))
                    cases.add(FFBIN, (fmt, (op, a, b, r)), dict(variant=vname, rep="0-dim"))
        # ---- unary
        xs = tens(vals, fmt, torch)
        for op, (vname, fn) in {0: ("RealSemiring.star", R.star), 1: ("ViterbiSemiring.star", V.star),
                                2: ("torch.nan_to_num", torch.nan_to_num), 3: ("relu", torch.relu)}.items():
            try:
                r1 = tbits(fn(xs.clone()), fmt, torch)
                r0 = [tbits(fn(tens0(a, fmt, torch)), fmt, torch)[0] for a in vals]
            except Exception as e:
                ctx.viol.append(Violation_cls("%s raised %r on float%d tensors" % (vname, e, fmt), case=dict(kind="ffun", fmt=fmt, op=op), corr="corr:ffmt_unop_check"))
                continue
            ctx.count("float%d/%s" % (fmt, vname), 2 * len(vals))
            for a, r, rr in zip(vals, r1, r0):
                cases.add(FFUN, (fmt, (op, a, r)), dict(variant=vname, rep="1-dim"))
                cases.add(FFUN, (fmt, (op, a, rr)), dict(variant=vname, rep="0-dim"))
                ctx.nontrivial.add(("ffun", fmt, op, a))
        # ---- comparisons (used by relu / maximum / star / the masks)
        for op, fn in {0: torch.lt, 1: torch.le, 2: torch.eq}.items():
            rb = fn(X, Y).tolist()
            if quick:      # a third of the pairs per comparison, and every pair of special values
                sp = {B[k] for k in ("+0", "-0", "nan", "nan-payload", "-nan", "snan", "+inf", "-inf", "minsub", "-minsub", "1", "max", "-max")}
                rb = [r if ((i + op) % 3 == 0 or (xb[i] in sp and yb[i] in sp)) else None for i, r in enumerate(rb)]
            ctx.count("float%d/%s" % (fmt, CMPOPS[op]), sum(1 for r in rb if r is not None))
            for a, b, r in zip(xb, yb, rb):
                if r is None: continue
                cases.add(FFCMP, (fmt, (op, a, b, bool(r))), dict(variant="torch." + CMPOPS[op], rep="1-dim"))
        # ---- from_int (Python int -> dtype; below 2^53 so that torch's route through binary64 is exact)
        mb = FMTS[fmt]["mb"]
        ints = [0, 1, 2, 3, 7, 2 ** mb, 2 ** (mb + 1), 2 ** (mb + 1) + 1, 2 ** (mb + 1) + 3, 2 ** (mb + 2) + 2, 2 ** (mb + 2) + 6, 123456789, 2 ** 31 - 1,
                2 ** 40 + 2 ** 16 + 1, 2 ** 53 - 1]
        ints = [k for k in ints if k < 2 ** 53] + [rng.randrange(2 ** 53) for _ in range(6)]
        for k in ints:
            for sr, S in ((0, R), (2, V)):
                try:
                    r = tbits(S.from_int(k), fmt, torch)[0]
                    rt = tbits(S.from_int(torch.tensor([k])), fmt, torch)[0]
                except Exception as e:
                    ctx.viol.append(Violation_cls("from_int(%d) raised %r (float%d)" % (k, e, fmt), case=dict(kind="ffint", fmt=fmt, sr=sr, n=k), corr="corr:ffmt_from_int_check"))
                    continue
                ctx.count("float%d/from_int" % fmt, 2)
                cases.add(FFINT, (fmt, (sr, k, r)), dict(variant="from_int(int)"))
                cases.add(FFINT, (fmt, (sr, k, rt)), dict(variant="from_int(tensor)"))
        # ---- PatternedTensors with a default
        _part_pt_formats(ctx, cases, fmt, B, torch, ind, (R, L, V), rng, Violation_cls)
    return cases

def _patterns(v, default, torch, ind, hot):
    """a few PatternedTensors denoting tensors built from the 1-dim tensor v and a default; {shape: [(name, pt)]}"""
    PT, PA, SumAxis, unitAxis = ind.PatternedTensor, ind.PhysicalAxis, ind.SumAxis, ind.unitAxis
    n = len(v); out = {}; hot = min(hot, n - 1)
    def put(name, pt): out.setdefault(tuple(pt.size()), []).append((name, pt))
    put("dense1", PT(v.clone(), default=default))
    k = PA(n); put("diag", PT(v.clone(), (k,), (k, k), default))
    put("expand", PT(v.clone(), default=default).expand(n, n))
    k = PA(n); put("diag-sum", PT(v.clone(), (k,), (k, SumAxis(0, k, 0)), default))
    put("onehot", PT(v[hot].clone(), (), (SumAxis(hot, unitAxis, n - hot - 1),), default))
    put("onecell", PT(v[hot].clone(), (), (SumAxis(hot, unitAxis, n - hot - 1), SumAxis(1, unitAxis, n - 2)), default))
    return out

PT_PAIRS = [("dense1", "dense1"), ("dense1", "onehot"), ("onehot", "dense1"), ("onehot", "onehot"),
            ("diag", "diag"), ("diag", "expand"), ("expand", "diag"), ("diag-sum", "diag"), ("onecell", "diag"), ("diag", "onecell"),
            ("onecell", "onecell"), ("expand", "onecell"),
            ("diag", "dense1"), ("expand", "onehot"), ("onecell", "dense1"), ("dense1", "diag"), ("onehot", "expand"), ("dense1", "onecell")]

def _part_pt_formats(ctx, cases, fmt, B, torch, ind, SRS, rng, Violation_cls):
    R, L, V = SRS
    fmax = bits2f(B["max"], fmt)
    real_names = ["+0", "minsub", "maxsub", "minnorm", "0.5", "1-ulp/2", "1", "1+ulp", "3", "2^half", "2^lo", "2^hi", "max", "+inf"]
    vit_names = real_names + ["-0", "-inf", "-1", "-(1+ulp)", "-minsub", "-max", "-2^half", "0.1", "-0.1"]
    quick = ctx.tier == "quick"
    plans = [("RealSemiring", R, (0, 1, 2), real_names, ["+0", "1", "+inf", "minsub"] + ([] if quick else ["1+ulp", "max"])),
             ("ViterbiSemiring", V, (3, 4, 5), vit_names, ["-inf", "+0", "+inf", "-(1+ulp)"] + ([] if quick else ["max", "minsub"])),
             ("LogSemiring", L, (4,), vit_names, ["-inf", "+0", "+inf"] + ([] if quick else ["0.1"]))]
    if fmt == 32:   # two deliberate overflowing default pairs: the class of F22 (repaired in /repo 013a2f3), kept as regression cases
        plans.append(("RealSemiring", R, (1,), ["1", "3"], ["max", "3"]))
        plans.append(("ViterbiSemiring", V, (4,), ["1", "3"], ["max"]))
    for sname, S, opcodes, vnames, dnames in plans:
        base = tens([B[k] for k in vnames], fmt, torch)
        n = len(vnames)
        defaults = [bits2f(B[k], fmt) for k in dnames]
        for dx in defaults:
            for dy in defaults:
                xs = _patterns(base, dx, torch, ind, 1)
                ys = _patterns(torch.roll(base, 3), dy, torch, ind, 2)
                xd = {nm: pt for lst in xs.values() for nm, pt in lst}; yd = {nm: pt for lst in ys.values() for nm, pt in lst}
                pairs = [(nx, xd[nx], ny, yd[ny]) for nx, ny in PT_PAIRS]
                for nx, px, ny, py in pairs:
                    for op in opcodes:
                        meth = (S.add, S.mul, S.sub)[op % 3] if op != 4 else S.mul
                        mname = "%s.%s" % (sname, ("add", "mul", "sub")[op % 3] if op != 4 else "mul")
                        case = dict(kind="ffpt", fmt=fmt, op=op, semiring=sname, x_pattern=nx, y_pattern=ny, x_default=dx, y_default=dy, values=vnames)
                        ctx.count("float%d/PatternedTensor/%s" % (fmt, mname))
                        try:
                            dxs, dys = px.to_dense(), py.to_dense()
                            want = meth(dxs, dys)
                        except Exception as e:
                            ctx.viol.append(Violation_cls("%s raised %r on dense float%d tensors" % (mname, e, fmt), case=case, corr="corr:ffmt_binop_check")); continue
                        got_pt = None
                        try:
                            got_pt = meth(px, py)
                            got = got_pt.to_dense() if isinstance(got_pt, ind.PatternedTensor) else got_pt
                        except Exception as e:
                            d = getattr(got_pt, "default", None)
                            f22 = (fmt == 32 and isinstance(e, RuntimeError) and "overflow" in str(e) and isinstance(d, float)
                                   and d == d and abs(d) != math.inf and abs(d) > fmax)
                            ctx.viol.append(Violation_cls(
                                "%s on float%d PatternedTensors (%s default %r, %s default %r) raised %r%s; on the dense tensors it does not raise"
                                % (mname, fmt, nx, dx, ny, dy, e, " (result default %r is finite in binary64 but beyond the float32 range)" % d if f22 else ""),
                                case=case, observed=repr(e), oracle="dense result", corr="C08 representation independence (float formats)",
                                call="%s(PatternedTensor, PatternedTensor)" % mname))   # F22 is repaired in /repo (013a2f3): a regression is a plain violation
                            continue
                        ctx.nontrivial.add(("ffpt", fmt, op, sname, nx, ny, dx, dy))
                        full = torch.broadcast_shapes(dxs.shape, dys.shape)
                        if tuple(torch.broadcast_shapes(got.shape, full)) != tuple(full):
                            ctx.viol.append(Violation_cls("%s on float%d PatternedTensors (%s, %s): shape %r, dense operands have %r" % (mname, fmt, nx, ny, tuple(got.shape), tuple(full)),
                                                          case=case, oracle="dense result", corr="C08 representation independence (float formats)")); continue
                        gi, wi = ibits(torch.broadcast_to(got, full), fmt, torch), ibits(torch.broadcast_to(want, full), fmt, torch)
                        xi, yi = ibits(torch.broadcast_to(dxs, full), fmt, torch), ibits(torch.broadcast_to(dys, full), fmt, torch)
                        f = FMTS[fmt]; absm = (1 << (fmt - 1)) - 1; em = ((1 << f["eb"]) - 1) << f["mb"]
                        isz = lambda t: (t & absm) == 0
                        isn = lambda t: (t & absm) > em
                        same = (gi == wi) | (isz(gi) & isz(wi)) | (isn(gi) & isn(wi))
                        if not bool(same.all()):
                            i = int((~same).nonzero()[0])
                            mask = (1 << fmt) - 1
                            a, b, g, w = (int(t[i]) & mask for t in (xi, yi, gi, wi))
                            ctx.viol.append(Violation_cls(
                                "%s on float%d PatternedTensors (%s default %r, %s default %r): element %d is %s, the dense tensors give %s (operands %s, %s)"
                                % (mname, fmt, nx, dx, ny, dy, i, show(g, fmt), show(w, fmt), show(a, fmt), show(b, fmt)),
                                case=dict(case, x=a, y=b), observed=g, expected=w, oracle="dense result, bit pattern modulo the sign of zero",
                                corr="C08 representation independence (float formats)", call="%s(PatternedTensor, PatternedTensor)" % mname))
                            continue
                        mask = (1 << fmt) - 1
                        for a, b, g, w in torch.unique(torch.stack([xi, yi, gi, wi], 1), dim=0).tolist():
                            cases.add(FFBIN, (fmt, (100 + op, a & mask, b & mask, g & mask)), dict(variant=mname, rep="PatternedTensor %s/%s defaults %r/%r" % (nx, ny, dx, dy)))
                            cases.add(FFBIN, (fmt, (op, a & mask, b & mask, w & mask)), dict(variant=mname, rep="dense 2-dim"))

def describe(cf, val, info, code):
    fmt, d = val
    if cf is FFBIN:
        op, a, b, r = d
        return Violation("%s(%s, %s) on a float%d %s tensor is %s: differs from the Flocq binary%d model (Model/FloatFormat.v, fp_binop %d)"
                         % (info["variant"], show(a, fmt), show(b, fmt), fmt, info["rep"], show(r, fmt), fmt, op % 100),
                         case=dict(kind="ffbin", fmt=fmt, op=op, x=a, y=b, r=r, variant=info["variant"], rep=info["rep"]), observed=r,
                         corr="corr:ffmt_binop_check (Flocq)", failing_input_found=False, call=info["variant"])
    if cf is FFUN:
        op, a, r = d
        return Violation("%s(%s) on a float%d %s tensor is %s: differs from the Flocq binary%d model (fp_unop %d)"
                         % (info["variant"], show(a, fmt), fmt, info["rep"], show(r, fmt), fmt, op),
                         case=dict(kind="ffun", fmt=fmt, op=op, x=a, r=r, variant=info["variant"]), observed=r,
                         corr="corr:ffmt_unop_check (Flocq)", failing_input_found=False, call=info["variant"])
    if cf is FFCMP:
        op, a, b, r = d
        return Violation("torch.%s(%s, %s) on float%d is %r: differs from Flocq's Bcompare" % (CMPOPS[op], show(a, fmt), show(b, fmt), fmt, r),
                         case=dict(kind="ffcmp", fmt=fmt, op=op, x=a, y=b, r=r), observed=r, corr="corr:ffmt_cmp_check (Flocq)", failing_input_found=False)
    sr, k, r = d
    return Violation("%s.from_int(%d) with dtype float%d is %s: differs from the nearest-even conversion of the Flocq model"
                     % ("RealSemiring" if sr == 0 else "ViterbiSemiring", k, fmt, show(r, fmt)),
                     case=dict(kind="ffint", fmt=fmt, sr=sr, n=k, r=r), observed=r, corr="corr:ffmt_from_int_check (Flocq)", failing_input_found=False)

def replay_case(c, run_coq):
    """re-run one recorded float-format case on the implementation and judge it in Coq; returns exit code"""
    import torch
    fmt = c["fmt"]; kind = c["kind"]
    if kind == "ffbin":
        op = c["op"] % 100
        fn = dict(impl_binops(fmt, torch)[op])[c["variant"]] if c.get("variant") in dict(impl_binops(fmt, torch).get(op, [])) else impl_binops(fmt, torch)[op][0][1]
        mk = tens0 if c.get("rep") == "0-dim" else (lambda b, f, t: tens([b], f, t))
        r = tbits(fn(mk(c["x"], fmt, torch), mk(c["y"], fmt, torch)), fmt, torch)[0]
        code = run_coq(FFBIN, [(fmt, (c["op"], c["x"], c["y"], r))], tag="replay")[0]
        print("%s(%s, %s) on float%d = %s; Flocq-model verdict code %d" % (c.get("variant"), show(c["x"], fmt), show(c["y"], fmt), fmt, show(r, fmt), code))
        return 1 if code else 0
    if kind == "ffun":
        R, L, V = semirings(fmt, torch)
        fn = {0: R.star, 1: V.star, 2: torch.nan_to_num, 3: torch.relu}[c["op"]]
        r = tbits(fn(tens([c["x"]], fmt, torch)), fmt, torch)[0]
        code = run_coq(FFUN, [(fmt, (c["op"], c["x"], r))], tag="replay")[0]
        print("%s(%s) on float%d = %s; Flocq-model verdict code %d" % (UNOPS[c["op"]], show(c["x"], fmt), fmt, show(r, fmt), code))
        return 1 if code else 0
    if kind == "ffcmp":
        fn = {0: torch.lt, 1: torch.le, 2: torch.eq}[c["op"]]
        r = bool(fn(tens([c["x"]], fmt, torch), tens([c["y"]], fmt, torch))[0])
        code = run_coq(FFCMP, [(fmt, (c["op"], c["x"], c["y"], r))], tag="replay")[0]
        print("torch.%s(%s, %s) = %r; verdict code %d" % (CMPOPS[c["op"]], show(c["x"], fmt), show(c["y"], fmt), r, code))
        return 1 if code else 0
    if kind == "ffint":
        R, L, V = semirings(fmt, torch)
        r = tbits((R if c["sr"] == 0 else V).from_int(c["n"]), fmt, torch)[0]
        code = run_coq(FFINT, [(fmt, (c["sr"], c["n"], r))], tag="replay")[0]
        print("from_int(%d) on float%d = %s; verdict code %d" % (c["n"], fmt, show(r, fmt), code))
        return 1 if code else 0
    if kind == "ffpt":
        import fggs.indices as ind
        B = boundary(fmt)
        R, L, V = semirings(fmt, torch)
        S = {"RealSemiring": R, "LogSemiring": L, "ViterbiSemiring": V}[c["semiring"]]
        op = c["op"]; meth = (S.add, S.mul, S.sub)[op % 3] if op != 4 else S.mul
        base = tens([B[k] for k in c["values"]], fmt, torch)
        fl = lambda v: float(v) if not isinstance(v, str) else {"inf": math.inf, "-inf": -math.inf, "nan": math.nan}[v]
        px = dict(p for l in _patterns(base, fl(c["x_default"]), torch, ind, 1).values() for p in l)[c["x_pattern"]]
        py = dict(p for l in _patterns(torch.roll(base, 3), fl(c["y_default"]), torch, ind, 2).values() for p in l)[c["y_pattern"]]
        want = meth(px.to_dense(), py.to_dense())
        try:
            got = meth(px, py)
            got = got.to_dense() if isinstance(got, ind.PatternedTensor) else got
        except Exception as e:
            print("%s.%s on float%d PatternedTensors (%s default %r, %s default %r) raised %r; dense result:\n%s"
                  % (c["semiring"], meth.__name__, fmt, c["x_pattern"], c["x_default"], c["y_pattern"], c["y_default"], e, want))
            return 1
        full = torch.broadcast_shapes(got.shape, want.shape)
        same = torch.equal(torch.broadcast_to(got, full).nan_to_num(nan=12345.), torch.broadcast_to(want, full).nan_to_num(nan=12345.))
        print("patterned result:\n%s\ndense result:\n%s\nidentical as numbers: %s" % (got, want, same))
        return 0 if same else 1
    return 1
