"""C20 -- domains and factors index consistently and reject ill-shaped bindings.

Three families of cases, each a plain-data *spec* (JSON-able, so that a violation replays):
  dom   one FiniteDomain / RangeDomain: constructor argument, probes for contains / numberize /
        denumberize, == / != against other domains                      -> Model.Domain.dom_check
  fac   one FiniteFactor / ConstantFactor: domains, weights (nested lists / Tensor /
        PatternedTensor), apply on value tuples, == against other factors -> Model.Domain.fac_check
  bind  a history of InterpretationMixin calls on a FactorGraph or an FGG, outcome and label /
        domain / factor tables observed after every call                -> Model.Domain.bind_check
Python values are canonicalised: numbers to the reduced rational they denote, everything else to
a code such that codes are equal iff the values are == (a dict does that)."""
import itertools, random, math, ast, json
from fractions import Fraction
from harness.core import *

PID = "C20"
LEVEL = "proof"

# ----------------------------------------------------------------------------
# wire types

class Box(Ty):
    """a tuple that is ONE constructor argument (core.Sum would curry a bare Tup)"""
    def __init__(self, t): self.t = t
    def coq(self, v): return self.t.coq(v)
    def sexp(self, v): return self.t.sexp(v)
    def dec(self): return self.t.dec()
    def coqty(self): return self.t.coqty()

M = "Domain"
ExnT = Enum("exn", M, ["KeyErr", "IndexErr", "ValueErr", "TypeErr", "OtherErr"])
def Res(t):
    return Sum("(result %s)" % t.coqty(), M, {"Ok": Box(t) if isinstance(t, Tup) else t, "Err": ExnT})
ValueT = Sum("value", M, {"VNum": QQ, "VOther": Nat})
IdxT = List(Tup(ValueT, Nat))
DomainT = Sum("domain", M, {"DFinite": Tup(List(ValueT), IdxT), "DRange": Option(Nat)})
IterT = Enum("iterkind", M, ["Reiterable", "OneShot"])
DctorT = Sum("dctor", M, {"CFinite": Tup(IterT, List(ValueT)), "CRange": Option(Nat)})
TensorT = Tup(List(Nat), List(QQ))
NestedT = Sum("nested", M, {"NLeaf": QQ, "NNode": List(Rec("nested", "d_nested", lambda: NestedT))})
GLUE_PREAMBLE = "let rec d_nested s = %s s" % NestedT.dec()
NestedR = Rec("nested", "d_nested", lambda: NestedT)
WargT = Sum("warg", M, {"WNested": NestedR, "WTensor": TensorT, "WPatterned": TensorT})
FactorT = Sum("factor", M, {"FFinite": Tup(List(DomainT), List(Nat), List(QQ)), "FConst": Tup(List(DomainT), QQ)})
FctorT = Sum("fctor", M, {"CFiniteF": Tup(List(DomainT), WargT), "CConstF": Tup(List(DomainT), QQ)})
ElabelT = Tup(Nat, List(Nat), Bool)
ShapeArgT = Sum("shape_arg", M, {"SLabels": List(Nat), "SNodes": List(Nat), "SEdgeLabel": Box(ElabelT), "SEdge": Box(ElabelT)})
OpT = Sum("op", M, {"OAddNodeLabel": Nat, "OAddEdgeLabel": Box(ElabelT), "OAddDomain": Tup(Nat, DomainT),
                    "OAddFactor": Tup(ElabelT, FactorT), "ONewFiniteDomain": Tup(Nat, IterT, List(ValueT)),
                    "ONewFiniteFactor": Tup(Nat, WargT), "OShape": ShapeArgT})
OutcomeT = Sum("outcome", M, {"RNone": None, "RDom": DomainT, "RFac": FactorT, "RShape": List(Option(Nat)), "RErr": ExnT})
StateT = Tup(List(Nat), List(ElabelT), List(Tup(Nat, DomainT)), List(Tup(Nat, FactorT)))

DomCaseT = Tup(DctorT, List(Tup(ValueT, Bool)), List(ValueT),
               Tup(DomainT, Option(Nat), List(Res(Bool)), List(Res(ValueT)), List(Res(ValueT)),
                   List(Tup(DomainT, Tup(Bool, Bool)))))
FacCaseT = Tup(FctorT, Res(FactorT), List(Tup(List(ValueT), Res(TensorT))), List(Tup(FactorT, Bool)))
BindCaseT = Tup(StateT, List(Tup(OpT, OutcomeT, StateT)))

from harness.props import _c06_util as U       # AxisT / PnT wire types (decoder d_axis comes with C06's glue), typed pattern generator
PatT = Tup(List(U.PnT), List(QQ), List(U.AxisT), QQ)
FacpCaseT = Tup(List(DomainT), PatT, PatT, Res(FactorT), List(Tup(List(ValueT), Res(TensorT))), List(Tup(FactorT, Bool)))

DOM = CheckFn("c20dom", "Model.Domain", "dom_check", DomCaseT)
FAC = CheckFn("c20fac", "Model.Domain", "fac_check", FacCaseT)
BIND = CheckFn("c20bind", "Model.Domain", "bind_check", BindCaseT)
FACP = CheckFn("c20facp", "Model.DomainPat", "facp_check", FacpCaseT, imports=["Model.Axis", "Model.Domain"])
CHECKFNS = [DOM, FAC, BIND, FACP]

# no known finding is left: F14 (19d007a), F15 (7d2f845) and RangeDomain.contains on non-integers
# (973b650) are repaired in /repo; the check has no finding_key and no special verdict code
OPEN_ITEMS = []

ASSUMPTIONS = [
    "Python values are canonicalised by the harness: int/bool/finite float to the reduced rational they denote (so 1 == 1.0 == True coincide), every other hashable value to a code such that codes are equal iff the values are == (assigned through a dict, i.e. by hash and ==); where the code observes the difference (RangeDomain.contains: isinstance(value, int)) the probe carries the flag isinstance(value, int); floats are never used where an index is expected",
    "fac cases: a PatternedTensor given as weights is modelled by the dense tensor it denotes (to_dense()).  pfac cases: the harness observes the REPRESENTATION of the weights (physical data, paxes, vaxes, default; PhysicalAxis objects named by identity) and Coq computes the dense denotation from it (Model.DomainPat.pat_dense, with C06's model of Axis.index: stored element where every vaxis decodes the position, the default where one reports a miss); apply, ==, the setter's shape check and to_dense() are judged against that",
    "+inf / -inf among weights and defaults are coded as the non-dyadic rationals +-3000001/3 (no float equals them, so the coding is injective and preserves ==); NaN is never generated",
    "pfac: out-of-range ints of a RangeDomain are not probed on patterned weights (PatternedTensor.__getitem__ returns the default at the first index that is off the pattern without range-checking later indices; its range checks are `if __debug__` assertions)",
    "weights are dyadic rationals exactly representable in float32; tensors are compared exactly (as rationals) inside Coq",
    "torch.tensor(nested lists) is modelled from the observed behaviour of torch's compute_sizes / recursive_store (sizes from the first elements, lengths validated only for non-empty tensors)",
    "exceptions are compared by class (KeyError, IndexError, ValueError, TypeError, other); messages are not modelled",
    "object identity (the `self is other` short cut of __eq__) is not modelled; it agrees with equality by content on every generated case",
    "RangeDomain sizes are naturals or math.inf",
]

# ----------------------------------------------------------------------------
# canonicalisation

def lit(s):
    """spec literal -> Python value"""
    return ast.literal_eval(s)

class Canon:
    def __init__(self): self.codes = {}; self.names = {}
    def v(self, x):
        if isinstance(x, (bool, int)) or (isinstance(x, float) and math.isfinite(x)):
            return ("VNum", Fraction(x))
        return ("VOther", self.codes.setdefault(x, len(self.codes)))
    def n(self, s):
        return self.names.setdefault(s, len(self.names))

def exn_of(e):
    for cls, name in ((KeyError, "KeyErr"), (IndexError, "IndexErr"), (ValueError, "ValueErr"), (TypeError, "TypeErr")):
        if type(e) is cls: return name
    return "OtherErr"

def attempt(f, conv):
    try:
        return ("Ok", conv(f()))
    except Exception as e:
        return ("Err", exn_of(e))

def size_w(s):
    return None if s == math.inf else int(s)

def obs_dom(d, cn):
    from fggs.domains import FiniteDomain, RangeDomain
    if type(d) is FiniteDomain:
        return ("DFinite", ([cn.v(x) for x in d.values], [(cn.v(k), i) for k, i in d._value_index.items()]))
    assert type(d) is RangeDomain
    return ("DRange", size_w(d._size))

INFQ = Fraction(3000001, 3)        # stands for +inf: no float is a non-dyadic rational, so the coding is injective

def qfrac(x):
    """number -> the rational it denotes; +-inf -> +-INFQ (NaN is never generated)"""
    x = float(x)
    if x == math.inf: return INFQ
    if x == -math.inf: return -INFQ
    return Fraction(x)

def tensor_w(t):
    """torch.Tensor -> (shape, exact row-major data)"""
    return ([int(n) for n in t.shape], [qfrac(x) for x in t.reshape(-1).tolist()])

def obs_pat(t, world):
    """the REPRESENTATION of a PatternedTensor: (paxes with sizes, physical data row-major, vaxes, default);
    PhysicalAxis objects are named by the world (same object <-> same uid)"""
    paxes = [(world.name(k), int(k._numel)) for k in t.paxes]
    assert [int(n) for n in t.physical.shape] == [n for _, n in paxes], (t.physical.shape, paxes)
    return (paxes, [qfrac(x) for x in t.physical.reshape(-1).tolist()], [world.wire(e) for e in t.vaxes], qfrac(t.default))

def obs_fac(f, cn):
    from fggs.factors import FiniteFactor, ConstantFactor
    doms = [obs_dom(d, cn) for d in f.domains]
    if type(f) is FiniteFactor:
        sh, data = tensor_w(f.weights.to_dense())
        assert sh == [int(n) for n in f.weights.shape]
        return ("FFinite", (doms, sh, data))
    assert type(f) is ConstantFactor
    return ("FConst", (doms, Fraction(f.weight)))

# ----------------------------------------------------------------------------
# building objects from specs

ONESHOT = ("gen", "iter")

def make_arg(kind, vals):
    if kind == "list": return list(vals)
    if kind == "tuple": return tuple(vals)
    if kind == "gen": return (v for v in vals)
    if kind == "iter": return iter(vals)
    if kind == "dictkeys": return dict.fromkeys(vals)
    raise ValueError(kind)

def build_dom(spec):
    """spec: ["finite", argkind, [literals]] | ["range", n | "inf"]"""
    from fggs.domains import FiniteDomain, RangeDomain
    if spec[0] == "finite":
        return FiniteDomain(make_arg(spec[1], [lit(s) for s in spec[2]]))
    return RangeDomain(math.inf if spec[1] == "inf" else spec[1])

def dctor_w(spec, cn):
    if spec[0] == "finite":
        return ("CFinite", ("OneShot" if spec[1] in ONESHOT else "Reiterable", [cn.v(lit(s)) for s in spec[2]]))
    return ("CRange", None if spec[1] == "inf" else spec[1])

def nested_w(x):
    if isinstance(x, (list, tuple)): return ("NNode", [nested_w(y) for y in x])
    return ("NLeaf", Fraction(x))

def build_weights(w):
    """w: ["nested", literal] | ["tensor", shape, data] | ["patterned", shape, data] | ["eye", n] | ["full", shape, value]
    -> (python object to pass, wire warg)"""
    import torch
    from fggs.indices import PatternedTensor
    if w[0] == "nested":
        x = lit(w[1])
        return x, ("WNested", nested_w(x))
    if w[0] in ("tensor", "patterned"):
        t = torch.tensor([float(Fraction(d)) for d in w[2]], dtype=torch.get_default_dtype()).reshape(w[1])
        wire = (list(w[1]), [Fraction(d) for d in w[2]])
        if w[0] == "tensor": return t, ("WTensor", wire)
        return PatternedTensor(t), ("WPatterned", wire)
    if w[0] in ("tensor64", "patterned64"):
        # a caller-supplied float64 tensor whose entries are not representable in float32 (the default dtype):
        # "apply returns the weight" must hold for the weight as given, not for a rounded copy
        data = [Fraction(d) + Fraction(1, 2 ** 40) for d in w[2]]
        t = torch.tensor([float(d) for d in data], dtype=torch.float64).reshape(w[1])
        assert [Fraction(x) for x in t.reshape(-1).tolist()] == data
        wire = (list(w[1]), data)
        if w[0] == "tensor64": return t, ("WTensor", wire)
        return PatternedTensor(t), ("WPatterned", wire)
    if w[0] == "eye":
        from fggs.semirings import RealSemiring
        p = PatternedTensor.eye(w[1], RealSemiring())
        return p, ("WPatterned", tensor_w(p.to_dense()))
    if w[0] == "full":
        p = PatternedTensor.full(tuple(w[1]), float(Fraction(w[2])), dtype=torch.get_default_dtype())
        return p, ("WPatterned", tensor_w(p.to_dense()))
    raise ValueError(w[0])

def build_fac(spec, cn):
    """spec: ["finite", [domspecs], wspec] | ["const", [domspecs], weight]
    -> (thunk building the factor, wire fctor)"""
    from fggs.factors import FiniteFactor, ConstantFactor
    doms = [build_dom(d) for d in spec[1]]
    dw = [obs_dom(d, cn) for d in doms]
    if spec[0] == "finite":
        obj, ww = build_weights(spec[2])
        return (lambda: FiniteFactor(doms, obj)), ("CFiniteF", (dw, ww))
    return (lambda: ConstantFactor(doms, float(Fraction(spec[2])))), ("CConstF", (dw, Fraction(spec[2])))

# ----------------------------------------------------------------------------
# running one case against /repo

def run_dom(spec):
    """spec: dict(dom=domspec, probes=[literals], dargs=[literals], others=[domspec | "self"])"""
    cn = Canon()
    d = build_dom(spec["dom"])
    probes = [lit(s) for s in spec["probes"]]
    dargs = [lit(s) for s in spec["dargs"]]
    icont = [attempt(lambda: d.contains(p), bool) for p in probes]
    inum = [attempt(lambda: d.numberize(p), cn.v) for p in probes]
    iden = [attempt(lambda: d.denumberize(a), cn.v) for a in dargs]
    ieqs = []
    for o in spec["others"]:
        od = d if o == "self" else build_dom(o)
        ieqs.append((obs_dom(od, cn), (bool(d == od), bool(d != od))))
    return (dctor_w(spec["dom"], cn), [(cn.v(p), isinstance(p, int)) for p in probes], [cn.v(a) for a in dargs],
            (obs_dom(d, cn), size_w(d.size()), icont, inum, iden, ieqs))

def run_fac(spec):
    """spec: dict(fac=facspec, applies=[[literals]], others=[facspec | "self"])"""
    cn = Canon()
    thunk, cw = build_fac(spec["fac"], cn)
    try:
        f = thunk(); ictor = ("Ok", obs_fac(f, cn))
    except Exception as e:
        f = None; ictor = ("Err", exn_of(e))
    iapps, ieqs = [], []
    if f is not None:
        import torch
        for a in spec["applies"]:
            vs = [lit(s) for s in a]
            def conv(r):
                return tensor_w(r if isinstance(r, torch.Tensor) else torch.tensor(float(r)))
            iapps.append(([cn.v(v) for v in vs], attempt(lambda: f.apply(vs), conv)))
        for o in spec["others"]:
            g = f if o == "self" else build_fac(o, cn)[0]()
            ieqs.append((obs_fac(g, cn), bool(f == g)))
    return (cw, ictor, iapps, ieqs)

# --- factors whose weights are a PatternedTensor, judged against the representation ------------

SEMIRINGS = ("Real", "Log", "Viterbi", "Bool")

def build_pw(b, world):
    """base spec -> PatternedTensor, through each constructor the library offers:
    ["spec", tensorspec]  PatternedTensor(physical, paxes, vaxes, default)   (tensorspec as in _c06_util)
    ["eye", n, semiring]  PatternedTensor.eye      ["full", shape, value, dtype]  PatternedTensor.full
    ["dense", shape, data, default]  PatternedTensor(tensor, default=...)     ["from_int", k, semiring]"""
    import torch
    from fggs.indices import PatternedTensor
    if b[0] == "spec":
        sp = dict(b[1], values=[float(x) for x in b[1]["values"]], default=float(b[1]["default"]))
        bw = U.World(); world.keep.append(bw)       # uids of a spec are local to it; the observing world names the objects
        return U.build_tensor(sp, bw)
    if b[0] in ("eye", "from_int"):
        import fggs.semirings as S
        sr = getattr(S, b[2] + "Semiring")()
        return PatternedTensor.eye(b[1], sr) if b[0] == "eye" else PatternedTensor.from_int(b[1], sr)
    if b[0] == "full":
        return PatternedTensor.full(tuple(b[1]), float(b[2]), dtype=U.torch_dtype(b[3]))
    if b[0] == "dense":
        t = torch.tensor([float(x) for x in b[2]], dtype=torch.float64).reshape(b[1])
        return PatternedTensor(t, default=float(b[3]))
    raise ValueError(b[0])

def conv_pw(t, op):
    """one conversion step; an op that does not apply to this tensor is skipped (None)"""
    from fggs.indices import stack
    try:
        k = op[0]
        if k == "T": return t.T
        if k == "permute": return t.permute([d for d in op[1] if d < t.dim()] ) if sorted(d for d in op[1] if d < t.dim()) == list(range(t.dim())) else None
        if k == "clone": return t.clone()
        if k == "freshen": return t.freshen()
        if k == "default_to": return t.default_to(float(op[1]))
        if k == "getitem": return t[tuple(i % n for i, n in zip(op[1], t.shape))] if t.dim() >= 2 else None
        if k == "stack": return stack([t, t.default_to(float(op[2])) if op[2] is not None else t.clone()][:op[1]] + [t] * max(0, op[1] - 2), op[3] % (t.dim() + 1))
        if k == "unsqueeze": return t.unsqueeze(op[1] % (t.dim() + 1))
        if k == "flatten": return t.flatten()
        if k == "dim_to_dense": return t.dim_to_dense(op[1] % t.dim()) if t.dim() else None
        if k == "mul": return t.mul(op[1])
        if k == "add_self": return t.add(t.T) if t.dim() == 2 and t.shape[0] == t.shape[1] else t.add(t)
        if k == "expand": return t.unsqueeze(0).expand(op[1], *t.shape)
    except Exception:
        return None
    raise ValueError(op)

def pick_domspec(n, f):
    if f == 0 and n > 8: f = 1
    if f == 3 and n > 5: f = 2
    return gen_domspec(n, f)

def pfac_probes(domspecs, rng, cap=64):
    vals = [dom_probe_values(d) for d in domspecs]
    out = [list(t) for t in itertools.product(*vals)]
    if len(out) > cap: out = rng.sample(out, cap)
    if all(vals):
        full = [v[-1] for v in vals]
        for k in range(len(full)): out.append(full[:k])
        out.append(full + ["'extra'"])
        for k in range(len(full)):
            # unknown value of a FiniteDomain (KeyError from numberize).  Out-of-range ints of a RangeDomain are NOT
            # probed here: RangeDomain.numberize does not range-check and PatternedTensor.__getitem__ returns the
            # default as soon as one index is off the pattern, without range-checking the later ones (its range
            # checks are `if __debug__` assertions), so there is no dense-tensor-like IndexError contract to judge
            if domspecs[k][0] == "finite":
                bad = list(full); bad[k] = "'nope'"; out.append(bad)
    return out

def run_pfac_all(spec):
    """spec: dict(base=, chain=[ops], flav=[ints], mism=None|"drop"|"plus", seed=int,
                  steps=[["apply"] | ["set", base, chain] | ["inplace", op, arg]])
    One history on ONE FiniteFactor object; every step yields a case (a segment): the representation of
    f.weights observed after the step's action, the applies / == asked then, the representation after them."""
    import torch
    from fggs.factors import FiniteFactor
    from fggs.indices import PatternedTensor
    cn = Canon(); world = U.World(); rng = random.Random(spec["seed"])
    def make(base, chain):
        t = build_pw(base, world)
        for op in chain:
            r = conv_pw(t, op)
            if r is not None: t = r
        return t
    w = make(spec["base"], spec["chain"])
    shape = [int(n) for n in w.shape]
    dsizes = list(shape)
    if spec.get("mism") == "drop" and dsizes: dsizes = dsizes[:-1]
    elif spec.get("mism") == "plus" and dsizes: dsizes[-1] += 1
    elif spec.get("mism") == "plus": dsizes = [1]
    flav = spec["flav"]
    domspecs = [pick_domspec(n, flav[i % len(flav)]) for i, n in enumerate(dsizes)]
    doms = [build_dom(d) for d in domspecs]
    dw = [obs_dom(d, cn) for d in doms]
    out = []
    def conv(r):
        return tensor_w(r if isinstance(r, torch.Tensor) else torch.tensor(float(r)))
    def segment(f, p):
        """applies and comparisons on f, whose weights have the representation p"""
        iapps = []
        for a in pfac_probes(domspecs, rng):
            vs = [lit(s) for s in a]
            iapps.append(([cn.v(v) for v in vs], attempt(lambda: f.apply(vs), conv)))
        ieqs = []
        cur = f.weights
        others = [f, FiniteFactor([build_dom(d) for d in domspecs], cur.clone()),
                  FiniteFactor(doms, PatternedTensor(cur.to_dense()))]
        if cur.numel() >= 1 and cur.dtype != torch.bool:
            d2 = cur.to_dense().clone(); d2.reshape(-1)[rng.randrange(cur.numel())] += 1.5
            others.append(FiniteFactor(doms, d2))
        for g in others:
            ieqs.append((obs_fac(g, cn), bool(f == g)))
        # a second round of applies on the same object (anything remembered from the first must not matter)
        for a in pfac_probes(domspecs, rng, cap=8)[:8]:
            vs = [lit(s) for s in a]
            iapps.append(([cn.v(v) for v in vs], attempt(lambda: f.apply(vs), conv)))
        out.append((dw, p, obs_pat(f.weights, world), ("Ok", obs_fac(f, cn)), iapps, ieqs))
    p0 = obs_pat(w, world)
    try:
        f = FiniteFactor(doms, w)
    except Exception as e:
        out.append((dw, p0, obs_pat(w, world), ("Err", exn_of(e)), [], []))
        return out
    segment(f, p0)
    for st in spec["steps"]:
        if st[0] == "apply":
            pass
        elif st[0] == "set":
            w2 = make(st[1], st[2]); p2 = obs_pat(w2, world)
            try:
                f.weights = w2
            except Exception as e:
                out.append((dw, p2, obs_pat(w2, world), ("Err", exn_of(e)), [], []))
        elif st[0] == "inplace":
            cur = f.weights
            try:
                if st[1] == "physmul": cur.physical.mul_(st[2])
                elif st[1] == "physset": cur.physical.reshape(-1)[st[2] % max(cur.physical.numel(), 1)] = 9.25
                elif st[1] == "neg_": cur.neg_()
                elif st[1] == "imul": cur *= st[2]
                elif st[1] == "default": cur.default = float(st[2])
                elif st[1] == "copy_":
                    src = make(st[2], st[3])
                    if src.shape == cur.shape: cur.copy_(src)        # copy_ by-passes the setter's shape check
                else: raise ValueError(st[1])
            except (RuntimeError, TypeError, ValueError, AssertionError):
                pass                  # e.g. an in-place operation on an expanded (stride 0) physical tensor
        segment(f, obs_pat(f.weights, world))
    return out

def run_pfac(spec):
    return run_pfac_all(spec)[spec["segment"]]

def obs_state(g, cn):
    els = []
    for k, l in g._edge_labels.items():
        assert k == l.name
        els.append((cn.n("e:" + l.name), [cn.n("n:" + x.name) for x in l.node_labels], bool(l.is_terminal)))
    return ([cn.n("n:" + k) for k in g._node_labels], els,
            [(cn.n("n:" + k), obs_dom(d, cn)) for k, d in g.domains.items()],
            [(cn.n("e:" + k), obs_fac(f, cn)) for k, f in g.factors.items()])

def elabel_w(e, cn):
    return (cn.n("e:" + e[0]), [cn.n("n:" + x) for x in e[1]], bool(e[2]))

def build_elabel(e):
    import fggs
    return fggs.EdgeLabel(e[0], tuple(fggs.NodeLabel(x) for x in e[1]), is_terminal=bool(e[2]), is_nonterminal=not e[2])

def run_bind(spec):
    """spec: dict(cls="FG"|"FGG", ops=[opspec]); opspec:
       ["add_node_label", n] ["add_edge_label", el] ["add_domain", n, domspec] ["add_factor", el, facspec]
       ["new_finite_domain", n, argkind, [literals]] ["new_finite_factor", name, wspec]
       ["shape", "labels"|"labels_tuple"|"nodes"|"elabel"|"edge", [names] | el]"""
    import fggs
    cn = Canon()
    g = fggs.FactorGraph() if spec["cls"] == "FG" else fggs.FGG("S")
    s0 = obs_state(g, cn)
    steps = []
    for o in spec["ops"]:
        k = o[0]
        if k == "add_node_label":
            ow = ("OAddNodeLabel", cn.n("n:" + o[1]))
            call = lambda: g.add_node_label(fggs.NodeLabel(o[1])); conv = lambda r: ("RNone",)
        elif k == "add_edge_label":
            ow = ("OAddEdgeLabel", elabel_w(o[1], cn))
            call = lambda: g.add_edge_label(build_elabel(o[1])); conv = lambda r: ("RNone",)
        elif k == "add_domain":
            d = build_dom(o[2])
            ow = ("OAddDomain", (cn.n("n:" + o[1]), obs_dom(d, cn)))
            call = lambda: g.add_domain(fggs.NodeLabel(o[1]), d); conv = lambda r: ("RNone",)
        elif k == "add_factor":
            thunk, cw = build_fac(o[2], cn)
            f = thunk()          # specs only use well-formed factors here
            ow = ("OAddFactor", (elabel_w(o[1], cn), obs_fac(f, cn)))
            call = lambda: g.add_factor(build_elabel(o[1]), f); conv = lambda r: ("RNone",)
        elif k == "new_finite_domain":
            vals = [lit(s) for s in o[3]]
            ow = ("ONewFiniteDomain", (cn.n("n:" + o[1]), "OneShot" if o[2] in ONESHOT else "Reiterable", [cn.v(v) for v in vals]))
            call = lambda: g.new_finite_domain(o[1], make_arg(o[2], vals)); conv = lambda r: ("RDom", obs_dom(r, cn))
        elif k == "new_finite_factor":
            obj, ww = build_weights(o[2])
            ow = ("ONewFiniteFactor", (cn.n("e:" + o[1]), ww))
            call = lambda: g.new_finite_factor(o[1], obj); conv = lambda r: ("RFac", obs_fac(r, cn))
        elif k == "shape":
            if o[1] in ("labels", "labels_tuple"):
                x = [fggs.NodeLabel(n) for n in o[2]]
                if o[1] == "labels_tuple": x = tuple(x)
                ow = ("OShape", ("SLabels", [cn.n("n:" + n) for n in o[2]]))
            elif o[1] == "nodes":
                x = [fggs.Node(fggs.NodeLabel(n)) for n in o[2]]
                ow = ("OShape", ("SNodes", [cn.n("n:" + n) for n in o[2]]))
            elif o[1] == "elabel":
                x = build_elabel(o[2]); ow = ("OShape", ("SEdgeLabel", elabel_w(o[2], cn)))
            else:
                el = build_elabel(o[2])
                x = fggs.Edge(el, [fggs.Node(l) for l in el.type]); ow = ("OShape", ("SEdge", elabel_w(o[2], cn)))
            call = lambda: g.shape(x); conv = lambda r: ("RShape", [size_w(s) for s in r])
        else:
            raise ValueError(k)
        try:
            r = call(); out = conv(r)
            if k != "shape" and k not in ("new_finite_domain", "new_finite_factor") and r is not None:
                out = ("RErr", "OtherErr")
        except Exception as e:
            out = ("RErr", exn_of(e))
        steps.append((ow, out, obs_state(g, cn)))
    return (s0, steps)

# ----------------------------------------------------------------------------
# generators

POOL = ["0", "1", "2", "3", "-1", "'a'", "'b'", "''", "()", "(1,)", "(1, 'a')", "None", "True", "False",
        "1.0", "2.0", "0.5", "b'a'", "(None, 0)", "'1'"]

def rep(x): return repr(x)

def distinct_sample(rng, n, pool=POOL):
    out, seen = [], {}
    cand = list(pool); rng.shuffle(cand)
    for s in cand:
        v = lit(s)
        if v in seen: continue
        seen[v] = 1; out.append(s)
        if len(out) == n: break
    return out

def dom_case(domspec, extra_probes, rng=None):
    if domspec[0] == "finite":
        vals = domspec[2]
        n = len(vals)
        probes = list(vals) + [p for p in extra_probes]
        dargs = [str(i) for i in range(-n - 2, n + 2)]
        others = ["self", ["finite", "tuple" if domspec[1] == "list" else "list", list(vals)],
                  ["range", n], ["finite", "list", list(vals) + ["'zz'"]]]
        if n >= 1:
            others.append(["finite", "list", list(vals[:-1])])
        if n >= 2:
            others.append(["finite", "list", list(reversed(vals))])
            others.append(["finite", "gen", list(vals)])
        # cross-type equal copy: 1 <-> 1.0 / True
        swap = {"1": "1.0", "1.0": "True", "True": "1", "0": "False", "False": "0.0", "2": "2.0", "2.0": "2"}
        if any(s in swap for s in vals):
            others.append(["finite", "list", [swap.get(s, s) for s in vals]])
        return dict(dom=domspec, probes=probes, dargs=dargs, others=others)
    size = domspec[1]
    m = 4 if size == "inf" else size
    probes = [str(i) for i in range(-2, m + 2)] + ["0.0", "1.0", "True", "False", "0.5", "1.5", "-0.5", "2.5", "'a'", "None", "(1,)"]
    others = ["self", ["range", size], ["range", 7], ["range", "inf"], ["finite", "list", [str(i) for i in range(m)]]]
    return dict(dom=domspec, probes=probes, dargs=list(probes), others=others)

def gen_dom_cases(rng, tier):
    cases = []
    # exhaustive: every value list of length <= 3 over a mixed alphabet (duplicates included,
    # cross-type duplicates through 1 / True), as list, tuple and generator
    alpha = ["0", "1", "'a'", "None", "True"]
    extra = ["2", "'b'", "(1,)", "1.0", "0.0", "False"]
    for n in range(0, 4):
        for vals in itertools.product(alpha, repeat=n):
            for kind in ("list", "tuple", "gen"):
                cases.append(("exh", dom_case(["finite", kind, list(vals)], extra)))
    # random larger domains over the whole pool
    nr = 300 if tier == "quick" else 6000
    for i in range(nr):
        n = rng.choice([0, 1, 2, 3, 4, 5, 6, 8])
        vals = distinct_sample(rng, n)
        malformed = rng.random() < 0.2 and len(vals) >= 1
        if malformed:      # duplicates (possibly of another type)
            for _ in range(rng.randint(1, 2)):
                s = rng.choice(vals)
                dup = {"1": "True", "0": "False", "2": "2.0", "True": "1.0"}.get(s, s) if rng.random() < 0.5 else s
                vals.insert(rng.randrange(len(vals) + 1), dup)
        kinds = ["list", "tuple", "gen", "iter"] + ([] if malformed else ["dictkeys"])
        kind = rng.choice(kinds)
        ex = rng.sample(POOL, 5)
        cases.append(("dup" if malformed else "rnd", dom_case(["finite", kind, vals], ex)))
    for size in [0, 1, 2, 3, 5, "inf"]:
        cases.append(("range", dom_case(["range", size], [])))
    return cases

def dom_values(n, flavour):
    """literal values of a generated FiniteDomain of size n"""
    if flavour == 0: return [rep("abcdefgh"[i]) for i in range(n)]
    if flavour == 1: return [str(i + 1) for i in range(n)]
    if flavour == 2: return [rep((i, "x")) for i in range(n)]
    return [["None", "True", "'s'", "2.5", "()"][i] for i in range(n)]

def gen_domspec(n, flavour):
    if flavour == 4: return ["range", n]
    return ["finite", ["list", "tuple"][flavour % 2], dom_values(n, flavour)]

def numel(shape):
    r = 1
    for s in shape: r *= s
    return r

def nested_lit(shape, data):
    """nested-list literal of the given shape (a leading 0 collapses what follows, as in Python)"""
    if not shape: return data[0]
    step = numel(shape[1:])
    return [nested_lit(shape[1:], data[i * step:(i + 1) * step]) for i in range(shape[0])]

def wdata(n, off=1):
    return [str(Fraction(i + off, 4)) for i in range(n)]

def weights_spec(form, shape, off=1):
    shape = list(shape)
    if form == "nested":
        return ["nested", repr(nested_lit(shape, [float(Fraction(x)) for x in wdata(max(numel(shape), 1), off)]))]
    return [form, shape, wdata(numel(shape), off)]

def dom_probe_values(d):
    if d[0] == "finite": return list(d[2])
    return [str(i) for i in range(d[1])] if d[1] != "inf" else ["0"]

def apply_probes(doms, rng):
    vals = [dom_probe_values(d) for d in doms]
    out = [list(t) for t in itertools.product(*vals)]
    if len(out) > 40: out = rng.sample(out, 40)
    if all(vals):
        full = [v[-1] for v in vals]
        for k in range(len(full)): out.append(full[:k])             # partial application
        out.append(full + ["'extra'"])                              # zip truncates
        for k in range(len(full)):                                  # unknown / out-of-range value
            bad = list(full)
            if doms[k][0] == "finite": bad[k] = "'nope'"
            else: bad[k] = str(doms[k][1]) if rng.random() < 0.5 else "-1"
            out.append(bad)
    return out

def fac_case(domspecs, wspec, rng, applies=True):
    fac = ["finite", domspecs, wspec]
    shape = [len(dom_probe_values(d)) if d[0] == "finite" else d[1] for d in domspecs]
    others = []
    if "inf" not in shape:
        right = list(shape)
        n = numel(right)
        others = ["self", ["finite", domspecs, ["tensor", right, wdata(n)]],
                  ["finite", domspecs, ["patterned", right, wdata(n)]],
                  ["const", domspecs, "1/4"]]
        if n >= 1:
            d2 = wdata(n); d2[-1] = "9"
            others.append(["finite", domspecs, ["tensor", right, d2]])
        if domspecs:
            alt = [list(d) for d in domspecs]
            if alt[0][0] == "finite":
                alt[0] = ["finite", "list", list(alt[0][2]) + ["'q'"]]
            else:
                alt[0] = ["range", alt[0][1] + 1]
            sh2 = [right[0] + 1] + right[1:]
            others.append(["finite", alt, ["tensor", sh2, wdata(numel(sh2))]])
            same = [["finite", "tuple", list(d[2])] if d[0] == "finite" else list(d) for d in domspecs]
            others.append(["finite", same, ["tensor", right, wdata(n)]])
            if len(domspecs) >= 2 and right[0] == right[1] and domspecs[0] != domspecs[1]:
                sw = [domspecs[1], domspecs[0]] + list(domspecs[2:])
                others.append(["finite", sw, ["tensor", right, wdata(n)]])
    return dict(fac=fac, applies=apply_probes(domspecs, rng) if applies and "inf" not in shape else [], others=others)

def all_shapes(maxrank, sizes):
    for r in range(maxrank + 1):
        for sh in itertools.product(sizes, repeat=r):
            yield list(sh)

def gen_fac_cases(rng, tier):
    cases = []
    sizes = [0, 1, 2, 3]
    shapes = list(all_shapes(3, sizes))
    # every (domain sizes, weight shape) pair up to rank 3, in each of the three forms
    pairs = [(a, b) for a in shapes for b in shapes]
    if tier == "quick":
        # all pairs with sizes <= 2, every matching pair, plus 400 sampled others
        small = [(a, b) for a, b in pairs if max(a + b + [0]) <= 2]
        rest = [(a, b) for a, b in pairs if max(a + b + [0]) > 2 and a != b]
        pairs = small + [(a, a) for a in shapes if max(a + [0]) > 2] + rng.sample(rest, 400)
    for k, (ds, ws) in enumerate(pairs):
        for form in ("nested", "tensor", "patterned") + (("tensor64", "patterned64") if ds == ws or k % 7 == 0 else ()):
            flav = [(k + j) % 5 for j in range(len(ds))]
            domspecs = [gen_domspec(n, f) for n, f in zip(ds, flav)]
            cases.append(("grid", fac_case(domspecs, weights_spec(form, ws), rng)))
    # patterned, non-dense
    for n in (1, 2, 3):
        for m in (1, 2, 3):
            d = [gen_domspec(m, 0), gen_domspec(m, 1)]
            cases.append(("eye", fac_case(d, ["eye", n], rng)))
    for sh in all_shapes(3, [1, 2, 3]):
        d = [gen_domspec(n, (i + len(sh)) % 5) for i, n in enumerate(sh)]
        cases.append(("full", fac_case(d, ["full", sh, "3/4"], rng)))
        if sh:
            cases.append(("full", fac_case(d, ["full", sh[:-1] + [sh[-1] + 1], "3/4"], rng)))
    # infinite domains, domains built from a generator, duplicate domains
    cases.append(("inf", fac_case([["range", "inf"]], weights_spec("tensor", [2]), rng)))
    cases.append(("inf", fac_case([gen_domspec(2, 0), ["range", "inf"]], weights_spec("nested", [2, 2]), rng)))
    cases.append(("gendom", fac_case([["finite", "gen", dom_values(2, 0)], gen_domspec(2, 1)], weights_spec("tensor", [2, 2]), rng)))
    cases.append(("dupdom", fac_case([["finite", "list", ["'a'", "'b'", "'a'"]]], weights_spec("tensor", [3]), rng)))
    # malformed nested lists
    bad = ["[[], [0.75]]", "[[0.75], []]", "[[0.25, 0.5], [0.75]]", "[0.25, [0.5]]", "[[0.5], 0.25]",
           "[[[0.25], [0.5]], [[0.75]]]", "[[[0.25], [0.5]], [[0.75], [1.0, 1.25]]]", "[[[]], [[]]]", "[[], []]", "[]", "[[]]",
           "[[[0.25, 0.5]], [[0.75, [1.0]]]]", "(0.25, 0.5)", "[(0.25, 0.5), [0.75, 1.0]]", "0.25", "[[0.25, 0.5], [0.75, 1.0], []]",
           "[[], [], [0.5]]", "[[[], [0.5]], [[], []]]"]
    for b in bad:
        x = lit(b)
        # candidate domain sizes: what compute_sizes would say, and neighbours
        sz = []
        y = x
        while isinstance(y, (list, tuple)):
            sz.append(len(y))
            if not y: break
            y = y[0]
        for ds in {tuple(sz), tuple(sz[:-1]), tuple(sz + [1]), tuple(reversed(sz))}:
            d = [gen_domspec(n, i % 5) for i, n in enumerate(ds)]
            cases.append(("badnest", fac_case(d, ["nested", b], rng)))
    nr = 200 if tier == "quick" else 4000
    for i in range(nr):     # random mutations of regular nested lists
        sh = rng.choice([s for s in shapes if s])
        x = nested_lit(sh, [float(Fraction(v)) for v in wdata(max(numel(sh), 1))])
        for _ in range(rng.randint(1, 2)):
            x = mutate_nested(x, rng)
        d = [gen_domspec(n, (i + j) % 5) for j, n in enumerate(sh)]
        cases.append(("mutnest", fac_case(d, ["nested", repr(x)], rng)))
    # constant factors
    for ds in ([], [2], [2, 3]):
        d = [gen_domspec(n, i) for i, n in enumerate(ds)]
        vals = [dom_probe_values(x) for x in d]
        cases.append(("const", dict(fac=["const", d, "5/4"],
                                    applies=[[v[0] for v in vals], [], ["'zz'"] * len(d)],
                                    others=["self", ["const", d, "5/4"], ["const", d, "3/2"], ["const", d[:-1], "5/4"],
                                            ["finite", d, weights_spec("tensor", ds)]])))
    return cases

def mutate_nested(x, rng):
    if not isinstance(x, list):
        return [x] if rng.random() < 0.5 else x
    if not x:
        return [0.5] if rng.random() < 0.5 else x
    r = rng.random()
    i = rng.randrange(len(x))
    if r < 0.25: return x[:i] + x[i + 1:]
    if r < 0.4: return x + [x[i]]
    if r < 0.5 and isinstance(x[i], list): return x[:i] + [0.125] + x[i + 1:]
    return x[:i] + [mutate_nested(x[i], rng)] + x[i + 1:]

# --- patterned weights --------------------------------------------------------

PDEFAULTS = [1.75, -math.inf, 0.0, math.inf, -1.0, 7.0, 2.5]

def pspec(vaxes, rng, default, dtype="f64", specials=False):
    paxes = U.fv_list(vaxes); rng.shuffle(paxes)
    m = math.prod(n for _, n in paxes)
    return dict(vaxes=vaxes, paxes=paxes, default=default, dtype=dtype, values=U.gen_values(m, rng, "float", specials=specials))

def rnd_chain(rng):
    ops = [["T"], ["permute", rng.sample([0, 1, 2], 3)], ["clone"], ["freshen"], ["default_to", rng.choice(PDEFAULTS)],
           ["getitem", [rng.randrange(6)]], ["stack", rng.choice([1, 2, 3]), rng.choice([None, 5.0, -math.inf]), rng.randrange(3)],
           ["unsqueeze", rng.randrange(3)], ["flatten"], ["dim_to_dense", rng.randrange(3)], ["mul", 2.0], ["add_self"],
           ["expand", rng.choice([1, 2, 3])]]
    return [rng.choice(ops) for _ in range(rng.randint(1, 3))]

def rnd_base(rng, universe, types=None, max_numel=36):
    r = rng.random()
    if types is None and r < 0.12: return ["eye", rng.choice([1, 2, 3, 4]), rng.choice(SEMIRINGS)]
    if types is None and r < 0.18: return ["full", [rng.choice([1, 2, 3]) for _ in range(rng.choice([0, 1, 2, 3]))], rng.choice(PDEFAULTS), "f64"]
    if types is None and r < 0.24:
        sh = [rng.choice([1, 2, 3]) for _ in range(rng.choice([1, 2]))]
        return ["dense", sh, [x for x in U.gen_values(numel(sh), rng, "float", specials=False)], rng.choice(PDEFAULTS)]
    spec, _ = U.gen_tensor(rng, types=types, kind="float", default=rng.choice(PDEFAULTS), max_numel=max_numel, universe=universe,
                           dtype=rng.choice(["f64", "f64", "f32"]))
    spec = dict(spec); spec.pop("types", None)
    return ["spec", spec]

def gen_pfac_cases(rng, tier):
    cases = []
    k = 0
    def add(gen, base, chain=(), mism=None, steps=()):
        nonlocal k
        k += 1
        cases.append((gen, dict(base=base, chain=list(chain), flav=[(k + j) % 5 for j in range(4)], mism=mism, seed=k, steps=list(steps))))
    # every pattern over small typed shapes (rank 1 and 2), the default cycling through non-zero values, -inf, 0, inf
    small = U.all_types(max_leaves=2, max_size=4, atoms=(2, 3))
    shapes = [[t] for t in small] + [[a, b] for a in small for b in small if U.tsize(a) * U.tsize(b) <= 12]
    for ts in shapes:
        for vaxes, _ in U.enum_patterns(ts):
            add("enum", ["spec", pspec(vaxes, rng, PDEFAULTS[k % len(PDEFAULTS)])])
    # every constructor of the library
    for n in (1, 2, 3, 4):
        for sr in SEMIRINGS: add("eye", ["eye", n, sr])
    for sr in SEMIRINGS:
        for x in (0, 1, 3): add("from_int", ["from_int", x, sr])
    for sh in all_shapes(3, [1, 2, 3]):
        if numel(sh) <= 12:
            add("full", ["full", sh, PDEFAULTS[k % 5], "f64"]); add("full", ["full", sh, 0.75, "f32"])
    for sh in ([2], [1], [2, 3], [3, 1], [1, 1], [2, 2, 2], [0], [2, 0]):
        add("dense", ["dense", sh, U.gen_values(numel(sh), rng, "float", specials=False), PDEFAULTS[k % len(PDEFAULTS)]])
    # random typed patterns (products, sums, shared axes, one-hot dimensions; +-inf among the stored values)
    universe = U.all_types() + U.onehot_types()
    for i in range(220 if tier == "quick" else 4000):
        add("rnd", rnd_base(rng, universe))
    # conversion paths: the weights are the result of library operations on a patterned tensor
    for i in range(160 if tier == "quick" else 3000):
        add("chain", rnd_base(rng, universe, max_numel=16), rnd_chain(rng))
    # shapes the setter must refuse
    for i in range(60 if tier == "quick" else 600):
        add("mism", rnd_base(rng, universe), rnd_chain(rng) if rng.random() < 0.3 else [], mism=rng.choice(["drop", "plus"]))
    # histories on one factor object: re-assignment of the weights and in-place updates between the applies
    for i in range(110 if tier == "quick" else 2000):
        ts = U.gen_shape_types(rng, max_numel=24, types=universe)
        base = rnd_base(rng, universe, types=ts)
        steps = []
        for _ in range(rng.randint(2, 4)):
            r = rng.random()
            other = rnd_base(rng, universe, types=ts if rng.random() < 0.85 else None)
            if r < 0.3: steps.append(["set", other, [] if rng.random() < 0.7 else [["clone"]]])
            elif r < 0.4: steps.append(["inplace", "copy_", other, []])
            elif r < 0.55: steps.append(["inplace", "default", rng.choice(PDEFAULTS)])
            elif r < 0.65: steps.append(["inplace", "physmul", 2.0])
            elif r < 0.75: steps.append(["inplace", "physset", rng.randrange(64)])
            elif r < 0.85: steps.append(["inplace", "neg_", None])
            elif r < 0.93: steps.append(["inplace", "imul", 0.5])
            else: steps.append(["apply"])
        add("hist", base, [], steps=steps)
    return cases

# --- binding histories -------------------------------------------------------

NLS = ["A", "B", "C"]
DOMPOOL = {
    "D2": ["finite", "list", ["'x'", "'y'"]],
    "D2c": ["finite", "tuple", ["'x'", "'y'"]],      # equal to D2 by content
    "D2r": ["finite", "list", ["'y'", "'x'"]],       # different
    "D3": ["finite", "list", ["1", "2", "3"]],
    "D1": ["finite", "list", ["None"]],
    "D0": ["finite", "list", []],
    "R2": ["range", 2],
    "R3": ["range", 3],
    "G2": ["finite", "gen", ["'x'", "'y'"]],         # equal to D2, built from a generator
}

def fac_spec_for(domnames, const=False, off=1):
    ds = [DOMPOOL[d] for d in domnames]
    if const: return ["const", ds, "7/4"]
    shape = [len(d[2]) if d[0] == "finite" else d[1] for d in ds]
    form = ["tensor", "nested", "patterned"][len(domnames) % 3]
    if 0 in shape and form == "nested": form = "tensor"
    return ["finite", ds, weights_spec(form, shape, off)]

def shape_ops(el, rng):
    t = list(el[1])
    ops = [["shape", "elabel", el], ["shape", "labels", t], ["shape", "labels_tuple", t]]
    if t: ops.append(["shape", "nodes", t])
    ops.append(["shape", "edge", el])
    return ops

def bind_history(cls, mapping, pre, el, facdoms, const, rng, tail=True):
    """mapping: {node label: pool name}; pre: "none" | "same" | "clash_type" | "clash_nt" | "bound";
    el: (name, type, terminal); facdoms: pool names of the factor's domains"""
    ops = []
    for nl, d in mapping.items():
        if rng.random() < 0.3 and DOMPOOL[d][0] == "finite":
            ops.append(["new_finite_domain", nl, DOMPOOL[d][1], DOMPOOL[d][2]])
        else:
            ops.append(["add_domain", nl, DOMPOOL[d]])
    name, typ, term = el
    if pre == "same":
        ops.append(["add_edge_label", [name, typ, term]])
    elif pre == "clash_type":
        ops.append(["add_edge_label", [name, list(typ) + ["A"], term]])
    elif pre == "clash_nt":
        ops.append(["add_edge_label", [name, typ, not term]])
    elif pre == "bound":
        # bind a first factor to the label if that is possible at all
        if all(x in mapping for x in typ):
            ops.append(["add_factor", [name, typ, True], fac_spec_for([mapping[x] for x in typ], off=5)])
    ops.append(["add_factor", [name, typ, term], fac_spec_for(facdoms, const)])
    if tail:
        ops.extend(shape_ops([name, typ, term], rng))
    return dict(cls=cls, ops=ops)

def gen_bind_cases(rng, tier):
    cases = []
    types = [list(t) for r in range(4) for t in itertools.product(["A", "B"], repeat=r)]
    facpool = ["D2", "D3", "R2"]
    facdoms = [list(t) for r in range(4) for t in itertools.product(facpool, repeat=r)]
    mappings = [{"A": "D2", "B": "D2c"}, {"A": "D2", "B": "R2"}, {"A": "D2"}, {"A": "D3", "B": "D2"}, {}]
    pres = ["none", "same", "clash_type", "clash_nt", "bound"]
    allp = [(t, term, fd) for t in types for term in (True, False) for fd in facdoms]
    # every label / factor pairing once with a pre-state chosen at random (quick) or with every pre-state (thorough)
    k = 0
    for (t, term, fd) in allp:
        variants = [(rng.choice(mappings), rng.choice(pres))] if tier == "quick" else \
                   [(m, p) for m in mappings[:3] for p in pres]
        if not term and tier == "quick" and rng.random() < 0.6: continue
        for m, p in variants:
            k += 1
            cases.append(("pair", bind_history(["FG", "FGG"][k % 2], m, p, ("f", t, term), fd, const=(k % 7 == 0), rng=rng,
                                               tail=(k % 3 == 0))))
    # the matching pairings under every pre-state, both classes (so that each success path and the refusal of a bound label is exercised)
    for cls in ("FG", "FGG"):
        for m in mappings:
            for t in types:
                if not all(x in m for x in t): continue
                for p in pres:
                    for const in (False, True):
                        if const and tier == "quick" and p not in ("none", "bound"): continue
                        cases.append(("match", bind_history(cls, m, p, ("f", t, True), [m[x] for x in t], const, rng,
                                                            tail=(tier != "quick" or p in ("none", "bound")))))
    # equal-by-content vs different domains in every position, arities 1..3
    for cls in ("FG", "FGG"):
        for r in (1, 2, 3):
            for pos in range(r):
                for repl in ("D2c", "D2r", "D3", "R2", "G2", "D0"):
                    fd = ["D2"] * r; fd[pos] = repl
                    cases.append(("pos", bind_history(cls, {"A": "D2"}, "none", ("g", ["A"] * r, True), fd, False, rng)))
                un = ["A"] * r; un[pos] = "C"                              # C is never mapped
                cases.append(("unmapped", bind_history(cls, {"A": "D2"}, "none", ("g", un, True), ["D2"] * r, False, rng)))
    # arity off by one in either direction, all present domains matching
    for cls in ("FG", "FGG"):
        for r in range(4):
            for fr in (r - 1, r + 1):
                if fr < 0: continue
                for const in (False, True):
                    cases.append(("arity", bind_history(cls, {"A": "D2"}, "none", ("g", ["A"] * r, True), ["D2"] * fr, const, rng)))
    # add_domain / new_finite_domain: rebinding a node label must fail; generators
    for cls in ("FG", "FGG"):
        for kind in ("list", "tuple", "gen", "iter"):
            ops = [["new_finite_domain", "A", kind, ["'x'", "'y'"]], ["new_finite_domain", "A", kind, ["'x'"]],
                   ["add_domain", "A", DOMPOOL["D3"]], ["add_node_label", "B"], ["add_domain", "B", DOMPOOL["R2"]],
                   ["add_domain", "B", DOMPOOL["R2"]], ["shape", "labels", ["A", "B"]], ["shape", "labels", ["A", "Z"]],
                   ["shape", "labels", []], ["shape", "labels_tuple", []], ["add_domain", "I", ["range", "inf"]],
                   ["shape", "labels", ["I", "A"]]]
            cases.append(("domain", dict(cls=cls, ops=ops)))
    # new_finite_factor: label missing / nonterminal / unmapped / infinite / right and wrong shapes / rebinding
    shapes3 = [s for s in all_shapes(3, [0, 1, 2, 3])]
    for cls in ("FG", "FGG"):
        base = [["add_domain", "A", DOMPOOL["D2"]], ["add_domain", "B", DOMPOOL["D3"]], ["add_domain", "I", ["range", "inf"]],
                ["add_edge_label", ["f", ["A", "B"], True]], ["add_edge_label", ["n", ["A"], False]],
                ["add_edge_label", ["u", ["A", "U"], True]], ["add_edge_label", ["i", ["I"], True]],
                ["add_edge_label", ["z", [], True]]]
        for nm in ("f", "n", "u", "i", "z", "missing"):
            want = {"f": [2, 3], "z": []}.get(nm, [2])
            cand = [want, want + [1], [3, 2], [2], []] if tier == "quick" else shapes3
            for sh in cand:
                for form in ("nested", "tensor", "patterned"):
                    ops = list(base) + [["new_finite_factor", nm, weights_spec(form, sh)],
                                        ["new_finite_factor", nm, weights_spec(form, sh, off=3)]] + shape_ops(["f", ["A", "B"], True], rng)[:2]
                    cases.append(("nff", dict(cls=cls, ops=ops)))
    # random longer histories
    nr = 150 if tier == "quick" else 3000
    for i in range(nr):
        ops = []
        for _ in range(rng.randint(4, 10)):
            r = rng.random()
            nl = rng.choice(NLS); d = rng.choice(list(DOMPOOL))
            t = [rng.choice(NLS) for _ in range(rng.choice([0, 1, 1, 2, 2, 3]))]
            en = rng.choice(["f", "g"])
            if r < 0.3: ops.append(["add_domain", nl, DOMPOOL[d]])
            elif r < 0.4: ops.append(["new_finite_domain", nl, rng.choice(["list", "gen", "tuple"]), DOMPOOL["D2"][2]])
            elif r < 0.5: ops.append(["add_edge_label", [en, t, rng.random() < 0.8]])
            elif r < 0.85:
                fd = [rng.choice(["D2", "D2c", "D3", "R2", "D2r"]) for _ in t]
                if rng.random() < 0.15 and fd: fd = fd[:-1]
                ops.append(["add_factor", [en, t, rng.random() < 0.85], fac_spec_for(fd, rng.random() < 0.2, off=rng.randint(1, 9))])
            elif r < 0.93:
                sh = [rng.choice([1, 2, 3]) for _ in t]
                ops.append(["new_finite_factor", en, weights_spec(rng.choice(["nested", "tensor", "patterned"]), sh)])
            else:
                ops.extend(rng.sample(shape_ops([en, t, True], rng), 1))
        cases.append(("hist", dict(cls=rng.choice(["FG", "FGG"]), ops=ops)))
    return cases

# ----------------------------------------------------------------------------

DOM_MSG = {1: "a FiniteDomain/RangeDomain answer violates C20_bijection (verified oracle bij_oracle / range_oracle / eq_oracle rejects it)"}
FAC_MSG = {1: "a FiniteFactor answer violates C20_shape (verified oracle ctor_oracle / apply_oracle / fac_eqb rejects it)"}
PFAC_MSG = {1: "a FiniteFactor with PatternedTensor weights violates C20_shape / C20_apply_patterned: the verified oracle (ctor_oracle / apply_oracle / fac_eqb) rejects an answer judged against the dense denotation that Coq computes from the weights' representation (physical, paxes, vaxes, default)"}
BIND_MSG = {1: "an InterpretationMixin call violates C20_binding (verified oracle bind_spec / domain_spec / shape_of rejects its outcome)"}

def judge(kind, cf, msgs, keys, items, vals, codes, violations, calls):
    for (gen, spec), v, c in zip(items, vals, codes):
        if c == 0: continue
        if c == 2:
            violations.append(Violation("harness produced an ill-formed %s case (verdict 2)" % kind, case=dict(kind=kind, spec=spec),
                                        corr="harness", failing_input_found=False, call=calls))
        elif c in msgs:
            violations.append(Violation(msgs[c], case=dict(kind=kind, spec=spec, generator=gen), observed=obs_summary(kind, v),
                                        oracle=cf.fn + " verdict %d" % c, corr="C20 / corr:" + cf.fn, call=calls,
                                        finding_key=keys.get(c)))
        else:
            violations.append(Violation("%s: implementation differs from the Gallina model (code %d) although no oracle rejects" % (kind, c),
                                        case=dict(kind=kind, spec=spec, generator=gen), observed=obs_summary(kind, v),
                                        corr="corr:" + cf.fn, failing_input_found=False, call=calls))

def obs_summary(kind, v):
    if kind == "dom": return dict(object=v[3][0], size=v[3][1], contains=v[3][2], numberize=v[3][3], denumberize=v[3][4], eq_ne=[e[1] for e in v[3][5]])
    if kind == "fac": return dict(ctor=v[1], applies=v[2], eq=[e[1] for e in v[3]])
    if kind == "pfac": return dict(domains=v[0], weights_representation=v[1], representation_afterwards=v[2], factor=v[3], applies=v[4], eq=[e[1] for e in v[5]])
    return dict(outcomes=[s[1] for s in v[1]])

RUNNERS = {"dom": (run_dom, DOM), "fac": (run_fac, FAC), "bind": (run_bind, BIND), "pfac": (run_pfac, FACP)}

MAX_REPORTED = 150                  # per non-zero verdict code

def run_model_c20(cf, values, seed, coq_sample=8):
    """All cases through the extracted driver.  Inside Coq (vm_compute, parallel shards):
    EVERY case whose non-zero verdict is going to be reported as a violation and a sample of the
    zero verdicts; both evaluations must agree.  Coq elaborates only ~10 kB of case text per
    second, so at most MAX_REPORTED cases (the smallest) per non-zero code are reported and
    re-evaluated; the others are only counted.
    Returns (codes, number re-evaluated, set of indices to report, {code: count not reported})."""
    codes = run_ocaml(cf, values)
    rng = random.Random(seed * 7919 + 13)
    idx = list(range(len(values)))
    size = {}
    def sz(i):
        if i not in size: size[i] = len(cf.ty.sexp(values[i]))
        return size[i]
    pick, report, dropped = set(), set(), {}
    for c in sorted({c for c in codes if c != 0}):
        bad = sorted((i for i in idx if codes[i] == c), key=sz)
        pick.update(bad[:MAX_REPORTED]); report.update(bad[:MAX_REPORTED])
        if len(bad) > MAX_REPORTED: dropped[c] = len(bad) - MAX_REPORTED
    rest = [i for i in idx if codes[i] == 0]
    rng.shuffle(rest)
    pick.update(sorted(rest[:3 * coq_sample], key=sz)[:coq_sample])     # random, biased to cases Coq elaborates quickly
    pick = sorted(pick)
    if pick:
        ccodes = run_coq(cf, [values[i] for i in pick], shard=(len(pick) if len(pick) <= 16 else 12), jobs=8, tag=cf.kind)
        for i, c in zip(pick, ccodes):
            if c != codes[i]:
                raise BuildError("extracted code and vm_compute disagree on %s case %d: %d vs %d" % (cf.kind, i, codes[i], c))
    return codes, len(pick), report, dropped

def nontrivial(kind, spec):
    if kind == "dom":
        d = spec["dom"]
        return (len(d[2]) >= 2) if d[0] == "finite" else (d[1] == "inf" or d[1] >= 2)
    if kind == "fac":
        return len(spec["fac"][1]) >= 1
    if kind == "pfac":
        return spec["base"][0] != "from_int"
    return sum(1 for o in spec["ops"] if o[0] in ("add_factor", "new_finite_factor")) >= 1 and len(spec["ops"]) >= 3

def run(tier, seed):
    import warnings
    warnings.filterwarnings("ignore")
    rng = random.Random(seed)
    violations = []
    gens = {"dom": gen_dom_cases(rng, tier), "fac": gen_fac_cases(rng, tier), "bind": gen_bind_cases(rng, tier),
            "pfac": gen_pfac_cases(rng, tier)}
    msgs = {"dom": (DOM_MSG, {}), "fac": (FAC_MSG, {}), "bind": (BIND_MSG, {}), "pfac": (PFAC_MSG, {})}
    calls = {"dom": "FiniteDomain(...)/RangeDomain(...): size, contains, numberize, denumberize, ==, !=",
             "fac": "FiniteFactor(doms, weights) / ConstantFactor; .apply(values); ==",
             "bind": "FactorGraph()/FGG('S'): add_domain, add_factor, new_finite_domain, new_finite_factor, shape, add_edge_label",
             "pfac": "f = FiniteFactor(doms, <PatternedTensor>); f.apply(values); f == g; f.weights = ...; in-place updates of f.weights; f.apply(values) again"}
    total = 0; nk_total = 0; hist = {}; distinct = 0; samples = []; verdicts = {}; unreported = {}
    seg_stats = {"unstored": 0, "all_stored": 0, "nonzero_default": 0}
    import time
    phase = {}; t_last = time.time()
    def lap(name):
        nonlocal t_last
        phase[name] = round(time.time() - t_last, 1); t_last = time.time()
    for kind in ("dom", "fac", "bind", "pfac"):
        runner, cf = RUNNERS[kind]
        items, vals = [], []
        for gen, spec in gens[kind]:
            try:
                if kind == "pfac":
                    segs = run_pfac_all(spec)
                    for j, v in enumerate(segs):
                        items.append((gen, dict(spec, segment=j))); vals.append(v)
                        hist[kind + ":" + gen] = hist.get(kind + ":" + gen, 0) + 1
                        if v[3][0] == "Ok":
                            unst = len(v[1][1]) < math.prod(U.a_numel(e) for e in v[1][2])
                            seg_stats["unstored" if unst else "all_stored"] += 1
                            if unst and v[1][3] != 0: seg_stats["nonzero_default"] += 1
                    continue
                v = runner(spec)
            except Exception as e:
                import traceback
                violations.append(Violation("harness could not run a %s case: %r" % (kind, e), case=dict(kind=kind, spec=spec),
                                            observed=traceback.format_exc()[-1500:], corr="harness", failing_input_found=False))
                continue
            items.append((gen, spec)); vals.append(v)
            hist[kind + ":" + gen] = hist.get(kind + ":" + gen, 0) + 1
        lap(kind + ":impl")
        codes, nk, report, dropped = run_model_c20(cf, vals, seed)
        for c, n in dropped.items(): unreported["%s:%d" % (kind, c)] = n
        lap(kind + ":model")
        nk_total += nk; total += len(vals)
        judge(kind, cf, msgs[kind][0], msgs[kind][1], items, vals,
              [c if i in report else 0 for i, c in enumerate(codes)], violations, calls[kind])
        for c in codes: verdicts["%s:%d" % (kind, c)] = verdicts.get("%s:%d" % (kind, c), 0) + 1
        distinct += len({json.dumps(spec, sort_keys=True, default=str) for _, spec in items if nontrivial(kind, spec)})
        if items:
            samples.append(dict(kind=kind, spec=items[len(items) // 2][1]))
            samples.append(dict(kind=kind, spec=items[-1][1]))
    cov = dict(evaluations=total, distinct_nontrivial=distinct,
               rule="dom: every value list of length <= 3 over {0, 1, 'a', None, True} (duplicates and the cross-type duplicate 1/True included) as list, tuple and generator; random domains of size 0..8 over 20 mixed hashable values given as list/tuple/generator/iterator/dict (20% with duplicates); RangeDomain sizes 0,1,2,3,5,inf; each with contains/numberize on members and non-members, denumberize on -n-2..n+1, ==/!= against 5-8 other domains. "
                    "fac: (domain sizes, weight shape) pairs up to rank 3 over sizes 0..3 (quick: all pairs with sizes <= 2, every matching pair, 400 sampled others; thorough: all 7225) in the forms nested list / Tensor / PatternedTensor (default dtype) and, for every matching pair and a seventh of the others, float64 Tensor / PatternedTensor with entries not representable in float32, plus eye/full patterned tensors, infinite domains and domains built from generators, malformed nested lists (ragged, mixed depth, empty rows); apply on every complete value tuple, prefixes, over-long and unknown values; == against 6-9 other factors. "
                    "pfac (weights = PatternedTensor, judged against the Gallina denotation of the observed representation): every pattern over typed shapes of rank 1-2 with dimension types unit/2/3/2x2/2+2/.. (shared axes = diagonals, SumAxis padding, products), defaults cycling through 1.75, -inf, 0, inf, -1, 7, 2.5; PatternedTensor.eye(1..4) in the Real/Log/Viterbi/Bool semirings, from_int, full, PatternedTensor(dense, default=d) incl. size-0 and size-1 dims; 220 random typed patterns (products, sums, one-hot dims, +-inf stored); 160 conversion chains (T, permute, clone, freshen, default_to, t[i], stack, unsqueeze, flatten, dim_to_dense, mul, add, expand); 60 shapes the setter must refuse; 110 histories on ONE factor object (f.weights = other, copy_, default re-assigned, physical.mul_, element overwritten, neg_, *=) with applies after every step.  Per segment: apply on every complete value tuple (<= 64; stored and unstored positions), prefixes, over-long, unknown values, a second round of applies, == against self / clone with equal-not-identical domains / dense copy / one element changed, representation of the weights before and after. "
                    "bind: every pairing of an edge label (terminal/nonterminal, type over {A,B}, arity 0..3) with a factor (domains over {D2, D3, R2}, arity 0..3) under pre-states (label unregistered / registered / clashing / nonterminal clash / already bound; node labels mapped to equal / different / no domain), all matching pairings under every pre-state, equal-by-content vs different domain in every position, new_finite_domain / new_finite_factor grids, random histories; FactorGraph and FGG alternate; shape() on label lists, tuples, node lists, EdgeLabel, Edge. "
                    "non-trivial = domain of size >= 2 (or range size >= 2), factor of rank >= 1, history with >= 3 calls including a factor binding; distinct by spec",
               samples=samples, patterned_weight_segments=seg_stats, phase_seconds=phase, generator_histogram=hist, verdict_histogram=verdicts, kernel_reevaluated=nk_total,
               kernel_policy="every reported violation is re-evaluated with vm_compute; zero verdicts are sampled",
               nonzero_verdicts_counted_but_not_reported=unreported,
               open_items=OPEN_ITEMS)
    return cov, violations

def replay(path):
    import warnings
    warnings.filterwarnings("ignore")
    r = json.load(open(path))
    c = r["case"]
    kind = c["kind"]
    runner, cf = RUNNERS[kind]
    v = runner(c["spec"])
    code = run_coq(cf, [v], tag="replay")[0]
    print("kind", kind, "spec", json.dumps(c["spec"]))
    print("implementation:", json.dumps(core_jsonable(obs_summary(kind, v)))[:3000])
    print("verdict code", code)
    return 1 if code else 0

def core_jsonable(x):
    from harness import core
    return core._jsonable(x)

MANIFEST = dict(
    level="proof",
    text="Coq theorems about a Gallina model that follows fggs/domains.py, fggs/factors.py and InterpretationMixin statement by statement: C20_bijection (numberize/denumberize mutually inverse between distinct values and 0..size-1, contains agrees, equality by content; RangeDomain on the integers), C20_shape (a FiniteFactor accepts exactly weights of shape map size domains; apply is the weight at the row-major position of the numberized values; factor equality by domains and elementwise weights), C20_binding (add_factor succeeds iff terminal, label table consistent, arities agree, every node label mapped to an equal domain, label not already bound), all at full strength for any iterable of values (F14 and F15 are repaired in /repo 19d007a / 7d2f845; their refutations are kept only about the explicitly named old definitions), C20_apply_patterned (weights given as a PatternedTensor of any pattern and default: a case accepted by facp_check has every complete apply equal to the element the representation denotes at the numberized position -- the stored element or the default; C20_pat_dense_at / _wf / C20_pat_at_unstored / _stored about the dense denotation computed in Coq), and RangeDomain.contains holds exactly for the ints a denumberize yields (repaired in /repo 973b650; Python values are modelled as equality class + isinstance-int flag).  No known finding is left.  The model is tied to /repo by running both on generated domains, factors and call histories; boolean oracles proved sound in Coq judge every implementation answer.",
    note="Trusted: Coq kernel + vm_compute, extraction cross-checked against vm_compute, the Python harness that canonicalises values (numbers to rationals, other hashables to codes by ==) and observes object attributes; PatternedTensor inputs are modelled by their dense denotation (fac: as to_dense() reports it; pfac: computed in Coq from the observed physical/paxes/vaxes/default).",
    technique="Coq proof (model + theorems) + model/implementation correspondence with verified-spec oracle",
    design_ref="DESIGN.md section 6, C20")
