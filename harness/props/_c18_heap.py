"""C18, clone clause: correspondence stream between the heap model (coq/theories/Model/Heap.v) and the
real PatternedTensor / MultiTensor objects.

An *abstract* operation sequence (plain data, references = indices into the list of live objects in
creation order) is executed on real objects; after every step the harness records
  (i)  the partition of the live PatternedTensors by physical.untyped_storage().data_ptr()
       (as: the first object with the same storage),
  (ii) the dense values and the default of every live PatternedTensor, the dictionary
       (key -> object) of every live MultiTensor,
  (iii) the outcome of the call (which object was returned: identity; bool; exception),
and the same sequence, concretised with the pattern-layer parameters the model needs (layouts,
selected physical positions, memory format of new tensors), is run through Model.HeapCheck.heap_check.
"""
import random, math
from harness.core import *

# ---------------------------------------------------------------------------------------------
# wire types
Lay = List(Option(Nat))
Prm = Tup(Lay, List(Nat))
Prms = List(Tup(Nat, Prm))
OpT = Sum("op", "Heap", {
    "ONew": Tup(List(ZZ), List(Nat), Lay, ZZ),
    "OClone": Nat,
    "OMap": Tup(Nat, Nat),
    "OCopy": Tup(Nat, Nat),
    "OView": Tup(Nat, Lay),
    "OExpand": Tup(Nat, Nat, Lay),
    "OGetItem": Tup(Nat, List(Nat), Lay),
    "OFull": Tup(Nat, Nat),
    "OIter": Tup(Nat, Option(Tup(Nat, Lay)), List(Tup(List(Nat), Lay))),
    "ODefaultTo": Tup(Nat, ZZ, List(Nat)),
    "OTo": Tup(Nat, Nat),
    "OToDense": Tup(Nat, List(Nat)),
    "OProject": Tup(Nat, Nat, Lay),
    "OBin": Tup(Nat, Nat, Nat, Prm),
    "OMNew": None,
    "OMSet": Tup(Nat, Nat, Nat),
    "OMGet": Tup(Nat, Nat, Nat),
    "OMDel": Tup(Nat, Nat),
    "OMAddSingle": Tup(Nat, Nat, Nat, Prm),
    "OMIadd": Tup(Nat, Nat, Prms),
    "OMIsub": Tup(Nat, Nat, Prms),
    "OMMaximum": Tup(Nat, Nat, Prms),
    "OMCopy": Tup(Nat, Nat),
    "OMClone": Nat,
    "OMAllclose": Tup(Nat, Nat),
})
ObsT = Tup(Nat, Nat, List(ZZ), ZZ, List(Tup(Nat, Nat)))
StepT = Tup(OpT, Tup(Nat, List(Nat)), List(ObsT))
HEAP = CheckFn("heap", "Model.HeapCheck", "heap_check", List(StepT), imports=["Model.Heap"])

KEYS = [0, 1, 2]
SHAPES = [(2, 3), (2, 2), (3,), (2,), (3, 3)]
UMAPS = {0: "neg_", 1: "abs_", 2: "relu_", 3: "nan_to_num_", 4: "imul2", 5: "imul3"}
BOPS = {0: "add", 4: "sub", 2: "mul", 3: "maximum"}
BIG = 10 ** 15      # sentinel for a non-integral / unreadable value

# ---------------------------------------------------------------------------------------------
# reading real objects

def _sp(t):
    return t.untyped_storage().data_ptr()

def tensor_cells(t):
    """storage offsets of the elements of t in logical (row-major) order, relative to the storage"""
    import itertools
    off = t.storage_offset(); st = t.stride(); sh = tuple(t.shape)
    return [off + sum(i * s for i, s in zip(idx, st)) for idx in itertools.product(*[range(n) for n in sh])]

def layout_of_pattern(paxes, vaxes):
    """for every dense position the position (row-major over paxes) of the physical element backing
    it, or None (default); computed by the library's own to_dense on a probe (pattern layer: C05)"""
    import torch
    from fggs.indices import PatternedTensor
    psize = tuple(k._numel for k in paxes)
    n = 1
    for s in psize: n *= s
    probe = PatternedTensor(torch.arange(n, dtype=torch.float64).reshape(psize), tuple(paxes), tuple(vaxes), -1.0)
    d = probe.to_dense().reshape(-1).tolist()
    return [None if v < 0 else int(v) for v in d], n

def layout_of(pt):
    return layout_of_pattern(pt.paxes, pt.vaxes)[0]

def to_int(v):
    try:
        v = float(v)
        if v != v or v in (float("inf"), float("-inf")) or not v.is_integer() or abs(v) >= BIG: return BIG
        return int(v)
    except Exception:
        return BIG

def dense_vals(pt):
    try:
        return [to_int(v) for v in pt.to_dense().reshape(-1).tolist()]
    except Exception:
        return [BIG]

class World:
    """the live objects of one sequence"""
    def __init__(self, shape):
        import torch, fggs
        from fggs.multi import MultiTensor
        self.shape = tuple(shape)
        self.numel = 1
        for s in shape: self.numel *= s
        self.objs = []           # every object ever made (kept alive: storages are never freed)
        self.ids = {}            # id(obj) -> ref
        self.sem = fggs.RealSemiring(dtype=torch.float64)
        self.shapes = {k: torch.Size(shape) for k in KEYS}

    def is_pt(self, r):
        from fggs.indices import PatternedTensor
        return isinstance(self.objs[r], PatternedTensor)
    def ref_of(self, o):
        return self.ids.get(id(o))
    def register(self, o):
        r = self.ids.get(id(o))
        if r is None:
            r = len(self.objs); self.objs.append(o); self.ids[id(o)] = r
        return r
    def vshape(self, r):
        return tuple(self.objs[r].size())
    def dt(self, r):
        import torch
        return 0 if self.objs[r].physical.dtype == torch.float64 else 1
    def in_some_mt(self, r):
        o = self.objs[r]
        return any((not self.is_pt(m)) and any(v is o for v in self.objs[m]._dict.values()) for m in range(len(self.objs)))
    def maxabs(self, r):
        d = dense_vals(self.objs[r]) + [to_int(self.objs[r].default)]
        return max(abs(v) for v in d)

    def observe(self):
        from fggs.indices import PatternedTensor
        obs = []; first = {}
        for r, o in enumerate(self.objs):
            if isinstance(o, PatternedTensor):
                p = _sp(o.physical)
                rep = first.setdefault(p, r)
                obs.append((0, rep, dense_vals(o), to_int(o.default), []))
            else:
                d = []
                for k, v in o._dict.items():
                    d.append((k, self.register(v)))     # an element the harness did not know is registered (and then differs from the model)
                obs.append((1, 0, [], 0, d))
        if len(obs) != len(self.objs):                   # registration during the loop: observe again
            return self.observe()
        return obs

# ---------------------------------------------------------------------------------------------
# executing one abstract operation: returns (wire_op, outcome) and registers new objects in the
# order in which the model allocates them

def _new_tensor(w, a):
    import torch
    from fggs.indices import PatternedTensor, PhysicalAxis, SumAxis
    vals = [float(v) for v in a["vals"]]; d = float(a["dflt"]); pat = a["pat"]; S = w.shape
    if pat == "dense":
        return PatternedTensor(torch.tensor(vals, dtype=torch.float64).reshape(S), default=d)
    if pat == "dense_t":          # physical with permuted strides (a transposed contiguous tensor)
        base = torch.tensor(vals, dtype=torch.float64).reshape(tuple(reversed(S)))
        return PatternedTensor(base.permute(*reversed(range(len(S)))), default=d)
    if pat == "pat_t":            # physical (b, a) read through vaxes (k2, k1)
        ks = [PhysicalAxis(n) for n in reversed(S)]
        return PatternedTensor(torch.tensor(vals, dtype=torch.float64).reshape(tuple(reversed(S))), tuple(ks), tuple(reversed(ks)), d)
    if pat == "diag":
        k = PhysicalAxis(S[0])
        return PatternedTensor(torch.tensor(vals, dtype=torch.float64), (k,), (k, k), d)
    if pat == "sum":              # 1-D embedding: one default element in front
        k = PhysicalAxis(S[0] - 1)
        return PatternedTensor(torch.tensor(vals, dtype=torch.float64), (k,), (SumAxis(1, k, 0),), d)
    if pat == "row":              # every row the same: physical (b,), vaxes (new axis, k) through expand of the library
        return PatternedTensor(torch.tensor(vals, dtype=torch.float64), default=d)
    raise ValueError(pat)

def new_pattern_numel(shape, pat):
    n = 1
    for s in shape: n *= s
    if pat in ("dense", "dense_t", "pat_t"): return n
    if pat == "diag": return shape[0]
    if pat == "sum": return shape[0] - 1
    raise ValueError(pat)

def patterns_for(shape):
    ps = ["dense", "dense"]
    if len(shape) == 2: ps += ["dense_t", "pat_t"]
    if len(shape) == 2 and shape[0] == shape[1]: ps += ["diag", "diag"]
    if len(shape) == 1 and shape[0] >= 2: ps += ["sum"]
    return ps

class Skip(Exception):
    """the abstract operation cannot be executed in this world (replay of a shrunk sequence)"""

def execute(w, a):
    """run abstract op a on world w.  Returns (wire op, outcome (tag, refs), exception name or None)."""
    import torch
    from fggs.indices import PatternedTensor, PhysicalAxis, unitAxis
    from fggs.multi import MultiTensor
    op = a["op"]
    O = w.objs
    def pt(r):
        if r is None or r >= len(O) or not w.is_pt(r): raise Skip()
        return O[r]
    def mt(r):
        if r is None or r >= len(O) or w.is_pt(r): raise Skip()
        return O[r]
    def one(res):
        return (1, [w.register(res)])
    exc = None
    if op == "new":
        t = _new_tensor(w, a)
        wire = ("ONew", ([to_int(v) for v in t.physical.reshape(-1).tolist()], tensor_cells(t.physical), layout_of(t), to_int(t.default)))
        return wire, one(t), None
    if op == "clone":
        x = pt(a["x"]); return ("OClone", a["x"]), one(x.clone()), None
    if op == "map":
        x = pt(a["x"]); f = a["f"]
        try:
            if f == 0: x.neg_()
            elif f == 1: x.abs_()
            elif f == 2: x.relu_()
            elif f == 3: x.nan_to_num_()
            elif f == 4: x *= 2.
            elif f == 5: x *= 3.
            out = (0, [])
        except RuntimeError as e:
            out = (4, []); exc = type(e).__name__
        return ("OMap", (f, a["x"])), out, exc
    if op == "copy":
        d = pt(a["dst"]); s = pt(a["src"])
        d.copy_(s)
        return ("OCopy", (a["dst"], a["src"])), (0, []), None
    if op == "view":
        x = pt(a["x"]); k = a["kind"]; nd = x.ndim
        if k == "T": r = x.T
        elif k == "t":
            if nd > 2: raise Skip()
            r = x.t()
        elif k == "transpose":
            if nd < 2: raise Skip()
            r = x.transpose(0, nd - 1)
        elif k == "permute": r = x.permute(tuple(reversed(range(nd))))
        elif k == "flatten": r = x.flatten()
        elif k == "unsqueeze": r = x.unsqueeze(a.get("dim", 0) % (nd + 1))
        elif k == "freshen": r = x.freshen()
        elif k == "detach": r = x.detach()
        else: raise ValueError(k)
        if r is x:                # t()/flatten()/transpose on a short shape return self
            return ("ODefaultTo", (a["x"], to_int(x.default), [])), (1, [a["x"]]), None
        return ("OView", (a["x"], layout_of(r))), one(r), None
    if op == "expand":
        x = pt(a["x"]); n = a["n"]
        r = x.expand(n, *x.size())
        return ("OExpand", (a["x"], n, layout_of(r))), one(r), None
    if op == "getitem":
        x = pt(a["x"]); vis = tuple(a["idx"])
        if len(vis) > x.ndim or any(i >= e.numel() for i, e in zip(vis, x.vaxes)): raise Skip()
        pi = {}; hit = True
        for e, vi in zip(x.vaxes, vis):
            if not e.index(pi, vi): hit = False; break
        r = x[vis]
        if hit:
            psize = tuple(k._numel for k in x.paxes); n = 1
            for s in psize: n *= s
            sel = torch.arange(n).reshape(psize)[tuple(pi.get(k, slice(None)) for k in x.paxes)].reshape(-1).tolist()
            return ("OGetItem", (a["x"], sel, layout_of(r))), one(r), None
        return ("OFull", (a["x"], r.numel())), one(r), None
    if op == "iter":
        x = pt(a["x"])
        if x.ndim == 0: raise Skip()
        vaxes = list(x.vaxes); e0 = vaxes.pop(0); rename = {}
        vaxes = [e.freshen(rename) for e in vaxes]
        same = (e0 == unitAxis) or (isinstance(e0, PhysicalAxis) and e0 not in rename)
        b = x if same else x.dim_to_dense(0)           # a second, harness-side evaluation of the library's own choice
        fr = None if same else (b.physical.numel(), layout_of(b))
        psize = tuple(k._numel for k in b.paxes); n = 1
        for s in psize: n *= s
        res = list(iter(x))
        k = b.vaxes[0]
        if isinstance(k, PhysicalAxis):
            i = list(b.paxes).index(k)
            perm = (i, *range(0, i), *range(i + 1, len(b.paxes)))
            ar = torch.arange(n).reshape(psize).permute(perm)
            sels = [ar[j].reshape(-1).tolist() for j in range(k._numel)]
        else:
            sels = [list(range(n))]
        if len(sels) != len(res): sels = (sels + [[]] * len(res))[:len(res)]
        items = [(s, layout_of(r)) for s, r in zip(sels, res)]
        refs = [w.register(r) for r in res]
        return ("OIter", (a["x"], fr, items)), (1, refs), None
    if op == "default_to":
        x = pt(a["x"]); d = a["d"]
        r = x.default_to(float(d))
        if r is x: return ("ODefaultTo", (a["x"], d, [])), (1, [a["x"]]), None
        return ("ODefaultTo", (a["x"], d, tensor_cells(r.physical))), one(r), None
    if op == "to":
        x = pt(a["x"]); dt = a["dt"]
        r = x.to(torch.float64 if dt == 0 else torch.float32)
        return ("OTo", (a["x"], dt)), one(r), None
    if op == "to_dense":
        x = pt(a["x"]); t = x.to_dense()
        r = PatternedTensor(t)
        return ("OToDense", (a["x"], tensor_cells(t))), one(r), None
    if op == "project":
        x = pt(a["x"])
        if a["kind"] == "diag":
            if x.ndim != 2 or x.size()[0] != x.size()[1]: raise Skip()
            k = PhysicalAxis(x.size()[0]); paxes = (k,); vaxes = (k, k)
        else:
            paxes = tuple(x.paxes); vaxes = tuple(x.vaxes)
        lay, n = layout_of_pattern(paxes, vaxes)
        t = x.project(paxes, vaxes)
        r = PatternedTensor(t)
        return ("OProject", (a["x"], n, lay)), one(r), None
    if op == "bin":
        x = pt(a["x"]); y = pt(a["y"]); b = a["b"]
        if x.size() != y.size() or x.physical.dtype != y.physical.dtype: raise Skip()
        r = getattr(x, BOPS[b])(y)
        return ("OBin", (b, a["x"], a["y"], (layout_of(r), tensor_cells(r.physical)))), one(r), None
    if op == "mnew":
        m = MultiTensor(w.shapes, w.sem)
        return ("OMNew",), one(m), None
    if op == "mset":
        m = mt(a["m"]); x = pt(a["x"])
        if tuple(x.size()) != w.shape: raise Skip()
        m[a["k"]] = x
        return ("OMSet", (a["m"], a["k"], a["x"])), (0, []), None
    if op == "mget":
        m = mt(a["m"])
        r = m.get(a["k"]) if a.get("via_get") else m[a["k"]]
        return ("OMGet", (a["m"], a["k"], w.numel)), one(r), None
    if op == "mdel":
        m = mt(a["m"])
        try:
            del m[a["k"]]; out = (0, [])
        except KeyError as e:
            out = (4, []); exc = "KeyError"
        return ("OMDel", (a["m"], a["k"])), out, exc
    def prm_of(r):
        return (layout_of(r), tensor_cells(r.physical))
    if op == "madd_single":
        m = mt(a["m"]); x = pt(a["x"]); k = a["k"]
        if tuple(x.size()) != w.shape or w.dt(a["x"]) != 0: raise Skip()
        had = k in m
        m.add_single(k, x)
        prm = prm_of(m._dict[k]) if had else ([], [])
        if had: w.register(m._dict[k])
        return ("OMAddSingle", (a["m"], k, a["x"], prm)), (0, []), None
    if op in ("miadd", "misub", "mmax"):
        m = mt(a["m"]); n = mt(a["n"])
        keys = list(n._dict.keys()); had = {k: (k in m) for k in keys}
        try:
            if op == "miadd": m += n
            elif op == "misub": m -= n
            else: m.maximum_(n)
            out = (0, [])
        except Exception as e:
            out = (4, []); exc = type(e).__name__
        prms = []
        for k in keys:
            if k in m._dict and w.ref_of(m._dict[k]) is None:
                prms.append((k, prm_of(m._dict[k]))); w.register(m._dict[k])
        name = {"miadd": "OMIadd", "misub": "OMIsub", "mmax": "OMMaximum"}[op]
        return (name, (a["m"], a["n"], prms)), out, exc
    if op == "mcopy":
        m = mt(a["m"]); n = mt(a["n"])
        keys = list(n._dict.keys())
        try:
            m.copy_(n); out = (0, [])
        except RuntimeError as e:
            out = (4, []); exc = type(e).__name__
        for k in keys:
            if k in m._dict: w.register(m._dict[k])
        return ("OMCopy", (a["m"], a["n"])), out, exc
    if op == "mclone":
        m = mt(a["m"])
        c = m.clone()
        out = one(c)
        for k in m._dict.keys():
            if k in c._dict: w.register(c._dict[k])
        return ("OMClone", a["m"]), out, None
    if op == "mallclose":
        m = mt(a["m"]); n = mt(a["n"])
        try:
            b = m.allclose(n, 0); out = (2 if b else 3, [])
        except AssertionError:
            out = (4, []); exc = "AssertionError"
        return ("OMAllclose", (a["m"], a["n"])), out, exc
    raise ValueError(op)

# ---------------------------------------------------------------------------------------------
# generator (online: it looks at the live world to choose executable operations)

OPW = [("new", 6), ("clone", 10), ("map", 16), ("copy", 10), ("view", 8), ("expand", 2), ("getitem", 4), ("iter", 2),
       ("default_to", 2), ("to", 2), ("to_dense", 2), ("project", 2), ("bin", 5),
       ("mnew", 3), ("mset", 6), ("mget", 4), ("mdel", 1), ("madd_single", 5), ("miadd", 4), ("misub", 2), ("mmax", 2),
       ("mcopy", 6), ("mclone", 5), ("mallclose", 2)]

OPW_MT = [("new", 5), ("clone", 4), ("map", 10), ("copy", 5), ("view", 4), ("getitem", 1), ("to_dense", 1), ("bin", 2), ("default_to", 1),
          ("mnew", 4), ("mset", 10), ("mget", 8), ("mdel", 2), ("madd_single", 9), ("miadd", 8), ("misub", 4), ("mmax", 7),
          ("mcopy", 12), ("mclone", 10), ("mallclose", 4)]

def propose(rng, w, focus, opw=None):
    """one abstract operation executable in w (or None).  focus: refs preferred as targets (objects
    derived from the latest clone), so that the clone clause is exercised by long in-discipline runs"""
    pts = [r for r in range(len(w.objs)) if w.is_pt(r)]
    mts = [r for r in range(len(w.objs)) if not w.is_pt(r)]
    base = [r for r in pts if w.vshape(r) == w.shape and w.dt(r) == 0]
    def pick(l):
        f = [r for r in l if r in focus]
        return rng.choice(f) if f and rng.random() < 0.6 else rng.choice(l)
    kinds = [k for k, wt in (opw or OPW) for _ in range(wt)]
    for _ in range(20):
        op = rng.choice(kinds)
        if op == "new":
            pat = rng.choice(patterns_for(w.shape))
            n = new_pattern_numel(w.shape, pat)
            return dict(op="new", pat=pat, vals=[rng.randint(-3, 3) for _ in range(n)], dflt=rng.choice([0, 0, 0, 1, -2]))
        if op == "mnew": return dict(op="mnew")
        if not pts: continue
        if op == "clone": return dict(op="clone", x=pick(pts))
        if op == "map":
            x = pick(pts); f = rng.choice([0, 0, 1, 2, 3, 4, 4, 5])
            if f in (4, 5) and w.maxabs(x) > 10 ** 5: f = 0
            return dict(op="map", f=f, x=x)
        if op == "copy":
            d = pick(pts)
            cands = [s for s in pts if w.vshape(s) == w.vshape(d)]
            if w.in_some_mt(d): cands = [s for s in cands if w.dt(s) == 0]
            # torch's copy_ between overlapping views of one storage is unspecified: only the same object or other storages
            cands = [s for s in cands if (s == d and w.objs[d].physical.is_contiguous()) or _sp(w.objs[s].physical) != _sp(w.objs[d].physical)]
            if not cands: continue
            # the branch that rebinds the physical: another element count or dtype
            diff = [s for s in cands if w.objs[s].physical.numel() != w.objs[d].physical.numel() or w.dt(s) != w.dt(d)]
            return dict(op="copy", dst=d, src=rng.choice(diff) if diff and rng.random() < 0.4 else rng.choice(cands))
        if op == "view":
            return dict(op="view", x=pick(pts), kind=rng.choice(["T", "t", "transpose", "permute", "flatten", "unsqueeze", "freshen", "detach"]), dim=rng.randint(0, 2))
        if op == "expand":
            x = pick(pts)
            if w.objs[x].ndim >= 3: continue
            return dict(op="expand", x=x, n=2)
        if op == "getitem":
            x = pick(pts); sh = w.vshape(x)
            if not sh: continue
            nidx = rng.randint(1, len(sh))
            return dict(op="getitem", x=x, idx=[rng.randrange(sh[i]) for i in range(nidx)])
        if op == "iter":
            x = pick(pts)
            if not w.vshape(x): continue
            return dict(op="iter", x=x)
        if op == "default_to":
            x = pick(pts); d0 = to_int(w.objs[x].default)
            return dict(op="default_to", x=x, d=rng.choice([d0, d0, 0, 1, -1]))
        if op == "to":
            x = pick(pts)
            if w.in_some_mt(x) and False: continue
            return dict(op="to", x=x, dt=rng.choice([w.dt(x), w.dt(x), 1 - w.dt(x)]))
        if op == "to_dense": return dict(op="to_dense", x=pick(pts))
        if op == "project":
            x = pick(pts); sh = w.vshape(x)
            return dict(op="project", x=x, kind="diag" if len(sh) == 2 and sh[0] == sh[1] and rng.random() < 0.5 else "self")
        if op == "bin":
            x = pick(pts)
            ys = [y for y in pts if w.vshape(y) == w.vshape(x) and w.dt(y) == w.dt(x)]
            b = rng.choice([0, 0, 4, 2, 3])
            y = rng.choice(ys)
            if w.maxabs(x) > (10 ** 3 if b == 2 else 10 ** 5) or w.maxabs(y) > (10 ** 3 if b == 2 else 10 ** 5): continue
            return dict(op="bin", b=b, x=x, y=y)
        if not mts: continue
        if op == "mset":
            if not base: continue
            return dict(op="mset", m=pick(mts), k=rng.choice(KEYS), x=pick(base))
        if op == "mget": return dict(op="mget", m=pick(mts), k=rng.choice(KEYS), via_get=rng.random() < 0.3)
        if op == "mdel":
            m = pick(mts); ks = list(w.objs[m]._dict.keys()) or KEYS
            return dict(op="mdel", m=m, k=rng.choice(ks + [rng.choice(KEYS)]))
        def mt_ok(m):     # elements in the base shape and dtype, small
            return all(w.vshape(w.ref_of(v)) == w.shape and w.dt(w.ref_of(v)) == 0 and w.maxabs(w.ref_of(v)) <= 10 ** 5
                       for v in w.objs[m]._dict.values() if w.ref_of(v) is not None)
        if op == "madd_single":
            m = pick(mts)
            if not base or not mt_ok(m): continue
            return dict(op="madd_single", m=m, k=rng.choice(KEYS), x=pick(base))
        def other_for(m):
            # prefer a second MultiTensor with a key that m lacks (the branch that stores / clones an element)
            more = [n for n in mts if set(w.objs[n]._dict) - set(w.objs[m]._dict)]
            return rng.choice(more) if more and rng.random() < 0.75 else rng.choice(mts)
        if op in ("miadd", "misub", "mmax", "mallclose"):
            m = pick(mts); n = other_for(m)
            if not (mt_ok(m) and mt_ok(n)): continue
            return dict(op=op, m=m, n=n)
        if op == "mcopy":
            m = pick(mts); n = other_for(m)
            if not mt_ok(n): continue
            # elements of m that share a storage with the corresponding element of n in a different view: unspecified in torch
            bad = False
            for k, v in w.objs[m]._dict.items():
                u = w.objs[n]._dict.get(k)
                if u is not None and _sp(u.physical) == _sp(v.physical) and not (u is v and v.physical.is_contiguous()): bad = True
            if bad: continue
            return dict(op="mcopy", m=m, n=n)
        if op == "mclone": return dict(op="mclone", m=pick(mts))
    return None

MUTATING = ("map", "copy", "mset", "mdel", "madd_single", "miadd", "misub", "mmax", "mcopy")

def gen_sequence(rng, length):
    """generate and execute a sequence; returns (shape, abstract ops with their created refs, wire steps, exception names)"""
    shape = rng.choice(SHAPES)
    w = World(shape)
    ops, steps, excs = [], [], []
    focus = set()
    # a useful start: two tensors (and often a MultiTensor holding one of them)
    pre = [dict(op="new", pat=rng.choice(patterns_for(shape)), vals=None, dflt=rng.choice([0, 0, 1]))]
    for a in pre:
        a["vals"] = [rng.randint(-3, 3) for _ in range(new_pattern_numel(shape, a["pat"]))]
    mt_flavour = rng.random() < 0.5
    if mt_flavour:
        pre.append(dict(op="mnew"))
        pre.append(dict(op="mset", m=1, k=rng.choice(KEYS), x=0))
        length += 2
    queue = list(pre)
    while len(ops) < length:
        a = queue.pop(0) if queue else propose(rng, w, focus, OPW_MT if mt_flavour else None)
        if a is None: break
        n0 = len(w.objs)
        try:
            wire, out, exc = execute(w, a)
        except Skip:
            continue
        except Exception as e:
            # the model predicts no exception here (the modelled ones are caught inside execute)
            crash = dict(exception=repr(e)[:300], operation=a, after=[{k: v for k, v in o.items() if k != "on_clone"} for o in ops], shape=list(shape))
            return shape, ops, steps, excs + [crash]
        obs = w.observe()
        a = dict(a); a["res"] = list(range(n0, len(w.objs)))
        tgt = a.get("dst", a.get("m", a.get("x"))) if a["op"] in MUTATING else None
        a["on_clone"] = bool(tgt is not None and tgt in focus)
        ops.append(a); steps.append((wire, out, obs)); excs.append(exc)
        if a["op"] in ("clone", "mclone"): focus = set(a["res"])
        elif focus and any(a.get(f) in focus for f in ("x", "m", "dst")): focus |= set(a["res"])
    return shape, ops, steps, excs

def replay_sequence(shape, ops):
    """re-execute abstract ops (possibly a subsequence of a recorded run): references are renamed
    through the recorded 'res' lists; operations that are no longer executable are dropped"""
    w = World(shape)
    ren = {}
    kept, steps = [], []
    for a in ops:
        b = dict(a); ok = True
        for f in ("x", "y", "m", "n", "dst", "src"):
            if f in b:
                if b[f] not in ren: ok = False; break
                b[f] = ren[b[f]]
        if not ok: continue
        n0 = len(w.objs)
        try:
            wire, out, exc = execute(w, b)
        except Skip:
            continue
        except Exception:
            continue
        obs = w.observe()
        for old, new in zip(a.get("res", []), range(n0, len(w.objs))): ren[old] = new
        kept.append(a); steps.append((wire, out, obs))
    return kept, steps

def shrink(shape, ops, code, evaluate, budget=40):
    """greedy one-operation removal keeping a non-zero verdict of the same class"""
    def bad(c): return c != 0 and ((c < 10) == (code < 10))
    kept, steps = replay_sequence(shape, ops)
    c = evaluate(steps)
    if not bad(c): return ops, None, c
    cur = kept
    # cut after the first failing step
    for n in range(1, len(cur) + 1):
        k2, s2 = replay_sequence(shape, cur[:n])
        if bad(evaluate(s2)): cur = k2; break
    i = len(cur) - 2
    while i >= 0 and budget > 0:
        budget -= 1
        cand = cur[:i] + cur[i + 1:]
        k2, s2 = replay_sequence(shape, cand)
        if bad(evaluate(s2)): cur = k2
        i -= 1
    kept, steps = replay_sequence(shape, cur)
    return kept, steps, evaluate(steps)
