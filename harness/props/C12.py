"""C12 -- results do not depend on how the grammar is written down."""
import random, json, warnings
from fractions import Fraction
from harness.core import *
from harness import gen
from harness.props._sp_util import *
from harness.props import C01, C02, C03, C04
from harness.props import _c12_util as TW

PID = "C12"
LEVEL = "proof"
CHECKFNS = C01.CHECKFNS + C02.CHECKFNS + C04.CHECKFNS + C03.CHECKFNS
GLUE_PREAMBLE = ""     # C04 provides d_dtree
ASSUMPTIONS = [
    "a presentation = permuted rule list, permuted node positions and edge order inside every rule, permuted label indices (label-table insertion order), random label names (hash order of sets), explicit/implicit/mixed ids, permuted domain values together with the factor axes",
    "each presentation's results are mapped back to the canonical indexing and judged in Coq against the canonical grammar's model (C01/C02 check functions); the Viterbi derivation is judged on the presentation itself (C04 check function)",
    "twin rules (harness/props/_c12_util.py): random specs in which 1..3 rules get a twin with the same lhs and the same edge list but other external nodes (order / choice), an added or dropped isolated node, or nothing changed (duplicate); recursive specs get a forced cycle and the twin is preferably a constant rule of a cyclic nonterminal; each twinned spec is built through {direct objects, JSON dict -> json_to_hrg, hrg_to_json round trip, FGG.copy} x id styles {restarting in every rule, globally distinct, implicit, the same Node/Edge objects shared by all rules (explicit or implicit ids)} with shuffled rule order and call histories (same call twice, another method first), and every result is judged in Coq against the twinned spec's own model (C01/C02; Viterbi by C04, gradients by C03 with ids restarting in every rule); recursive specs whose run with globally distinct ids warns, is infinite or has an unproductive cycle are discarded (input selection only)",
    "gradients: on a subset of the grammars (weights made strictly positive) every presentation's gradient is judged by C03's dual-number check on the presentation itself, and so are Log-semiring gradients of presentations (rule order permuted) of C03's grammars with a rule whose sum-product is structurally zero (a dead rule inside a recursive component, and the minimal non-recursive one); by C12_grad_presentation / C12_dual_presentation (C12_presentation at the dual semiring) the derivative of every Kleene iterate with respect to the moved weight entry is invariant, and so is the reverse accumulation of non-recursive grammars (C12_backward_nonrec_presentation)",
    "recursive grammars: C12_lfp_presentation / C12_lfp_value_presentation / C12_enclosure_presentation: least fixed points and certified enclosures of G and of any presentation correspond (iff), so judging the mapped-back result against the canonical grammar's C02 enclosure is judging the presentation's own least fixed point; Viterbi: C12_tree_presentation, C12_viterbi_derivation_presentation, C12_viterbi_optimum_presentation",
]

def run(tier, seed):
    rng = random.Random(seed)
    n = int(os.environ.get("VERIF_N", 0)) or (55 if tier == "quick" else 1500)
    k_pres = 4 if tier == "quick" else 8
    violations = []
    nonrec = {k: [] for k in C01.CF}; nonrec_meta = {k: [] for k in C01.CF}
    rec = {k: [] for k in C02.CF}; rec_meta = {k: [] for k in C02.CF}
    vit = []; vit_meta = []
    distinct = set(); npres = 0
    for i in range(n):
        recursive = (i % 3 == 2)
        if recursive:
            spec = gen.random_spec(rng, recursive=True, linear=rng.choice([None, False, True, True]), allow_inf=False, max_nt=3, max_rules=3, max_nodes=3, max_edges=3, max_dom=2, dup_ext=False)
            spec["weights"] = {el: gen.nested_map(w, lambda v: v if v <= 1 else Fraction(1, 2)) for el, w in spec["weights"].items()}
            configs = C02.CONFIGS2
        else:
            spec = gen.random_spec(rng, recursive=False, dup_ext=(i % 2 == 0))
            configs = CONFIGS
        distinct.add(json.dumps(gen.spec_jsonable(spec), sort_keys=True))
        gw = grammar_wire(spec)
        for p in range(k_pres):
            spec2, names, back = gen.present(spec, rng)
            npres += 1
            sr = configs[(i + p) % len(configs)]
            method = C01.METHODS[(i + 2 * p) % 3]
            ids = ["explicit", "implicit", "mixed"][p % 3]
            case = dict(spec=gen.spec_jsonable(spec), presentation=gen.spec_jsonable(spec2), names={"%s%d" % k: v for k, v in names.items()},
                        perm=back.perm, semiring=repr(sr), method=method, ids=ids, recursive=recursive)
            import fggs
            try:
                b = gen.build_fgg(spec2, sr.wconv, ids=ids, rng=rng, dtype=sr.torch_dtype(), names=names)
                with warnings.catch_warnings(record=True) as wl:
                    warnings.simplefilter("always")
                    raised = False
                    try:
                        if recursive:
                            res = fggs.sum_products(b.fgg, method=method, semiring=sr.semiring(), tol=1e-10 if sr.name in ("real", "log") else 1e-6, kmax=400)
                        else:
                            res = fggs.sum_products(b.fgg, method=method, semiring=sr.semiring())
                    except ValueError as e:
                        if "not linearly recursive" not in str(e): raise
                        raised = True; res = {}
                warned = any("maximum iteration exceeded" in str(w.message) for w in wl)
                out2 = {}
                for i2, e in enumerate(spec2["elabels"]):
                    if e["term"] or b.els[i2] not in res: continue
                    if recursive and sr.name != "bool":
                        out2[i2] = [sr.obs(x, Fraction(1, 10**6), Fraction(1, 10**7)) for x in dense_list(res[b.els[i2]])]
                    else:
                        out2[i2] = [sr.obs(x) for x in dense_list(res[b.els[i2]])]
                obs = sorted(back(out2).items())
            except Exception as e:
                violations.append(Violation("sum_products raised %r on a presentation" % (e,), case=case, corr="corr:presentation", call="fggs.sum_products",
                                            oracle="no exception expected"))
                continue
            if recursive:
                mi = C01.METHODS.index(method)
                rec[sr.carrier()].append((gw, weights_wire(spec, sr), (mi, 3, Fraction(1, 10**6)), C02.K_ENCL, (raised, warned, (not warned) and (not raised), obs)))
                rec_meta[sr.carrier()].append(case)
            else:
                nonrec[sr.carrier()].append((gw, weights_wire(spec, sr), obs))
                nonrec_meta[sr.carrier()].append(case)
            # viterbi on the presentation itself (weights must be <= 0 in log space; skip dup externals)
            if "dup_ext" not in spec["features"] and all(v != "inf" and v <= 1 for w in spec["weights"].values() for v in gen.flat(w)):
                st = spec2["elabels"][spec2["start"]]["type"]
                xi = [rng.randrange(spec2["nlabels"][nl]) for nl in st]
                try:
                    b2 = None
                    spv, tree, dw = C04.run_impl(spec2, xi, ids=ids, rng=rng)
                    if isinstance(tree, tuple) and tree[0] == "exc":
                        o = (1, C04.DUMMY, (0, Fraction(0)), C04.SRV.obs(spv))
                    else:
                        o = (0, tree, C04.tv(dw) if not isinstance(dw, tuple) else (2, Fraction(0)), C04.SRV.obs(spv))
                    vit.append((grammar_wire(spec2), weights_wire(spec2, C04.SRV), xi, C04.K_ENCL, o)); vit_meta.append(dict(case, start_asst=xi))
                except Exception as e:
                    violations.append(Violation("viterbi harness failure %r" % (e,), case=case, corr="corr:viterbi", call="fggs.viterbi"))
    # gradients on presentations (C03's check function on the presentation itself)
    gvals = []; gmeta = []
    for gi in range(max(4, n // 6)):
        recursive = (gi % 3 == 2)
        gspec, gscale, keep_zero = C03.gen_spec(rng, 3 * gi + 1 if (recursive and gi % 2 == 0) else gi, recursive)
        for p in range(2):
            spec2, names, back = gen.present(gspec, rng)
            sr = SR("real" if keep_zero else ["real", "log"][(gi + p) % 2], "float64", gscale)
            method = ["fixed-point", "newton"][(gi + p) % 2]
            try:
                for cf, wire, meta in C03.grad_cases(spec2, sr, method, ids=["explicit", "implicit", "mixed"][p % 3], rng=rng, build_kwargs=dict(names=names)):
                    gvals.append(wire); gmeta.append(dict(meta["case"], presentation_of=gen.spec_jsonable(gspec)))
            except Exception as e:
                violations.append(Violation("gradient computation raised %r on a presentation" % (e,), case=dict(spec=gen.spec_jsonable(spec2), semiring=repr(sr), method=method),
                                            corr="corr:presentation-gradient", call="sum_product(...).backward()"))
    # Log-semiring gradients through a rule whose sum-product is structurally zero (C03's minimal "dead rule" grammar and
    # the forced dead-rule-first component), on presentations: the class of seeded/C12-b (J_log pairs the per-rule
    # sum-products with the wrong rules when a dead rule is filtered out)
    try:
        dead_specs = [(C03.forced_finding_specs()[0], Fraction(1)),
                      (C03.forced_recursive_spec(rng, 3), Fraction(1, 8)), (C03.forced_recursive_spec(rng, 3), Fraction(1, 8))]
    except Exception:
        dead_specs = []
    for dspec, dscale in dead_specs:
        for p in range(4):
            spec2, names, back = gen.present(dspec, rng)
            sr = SR("log", "float64", dscale)
            method = ["fixed-point", "newton"][p % 2]
            try:
                for cf, wire, meta in C03.grad_cases(spec2, sr, method, ids=["explicit", "implicit", "mixed"][p % 3], rng=rng, build_kwargs=dict(names=names)):
                    gvals.append(wire); gmeta.append(dict(meta["case"], presentation_of=gen.spec_jsonable(dspec), stream="log-dead-rule"))
            except Exception as e:
                violations.append(Violation("gradient computation raised %r on a presentation" % (e,), case=dict(spec=gen.spec_jsonable(spec2), semiring=repr(sr), method=method),
                                            corr="corr:presentation-gradient", call="sum_product(...).backward()"))
    # twin rules: same lhs, EQUAL edges (ids are only unique inside one rule), different externals / isolated nodes;
    # every construction path x id style (harness/props/_c12_util.py)
    tw = TW.twin_stream(tier, seed, nonrec, nonrec_meta, rec, rec_meta, vit, vit_meta, gvals, gmeta, violations, distinct, TW.new_stats())
    total = 0; nk = 0; skipped = 0
    if gvals:
        gcodes, a = C03.run_model_parallel(gvals, seed, 2)
        nk += a; total += len(gcodes)
        for case, c in zip(gmeta, gcodes):
            if c in (0, 30, 31): continue
            violations.append(Violation("gradient on a re-written grammar differs from the exact derivative (C03 verdict %d)" % c, case=case,
                                        oracle="dual-number derivative (C03)", corr="C12 / C03", failing_input_found=(c == 1), call="sum_product(presentation).backward()"))
    for k in C01.CF:
        codes, a = run_model(C01.CF[k], nonrec[k], seed=seed, coq_sample=5, tag="c12n" + k); nk += a; total += len(codes)
        for case, c in zip(nonrec_meta[k], codes):
            if c == 0: continue
            violations.append(Violation("sum-product of a re-written grammar differs from the canonical grammar's value (verdict %d)" % c, case=case,
                                        oracle="Z_spec of the canonical grammar" if c == 1 else None, corr="C12_spec_perm / corr:presentation",
                                        failing_input_found=(c in (1, 4)), call="fggs.sum_products(presentation)"))
    for k in C02.CF:
        codes, a = run_model(C02.CF[k], rec[k], seed=seed, coq_sample=3, tag="c12r" + k); nk += a; total += len(codes)
        for case, c in zip(rec_meta[k], codes):
            if c == 30: skipped += 1; continue
            if c == 0: continue
            violations.append(Violation("recursive sum-product of a re-written grammar disagrees with the canonical grammar's enclosure / control flow (verdict %d)" % c, case=case,
                                        oracle="enclosure of the canonical grammar's least fixed point", corr="C12_spec_perm / corr:presentation",
                                        failing_input_found=(c in (1, 4, 5, 6)), call="fggs.sum_products(presentation)"))
    codes, a = run_model(C04.VIT, vit, seed=seed, coq_sample=3, tag="c12v"); nk += a; total += len(codes)
    for case, c in zip(vit_meta, codes):
        if c in (0, 30, 31): continue
        violations.append(Violation("viterbi on a re-written grammar: verdict %d (see C04 codes)" % c, case=case, oracle="C04 oracle",
                                    corr="C12 / C04", failing_input_found=True, call="fggs.viterbi(presentation)"))
    cov = dict(evaluations=total, distinct_nontrivial=len(distinct), presentations=npres, discarded_inconclusive=skipped,
               rule="random FGG specs (2/3 non-recursive, 1/3 recursive) x %d random presentations each (rule/node/edge order, label-table order, names, id style, domain-value permutations with factor axes) x semiring/method rotating; each presentation's sum_products mapped back and judged against the canonical grammar; distinct_nontrivial = distinct canonical specs (all have >= 1 rule and are presented >= %d ways); plus the twin-rule stream (twin_stream: specs with rules of equal lhs and equal edges that differ in externals / isolated nodes, built through every construction path x id style; equal_edge_builds = builds in which two different rules really have EQUAL Edge tuples)" % (k_pres, k_pres),
               kernel_reevaluated=nk, twin_stream=tw,
               samples=[(nonrec_meta["real"] or rec_meta["real"] or [None])[0]],
               open_items=[
                   "C09 part of C12_model_perm: independence of the linear/Newton solves from the elimination order is C09's/C02's theorem (C02_linear_is_least_fixed_point holds for ANY elimination order; C12_scc_runs_presentation composes it through `exact_run`), but Newton's iterates themselves on a presentation are not related step by step; C12_tree_presentation gives an image derivation for every derivation of G (same weight, depth) but not the converse map G' -> G as a function (only domination: C12_optimal_derivation_presentation)",
                   "C12_scc_order_irrelevant (code-shaped driver sum_products_nonrec) covers singleton non-recursive components; for components of any size C12_scc_order_irrelevant_exact proves order irrelevance at the level of exact_run (each component solved exactly, given a global least fixed point), not for the iterative code itself",
                   "C12_model_presentation, C12_scc_runs_presentation, C12_viterbi_optimum_presentation and C12_backward_nonrec_presentation assume wf_grammar of the presented grammar (the relation `relabelled` deliberately leaves unused table positions of the presentation unconstrained); node/edge ids and label names are below the positional model (covered by the metamorphic runs only)",
                   "the harness transform gen.present is trusted to be an instance of the Coq relation `presents` (mirrored by relabel_grammar / permute_nodes / Permutation, not checked per generated case)"])
    return cov, violations

def replay(path):
    import fggs
    r = json.load(open(path)); c = r["case"]
    if "twin" in c: return TW.replay_twin(c)
    if "presentation" not in c or "perm" not in c:
        print("this replay carries no presentation; re-run bin/check C12 quick with the recorded seed"); return 1
    spec = gen.spec_from_json(c["spec"]); spec2 = gen.spec_from_json(c["presentation"])
    names = {}
    for k, v in c["names"].items():
        names[(k[:2], int(k[2:]))] = v
    back = gen.make_back(spec, c["perm"])
    recursive = c.get("recursive", False)
    configs = C02.CONFIGS2 if recursive else CONFIGS
    sr = [x for x in configs if repr(x) == c["semiring"]][0]
    method = c["method"]
    b = gen.build_fgg(spec2, sr.wconv, ids=c.get("ids", "explicit"), rng=random.Random(0), dtype=sr.torch_dtype(), names=names)
    raised = False; res = {}
    with warnings.catch_warnings(record=True) as wl:
        warnings.simplefilter("always")
        try:
            if recursive: res = fggs.sum_products(b.fgg, method=method, semiring=sr.semiring(), tol=1e-10 if sr.name in ("real", "log") else 1e-6, kmax=400)
            else: res = fggs.sum_products(b.fgg, method=method, semiring=sr.semiring())
        except ValueError as e:
            if "not linearly recursive" not in str(e): raise
            raised = True
    warned = any("maximum iteration exceeded" in str(w.message) for w in wl)
    out2 = {}
    for i2, e in enumerate(spec2["elabels"]):
        if e["term"] or b.els[i2] not in res: continue
        if recursive and sr.name != "bool":
            out2[i2] = [sr.obs(x, Fraction(1, 10**6), Fraction(1, 10**7)) for x in dense_list(res[b.els[i2]])]
        else:
            out2[i2] = [sr.obs(x) for x in dense_list(res[b.els[i2]])]
    obs = sorted(back(out2).items())
    gw = grammar_wire(spec)
    if recursive:
        v = (gw, weights_wire(spec, sr), (C01.METHODS.index(method), 3, Fraction(1, 10**6)), C02.K_ENCL, (raised, warned, (not warned) and (not raised), obs))
        code = run_coq(C02.CF[sr.carrier()], [v], tag="replay")[0]
    else:
        code = run_coq(C01.CF[sr.carrier()], [(gw, weights_wire(spec, sr), obs)], tag="replay")[0]
    print("observed (mapped back)", obs, "verdict code", code)
    return 1 if code not in (0, 30) else 0

MANIFEST = dict(
    level="proof",
    text="Coq: the definition of the sum-product (sum over derivation trees; Kleene iterates) is invariant under permuting the rule list, the edge list and the node numbering of every rule, and equivariant under renumbering edge/node labels and permuting the values of every domain together with the factor axes (each separately and composed: C12_presentation; carried to tree_sum, to the sum over all derivations of non-recursive grammars and to the code-shaped driver with any dependency-respecting component order: C12_model_presentation, C12_scc_order_irrelevant), in every commutative semiring, and C01/C02 tie the code's result to that definition. Recursive grammars: one application of the equations commutes with re-presentation at arbitrary environments (C12_step_presentation), hence x is the least fixed point / [lo,hi] a certified enclosure of G iff the re-indexed x / [lo,hi] is one of every presentation G' (C12_lfp_presentation(_all), C12_lfp_value_presentation, C12_enclosure_presentation, C12_enclosure_run_presentation, C12_scc_runs_presentation; Bool/Real/Viterbi instances). Derivations: the presentation map on derivation trees sends well-formed derivations to well-formed derivations of the same weight and depth (C12_tree_map_sim, C12_tree_presentation); in the Viterbi semiring the image of an optimal derivation is optimal and the optimum is the same (C12_viterbi_derivation_presentation, C12_viterbi_optimum_presentation). Gradients: dual-number derivatives of every Kleene iterate w.r.t. the moved weight entry and the reverse accumulation of non-recursive grammars are invariant (C12_grad_presentation, C12_backward_nonrec_presentation). Metamorphic correspondence: several random presentations of each generated FGG (rule/node/edge order, label-table order, names, id style, domain-value permutations) are run through sum_products / viterbi and every result, mapped back, is judged in Coq against the canonical grammar's model. Twin rules (same lhs, equal edges because ids restart in every rule or objects are shared, different externals / isolated nodes) are generated separately and built through every constructor path and id style; Coq: C12_rule_appended (every rule of the list contributes its own value), C12_twin_rules_not_interchangeable_* (a rule is not determined by lhs and edges).",
    note="Trusted: Coq kernel, extraction cross-checked by vm_compute, the harness's presentation transform and back-mapping; Python hash-order variation is induced by random label names within one interpreter.",
    technique="Coq invariance theorems + metamorphic model/implementation correspondence",
    design_ref="DESIGN.md section 6, C12")
