"""C11 magnitude stream: components whose values are tiny or huge relative to tol.

Grammar family (one independent scalar system per element n of a domain D, |D| in 1..3):
    S    -> X(n) g(n)                              downstream factor g (1e-8 .. 1e8)
    X(n) -> X(n) X(n) c(n)  |  X(n) a(n)  |  base  (either recursion rule may be absent)
    base =  b(n)     or    U(n) b(n),  U(n) -> u(n)   (upstream scale u, 1e-8 .. 1e8, earlier component)
so x_n = c x_n^2 + a x_n + b_n (b_n = u_n * b(n)), Z = sum_n g_n x_n.  The magnitude of the solution
(1e-8 .. 1e8), the contraction L = F'(x*) (1e-6 .. 0.8) and its split between the linear and the
quadratic rule are drawn first and the weights derived from them; the weights are then rounded to
the dtype and the enclosure of the least solution is computed from the ROUNDED weights with integer
square roots (certificate checked in Coq: Model/Magnitude.v cert_ok).

Every admissible method x j_precompute x dtype x {Real, Log} x {default tol, explicit tol} run is
judged in Coq (mag_check): values of X, Z, dZ/d(base weight), dZ/dg.
"""
import math, random
from fractions import Fraction
from harness.core import *

MAG_ELEM = Tup(Tup(QQ, QQ, QQ), Tup(QQ, QQ), Tup(QQ, QQ), Tup(QQ, QQ, QQ))
MAG = CheckFn("c11-magnitude", "Model.Magnitude", "mag_check",
              Tup(Tup(Nat, Bool), Tup(QQ, QQ, QQ), List(MAG_ELEM), QQ))

DEFAULT_TOL = 1e-5          # fggs.sum_products: opts.setdefault('tol', 1e-5)
KIND = {"linear": 0, "fixed-point": 1, "newton": 2}

def _round_q(x, up, bits=160):
    """a rational with a power-of-two denominator, <= x (up=False) or >= x (up=True), relative distance < 2^-bits"""
    x = Fraction(x)
    if x == 0: return x
    e = bits - (x.numerator.bit_length() - x.denominator.bit_length())
    sc = Fraction(2) ** e
    n = x * sc
    n = -((-n.numerator) // n.denominator) if up else n.numerator // n.denominator
    return Fraction(n) / sc

def enclosure(a, b, c):
    """[lo, hi] around the least nonnegative root of c x^2 + (a-1) x + b (Fractions); None if there is none / too close to the double root"""
    a, b, c = Fraction(a), Fraction(b), Fraction(c)
    if a >= 1: return None
    if b == 0: return Fraction(0), Fraction(0)
    if c == 0:
        x = b / (1 - a); return _round_q(x, False), _round_q(x, True)
    disc = (1 - a) ** 2 - 4 * b * c
    if disc <= 0: return None
    # sqrt(p/q) = sqrt(p*q)/q ; scale by 4^k for ~200 bits of precision
    p, q = disc.numerator, disc.denominator
    k = max(0, 220 - (p * q).bit_length() // 2)
    r = math.isqrt(p * q << (2 * k))
    s_lo = Fraction(r, q << k); s_hi = Fraction(r + 1, q << k)
    lo = 2 * b / ((1 - a) + s_hi); hi = 2 * b / ((1 - a) + s_lo)
    return _round_q(lo, False), _round_q(hi, True)

def gen_params(rng, gi):
    """plain-data description of one grammar of the family (all numbers python floats, exactly representable in float32)"""
    import numpy as np
    f32 = lambda v: float(np.float32(v))
    n = rng.choice([1, 1, 2, 2, 3])
    magclass = ["tiny", "huge", "tiny", "mixed", "tiny", "unit"][gi % 6]
    shape = ["quad", "quad+lin", "quad+lin", "quad", "lin", "quad"][gi % 6] if gi % 7 != 6 else "lin"
    upstream = (gi % 3 != 0)
    elems = []
    for i in range(n):
        e = {"tiny": rng.uniform(-8, -5.2), "huge": rng.uniform(3, 8), "mixed": rng.uniform(-8, 8), "unit": rng.uniform(-1, 1)}[magclass]
        xt = 10.0 ** e
        L = rng.choice([1e-6, 1e-3, 0.1, 0.5, 0.8])
        if shape == "quad": La, Lc = 0.0, L
        elif shape == "lin": La, Lc = L, 0.0
        else:
            f = rng.choice([0.1, 0.5, 0.9]); La, Lc = L * f, L * (1 - f)
        c = f32(Lc / (2 * xt)); a = f32(La)
        bb = xt * (1 - La - Lc / 2)
        u = f32(10.0 ** rng.uniform(-8, 8)) if upstream else 1.0
        beta = f32(bb / u)
        if not (1e-30 < beta < 1e30): u, beta = 1.0, f32(bb)
        g = f32(10.0 ** rng.uniform(-8, 8)) if rng.random() < 0.8 else 1.0
        elems.append(dict(a=a, c=c, u=u, beta=beta, g=g))
    if n >= 2 and gi % 4 == 3:
        elems[rng.randrange(n)]["beta"] = 0.0          # an element with no derivation at all: x = 0 (Real only)
    return dict(n=n, shape=shape, upstream=upstream, magclass=magclass, elems=elems)

def build(fggs, torch, P, dtype, log):
    g = fggs.FGG("S")
    g.new_finite_domain("D", list(range(P["n"])))
    def rule(lhs, edges, ext):
        rhs = fggs.Graph(); nd = rhs.new_node("D")
        for lab, term in edges: rhs.new_edge(lab, [nd], is_terminal=term, is_nonterminal=not term)
        if ext: rhs.ext = [nd]
        g.new_rule(lhs, rhs)
    rule("S", [("X", False), ("g", True)], False)
    if P["shape"] in ("quad", "quad+lin"): rule("X", [("X", False), ("X", False), ("c", True)], True)
    if P["shape"] in ("lin", "quad+lin"): rule("X", [("X", False), ("a", True)], True)
    if P["upstream"]:
        rule("X", [("U", False), ("b", True)], True); rule("U", [("u", True)], True)
    else:
        rule("X", [("b", True)], True)
    names = {"g": "g", "b": "beta"}
    if P["shape"] in ("quad", "quad+lin"): names["c"] = "c"
    if P["shape"] in ("lin", "quad+lin"): names["a"] = "a"
    if P["upstream"]: names["u"] = "u"
    W = {}
    for lab, key in names.items():
        w = torch.tensor([e[key] for e in P["elems"]], dtype=dtype)
        if log: w = w.log()
        W[lab] = w.requires_grad_(lab in ("b", "g"))
        g.new_finite_factor(lab, W[lab])
    return g, W

def run_one(fggs, torch, P, method, jp, dtype_name, log, tol, withgrad=True):
    """-> dict(x=[float], z=float, gb=[float], gg=[float], warned=bool) ; exact weights actually used (Fractions)"""
    import warnings
    dtype = getattr(torch, dtype_name)
    g, W = build(fggs, torch, P, dtype, log)
    sr = (fggs.LogSemiring if log else fggs.RealSemiring)(dtype=dtype)
    opts = dict(method=method, semiring=sr)
    if method == "newton": opts["j_precompute"] = jp
    if tol is not None: opts["tol"] = tol
    with warnings.catch_warnings(record=True) as wl:
        warnings.simplefilter("always")
        zs = fggs.sum_products(g, **opts)
    z = zs[g.get_edge_label("S")]; x = zs[g.get_edge_label("X")]
    z = z.to_dense() if hasattr(z, "to_dense") else z
    x = x.to_dense() if hasattr(x, "to_dense") else x
    if log: z, x = z.exp(), x.exp()
    out = dict(x=[float(v) for v in x.detach().double().reshape(-1)], z=float(z.detach().double()),
               warned=any("maximum iteration" in str(w.message) for w in wl), grad_missing=False)
    if withgrad:
        if z.requires_grad:
            z.sum().backward()
        else:
            out["grad_missing"] = True
        gr = {}
        for lab in ("b", "g"):
            w = W[lab]
            d = w.grad.detach().double() if w.grad is not None else torch.zeros_like(w).double()
            if log: d = d / w.detach().double().exp()            # d/dw = (d/d log w) / w
            gr[lab] = [float(v) for v in d.reshape(-1)]
        out["gb"], out["gg"] = gr["b"], gr["g"]
    return out

def exact_weights(torch, P, dtype_name):
    """the weights as rounded to the dtype (exact Fractions), per element: a, b (= u * beta), c, g, u"""
    dtype = getattr(torch, dtype_name)
    rd = lambda v: Fraction(float(torch.tensor(v, dtype=dtype).double()))
    out = []
    for e in P["elems"]:
        a = rd(e["a"]) if P["shape"] in ("lin", "quad+lin") else Fraction(0)
        c = rd(e["c"]) if P["shape"] in ("quad", "quad+lin") else Fraction(0)
        u = rd(e["u"]) if P["upstream"] else Fraction(1)
        out.append(dict(a=a, c=c, u=u, b=u * rd(e["beta"]), g=rd(e["g"])))
    return out

def combos(P, tier, gi=0):
    """admissible (method, j_precompute, dtype, log, tol) combinations"""
    methods = [("fixed-point", False), ("newton", False), ("newton", True)]
    if P["shape"] == "lin": methods.append(("linear", False))
    has_zero = any(e["beta"] == 0.0 for e in P["elems"])
    out = []
    for method, jp in methods:
        for dt in ("float64", "float32"):
            for log in ((False,) if has_zero else (False, True)):
                tols = [None] if method == "linear" else [None, [1e-3, 1e-9 if dt == "float64" else 1e-6, 1e-2][(gi + len(out)) % 3]]
                for tol in tols:
                    out.append((method, jp, dt, log, tol))
    return out

def cases(rng, n, tier, violations):
    """-> (wire values, metas) for MAG"""
    import fggs, torch
    vals, metas = [], []
    hist = {}
    for gi in range(n):
        P = gen_params(rng, gi)
        for (method, jp, dt, log, tol) in combos(P, tier, gi):
            ws = exact_weights(torch, P, dt)
            encl = [enclosure(w["a"], w["b"], w["c"]) for w in ws]
            if any(e is None for e in encl): continue
            case = dict(params=P, method=method, j_precompute=jp, dtype=dt, semiring="log" if log else "real", tol=tol)
            call = "fggs.sum_products(fgg, method=%r, j_precompute=%r, semiring=%s(dtype=%s)%s)" % (
                method, jp, "LogSemiring" if log else "RealSemiring", dt, "" if tol is None else ", tol=%r" % tol)
            try:
                r = run_one(fggs, torch, P, method, jp, dt, log, tol)
            except Exception as ex:
                violations.append(Violation("sum_products / backward raised %r" % (ex,), case=case, call=call, corr="corr:magnitude")); continue
            if r["warned"]:
                hist["kmax-warning (skipped)"] = hist.get("kmax-warning (skipped)", 0) + 1; continue
            Lmax = max(float(2 * w["c"] * e[1] + w["a"]) for w, e in zip(ws, encl))
            t = DEFAULT_TOL if tol is None else tol
            if log:
                # the test is |log F(x) - log x| <= tol, i.e. F(x) - x <= (e^tol - 1) x <= (e^tol - 1) hi
                tq = Fraction(math.expm1(t) * (1 + 1e-9)) * max(e[1] for e in encl)
            else:
                tq = Fraction(t)
            e0 = 1e-11 if dt == "float64" else 2e-5
            if log: e0 *= 20          # log-weights are rounded too: relative error |log w| ulp in w
            # the gradient is the derivative at the approximate solution: first-order in its relative distance delta
            # from the solution (delta <= slack / x*, and <= L because every method returns at least b >= (1-L) x*)
            delta = 0.0
            for w, (lo, hi) in zip(ws, encl):
                Li = float(2 * w["c"] * hi + w["a"])
                if method != "linear" and lo > 0:
                    sl = float(tq) / (1 - Li) * (Li if method == "newton" else 1.0)
                    delta = max(delta, min(sl / float(lo), Li))
            eps = Fraction(e0 / (1 - Lmax)); epsg = Fraction(min(0.9, 4 * e0 / (1 - Lmax) ** 2 + 4 * delta / (1 - Lmax)))
            elems = []
            for w, (lo, hi), ox, ogb, ogg in zip(ws, encl, r["x"], r["gb"], r["gg"]):
                if not all(math.isfinite(v) for v in (ox, ogb, ogg)): ox = ogb = ogg = -1.0
                elems.append(((w["a"], w["b"], w["c"]), (lo, hi), (w["g"], w["g"] * w["u"]), (Fraction(ox), Fraction(ogb), Fraction(ogg))))
            oz = Fraction(r["z"]) if math.isfinite(r["z"]) else Fraction(-1)
            vals.append(((KIND[method], True), (tq, eps, epsg), elems, oz))
            xs = [float(e[1]) for e in encl]
            metas.append((dict(case, least_solution=xs, contraction=Lmax, observed=dict(r)), call))
            key = "%s/%s/%s" % (P["magclass"], P["shape"], "all-below-tol" if max(xs) <= t and not log else "above-tol")
            hist[key] = hist.get(key, 0) + 1
    return vals, metas, hist

VERDICT = {1: "value of X outside the interval every method must reach (least solution minus the method's tol-slack, and never below the base weights F(0))",
           2: "Z outside [sum g xmin, sum g hi]", 3: "dZ/d(base weight) outside the exact derivative's interval",
           4: "dZ/dg outside the interval of the solution", 20: "harness error: certificate of the enclosure rejected", 21: "harness error: bad tolerances"}
