"""C09 -- semiring linear solvers return the least solution of x = A x + b.

Correspondence: (i) dense Semiring.solve, n <= 4, four semirings, vector and matrix b;
(ii) multi_solve / multi_mv over block systems (all presence patterns of 2-block systems,
sampled 3-/4-block systems, transpose on/off, recorded elimination order); (iii)
PatternedTensor.solve on diagonal / block-sparse patterns, and (tier B, harness/props/_c09_psolve.py)
on generated typed patterned systems at the level of its solution-axis loop: the computed axis, the
number of passes, warnings and the dense operands handed to solve_thunks are observed and compared
with the Gallina model of the loop (Model/PSolve.v) and judged by the verified oracles contains_b /
closed_b / disjoint_b and the gather / scatter specification; (iv) arguments unmodified
(byte snapshots).  Every implementation output is judged inside Coq (extracted) by
is_solution_b + the N-step series lower bound + an upper-bound certificate + comparison
with the model's least solution; see Model/Solve.v and Model/MultiSolve.v for the codes."""
import itertools, random, math, contextlib
from fractions import Fraction
from harness.core import *
from harness.props import _c09_util as U
from harness.props import _c09_psolve as PS
from harness.props._c09_util import INF, NINF, F

PID = "C09"
LEVEL = "proof"

EW = Option(QQ)             # ereal on the wire: None = +inf
TW = Tup(Nat, QQ)           # trop on the wire: (0,_) -inf, (1,q), (2,_) +inf
OBS = Tup(Nat, QQ, QQ)      # float observation: (tag, value, tol)
def M(t): return List(List(t))
def B1(t): return List(Tup(Nat, List(t)))
def B2(t): return List(Tup(Tup(Nat, Nat), M(t)))
DIMS = List(Tup(Nat, Nat))

DENSE = {
    "ereal": CheckFn("c09-dense-ereal", "Model.Solve", "dense_check_ereal", Tup(Nat, Nat, M(EW), M(EW), M(OBS), M(EW))),
    "trop": CheckFn("c09-dense-trop", "Model.Solve", "dense_check_trop", Tup(Nat, Nat, M(TW), M(TW), M(TW), M(TW))),
    "bool": CheckFn("c09-dense-bool", "Model.Solve", "dense_check_bool", Tup(Nat, Nat, M(Bool), M(Bool), M(Bool), M(Bool))),
}
LU = CheckFn("c09-real-lu", "Model.Solve", "real_lu_check", Tup(Nat, M(EW), List(EW), Option(List(Tup(Nat, QQ))), List(OBS)))
MSOLVE = {
    "ereal": CheckFn("c09-msolve-ereal", "Model.MultiSolve", "multi_solve_check_ereal",
                     Tup(DIMS, List(Nat), Bool, B2(EW), B1(EW), B1(OBS), List(EW))),
    "trop": CheckFn("c09-msolve-trop", "Model.MultiSolve", "multi_solve_check_trop",
                    Tup(DIMS, List(Nat), Bool, B2(TW), B1(TW), B1(TW), List(TW))),
    "bool": CheckFn("c09-msolve-bool", "Model.MultiSolve", "multi_solve_check_bool",
                    Tup(DIMS, List(Nat), Bool, B2(Bool), B1(Bool), B1(Bool), List(Bool))),
}
MMV = {
    "ereal": CheckFn("c09-mmv-ereal", "Model.MultiSolve", "multi_mv_check_ereal", Tup(DIMS, DIMS, Bool, B2(EW), B1(EW), B1(OBS))),
    "trop": CheckFn("c09-mmv-trop", "Model.MultiSolve", "multi_mv_check_trop", Tup(DIMS, DIMS, Bool, B2(TW), B1(TW), B1(TW))),
    "bool": CheckFn("c09-mmv-bool", "Model.MultiSolve", "multi_mv_check_bool", Tup(DIMS, DIMS, Bool, B2(Bool), B1(Bool), B1(Bool))),
}
ORDER = CheckFn("c09-order", "Model.MultiSolve", "order_check", Tup(List(Tup(Nat, Nat)), List(Nat), List(Nat)))
CHECKFNS = list(DENSE.values()) + [LU] + list(MSOLVE.values()) + list(MMV.values()) + [ORDER, PS.PS_AXIS, PS.PS_VALUE]

CARRIER_OF = {"real": "ereal", "log": "ereal", "viterbi": "trop", "bool": "bool"}
SEMIRINGS = ["real", "log", "viterbi", "bool"]

ASSUMPTIONS = [
    "the law records sr_ring / sr_ordered / sr_star are premises of the GENERIC C09 theorems only; for the three carriers (ereal, trop, bool) they are proved by C08 (Proofs/SemiringLaws.v) and discharged in Proofs/Instances_solve.v: C09_solve_model_least_{bool,real,viterbi}, C09_oracle_sound_{bool,real,viterbi}, C09_multi_solve_refines_{bool,real,viterbi}, C09_multi_solve_equals_dense_solve_{bool,real,viterbi}, C09_mul_star_least_{bool,real,viterbi} (Proofs/Instances_multisolve.v), ... carry no law premise",
    "floats: Real outputs are compared with the exact model within 1e-9 relative + 1e-12 absolute; Log inputs are log(v) of the exact grid value and exp(output) is compared likewise (math.log / math.exp are trusted); Viterbi and Bool are exact",
    "torch.linalg.solve is an oracle argument of real_solve_model ('returns the unique solution of (I-A)x=b or fails'); its observed answer is recorded by wrapping it and fed to the model",
    "reshape/flatten of blocks is modelled as the identity on row-major data; the harness enumerates entries by explicit indexing",
    "_order_nonterminals iterates Python sets; the model iterates them in ascending key order, which is CPython's order for the small non-negative int keys used when the order model is compared (checked at run time on every set); multi_solve itself is run with the order the implementation chose",
    "PatternedTensor.solve: the axis loop is modelled statement by statement (Model/PSolve.v: psolve_loop); the projection of a and b onto the computed axis (freshen / unify / project / clone / to_dense, lines 1430-1458) is modelled by its observable result, the gathers handed to semiring.solve_thunks, which the harness observes by wrapping solve_thunks and compares entry by entry (psolve_value_check); passes are counted by wrapping Axis.antiunify (top-level calls); physical axes are numbered by the harness, the solution axis is compared up to a bijective renaming (alpha_eqb)",
    "C09_psolve_loop_closed / C09_psolve_denotes_least assume what the objects guarantee: the physical axes of a and of b's first dimension are disjoint (the code freshens b otherwise; the model does too), uids below the fresh-axis counter, one size per physical axis (szc), and that no warning was issued (observed and compared on every case); C09_psolve_loop_terminates additionally assumes the normal form of the three patterns (no size-1 factor inside a product: __post_init__ and productAxis guarantee it)",
    "C09_multi_solve_refines* assume what a Python dict guarantees: the keys of the shapes, of a and of b are duplicate-free (NoDup (map fst ...)), and the elimination order is a duplicate-free enumeration of the shape keys (proved for the model of _order_nonterminals: C09_order_nonterminals_enumerates / C09_multi_solve_code_order)",
]

FK_F18 = "F18_patterned_solve_disjoint_support"
FK_DIV = "real_log_divergent_system_huge_finite"

# ----------------------------------------------------------------------------- dense

def certificate(name, A, Bcols):
    """candidate pre-solution per column (least solution by a different elimination scheme,
    exact arithmetic); Coq re-checks that it is a pre-solution before using it"""
    R = U.CARRIER[name]
    n = len(A)
    cols = [U.xsolve(R, A, [Bcols[i][c] for i in range(n)]) for c in range(len(Bcols[0]) if n else 0)]
    return [[cols[c][i] for c in range(len(cols))] for i in range(n)]

@contextlib.contextmanager
def record_lu(log):
    import torch
    orig = torch.linalg.solve
    def wrapped(a, b, *args, **kw):
        try:
            x = orig(a, b, *args, **kw)
        except Exception as e:
            log.append(("raise", repr(e))); raise
        log.append(("ok", x.detach().clone()))
        return x
    torch.linalg.solve = wrapped
    try: yield
    finally: torch.linalg.solve = orig

def lu_wire(x):
    out = []
    for v in U.flat_entries(x):
        if v != v: out.append((0, F(0)))
        elif v == math.inf: out.append((2, F(0)))
        elif v == -math.inf: out.append((3, F(0)))
        else: out.append((1, F(v)))
    return out

def run_dense_case(name, n, m, A, Bm):
    """runs Semiring.solve; returns dict(value=..., lu=..., modified=bool) or raises"""
    S = U.semiring(name)
    a = U.tensor(name, A) if n else U.tensor(name, []).reshape(0, 0)
    if m == 0: b = U.tensor(name, [r[0] for r in Bm]) if n else U.tensor(name, [])
    else: b = U.tensor(name, Bm) if n else U.tensor(name, []).reshape(0, m)
    sa, sb = U.snapshot(a), U.snapshot(b)
    log = []
    with record_lu(log):
        x = S.solve(a, b)
    modified = (U.snapshot(a) != sa) or (U.snapshot(b) != sb)
    if m == 0: X = [[U.read_out(name, x[i].item())] for i in range(n)]
    else: X = [[U.read_out(name, x[i, c].item()) for c in range(m)] for i in range(n)]
    if tuple(x.shape) != tuple(b.shape): raise U.BadValue("output shape %r for rhs shape %r" % (tuple(x.shape), tuple(b.shape)))
    return dict(X=X, lu=log, modified=modified)

def dense_value(name, n, m, A, Bm, X):
    Uc = certificate(name, A, Bm)
    w = lambda Mx: U.wire_mat(name, Mx)
    return (n, m, w(A), w(Bm), X, w(Uc))

def dense_cases(rng, tier):
    per = 260 if tier == "quick" else 3500
    cases = []
    # forced special shapes first
    forced = [
        ("viterbi", "F2-min", [[F(0)]], 0, [[F(-1)]]),
        ("viterbi", "F2-cycle", [[NINF, F(1)], [F(-1), NINF]], 0, [[F(-1)], [F(-2)]]),
        ("real", "one", [[F(1)]], 0, [[F(1)]]),
        ("real", "half-half", [[F(1, 2), F(1, 2)], [F(1, 2), F(1, 2)]], 0, [[F(1)], [F(0)]]),
        ("real", "stoch3", [[F(1, 4), F(1, 4), F(1, 2)], [F(1, 2), F(1, 4), F(1, 4)], [F(1, 4), F(1, 2), F(1, 4)]], 0, [[F(1)], [F(0)], [F(0)]]),
        ("real", "stoch3-b0", [[F(1, 4), F(1, 4), F(1, 2)], [F(1, 2), F(1, 4), F(1, 4)], [F(1, 4), F(1, 2), F(1, 4)]], 0, [[F(0)], [F(0)], [F(0)]]),
        ("log", "stoch3", [[F(1, 4), F(1, 4), F(1, 2)], [F(1, 2), F(1, 4), F(1, 4)], [F(1, 4), F(1, 2), F(1, 4)]], 0, [[F(1)], [F(0)], [F(0)]]),
        ("real", "two", [[F(2)]], 0, [[F(0)]]),
        ("real", "inf-times-zero", [[F(0), INF], [F(0), F(0)]], 0, [[F(1)], [F(0)]]),
        ("real", "empty", [], 0, []),
    ]
    for name, cls, A, m, Bm in forced:
        cases.append(dict(kind="dense", semiring=name, cls=cls, n=len(A), m=m, A=A, B=Bm))
    for name in SEMIRINGS:
        for t in range(per):
            n = rng.choice([1, 2, 2, 3, 3, 3, 4, 4])
            m = rng.choice([0, 0, 0, 1, 2, 3])
            cls, A = U.gen_dense(rng, name, n)
            cases.append(dict(kind="dense", semiring=name, cls=cls, n=n, m=m, A=A, B=U.gen_rhs(rng, name, n, m)))
    if tier == "thorough":      # every 2x2 boolean system with a vector rhs
        for bits in itertools.product([False, True], repeat=6):
            cases.append(dict(kind="dense", semiring="bool", cls="bool-exh2", n=2, m=0,
                              A=[[bits[0], bits[1]], [bits[2], bits[3]]], B=[[bits[4]], [bits[5]]]))
    return cases

# ----------------------------------------------------------------------------- patterned

def make_patterned(name, n, rows, cols, sub):
    """PatternedTensor of virtual shape n x n whose support is rows x cols (index ranges),
    physical = sub (len(rows) x len(cols)), default = semiring zero"""
    import torch
    from fggs.indices import PatternedTensor, PhysicalAxis, SumAxis, unitAxis
    S = U.semiring(name)
    zero = S.from_int(0).item()
    def axis(rng_, size):
        k = PhysicalAxis(len(rng_))
        e = k if (rng_[0] == 0 and rng_[-1] == size - 1) else SumAxis(rng_[0], k, size - 1 - rng_[-1])
        return k, e
    k1, e1 = axis(rows, n); k2, e2 = axis(cols, n)
    phys = U.tensor(name, sub)
    return PatternedTensor(phys, (k1, k2), (e1, e2), zero)

def make_patterned_vec(name, n, rows, sub, m=0):
    from fggs.indices import PatternedTensor, PhysicalAxis, SumAxis
    S = U.semiring(name)
    zero = S.from_int(0).item()
    k = PhysicalAxis(len(rows))
    e = k if (rows[0] == 0 and rows[-1] == n - 1) else SumAxis(rows[0], k, n - 1 - rows[-1])
    if m == 0:
        return PatternedTensor(U.tensor(name, sub), (k,), (e,), zero)
    kc = PhysicalAxis(m)
    return PatternedTensor(U.tensor(name, sub), (k, kc), (e, kc), zero)

def make_diagonal(name, n, diag):
    from fggs.indices import PatternedTensor, PhysicalAxis
    S = U.semiring(name)
    k = PhysicalAxis(n)
    return PatternedTensor(U.tensor(name, diag), (k,), (k, k), S.from_int(0).item())

def patterned_cases(rng, tier):
    cases = []
    per = 14 if tier == "quick" else 150
    for name in SEMIRINGS:
        z = U.zero_of(name)
        for t in range(per):
            n = rng.choice([2, 3, 4])
            style = rng.choice(["diag", "block", "block", "disjoint", "dense"])
            m = rng.choice([0, 0, 2])
            if style == "diag":
                _, D = U.gen_dense(rng, name, n)
                diag = [D[i][i] for i in range(n)]
                A = [[diag[i] if i == j else z for j in range(n)] for i in range(n)]
                spec = dict(style=style, diag=diag)
                brows = list(range(n))
            else:
                # typed patterns: the index range is a sum of consecutive segments and every
                # axis is supported on exactly one of them (overlapping supports are ill-typed)
                cuts = sorted(rng.sample(range(1, n), rng.choice([1, 1, 2]) if n > 2 else 1))
                bounds = [0] + cuts + [n]
                segs = [list(range(bounds[i], bounds[i + 1])) for i in range(len(bounds) - 1)]
                rows, cols, brows = rng.choice(segs), rng.choice(segs), rng.choice(segs)
                if style == "dense": rows = cols = brows = list(range(n))
                if style == "disjoint":     # support of a's columns disjoint from b's support (F18)
                    cols, brows = rng.sample(segs, 2)
                _, D = U.gen_dense(rng, name, n)
                sub = [[D[i][j] for j in cols] for i in rows]
                A = [[D[i][j] if (i in rows and j in cols) else z for j in range(n)] for i in range(n)]
                spec = dict(style=style, rows=rows, cols=cols, sub=sub)
            Bfull = U.gen_rhs(rng, name, n, m)
            bsub = [Bfull[i] for i in brows]
            Bm = [Bfull[i] if i in brows else [z] * max(m, 1) for i in range(n)]
            spec.update(brows=brows, bsub=bsub)
            cases.append(dict(kind="patterned", semiring=name, cls="pt-" + style, n=n, m=m, A=A, B=Bm, spec=spec))
    return cases

def run_patterned_case(c):
    name, n, m, spec = c["semiring"], c["n"], c["m"], c["spec"]
    S = U.semiring(name)
    if spec["style"] == "prod":
        a = prod_tensor(name, [spec["rows"], spec["cols"]], spec["phys"])
        b = prod_tensor(name, [spec["bpat"]], spec["bphys"], extra=(m,) if m else ())
    else:
        if spec["style"] == "diag": a = make_diagonal(name, n, spec["diag"])
        else: a = make_patterned(name, n, spec["rows"], spec["cols"], spec["sub"])
        bsub = spec["bsub"]
        b = make_patterned_vec(name, n, spec["brows"], [r[0] for r in bsub] if m == 0 else bsub, m)
    # the dense reading of the arguments must be what the case says (harness self-check)
    ad = a.to_dense(); bd = b.to_dense()
    exp_a = U.tensor(name, c["A"]); exp_b = U.tensor(name, [r[0] for r in c["B"]] if m == 0 else c["B"])
    import torch
    if not (torch.equal(ad, exp_a) and torch.equal(bd, exp_b)):
        raise RuntimeError("harness: patterned construction does not denote the intended dense tensors")
    sa = (U.snapshot(a.physical), a.default); sb = (U.snapshot(b.physical), b.default)
    x = a.solve(b, S)
    modified = (U.snapshot(a.physical), a.default) != sa or (U.snapshot(b.physical), b.default) != sb \
               or not torch.equal(a.to_dense(), ad) or not torch.equal(b.to_dense(), bd)
    xd = x.to_dense()
    if tuple(xd.shape) != tuple(bd.shape): raise U.BadValue("output shape %r for rhs shape %r" % (tuple(xd.shape), tuple(bd.shape)))
    if m == 0: X = [[U.read_out(name, xd[i].item())] for i in range(n)]
    else: X = [[U.read_out(name, xd[i, cc].item()) for cc in range(m)] for i in range(n)]
    return dict(X=X, modified=modified)

def f18_class(c):
    """the a*e = 0 exit: no column of a's pattern support meets b's pattern support"""
    spec = c["spec"]
    if spec["style"] in ("diag", "prod"): return False
    return not (set(spec["cols"]) & set(spec["brows"]))


# ----------------------------------------------------------------------------- product/sum-typed patterns
# Index type 2 x 2 x ... x 2 (d bits); every component of a row/column/rhs pattern is the
# constant bit 0 (inl = SumAxis(0, unit, 1)), the constant bit 1 (inr) or a physical axis of
# size 2 named by a letter.  Rows (1, A, B) against columns (A, B, C) make every application of
# `a` shift the support, so the support of sum_n A^n b needs several closure steps of
# PatternedTensor.solve's axis loop (e := b + a*e) to stabilise.

def prod_vars(*pats):
    vs = []
    for pat in pats:
        for c in pat:
            if c not in ("0", "1") and c not in vs: vs.append(c)
    return vs

def prod_index(pat, vs, asg):
    i = 0
    for c in pat: i = 2 * i + (int(c) if c in ("0", "1") else asg[vs.index(c)])
    return i

def phys_at(phys, asg):
    for k in asg: phys = phys[k]
    return phys

def prod_dense_matrix(name, rowpat, colpat, phys):
    """the dense n x n matrix denoted by the pattern (n = 2^d)"""
    z = U.zero_of(name); n = 2 ** len(rowpat)
    vs = prod_vars(rowpat, colpat)
    M = [[z] * n for _ in range(n)]
    for asg in itertools.product(range(2), repeat=len(vs)):
        M[prod_index(rowpat, vs, asg)][prod_index(colpat, vs, asg)] = phys_at(phys, asg)
    return M

def prod_dense_rhs(name, bpat, bphys, m):
    z = U.zero_of(name); n = 2 ** len(bpat)
    vs = prod_vars(bpat)
    Bm = [[z] * max(m, 1) for _ in range(n)]
    for asg in itertools.product(range(2), repeat=len(vs)):
        v = phys_at(bphys, asg)
        Bm[prod_index(bpat, vs, asg)] = list(v) if m else [v]
    return Bm

def prod_axes(pats, extra=()):
    """virtual axes (one product axis per pattern) over shared fresh physical axes"""
    from fggs.indices import PhysicalAxis, SumAxis, productAxis, unitAxis
    vs = prod_vars(*pats)
    ax = {v: PhysicalAxis(2) for v in vs}
    bit = {"0": SumAxis(0, unitAxis, 1), "1": SumAxis(1, unitAxis, 0)}
    vaxes = tuple(productAxis(tuple(bit[c] if c in bit else ax[c] for c in pat)) for pat in pats)
    ex = tuple(PhysicalAxis(k) for k in extra)
    return tuple(ax[v] for v in vs) + ex, vaxes + ex

def prod_tensor(name, pats, phys, extra=()):
    from fggs.indices import PatternedTensor
    paxes, vaxes = prod_axes(pats, extra)
    return PatternedTensor(U.tensor(name, phys), paxes, vaxes, U.semiring(name).from_int(0).item())

def gen_phys(rng, name, nv, style, tail=0):
    """nested 2 x ... x 2 (x tail) list of mostly non-zero abstract values"""
    if name == "bool": g = [True, True, True, False]
    elif name in ("real", "log"):
        g = [F(1, 4), F(1, 2), F(1, 4), F(1, 2), F(0)] if style == "small" else [F(1, 4), F(1, 2), F(1), F(2), F(0), INF]
    else:
        g = [F(-1), F(-2), F(-3), F(-1), NINF] if style == "small" else [F(-2), F(-1), F(0), F(1), NINF, INF]
    def rec(k):
        if k == 0: return [rng.choice(g) for _ in range(tail)] if tail else rng.choice(g)
        return [rec(k - 1), rec(k - 1)]
    return rec(nv)

def closure_depth(name, A, Bm):
    """number of applications of A needed before the support of b + A b + ... stabilises"""
    z = U.zero_of(name); n = len(A)
    S = {i for i in range(n) if any(v != z for v in Bm[i])}
    depth = 0
    while True:
        T = S | {i for i in range(n) for j in S if A[i][j] != z}
        if T == S: return depth
        S = T; depth += 1

def prod_patterns(rng, d):
    """(rowpat, colpat): shift families first, then arbitrary typed patterns"""
    V = ["A", "B", "C", "D"]
    fam = rng.choice(["shift-r", "shift-r", "shift-l", "shift-l", "rot", "random"])
    c = rng.choice(["0", "1"])
    if fam == "shift-r":      # rows (c, A, B), cols (A, B, C)
        cols = V[:d]; rows = [c] + V[:d - 1]
    elif fam == "shift-l":    # rows (B, C, c), cols (A, B, C)
        cols = V[:d]; rows = V[1:d] + [c]
    elif fam == "rot":        # rows (c, A, B'), cols (A, B, c'): a constant on both sides
        cols = V[:d - 1] + [rng.choice(["0", "1"])]; rows = [c] + V[:d - 1]
    else:
        pool = ["0", "1"] + V[:d]
        rows = [rng.choice(pool) for _ in range(d)]; cols = [rng.choice(pool) for _ in range(d)]
    return fam, rows, cols

def prod_cases(rng, tier):
    cases = []
    per = 30 if tier == "quick" else 300
    for name in SEMIRINGS:
        for t in range(per):
            d = rng.choice([2, 3, 3, 3])
            fam, rows, cols = prod_patterns(rng, d)
            style = rng.choice(["small", "small", "grid"])
            phys = gen_phys(rng, name, len(prod_vars(rows, cols)), style)
            bkind = rng.choice(["cell", "cell", "cell", "row", "two"])
            if bkind == "cell": bpat = [rng.choice(["0", "1"]) for _ in range(d)]
            elif bkind == "row":
                bpat = [rng.choice(["0", "1"]) for _ in range(d)]; bpat[rng.randrange(d)] = "A"
            else:
                bpat = [rng.choice(["0", "1", "A", "B"]) for _ in range(d)]
            m = rng.choice([0, 0, 0, 2])
            A = prod_dense_matrix(name, rows, cols, phys)
            if fam != "random" and rng.random() < 0.7:      # the constant cell from which the closure is longest
                bpat = max((["0"] * d, ["1"] * d),
                           key=lambda bp: closure_depth(name, A, prod_dense_rhs(name, bp, U.CARRIER[name].one, 0)))
            bphys = gen_phys(rng, name, len(prod_vars(bpat)), "small", tail=m)
            Bm = prod_dense_rhs(name, bpat, bphys, m)
            cases.append(dict(kind="patterned", semiring=name, cls="pt-prod-" + fam, n=2 ** d, m=m, A=A, B=Bm,
                              depth=closure_depth(name, A, Bm),
                              spec=dict(style="prod", rows=rows, cols=cols, phys=phys, bpat=bpat, bphys=bphys)))
    return cases

def multi_prod_cases(rng, tier):
    """multi_solve with a product-patterned diagonal block (and patterned right-hand side)"""
    cases = []
    per = 12 if tier == "quick" else 150
    for name in SEMIRINGS:
        for t in range(per):
            d = rng.choice([2, 3])
            n = 2 ** d
            fam, rows, cols = prod_patterns(rng, d)
            if fam == "random": fam, rows, cols = "shift-r", ["1"] + ["A", "B", "C"][:d - 1], ["A", "B", "C"][:d]
            phys = gen_phys(rng, name, len(prod_vars(rows, cols)), "small")
            tr = rng.random() < 0.5
            prow, pcol = (cols, rows) if rng.random() < 0.5 else (rows, cols)
            M = prod_dense_matrix(name, prow, pcol, phys)
            Meff = [list(r) for r in zip(*M)] if tr else M      # the matrix of the system that is solved
            bpat = max((["0"] * d, ["1"] * d),
                       key=lambda bp: closure_depth(name, Meff, prod_dense_rhs(name, bp, U.CARRIER[name].one, 0)))
            if rng.random() < 0.25: bpat[rng.randrange(d)] = "A"
            bphys = gen_phys(rng, name, len(prod_vars(bpat)), "small")
            nb = rng.choice([1, 2, 2])
            shapes = [[n]] + [[rng.choice([1, 2])] for _ in range(nb - 1)]
            ablocks = [((0, 0), M)]; apat = {"0": dict(rows=prow, cols=pcol, phys=phys)}
            if nb == 2:
                k = shapes[1][0]
                if rng.random() < 0.7: ablocks.append(((1, 0), U.gen_block(rng, name, k, n, "small")))
                if rng.random() < 0.5: ablocks.append(((0, 1), U.gen_block(rng, name, n, k, "small")))
                if rng.random() < 0.5: ablocks.append(((1, 1), U.gen_block(rng, name, k, k, "small")))
                order = list(range(len(ablocks))); rng.shuffle(order)
                pos = order.index(0)
                ablocks = [ablocks[i] for i in order]; apat = {str(pos): apat["0"]}
            bvec = [row[0] for row in prod_dense_rhs(name, bpat, bphys, 0)]
            bblocks = [(0, bvec)]; bpatd = {"0": dict(bpat=bpat, bphys=bphys)}
            if nb == 2 and rng.random() < 0.5:
                bblocks.append((1, U.gen_block(rng, name, 1, shapes[1][0], "dyadic")[0]))
            Aeff = [list(r) for r in zip(*M)] if tr else M
            cases.append(dict(kind="multi", semiring=name, cls="%dblock-prod-%s%s" % (nb, fam, "-T" if tr else ""),
                              shapes=shapes, a=ablocks, b=bblocks, transpose=tr, keykind=rng.choice([0, 1, 2]),
                              style="small", apat=apat, bpat=bpatd,
                              depth=closure_depth(name, Aeff, [[v] for v in bvec])))
    return cases

# ----------------------------------------------------------------------------- multi

SHAPES = [(), (2,), (2, 2), (3,)]
def numel(s):
    r = 1
    for d in s: r *= d
    return r

class NT:
    """a hashable non-tuple key object (MultiTensor treats tuple keys as key pairs)"""
    def __init__(self, i): self.i = i
    def __hash__(self): return hash(("NT", self.i))
    def __eq__(self, other): return isinstance(other, NT) and other.i == self.i
    def __repr__(self): return "NT(%d)" % self.i

def key_obj(kind, i):
    if kind == 0: return i
    if kind == 1: return "X%d" % i
    return NT(i)

def multi_cases(rng, tier):
    cases = []
    # all presence patterns of a 2-block system
    pairs = [(0, 0), (0, 1), (1, 0), (1, 1)]
    reps = 1 if tier == "quick" else 4
    for name in SEMIRINGS:
        for amask in range(16):
            for bmask in range(4):
                for tr in (False, True):
                    for _ in range(reps):
                        shapes = [rng.choice([(), (2,)]), rng.choice([(), (2,), (3,)])]
                        akeys = [p for i, p in enumerate(pairs) if (amask >> i) & 1]
                        rng.shuffle(akeys)
                        bkeys = [i for i in range(2) if (bmask >> i) & 1]
                        rng.shuffle(bkeys)
                        cases.append(make_multi_case(rng, name, "2block", shapes, akeys, bkeys, tr, 0,
                                                     rng.choice(["small", "grid", "dyadic"])))
    n_s = 40 if tier == "quick" else 900
    for name in SEMIRINGS:
        for t in range(n_s):
            nb = rng.choice([3, 3, 4])
            shapes = [rng.choice(SHAPES) for _ in range(nb)]
            if sum(numel(s) for s in shapes) > 10: shapes = [rng.choice([(), (2,)]) for _ in range(nb)]
            p = rng.choice([0.25, 0.4, 0.7])
            akeys = [(i, j) for i in range(nb) for j in range(nb) if rng.random() < p]
            rng.shuffle(akeys)
            bkeys = [i for i in range(nb) if rng.random() < 0.6]
            rng.shuffle(bkeys)
            cases.append(make_multi_case(rng, name, "%dblock" % nb, shapes, akeys, bkeys, rng.random() < 0.5,
                                         rng.choice([0, 0, 1, 2]), rng.choice(["small", "small", "grid", "dyadic"])))
    return cases

def make_multi_case(rng, name, cls, shapes, akeys, bkeys, tr, keykind, style):
    dims = [numel(s) for s in shapes]
    ablocks = [((x, y), U.gen_block(rng, name, dims[x], dims[y], style)) for (x, y) in akeys]
    bblocks = [(x, U.gen_block(rng, name, 1, dims[x], "grid" if style == "grid" else "dyadic")[0]) for x in bkeys]
    return dict(kind="multi", semiring=name, cls=cls + ("-T" if tr else ""), shapes=[list(s) for s in shapes],
                a=ablocks, b=bblocks, transpose=tr, keykind=keykind, style=style)

def build_multi(c, jshapes=None):
    import torch
    from fggs.multi import MultiTensor
    from fggs.indices import PatternedTensor
    name = c["semiring"]; S = U.semiring(name)
    ko = lambda i: key_obj(c["keykind"], i)
    shapes = {ko(i): torch.Size(s) for i, s in enumerate(c["shapes"])}
    jsh = shapes if jshapes is None else {ko(i): torch.Size(s) for i, s in enumerate(jshapes)}
    a = MultiTensor((shapes, jsh), S)
    apat = c.get("apat") or {}
    for i, ((x, y), blk) in enumerate(c["a"]):
        if str(i) in apat:
            sp = apat[str(i)]
            pt = prod_tensor(name, [sp["rows"], sp["cols"]], sp["phys"])
            if not torch.equal(pt.to_dense(), U.tensor(name, blk)):
                raise RuntimeError("harness: patterned block does not denote the intended dense block")
            a[ko(x), ko(y)] = pt
            continue
        t = U.tensor(name, blk, shape=tuple(shapes[ko(x)]) + tuple(jsh[ko(y)]))
        a[ko(x), ko(y)] = PatternedTensor(t)
    return S, shapes, jsh, a, ko

def snap_multi(mt):
    return [(repr(k), U.snapshot(v.physical), repr(v.default), tuple(v.shape)) for k, v in mt.items()]

def read_multi(name, out, shapes, ko, nkeys):
    back = {ko(i): i for i in range(nkeys)}
    res = []
    for k in out:
        v = out[k]
        d = v.to_dense()
        if tuple(d.shape) != tuple(shapes[k]): raise U.BadValue("block %r has shape %r, expected %r" % (k, tuple(d.shape), tuple(shapes[k])))
        res.append((back[k], [U.read_out(name, e) for e in U.flat_entries(d)]))
    return res

def run_multi_solve(c):
    import torch, fggs.multi as multi
    from fggs.multi import MultiTensor
    from fggs.indices import PatternedTensor
    name = c["semiring"]
    S, shapes, _, a, ko = build_multi(c)
    b = MultiTensor((shapes,), S)
    bpat = c.get("bpat") or {}
    for i, (x, vec) in enumerate(c["b"]):
        if str(i) in bpat:
            pt = prod_tensor(name, [bpat[str(i)]["bpat"]], bpat[str(i)]["bphys"])
            if not torch.equal(pt.to_dense(), U.tensor(name, vec)):
                raise RuntimeError("harness: patterned rhs block does not denote the intended dense block")
            b[ko(x)] = pt
            continue
        b[ko(x)] = PatternedTensor(U.tensor(name, vec, shape=tuple(shapes[ko(x)])))
    sa, sb = snap_multi(a), snap_multi(b)
    rec = {}
    orig = multi._order_nonterminals
    def wrapper(aa):
        # what _order_nonterminals sees: the keys of a, the shape keys; and what it returns
        rec["keys"] = list(aa.keys()); rec["shape_keys"] = list(aa.shapes[0].keys())
        rec["order"] = orig(aa)
        return rec["order"]
    multi._order_nonterminals = wrapper
    try:
        out = multi.multi_solve(a, b, transpose=c["transpose"])
    finally:
        multi._order_nonterminals = orig
    modified = snap_multi(a) != sa or snap_multi(b) != sb
    nk = len(c["shapes"])
    back = {ko(i): i for i in range(nk)}
    order = [back[k] for k in rec["order"]]
    return dict(out=read_multi(name, out, shapes, ko, nk), order=order, modified=modified,
                okeys=[(back[x], back[y]) for (x, y) in rec["keys"]], oshape_keys=[back[k] for k in rec["shape_keys"]])

def multi_solve_value(c, r):
    name = c["semiring"]; R = U.CARRIER[name]
    dims = [(i, numel(s)) for i, s in enumerate(c["shapes"])]
    order = r["order"]
    # dense system for the certificate (Python side; re-checked in Coq)
    off = {}; tot = 0
    for i, d in dims: off[i] = tot; tot += d
    A = [[R.zero] * tot for _ in range(tot)]; bb = [R.zero] * tot
    for (x, y), blk in c["a"]:
        for p in range(len(blk)):
            for q in range(len(blk[0]) if blk else 0):
                if c["transpose"]: A[off[y] + q][off[x] + p] = blk[p][q]
                else: A[off[x] + p][off[y] + q] = blk[p][q]
    for x, vec in c["b"]:
        for p, v in enumerate(vec): bb[off[x] + p] = v
    u = U.xsolve(R, A, bb)
    w = lambda v: U.wire_val(name, v)
    ord_full = order if order else []
    return (dims, ord_full, c["transpose"],
            [((x, y), U.wire_mat(name, blk)) for (x, y), blk in c["a"]],
            [(x, [w(v) for v in vec]) for x, vec in c["b"]],
            r["out"], [w(v) for v in u])

def mv_cases(rng, tier):
    cases = []
    n_s = 60 if tier == "quick" else 1200
    for name in SEMIRINGS:
        for t in range(n_s):
            nb = rng.choice([1, 2, 2, 3, 4])
            ishapes = [rng.choice(SHAPES) for _ in range(nb)]
            jshapes = [rng.choice(SHAPES) for _ in range(nb)]
            p = rng.choice([0.3, 0.6, 1.0])
            akeys = [(i, j) for i in range(nb) for j in range(nb) if rng.random() < p]
            rng.shuffle(akeys)
            tr = rng.random() < 0.5
            bsh = ishapes if tr else jshapes
            bkeys = [i for i in range(nb) if rng.random() < 0.7]
            rng.shuffle(bkeys)
            di = [numel(s) for s in ishapes]; dj = [numel(s) for s in jshapes]
            style = rng.choice(["grid", "dyadic"])
            cases.append(dict(kind="mv", semiring=name, cls="mv%d" % nb + ("-T" if tr else ""),
                              shapes=[list(s) for s in ishapes], jshapes=[list(s) for s in jshapes],
                              a=[((x, y), U.gen_block(rng, name, di[x], dj[y], style)) for (x, y) in akeys],
                              b=[(x, U.gen_block(rng, name, 1, numel(bsh[x]), style)[0]) for x in bkeys],
                              transpose=tr, keykind=rng.choice([0, 1, 2]), style=style))
    return cases

def run_multi_mv(c):
    import torch, fggs.multi as multi
    from fggs.multi import MultiTensor
    from fggs.indices import PatternedTensor
    name = c["semiring"]
    S, ish, jsh, a, ko = build_multi(c, c["jshapes"])
    bsh = ish if c["transpose"] else jsh
    osh = jsh if c["transpose"] else ish
    b = MultiTensor((bsh,), S)
    for x, vec in c["b"]:
        b[ko(x)] = PatternedTensor(U.tensor(name, vec, shape=tuple(bsh[ko(x)])))
    sa, sb = snap_multi(a), snap_multi(b)
    out = multi.multi_mv(a, b, transpose=c["transpose"])
    modified = snap_multi(a) != sa or snap_multi(b) != sb
    return dict(out=read_multi(name, out, osh, ko, len(c["shapes"])), modified=modified)

def multi_mv_value(c, r):
    name = c["semiring"]
    w = lambda v: U.wire_val(name, v)
    di = [(i, numel(s)) for i, s in enumerate(c["shapes"])]
    dj = [(i, numel(s)) for i, s in enumerate(c["jshapes"])]
    return (di, dj, c["transpose"],
            [((x, y), U.wire_mat(name, blk)) for (x, y), blk in c["a"]],
            [(x, [w(v) for v in vec]) for x, vec in c["b"]], r["out"])

# ----------------------------------------------------------------------------- verdicts

CODE_TEXT = {
    1: "the output is not a solution of x = A x + b (verified oracle is_solution_b rejects it)",
    2: "the N-step series sum_{k<=N} A^k b is not below the output (verified lower-bound oracle rejects it)",
    3: "the output is not below a certified pre-solution (upper-bound certificate rejects it)",
    4: "the output is a solution but not the least one (it exceeds the model's least solution)",
    6: "the output is a solution but not the least one, and a pivot equals the semiring one (only reachable when the code's star differs from the semiring's)",
    7: "Real: torch.linalg.solve's answer was accepted (finite input, all entries >= 0) although it is not the least solution",
    8: "Real/Log: the series diverges (least solution +inf) but the float computation returns finite values >= 1e12",
    10: "the output differs from the Gallina model although no oracle rejects it",
    11: "the key list of the output MultiTensor differs from the model's",
    12: "harness: malformed shapes on the wire",
    13: "internal: two code paths of the model disagree",
}

def violation_for(code, c, observed, call, extra=None):
    name = c["semiring"]
    fk = None
    if code == 8 and name in ("real", "log"): fk = FK_DIV
    found = code in (1, 2, 3, 4, 6, 7, 8)
    case = {k: U.jsonable(v) for k, v in c.items()}
    if extra: case.update(U.jsonable(extra))
    return Violation("%s [%s, %s]: %s" % (call, name, c.get("cls"), CODE_TEXT.get(code, "code %d" % code)),
                     case=case, observed=U.jsonable(observed),
                     oracle={1: "is_solution_b", 2: "series_le_b", 3: "cert_le_b", 4: "is_least_solution_b", 6: "is_least_solution_b",
                             7: "real_lu_check", 8: "least solution (solve_model)"}.get(code),
                     corr="C09_elimination_least / C09_oracle_sound / corr:%s" % c["kind"],
                     failing_input_found=found, call=call, finding_key=fk)

def run_coq_group(group, tag, timeout=900):
    """one coqc run evaluating, with vm_compute, the picked cases of several check functions
    (the libraries are loaded once); returns one list of verdict codes per plan"""
    import subprocess, shutil, re
    d = os.path.join(BUILD, "cases", tag)
    shutil.rmtree(d, ignore_errors=True); os.makedirs(d)
    path = os.path.join(d, "Cases_%s.v" % tag.replace("-", "_"))
    mods = []
    for cf, values, codes, pick, jt in group:
        for m in [cf.module] + cf.imports:
            if m not in mods: mods.append(m)
    with open(path, "w") as f:
        f.write("From Coq Require Import List ZArith QArith.\nImport ListNotations.\n")
        for m in mods: f.write("Require Import Fggs.%s.\n" % m)
        for k, (cf, values, codes, pick, jt) in enumerate(group):
            f.write("Definition cases_%d : list %s := [\n" % (k, cf.ty.coqty()))
            f.write(";\n".join(cf.ty.coq(values[i]) for i in pick))
            f.write("\n].\nDefinition res_%d := List.map %s cases_%d.\nEval vm_compute in res_%d.\n" % (k, cf.coq_name, k, k))
    p = subprocess.run(["timeout", str(timeout), "coqc", "-q", "-R", os.path.join(COQDIR, "theories"), "Fggs", path],
                       stdout=subprocess.PIPE, stderr=subprocess.STDOUT, text=True, cwd=d)
    if p.returncode != 0:
        raise BuildError("coqc failed on %s:\n%s" % (path, p.stdout[-3000:]))
    blocks = re.findall(r"=\s*(\[.*?\]|nil)\s*:\s*list nat", p.stdout, re.S)
    if len(blocks) != len(group):
        raise BuildError("could not parse coqc output of %s (%d blocks for %d jobs):\n%s" % (path, len(blocks), len(group), p.stdout[-2000:]))
    out = []
    for blk, (cf, values, codes, pick, jt) in zip(blocks, group):
        cs = [int(x) for x in re.findall(r"\d+", blk)]
        if len(cs) != len(pick):
            raise BuildError("coqc printed %d codes for %d cases of %s" % (len(cs), len(pick), cf.kind))
        out.append(cs)
    return out

JOB_SECONDS = {}     # tag -> [cases, extracted-driver seconds, kernel seconds]

def run_models_parallel(jobs, seed):
    """jobs: list of (cf, values, coq_sample, tag).  Same contract as core.run_model for each job
    (bulk through the extracted driver; a sample and every non-zero verdict re-evaluated in the
    kernel with vm_compute, both must agree), but the coqc runs of all jobs are concurrent."""
    from concurrent.futures import ThreadPoolExecutor
    import time as _time
    plans = []
    for cf, values, coq_sample, tag in jobs:
        t0 = _time.time()
        codes = run_ocaml(cf, values)
        JOB_SECONDS[tag] = [len(values), round(_time.time() - t0, 1), 0.0]
        rng = random.Random(seed * 7919 + 13)
        idx = list(range(len(values)))
        bad = [i for i in idx if codes[i] != 0][:40]
        rest = [i for i in idx if codes[i] == 0]
        rng.shuffle(rest)
        pick = sorted(set(bad + rest[:coq_sample]))
        plans.append((cf, values, codes, pick, tag))
    def kernel_group(gi_group):
        gi, group = gi_group
        if not any(pl[3] for pl in group): return [[] for _ in group]
        t0 = _time.time()
        r = run_coq_group(group, "c09-group-%d" % gi)
        for pl in group: JOB_SECONDS[pl[4]][2] = round(_time.time() - t0, 1)
        return r
    ngroups = 3
    groups = [(gi, plans[gi::ngroups]) for gi in range(ngroups)]
    with ThreadPoolExecutor(max_workers=ngroups) as ex:
        gres = list(ex.map(kernel_group, groups))
    results = [None] * len(plans)
    for (gi, group), rs in zip(groups, gres):
        for k, r in enumerate(rs): results[gi + k * ngroups] = r
    out = []
    for (cf, values, codes, pick, tag), ccodes in zip(plans, results):
        for i, c in zip(pick, ccodes):
            if c != codes[i]:
                raise BuildError("extracted code and vm_compute disagree on %s case %d: %d vs %d" % (cf.kind, i, codes[i], c))
        out.append((codes, len(pick)))
    return out

def nontrivial(c):
    if c["kind"] in ("dense", "patterned", "psolve"):
        n = c["n"]; z = U.zero_of(c["semiring"])
        return n >= 2 and any(c["A"][i][j] != z for i in range(n) for j in range(n) if i != j)
    return len(c["a"]) >= 2

def run(tier, seed):
    import time as _time
    t_start = _time.time(); phase = {}
    rng = random.Random(seed)
    violations = []
    hist = {}
    depth_hist = {}
    evals = 0
    seen_nontrivial = set()
    samples = []
    kernel = 0
    def count(c):
        k = "%s/%s/%s" % (c["kind"], c["semiring"], c["cls"])
        hist[k] = hist.get(k, 0) + 1
        if "depth" in c:
            dk = "%s/closure-depth-%d" % (c["kind"], min(c["depth"], 4))
            depth_hist[dk] = depth_hist.get(dk, 0) + 1
        if nontrivial(c): seen_nontrivial.add(repr(sorted((k2, repr(v)) for k2, v in c.items())))

    # ---- (i) dense + (iii) patterned: same check functions
    batches = {"ereal": [], "trop": [], "bool": []}
    lus = []
    f18_hits = 0
    for c in dense_cases(rng, tier) + patterned_cases(rng, tier) + prod_cases(rng, tier):
        name = c["semiring"]; call = "Semiring.solve" if c["kind"] == "dense" else "PatternedTensor.solve"
        try:
            r = run_dense_case(name, c["n"], c["m"], c["A"], c["B"]) if c["kind"] == "dense" else run_patterned_case(c)
        except AssertionError as e:
            if c["kind"] == "patterned" and f18_class(c):
                violations.append(Violation("PatternedTensor.solve raises AssertionError when the pattern support of a's columns is disjoint from b's support (the a*e = 0 exit)",
                                            case={k: U.jsonable(v) for k, v in c.items()}, observed="AssertionError", call=call,
                                            corr="corr:patterned", finding_key=FK_F18))
                count(c); evals += 1
                continue
            violations.append(Violation("%s raised AssertionError %r" % (call, e), case={k: U.jsonable(v) for k, v in c.items()}, call=call, corr="corr:" + c["kind"]))
            continue
        except Exception as e:
            violations.append(Violation("%s raised %r" % (call, e), case={k: U.jsonable(v) for k, v in c.items()}, call=call, corr="corr:" + c["kind"]))
            continue
        count(c); evals += 1
        if r["modified"]:
            violations.append(Violation("%s modified its arguments (byte snapshot differs)" % call, case={k: U.jsonable(v) for k, v in c.items()}, call=call, corr="arguments unmodified"))
        batches[CARRIER_OF[name]].append((c, dense_value(name, c["n"], c["m"], c["A"], c["B"], r["X"]), r["X"], call))
        if c["kind"] == "dense" and name == "real" and c["m"] == 0 and c["n"] > 0:
            lu = None
            if r["lu"] and r["lu"][0][0] == "ok": lu = lu_wire(r["lu"][0][1])
            lus.append((c, (c["n"], U.wire_mat(name, c["A"]), [U.wire_val(name, row[0]) for row in c["B"]], lu, [row[0] for row in r["X"]]), r))

    # ---- (iii') PatternedTensor.solve at the level of its axis loop (tier B): generated typed
    # patterned systems, the loop's result / passes / warnings and the operands of solve_thunks
    # observed; the dense result is judged by the same dense check functions as above
    ps_items = []
    for c in PS.psolve_cases(rng, tier, SEMIRINGS):
        name = c["semiring"]; call = "PatternedTensor.solve"
        try:
            r = PS.run_case(c)
        except Exception as e:
            violations.append(Violation("%s raised %r" % (call, e), case={k: U.jsonable(v) for k, v in c.items()}, call=call, corr="corr:psolve"))
            continue
        count(c); evals += 1
        if r["modified"]:
            violations.append(Violation("%s modified its arguments (byte snapshot differs)" % call, case={k: U.jsonable(v) for k, v in c.items()}, call=call, corr="arguments unmodified"))
        ps_items.append((c, r))
        if c["n"] > 0 and c["m"] > 0:
            mflag = 0 if c["vec"] else c["m"]
            batches[CARRIER_OF[name]].append((c, dense_value(name, c["n"], mflag, c["A"], c["B"], r["X"]), r["X"], call))

    # ---- (ii) multi_solve
    mb = {"ereal": [], "trop": [], "bool": []}
    orders = []
    order_sets_ok = True
    for c in multi_cases(rng, tier) + multi_prod_cases(rng, tier):
        name = c["semiring"]; call = "fggs.multi.multi_solve"
        try:
            r = run_multi_solve(c)
        except Exception as e:
            violations.append(Violation("%s raised %r" % (call, e), case={k: U.jsonable(v) for k, v in c.items()}, call=call, corr="corr:multi"))
            continue
        count(c); evals += 1
        if r["modified"]:
            violations.append(Violation("multi_solve modified its arguments", case={k: U.jsonable(v) for k, v in c.items()}, call=call, corr="arguments unmodified"))
        mb[CARRIER_OF[name]].append((c, multi_solve_value(c, r), r))
        if c["keykind"] == 0:
            # the model of _order_nonterminals assumes ascending set iteration: check it on this run's sets
            g = {}
            for (x, y) in r["okeys"]: g.setdefault(x, set()).add(y)
            if all(list(s) == sorted(s) for s in g.values()):
                orders.append((c, (r["okeys"], r["oshape_keys"], r["order"])))
            else: order_sets_ok = False

    # ---- multi_mv
    vb = {"ereal": [], "trop": [], "bool": []}
    for c in mv_cases(rng, tier):
        name = c["semiring"]; call = "fggs.multi.multi_mv"
        try:
            r = run_multi_mv(c)
        except Exception as e:
            violations.append(Violation("%s raised %r" % (call, e), case={k: U.jsonable(v) for k, v in c.items()}, call=call, corr="corr:mv"))
            continue
        count(c); evals += 1
        if r["modified"]:
            violations.append(Violation("multi_mv modified its arguments", case={k: U.jsonable(v) for k, v in c.items()}, call=call, corr="arguments unmodified"))
        vb[CARRIER_OF[name]].append((c, multi_mv_value(c, r), r))
    phase["implementation_calls_s"] = round(_time.time() - t_start, 1); t_model = _time.time()
    # ---- run the model side (extracted code + kernel re-evaluation), all check functions at once
    carriers = ["ereal", "trop", "bool"]
    jobs = [(DENSE[k], [v for _, v, _, _ in batches[k]], 10, "c09-dense-" + k) for k in carriers]
    jobs.append((LU, [v for _, v, _ in lus], 8, "c09-lu"))
    jobs += [(MSOLVE[k], [v for _, v, _ in mb[k]], 8, "c09-ms-" + k) for k in carriers]
    jobs.append((ORDER, [v for _, v in orders], 8, "c09-order"))
    jobs += [(MMV[k], [v for _, v, _ in vb[k]], 8, "c09-mv-" + k) for k in carriers]
    ps_axis_vals = [PS.axis_value(c, r) for c, r in ps_items]
    ps_val_items = [(c, r) for c, r in ps_items if r["tag"] == 0]
    ps_value_vals = [PS.value_value(c, r) for c, r in ps_val_items]
    jobs.append((PS.PS_AXIS, ps_axis_vals, 10, "c09-psolve-axis"))
    jobs.append((PS.PS_VALUE, ps_value_vals, 8, "c09-psolve-value"))
    res = run_models_parallel(jobs, seed)
    kernel = sum(nk for _, nk in res)
    phase["model_and_kernel_s"] = round(_time.time() - t_model, 1)
    rd = res[0:3]; rlu = res[3]; rms = res[4:7]; rord = res[7]; rmv = res[8:11]; rpa = res[11]; rpv = res[12]
    ps_hist = {}
    for (c, r), code in zip(ps_items, rpa[0]):
        k = "%s/passes-%d/%s" % ("normal" if r["tag"] == 0 else "b.clone", r["passes"], "ok" if code == 0 else "code-%d" % code)
        ps_hist[k] = ps_hist.get(k, 0) + 1
        if code:
            violations.append(Violation("PatternedTensor.solve [%s, %s]: %s" % (c["semiring"], c["cls"], PS.AXIS_CODE_TEXT.get(code, "code %d" % code)),
                                        case={kk: U.jsonable(x) for kk, x in c.items()},
                                        observed=U.jsonable(dict(exit="solve_thunks called" if r["tag"] == 0 else "b.clone()", solution_axis=r["e"], passes=r["passes"], warned=r["warned"])),
                                        oracle={1: "contains_b", 2: "closed_b", 3: "disjoint_b"}.get(code),
                                        corr="C09_psolve_loop_closed / C09_psolve_oracles_sound / corr:psolve-axis",
                                        failing_input_found=code in (1, 2, 3), call="PatternedTensor.solve"))
    for (c, r), code in zip(ps_val_items, rpv[0]):
        if code:
            violations.append(Violation("PatternedTensor.solve [%s, %s]: %s" % (c["semiring"], c["cls"], PS.VALUE_CODE_TEXT.get(code, "code %d" % code)),
                                        case={kk: U.jsonable(x) for kk, x in c.items()},
                                        observed=U.jsonable(dict(solution_axis=r["e"], operand_a=r["RA"], operand_b=r["RB"], solve_thunks_result=r["Xin"], result=r["Xd"])),
                                        oracle="gather2 / scatter2 (C09_psolve_denotes_least)", corr="corr:psolve-value",
                                        failing_input_found=code in (4, 5, 6), call="PatternedTensor.solve"))
    evals += len(ps_value_vals)
    if ps_items:
        c, r = ps_items[0]
        samples.append(dict(case={kk: U.jsonable(x) for kk, x in c.items()}, solution_axis=U.jsonable(r["e"]), passes=r["passes"]))
    for k, (codes, _) in zip(carriers, rd):
        items = batches[k]
        for (c, v, X, call), code in zip(items, codes):
            if code: violations.append(violation_for(code, c, X, call))
        if items:
            c, v, X, call = items[len(items) // 2]
            samples.append(dict(case={kk: U.jsonable(x) for kk, x in c.items()}, impl_output=U.jsonable(X)))
    lu_taken = 0
    for (c, v, r), code in zip(lus, rlu[0]):
        if v[3] is not None: lu_taken += 1
        if code in (0, 8): continue       # 8 is reported by the dense check of the same case
        violations.append(violation_for(code, c, r["X"], "RealSemiring.solve (LU path)", extra=dict(lu=[repr(x) for x in r["lu"]])))
    evals += len(lus)
    for k, (codes, _) in zip(carriers, rms):
        items = mb[k]
        for (c, v, r), code in zip(items, codes):
            if code: violations.append(violation_for(code, c, r["out"], "fggs.multi.multi_solve", extra=dict(order=r["order"])))
        if items:
            c, v, r = items[len(items) // 3]
            samples.append(dict(case={kk: U.jsonable(x) for kk, x in c.items()}, order=r["order"], impl_output=U.jsonable(r["out"])))
    for (c, v), code in zip(orders, rord[0]):
        if code:
            violations.append(Violation("_order_nonterminals: " + ("the order is not a duplicate-free enumeration of the shape keys" if code == 1 else "order differs from the model (code %d)" % code),
                                        case=dict(keys=v[0], shape_keys=v[1]), observed=v[2], oracle="order_check" if code == 1 else None,
                                        corr="corr:order_nonterminals", failing_input_found=(code == 1), call="fggs.multi._order_nonterminals"))
    evals += len(orders)
    for k, (codes, _) in zip(carriers, rmv):
        for (c, v, r), code in zip(vb[k], codes):
            if code:
                vv = violation_for(code, c, r["out"], "fggs.multi.multi_mv")
                if code == 1: vv.what = "fggs.multi.multi_mv [%s]: the output is not the dense matrix-vector product of the assembled blocks" % c["semiring"]; vv.oracle = "dense mv_model of assembled blocks"
                violations.append(vv)

    cov = dict(evaluations=evals, distinct_nontrivial=len(seen_nontrivial),
               rule="dense/patterned: n <= 4, entries from the exact grids (Real/Log: 0, 1/4, 1/2, 1, 2, inf; Viterbi: -inf, -3..2, +inf; Bool), classes forcing spectral radius < 1 (row sums < 1 / negative weights), = 1 (row-stochastic, zero-weight cycles), > 1, infinite entries, zero rows, triangular; vector and matrix right-hand sides. multi: all 16 x 4 presence patterns of a 2-block system x transpose, sampled 3- and 4-block systems, block shapes (), (2,), (2,2), (3,), three key types, order recorded from the implementation; product/sum-typed patterns over index types 2x2 and 2x2x2 (rows (c,A,B) against columns (A,B,C) and variants, single-cell / single-row right-hand sides) for PatternedTensor.solve and as diagonal blocks of multi_solve, closure depth of the solution support recorded in closure_depth_histogram. non-trivial = dense: n >= 2 with a non-zero off-diagonal entry; multi: >= 2 present blocks; distinct by full case content",
               samples=samples[:6], histogram=hist, closure_depth_histogram=depth_hist, kernel_reevaluated=kernel, lu_path_observed=lu_taken,
               psolve_axis_loop_histogram=ps_hist,
               order_model_set_iteration_assumption_held=order_sets_ok, phase_seconds=phase, job_seconds=JOB_SECONDS,
               open_items=OPEN_ITEMS)
    return cov, violations

OPEN_ITEMS = [
    "bool_series_exact_upto3 (bounded in-kernel check, n <= 3, in Proofs/SolveCarriers.v) is kept beside the unbounded C09_least_is_series_bool_exact",
    "tier B, termination: C09_psolve_loop_terminates bounds the passes of PatternedTensor.solve's axis loop by amsr(e0) * (amsr(e0) + 1) for all patterns in normal form (no size-1 factor inside a product) with one size per physical axis, UNLESS a warning (index type mismatch) is issued on the way; that typed patterns never warn in later passes is not proved (the typing judgement of C06 is not preserved by antiunify); failures of the fuel-bounded axis functions of the model (LErr) are a separate outcome",
    "tier B, projection: lines 1430-1458 of PatternedTensor.solve (freshen / unify / project / clone / to_dense of a and b onto the computed axis) are modelled by their result (gather2) and compared with the observed operands of solve_thunks on every case; no statement-level Gallina model of that part (C07's project_view could be reused)",
    "tier B: the link to PTensor.denote is proved for a matrix a and a VECTOR b whose defaults are the semiring zero (C09_psolve_tensor_least, C09_psolve_tensor_early_least); for a matrix right-hand side C09_psolve_denotes_least is stated for dense A, B that vanish outside the patterns; the default_to / freshen prologue (densified tensors, renamed axes denote the same tensor: C06) is exercised by the correspondence only",
]

def replay(path):
    import json
    r = json.load(open(path))
    c = r["case"]
    if not isinstance(c, dict) or "kind" not in c:
        print("nothing to replay in", path); return 1
    name = c["semiring"]
    def un(v): return U.unjson(name, v)
    if c["kind"] == "psolve":
        c = PS.unjson_case(c)
        try:
            rr = PS.run_case(c)
        except Exception as e:
            print("raised", repr(e)); return 1
        codes = dict(axis=run_coq(PS.PS_AXIS, [PS.axis_value(c, rr)], tag="replay")[0])
        if rr["tag"] == 0: codes["value"] = run_coq(PS.PS_VALUE, [PS.value_value(c, rr)], tag="replay")[0]
        if c["n"] > 0 and c["m"] > 0:
            codes["dense"] = run_coq(DENSE[CARRIER_OF[name]], [dense_value(name, c["n"], 0 if c["vec"] else c["m"], c["A"], c["B"], rr["X"])], tag="replay")[0]
        print("solution axis", rr["e"], "passes", rr["passes"], "warned", rr["warned"], "modified", rr["modified"], "verdict codes", codes)
        return 1 if (any(codes.values()) or rr["modified"]) else 0
    if c["kind"] in ("dense", "patterned"):
        c = dict(c); c["A"] = un(c["A"]); c["B"] = un(c["B"])
        if c["kind"] == "patterned":
            sp = dict(c["spec"])
            for k in ("diag", "sub", "bsub", "phys", "bphys"):
                if k in sp: sp[k] = un(sp[k])
            c["spec"] = sp
        try:
            rr = run_dense_case(name, c["n"], c["m"], c["A"], c["B"]) if c["kind"] == "dense" else run_patterned_case(c)
        except Exception as e:
            print("raised", repr(e)); return 1
        code = run_coq(DENSE[CARRIER_OF[name]], [dense_value(name, c["n"], c["m"], c["A"], c["B"], rr["X"])], tag="replay")[0]
        print("output", rr["X"], "modified", rr["modified"], "verdict code", code, CODE_TEXT.get(code, ""))
        return 1 if (code or rr["modified"]) else 0
    c = dict(c)
    c["a"] = [((x, y), un(blk)) for (x, y), blk in c["a"]]
    c["b"] = [(x, un(v)) for x, v in c["b"]]
    for sp in (c.get("apat") or {}).values(): sp["phys"] = un(sp["phys"])
    for sp in (c.get("bpat") or {}).values(): sp["bphys"] = un(sp["bphys"])
    try:
        if c["kind"] == "multi":
            rr = run_multi_solve(c); code = run_coq(MSOLVE[CARRIER_OF[name]], [multi_solve_value(c, rr)], tag="replay")[0]
        else:
            rr = run_multi_mv(c); code = run_coq(MMV[CARRIER_OF[name]], [multi_mv_value(c, rr)], tag="replay")[0]
    except Exception as e:
        print("raised", repr(e)); return 1
    print("output", rr["out"], "verdict code", code, CODE_TEXT.get(code, ""))
    return 1 if (code or rr["modified"]) else 0

MANIFEST = dict(
    level="proof",
    text="Coq theorems, generic over an abstract ordered star-semiring (law records as premises): recursive elimination of the unknowns in ANY order yields a solution of x = A x + b (from star-unfold alone) that is below every pre-solution (from star-induction); the in-place Gauss-Jordan loop of Semiring.solve_thunks (modelled statement by statement on lists, vector and matrix right-hand sides) computes the same vector; the partial sums of sum A^k b are below it, with equality at N = dim in bool; the block version over an abstract ordered star-semimodule (non-commutative coefficients) and its instance by N x N matrices with the dense solver on the diagonal blocks; RealSemiring's LU fast path agrees with the generic routine when its oracle returns the unique rational solution; multi_mv equals the dense product of the assembled blocks (also transposed); the model of _order_nonterminals returns a duplicate-free enumeration of the keys for every set-iteration order; the matrix star over a commutative ordered star-semiring: A* = A* A + 1 from the left laws alone, (A^T)* = (A*)^T, the least solution of X = X A + B is (solve (A^T) (B^T))^T = B . A* (C09_right_solve_least, C09_mul_star_least, C09_solve_transposed, C09_star_transpose); C09_multi_solve_refines: multi_solve_model (block LU over the PRESENT blocks with a[x,z] := a[x,z] a[z,z]* computed by the transposed solve, Schur updates, block back-substitution) computes, block by block, the block elimination belim instantiated with matrices, for every key set with shapes, every presence pattern (absent = zero: annihilation, solve of a zero matrix = identity), every duplicate-free elimination order and both transpose flags; hence the assembled result is the LEAST solution of x = A x + b of the assembled dense system and equals solve_model of it (verdict 13 of the multi check is impossible), also with the order computed by the model of _order_nonterminals (empty a: order [], result b); soundness/completeness of the executable oracles is_solution_b, series_le_b, cert_le_b, is_least_solution_b; Viterbi (finding F2, repaired in /repo commit d2ec7af): the former star (star(0)=inf) still yields a solution, a refutation witness for leastness, and leastness under the guard 'no pivot is exactly 0'. Tied to /repo by running model and implementation on the same exact-grid inputs (dense n <= 4, 4 semirings; block systems with every presence pattern of 2 blocks and sampled 3/4 blocks, transpose, recorded elimination order; PatternedTensor.solve on typed sparsity patterns, incl. product/sum-typed shift patterns whose solution support needs several closure steps, also as diagonal blocks of multi_solve) and judging every implementation output with the extracted oracles; arguments are byte-snapshotted. TIER B (PatternedTensor.solve, Model/PSolve.v): the while-loop that computes the least-dense solution axis (unify e with a's columns from an empty substitution, clone a's rows under the unifier, antiunify, exit when the antisubst is an injective renaming of physical axes) is modelled statement by statement; C09_psolve_loop_closed: on the normal exit, if nothing was warned about, the support of the computed axis contains the support of b and is closed under the pattern of a (ingredients: antiunify covers both arguments and, under the exit test, nothing more; completeness of unify without warnings; C09_unify_sized: a warning-free unifier preserves the sizes of the physical axes, so no premise on the unifier is left); C09_psolve_loop_early: on the b.clone() exit no column of a meets the support of b; C09_restricted_solve_is_least (any ordered star-semiring): gather along a closed support, dense solve, scatter = the dense solver on the whole system, i.e. the least solution vanishes outside the support and is the least solution of the projected system on it; C09_psolve_denotes_least / C09_psolve_equals_dense_solve (+ _bool/_real/_viterbi) and C09_psolve_early_exit_least compose them; C09_psolve_tensor_least / C09_psolve_tensor_early_least: for patterned tensors a (matrix) and b (vector) with default zero, the model's result is the least solution of the system PTensor.denote gives (C06's denote_unbacked supplies the premises); C09_psolve_loop_terminates: at most amsr(e0)*(amsr(e0)+1) passes for patterns in normal form unless a warning is issued (each pass shrinks the weight of e or splits a shared axis: C09_antiunify_measure, C09_pass_splits; unify, clone and antiunify preserve the normal form: C09_normal_form_preserved), C09_psolve_loop_terminates_partial: the same for arbitrary patterns under a per-case premise on the trace; finding F25 (the exit test before /repo 6df0afb also fired when one axis had been split in two): C09_psolve_old_exit_refuted (vm_compute witness) and C09_psolve_old_exit_guarded; oracles contains_b / closed_b (sound and complete) / disjoint_b and C09_psolve_axis_check_sound (verdict 0 of the check function implies that the implementation's axis is a closed support containing b's). Correspondence: generated typed patterned systems (index types up to size 8 from atoms 2, 3 with products and sums; families: random typed patterns, shared axes between a and b, non-zero defaults, bit-product shift / rotate patterns with closure depth up to 4, the F25 class and its exact regression input, diagonal a / diagonal b, sum-typed blocks incl. disjoint supports, zero-size axes), the implementation instrumented (solve_thunks and Axis.antiunify wrapped) and compared with the model on exit kind, solution axis up to renaming, passes, warnings, gathered operands and scattered result; the dense result is judged by the dense check functions as well.",
    note="Trusted: Coq kernel + vm_compute, extraction cross-checked in the kernel on a sample and on every non-zero verdict, the Python harness (float <-> rational conversion, math.log/exp for the Log reading, 1e-9 tolerance), semiring law records of the carriers (premises of the generic theorems; proved under C08 and discharged in the _bool/_real/_viterbi instances). Tier B (PatternedTensor.solve): the axis loop is modelled and proved (closure of the computed support without any premise on the unifier, restriction theorem, least solution; F25 = premature exit of that loop, found by the proof attempt, repaired in /repo 6df0afb); open: that typed patterns never warn in later passes (termination is proved 'unless a warning is issued'), statement-level model of the projection. The refinement of multi_solve_model to the block elimination is proved (C09_multi_solve_refines*); the run-time comparison with the dense model (verdict 13) is kept as a redundant cross-check. F2 (Viterbi star at 0) was repaired in /repo commit d2ec7af; a regression shows as 'not the least solution'. Known findings: F18 (PatternedTensor.solve AssertionError on disjoint support), F21 (new: Real/Log return huge finite numbers for divergent systems whose pivots are not float-exact).",
    technique="Coq proof (model + theorems) + model/implementation correspondence with verified-spec oracles",
    design_ref="DESIGN.md section 6, C09; Appendix A.5, A.7; Appendix C (C09)")
