"""C06 (ii): every tensor operation of PatternedTensor against torch on the denoted dense tensors.

A *case* is plain data: dict(op=name, args=[...], operands=[tensor spec...]) (see _c06_util for specs); a
*chain* is a list of up to three (op, args, extra operand specs) applied successively.  The denotation of an
operand is computed from its spec by the definition (`dense_ref`), never by the library."""
from __future__ import annotations
import math, random, itertools, warnings, copy
from harness.core import Violation
from harness.props import _c06_util as U

INF = math.inf
NAN = math.nan

# ---------------------------------------------------------------------------- op catalogue
class Op:
    def __init__(self, name, impl, ref, n=1, kind="float", gen=None, tol=0.0, tol32=None, nan_default=False,
                 excl_nan=False, may_raise=(), chain=True, out="pt", cond=None, weight=1, identity=None):
        self.name, self.impl, self.ref, self.n, self.kind = name, impl, ref, n, kind
        self.gen = gen or (lambda rng, ds: [])
        self.tol, self.tol32 = tol, (tol32 if tol32 is not None else tol)
        self.nan_default, self.excl_nan, self.may_raise = nan_default, excl_nan, may_raise
        self.chain, self.out, self.cond, self.weight, self.identity = chain, out, cond, (2 if identity is not None else weight), identity

def _no_overlap(p):
    """sufficient test: sorted by stride, every stride exceeds the extent of the dimensions below it"""
    reach = 0
    for st, n in sorted((st, n) for st, n in zip(p.stride(), p.size()) if n > 1):
        if st <= reach: return False
        reach += st * (n - 1)
    return True

def _clone_apply(f):
    """in-place method applied to a fresh clone; the method must return self.  Tensor.clone() makes sliced
    storage contiguous, so when the operand's physical tensor is non-contiguous (and does not overlap: in-place
    writes through overlapping views are undefined in torch itself) the clone gets a copy of the storage WITH the
    operand's strides: the in-place operation runs on the layout the caller supplied"""
    def run(ts, args):
        t = ts[0].clone()
        p = ts[0].physical
        if not p.is_contiguous() and _no_overlap(p):
            from fggs.indices import PatternedTensor
            q = torch.empty_strided(p.size(), p.stride(), dtype=p.dtype); q.copy_(p)
            t = PatternedTensor(q, t.paxes, t.vaxes, t.default)
        r = f(t, *args)
        if r is not t: raise AssertionError("in-place operation did not return self")
        return t
    return run

def _dims(ds): return ds[0].dim()

def _g_dim(rng, ds):
    if ds[0].dim() == 0: return None
    return [rng.randrange(ds[0].dim())]
def _g_dim_neg(rng, ds):
    if ds[0].dim() == 0: return None
    d = rng.randrange(ds[0].dim())
    return [d - ds[0].dim() if rng.random() < 0.3 else d]
def _g_two_dims(rng, ds):
    if ds[0].dim() == 0: return None
    return [rng.randrange(ds[0].dim()), rng.randrange(ds[0].dim())]
def _g_perm(rng, ds):
    p = list(range(ds[0].dim())); rng.shuffle(p); return [p]
def _g_unsq(rng, ds):
    n = ds[0].dim(); d = rng.randrange(n + 1)
    return [d - (n + 1) if rng.random() < 0.3 else d]
def _g_scalar(rng, ds): return [rng.choice([0.0, 1.0, 2.0, -0.5, 0.25, INF, -INF])]
def _g_scalar_fin(rng, ds): return [rng.choice([0.0, 1.0, 2.0, -0.5, 0.25])]
def _g_clamp(rng, ds): return [rng.choice([0.0, 0.5, -1.0, INF, -INF, 2.0])]
def _g_default(rng, ds): return [rng.choice(U.DEFAULTS + [NAN, 3.0])]
def _g_nan2num(rng, ds):
    return rng.choice([[None, None, None], [3.0, None, None], [0.0, 7.0, -5.0], [1.0, 7.0, None], [0.0, None, -5.0], [0.0, INF, -INF]])
def _g_keepdim(rng, ds):
    if ds[0].dim() == 0: return None
    return [rng.randrange(ds[0].dim()), rng.random() < 0.5]
def _g_expand(rng, ds):
    sizes = [(rng.choice([1, 2, 3]) if n == 1 else n) for n in ds[0].shape]
    pre = [rng.choice([1, 2, 3]) for _ in range(rng.choice([0, 0, 1, 2]))]
    return [pre + sizes]
def _g_getitem(rng, ds):
    if ds[0].dim() == 0 or 0 in ds[0].shape: return None
    k = rng.randint(1, ds[0].dim())
    if ds[0].dim() >= 2 and rng.random() < 0.6: k = rng.randint(1, ds[0].dim() - 1)     # partial index
    idx = [rng.randrange(n) for n in ds[0].shape[:k]]
    return [idx[0] if k == 1 and rng.random() < 0.5 else idx]
def _g_dtype(rng, ds): return [rng.choice(["f32", "f64", "bool"])]

def _nan2num_impl(t, nan, posinf, neginf):
    kw = {}
    if nan is not None: kw["nan"] = nan
    if posinf is not None: kw["posinf"] = posinf
    if neginf is not None: kw["neginf"] = neginf
    return t.nan_to_num_(**kw)
def _nan2num_ref(d, nan, posinf, neginf):
    kw = {}
    if nan is not None: kw["nan"] = nan
    if posinf is not None: kw["posinf"] = posinf
    if neginf is not None: kw["neginf"] = neginf
    return d.nan_to_num(**kw)

def _reshape_targets(rng, shape):
    """(target, must_succeed)"""
    shape = list(shape); n = len(shape)
    c = rng.random()
    if c < 0.3 and n >= 2:            # merge adjacent dimensions
        i = rng.randrange(n - 1); j = rng.randint(i + 1, n - 1)
        return shape[:i] + [math.prod(shape[i:j + 1])] + shape[j + 1:], True
    if c < 0.5:                        # insert size-1 dimensions
        s = list(shape)
        for _ in range(rng.randint(1, 2)): s.insert(rng.randrange(len(s) + 1), 1)
        return s, True
    if c < 0.6 and 1 in shape:         # remove size-1 dimensions
        return [x for x in shape if x != 1], True
    if c < 0.7:                        # flatten with -1
        return [-1], True
    N = math.prod(shape)
    if N == 0: return [0], False
    fs = []
    m = N
    for p in (2, 3, 5, 7, 11):
        while m % p == 0: fs.append(p); m //= p
    if m > 1: fs.append(m)
    rng.shuffle(fs)
    out = []
    while fs:
        k = rng.randint(1, min(2, len(fs)))
        out.append(math.prod(fs[:k])); fs = fs[k:]
    if not out: out = [1]
    if rng.random() < 0.3: out[rng.randrange(len(out))] = -1
    return out, False
def _g_reshape(rng, ds):
    tgt, must = _reshape_targets(rng, ds[0].shape)
    return [tgt, must]

def _impl_iter(ts, args):
    return [x.to_dense() for x in ts[0]]
def _ref_iter(ds, args):
    return [x for x in ds[0]]

import torch
def _T(d): return d.permute(list(range(d.dim()))[::-1])

def _impl_default_to(ts, a):
    r = ts[0].default_to(a[0])
    if not (r.default == a[0] or (r.default != r.default and a[0] != a[0])):
        raise AssertionError("default_to postcondition: the default of the result is %r, not %r" % (r.default, a[0]))
    return r

def _impl_dim_to_dense(ts, a):
    from fggs.indices import PhysicalAxis, unitAxis
    r = ts[0].dim_to_dense(a[0])
    e = r.vaxes[a[0]]
    others = set(id(k) for i, x in enumerate(r.vaxes) if i != a[0] for k in x.fv({}))
    if not (e == unitAxis or (isinstance(e, PhysicalAxis) and id(e) not in others)):
        raise AssertionError("dim_to_dense postcondition: dimension %d is not a dense independent axis" % a[0])
    return r

F = "float"; B = "bool"; A = "any"
OPS = [
    # ---- unary maps and their in-place forms
    Op("abs", lambda ts, a: ts[0].abs(), lambda ds, a: ds[0].abs()),
    Op("exp", lambda ts, a: ts[0].exp(), lambda ds, a: ds[0].exp(), tol=1e-12, tol32=1e-5),
    Op("expm1", lambda ts, a: ts[0].expm1(), lambda ds, a: ds[0].expm1(), tol=1e-12, tol32=1e-5),
    Op("log", lambda ts, a: ts[0].log(), lambda ds, a: ds[0].log(), tol=1e-12, tol32=1e-5),
    Op("clamp_min", lambda ts, a: ts[0].clamp_min(a[0]), lambda ds, a: ds[0].clamp_min(a[0]), gen=_g_clamp),
    Op("clamp_max", lambda ts, a: ts[0].clamp_max(a[0]), lambda ds, a: ds[0].clamp_max(a[0]), gen=_g_clamp),
    Op("neg_", _clone_apply(lambda t: t.neg_()), lambda ds, a: ds[0].neg()),
    Op("log_", _clone_apply(lambda t: t.log_()), lambda ds, a: ds[0].log(), tol=1e-12, tol32=1e-5),
    Op("log1p_", _clone_apply(lambda t: t.log1p_()), lambda ds, a: ds[0].log1p(), tol=1e-12, tol32=1e-5),
    Op("relu_", _clone_apply(lambda t: t.relu_()), lambda ds, a: ds[0].relu()),
    Op("abs_", _clone_apply(lambda t: t.abs_()), lambda ds, a: ds[0].abs()),
    Op("nan_to_num_", _clone_apply(_nan2num_impl), lambda ds, a: _nan2num_ref(ds[0], *a), gen=_g_nan2num, nan_default=True, weight=2),
    Op("to", lambda ts, a: ts[0].to(U.torch_dtype(a[0])), lambda ds, a: ds[0].to(U.torch_dtype(a[0])), gen=_g_dtype, kind=A),
    Op("logical_not", lambda ts, a: ts[0].logical_not(), lambda ds, a: ds[0].logical_not(), kind=B),
    # ---- arithmetic and comparisons with scalars
    Op("add_s", lambda ts, a: ts[0].add(a[0]), lambda ds, a: ds[0] + a[0], gen=_g_scalar),
    Op("sub_s", lambda ts, a: ts[0].sub(a[0]), lambda ds, a: ds[0] - a[0], gen=_g_scalar),
    Op("mul_s", lambda ts, a: ts[0].mul(a[0]), lambda ds, a: ds[0] * a[0], gen=_g_scalar),
    Op("div_s", lambda ts, a: ts[0].div(a[0]), lambda ds, a: ds[0] / a[0], gen=_g_scalar),
    Op("radd_op", lambda ts, a: ts[0] + a[0], lambda ds, a: ds[0] + a[0], gen=_g_scalar),
    Op("mul_op_s", lambda ts, a: ts[0] * a[0], lambda ds, a: ds[0] * a[0], gen=_g_scalar),
    Op("truediv_op_s", lambda ts, a: ts[0] / a[0], lambda ds, a: ds[0] / a[0], gen=_g_scalar),
    Op("imul_s", _clone_apply(lambda t, s: t.__imul__(s)), lambda ds, a: ds[0] * a[0], gen=_g_scalar),
    Op("itruediv_s", _clone_apply(lambda t, s: t.__itruediv__(s)), lambda ds, a: ds[0] / a[0], gen=_g_scalar),
    Op("lt_s", lambda ts, a: ts[0].lt(a[0]), lambda ds, a: ds[0].lt(a[0]), gen=_g_scalar),
    Op("le_s", lambda ts, a: ts[0].le(a[0]), lambda ds, a: ds[0].le(a[0]), gen=_g_scalar),
    Op("gt_s", lambda ts, a: ts[0].gt(a[0]), lambda ds, a: ds[0].gt(a[0]), gen=_g_scalar),
    Op("ge_s", lambda ts, a: ts[0].ge(a[0]), lambda ds, a: ds[0].ge(a[0]), gen=_g_scalar),
    Op("eq_s", lambda ts, a: ts[0].eq(a[0]), lambda ds, a: ds[0].eq(a[0]), gen=_g_scalar),
    # ---- arithmetic and comparisons with tensors (broadcasting)
    Op("add", lambda ts, a: ts[0].add(ts[1]), lambda ds, a: ds[0] + ds[1], n=2, identity=0.0),
    Op("add_op", lambda ts, a: ts[0] + ts[1], lambda ds, a: ds[0] + ds[1], n=2, identity=0.0),
    Op("sub", lambda ts, a: ts[0].sub(ts[1]), lambda ds, a: ds[0] - ds[1], n=2, identity=0.0),
    Op("sub_op", lambda ts, a: ts[0] - ts[1], lambda ds, a: ds[0] - ds[1], n=2, identity=0.0),
    Op("mul", lambda ts, a: ts[0].mul(ts[1]), lambda ds, a: ds[0] * ds[1], n=2, identity=1.0),
    Op("mul_op", lambda ts, a: ts[0] * ts[1], lambda ds, a: ds[0] * ds[1], n=2, identity=1.0),
    Op("div", lambda ts, a: ts[0].div(ts[1]), lambda ds, a: ds[0] / ds[1], n=2, tol=1e-14, tol32=1e-6, identity=1.0),
    Op("truediv", lambda ts, a: ts[0] / ts[1], lambda ds, a: ds[0] / ds[1], n=2, tol=1e-14, tol32=1e-6, identity=1.0),
    Op("imul_t", lambda ts, a: ts[0].clone().__imul__(ts[1]), lambda ds, a: ds[0] * ds[1], n=2, identity=1.0),
    Op("itruediv_t", lambda ts, a: ts[0].clone().__itruediv__(ts[1]), lambda ds, a: ds[0] / ds[1], n=2, tol=1e-14, tol32=1e-6, identity=1.0),
    Op("logaddexp", lambda ts, a: ts[0].logaddexp(ts[1]), lambda ds, a: torch.logaddexp(ds[0], ds[1]), n=2, tol=1e-12, tol32=1e-5, identity=-INF),
    Op("maximum", lambda ts, a: ts[0].maximum(ts[1]), lambda ds, a: torch.maximum(ds[0], ds[1]), n=2, identity=-INF),
    Op("lt", lambda ts, a: ts[0].lt(ts[1]), lambda ds, a: ds[0].lt(ds[1]), n=2),
    Op("le", lambda ts, a: ts[0].le(ts[1]), lambda ds, a: ds[0].le(ds[1]), n=2),
    Op("gt", lambda ts, a: ts[0].gt(ts[1]), lambda ds, a: ds[0].gt(ds[1]), n=2),
    Op("ge", lambda ts, a: ts[0].ge(ts[1]), lambda ds, a: ds[0].ge(ds[1]), n=2),
    Op("eq", lambda ts, a: ts[0].eq(ts[1]), lambda ds, a: ds[0].eq(ds[1]), n=2),
    Op("logical_or", lambda ts, a: ts[0].logical_or(ts[1]), lambda ds, a: ds[0].logical_or(ds[1]), n=2, kind=B, identity=False),
    Op("logical_and", lambda ts, a: ts[0].logical_and(ts[1]), lambda ds, a: ds[0].logical_and(ds[1]), n=2, kind=B, identity=True),
    # ---- where / any / log_softmax
    Op("where", lambda ts, a: ts[0].where(ts[1], ts[2]), lambda ds, a: torch.where(ds[1], ds[0], ds[2]), n=3, kind="where", nan_default=True, weight=4),
    Op("any", lambda ts, a: ts[0].any(a[0], a[1]), lambda ds, a: ds[0].any(a[0], a[1]), kind=B, gen=_g_keepdim),
    Op("log_softmax", lambda ts, a: ts[0].log_softmax(a[0]), lambda ds, a: ds[0].log_softmax(a[0]), gen=_g_dim_neg,
       tol=1e-9, tol32=1e-4, excl_nan=True, cond=lambda ds: 0 not in ds[0].shape),
    # ---- indexing, iteration, tolist
    Op("getitem", lambda ts, a: ts[0][a[0] if isinstance(a[0], int) else tuple(a[0])],
       lambda ds, a: ds[0][a[0] if isinstance(a[0], int) else tuple(a[0])], kind=A, gen=_g_getitem, nan_default=True, weight=4),
    Op("iter", _impl_iter, _ref_iter, kind=A, out="list", chain=False, nan_default=True,
       cond=lambda ds: ds[0].dim() >= 1),
    Op("tolist", lambda ts, a: ts[0].tolist(), lambda ds, a: ds[0].tolist(), kind=A, out="pylist", chain=False, nan_default=True),
    Op("to_dense", lambda ts, a: ts[0].to_dense(), lambda ds, a: ds[0], kind=A, out="tensor", chain=False, nan_default=True),
    # ---- views
    Op("transpose", lambda ts, a: ts[0].transpose(a[0], a[1]), lambda ds, a: ds[0].transpose(a[0], a[1]), kind=A, gen=_g_two_dims, nan_default=True),
    Op("permute", lambda ts, a: ts[0].permute(a[0]), lambda ds, a: ds[0].permute(a[0]), kind=A, gen=_g_perm, nan_default=True),
    Op("t", lambda ts, a: ts[0].t(), lambda ds, a: ds[0].t(), kind=A, cond=lambda ds: ds[0].dim() <= 2, nan_default=True),
    Op("T", lambda ts, a: ts[0].T, lambda ds, a: _T(ds[0]), kind=A, nan_default=True),
    Op("flatten", lambda ts, a: ts[0].flatten(), lambda ds, a: ds[0].flatten(), kind=A, nan_default=True),
    Op("unsqueeze", lambda ts, a: ts[0].unsqueeze(a[0]), lambda ds, a: ds[0].unsqueeze(a[0]), kind=A, gen=_g_unsq, nan_default=True),
    Op("expand", lambda ts, a: ts[0].expand(*a[0]), lambda ds, a: ds[0].expand(*a[0]), kind=A, gen=_g_expand, nan_default=True, weight=2),
    Op("expand_as", lambda ts, a: ts[0].expand_as(U.build_tensor(dict(types=[], vaxes=[("Phys", (900 + i, n)) if n != 1 else U.UNIT for i, n in enumerate(a[0])],
                                                                     paxes=[(900 + i, n) for i, n in enumerate(a[0]) if n != 1], default=0.0, dtype="f64",
                                                                     values=[0.0] * math.prod(a[0])))),
       lambda ds, a: ds[0].expand(*a[0]), kind=A, gen=_g_expand),
    Op("repeat", lambda ts, a: ts[0].repeat(*a[0]), lambda ds, a: ds[0].expand(*a[0]).clone(), kind=A, gen=_g_expand),
    Op("clone", lambda ts, a: ts[0].clone(), lambda ds, a: ds[0].clone(), kind=A, nan_default=True),
    Op("detach", lambda ts, a: ts[0].detach(), lambda ds, a: ds[0].detach(), kind=A, nan_default=True),
    Op("freshen", lambda ts, a: ts[0].freshen(), lambda ds, a: ds[0], kind=A, nan_default=True),
    Op("default_to", _impl_default_to, lambda ds, a: ds[0], gen=_g_default, nan_default=True),
    Op("dim_to_dense", _impl_dim_to_dense, lambda ds, a: ds[0], kind=A, gen=_g_dim, nan_default=True, weight=2),
    Op("reshape", lambda ts, a: ts[0].reshape(a[0]) , lambda ds, a: ds[0].reshape(a[0]), kind=A, gen=_g_reshape, may_raise=(RuntimeError,), nan_default=True, weight=2),
    Op("reshape_star", lambda ts, a: ts[0].reshape(*a[0]), lambda ds, a: ds[0].reshape(*a[0]), kind=A, gen=_g_reshape, may_raise=(RuntimeError,)),
    Op("view", lambda ts, a: ts[0].view(a[0]), lambda ds, a: ds[0].reshape(a[0]), kind=A, gen=_g_reshape, may_raise=(RuntimeError,)),
]
BYNAME = {o.name: o for o in OPS}

# ops with their own case builders (copy_, stack, project) are handled in special_cases()

# ---------------------------------------------------------------------------- operand generation
def types_for_size(n, types):
    c = [t for t in types if U.tsize(t) == n]
    return c if c else [("atom", n)]

def gen_operands(op, rng, types, pats):
    """operand specs for one case of op (None if not applicable)"""
    kind = op.kind
    k0 = "bool" if kind == B else ("float" if kind in (F, "where") else rng.choice(["float", "float", "bool"]))
    nan = rng.random() < 0.12
    def deflt(k):
        if k == "bool": return None
        if op.name in ("exp", "expm1") and rng.random() < 0.2: return rng.choice([1000.0, -1000.0, 709.0])
        if op.name in ("log", "log_", "log1p_") and rng.random() < 0.2: return rng.choice([-1.0, -2.5, 0.0])
        if op.name in ("relu_", "maximum") and rng.random() < 0.25: return NAN      # a NaN default must propagate
        if op.name == "nan_to_num_" and rng.random() < 0.5: return rng.choice([INF, -INF])
        if op.nan_default and rng.random() < 0.08: return NAN
        return None
    if pats is not None and op.n == 1:
        ts, vax = pats
        spec = spec_from_pattern(ts, vax, rng, k0, deflt(k0), nan)
        if op.name == "nan_to_num_" and rng.random() < 0.5: spec["dtype"] = "f32"
        return [spec]
    if kind == "where" and rng.random() < 0.3:
        # t stored on a diagonal (one physical axis shared by two dimensions), c dense and mostly True:
        # off the diagonal the result must be t.default
        a = rng.choice([x for x in types[1:] if U.tsize(x) <= 6])
        t, pool = U.gen_tensor(rng, types=[a, a], kind="float", default=deflt("float"), nan=nan, p_share=1.0)
        c, _ = U.gen_tensor(rng, types=[a, a], kind="bool", default=False, pool=U.Pool(40), p_phys=1.0, p_share=0.0)
        c["values"] = [rng.random() < 0.8 for _ in c["values"]]
        u, _ = U.gen_tensor(rng, types=[a, a], kind="float", dtype=t["dtype"], default=deflt("float"), pool=U.Pool(80), nan=nan)
        return [t, c, u]
    shape_types = None
    if op.identity is not None and rng.random() < 0.5:
        # operands over sum-typed dimensions: different injections give partially overlapping supports, which is
        # what makes the three code paths of commutative / sub / div observable
        sums = [x for x in types if x[0] == "sum" and U.tsize(x) <= 8]
        shape_types = [rng.choice(sums)] + ([rng.choice(types[1:4])] if rng.random() < 0.6 else [])
        rng.shuffle(shape_types)
    t, pool = U.gen_tensor(rng, types=shape_types, kind=k0, default=deflt(k0), nan=nan,
                           dtype=("f32" if op.name == "nan_to_num_" and rng.random() < 0.5 else None), universe=types,
                           **(dict(p_phys=0.15) if shape_types else {}))
    if op.n == 1:
        # one-hot operand: no physical axis although ndim >= 1 (e.g. eye(n)[i], a single stored cell)
        if rng.random() < 0.08: t = U.onehot_like(t, rng, keep=0.3)
        return [t]
    # broadcast-compatible second operand
    bases = iter([40, 80, 120])
    def partner(base, kind2, dtype, pool):
        ts = list(base["types"])
        m = rng.choice([len(ts)] * 4 + [max(0, len(ts) - 1), len(ts) + 1])
        if m <= len(ts): ts2 = ts[len(ts) - m:]
        else: ts2 = [rng.choice(types[1:4])] + ts
        ts2 = [(("prod", []) if rng.random() < 0.15 else x) for x in ts2]
        if math.prod(U.tsize(x) for x in ts2) > 64: ts2 = ts[:]
        share = rng.random() < 0.3
        u, pl = U.gen_tensor(rng, types=ts2, kind=kind2, default=deflt(kind2), dtype=dtype, universe=types,
                             pool=(pool if share else U.Pool(next(bases))), nan=nan,
                             **(dict(p_phys=0.15) if shape_types else {}))
        return u, (pl if share else pool)
    def onehot(specs):
        # one-hot operands in every position (C08-d): patterns WITHOUT physical axes but with a non-unit virtual
        # shape -- one-hot vectors, single-cell matrices, eye(n)[i] -- or one-hot dimensions next to a physical one
        if rng.random() < 0.22:
            orig = list(specs)
            j = rng.randrange(len(specs))
            specs[j] = U.onehot_like(specs[j], rng, keep=0.25)
            if rng.random() < 0.25:
                j2 = rng.randrange(len(specs))
                specs[j2] = U.onehot_like(specs[j2], rng, keep=0.25)
            # keep the operands TYPED ALIKE: a flat one-hot dimension SumAxis(i, unitAxis, n-i-1) has the type of a
            # position inside an ATOM of size n (what getitem makes of a physical axis); against a partner whose
            # dimension type is a sum / product it is a different index type (the library warns "index type
            # mismatch" and may miss a coincidence) -- outside the property's domain, so such conversions are undone
            if not _onehot_types_ok(specs, orig): specs[:] = orig
        return specs
    if kind == "where":
        c, pool = partner(t, "bool", None, pool)
        u, pool = partner(t, "float", t["dtype"], pool)
        return onehot([t, c, u])
    u, pool = partner(t, k0, t["dtype"], pool)
    if rng.random() < 0.08: u = copy.deepcopy(t)     # t op t (all axes shared)
    if op.identity is not None:
        # steer into all three code paths of commutative / sub / div: defaults equal to the identity
        if rng.random() < 0.5: t["default"] = op.identity
        if rng.random() < 0.4: u["default"] = op.identity
    return onehot([t, u])

def _is_onehot_type(t):
    return t[0] == "sum" and ("atom", 1) in [tuple(x) for x in t[1]]

def _onehot_types_ok(specs, orig):
    """after converting some operands' dimensions to flat one-hot dimensions: at every dimension that was
    converted in some operand, every OTHER operand's (non-unit) dimension must be typed as an atom -- the only
    type a flat one-hot dimension SumAxis(i, unit, n-i-1) is a position of.  (The first version of this guard
    looked for an `atom 1` summand to recognise converted dimensions and so mistook a genuine sum type such as
    1 + 1 + 4 for a one-hot one: a thorough-tier false alarm of `where`.)"""
    nd = max(len(sp["types"]) for sp in specs)
    for r in range(1, nd + 1):
        idx = [j for j in range(len(specs)) if len(specs[j]["types"]) >= r]
        changed = [j for j in idx if len(orig[j]["types"]) < r or specs[j]["types"][-r] != orig[j]["types"][-r]]
        if not changed: continue
        for j in idx:
            if j in changed: continue
            t = specs[j]["types"][-r]
            if U.tsize(t) != 1 and t[0] != "atom": return False
    return True

def spec_from_pattern(ts, vax, rng, kind, default, nan):
    paxes = U.fv_list(vax); rng.shuffle(paxes)
    n = math.prod(k for _, k in paxes)
    if kind == "bool":
        return dict(types=ts, vaxes=vax, paxes=paxes, default=(rng.random() < 0.4), dtype="bool", values=U.gen_values(n, rng, "bool"))
    return dict(types=ts, vaxes=vax, paxes=paxes, default=(rng.choice(U.DEFAULTS) if default is None else default),
                dtype=("f64" if rng.random() < 0.8 else "f32"), values=U.gen_values(n, rng, "float", nan=nan))

# ---------------------------------------------------------------------------- execution
class Outcome:
    def __init__(self, status, detail=None, exc=None):
        self.status, self.detail, self.exc = status, detail, exc

def _tolist_same(a, b):
    if isinstance(a, list) and isinstance(b, list):
        return len(a) == len(b) and all(_tolist_same(x, y) for x, y in zip(a, b))
    if isinstance(a, list) or isinstance(b, list): return False
    if isinstance(a, float) and isinstance(b, float) and a != a and b != b: return True
    return a == b and type(a) == type(b)

def compare(op, res, ref, dtype32):
    tol = op.tol32 if dtype32 else op.tol
    if op.out == "pylist":
        return _tolist_same(res, ref), "tolist"
    if op.out == "list":
        if len(res) != len(ref): return False, "length"
        return all(U.same(x, y, tol) for x, y in zip(res, ref)), "elements"
    if op.out == "pt":
        from fggs.indices import PatternedTensor
        if not isinstance(res, PatternedTensor): return False, "result is not a PatternedTensor"
        if tuple(res.size()) != tuple(ref.shape): return False, "size() %s vs %s" % (tuple(res.size()), tuple(ref.shape))
        res = res.to_dense()
    if res.shape != ref.shape: return False, "shape %s vs %s" % (tuple(res.shape), tuple(ref.shape))
    if res.dtype != ref.dtype: return False, "dtype %s vs %s" % (res.dtype, ref.dtype)
    if op.excl_nan:
        m = ref.isnan()
        res = torch.where(m, torch.zeros_like(res), res); ref = torch.where(m, torch.zeros_like(ref), ref)
    return U.same(res, ref, tol), "values"

def run_step(op, tensors, denses, args, mon):
    """apply op to live tensors and to their denotations; returns (Outcome, result tensor or None, result dense or None)"""
    rexc = None
    try:
        with warnings.catch_warnings():
            warnings.simplefilter("ignore")
            ref = op.ref([d.clone() for d in denses], args)
    except Exception as ex:
        rexc = ex
    mon.active = True
    try:
        with warnings.catch_warnings(record=True) as wl:
            warnings.simplefilter("always")
            res = op.impl(tensors, args)
            cmp_ok, what = (None, None)
            if rexc is None:
                cmp_ok, what = compare(op, res, ref, any(d.dtype == torch.float32 for d in denses))
        nwarn = sum(1 for w in wl if "index type mismatch" in str(w.message))
    except Exception as ex:
        mon.active = False
        if rexc is not None: return Outcome("both_raise", exc=ex), None, None
        if isinstance(ex, op.may_raise) and not (len(args) > 1 and args[1] is True):
            return Outcome("allowed_raise", exc=ex), None, None
        if op.name == "view" and isinstance(ex, RuntimeError) and not all(t.physical.is_contiguous() for t in tensors):
            # Tensor.view() itself refuses storage whose strides cannot be regrouped; only contiguous storage must succeed
            return Outcome("allowed_raise", exc=ex), None, None
        return Outcome("raise", detail=repr(ex), exc=ex), None, None
    finally:
        mon.active = False
    if rexc is not None:
        return Outcome("ref_raise_only", detail=repr(rexc)), None, None
    if not cmp_ok:
        return Outcome("mismatch", detail=what), res, ref
    o = Outcome("ok"); o.nwarn = nwarn
    return o, res, ref

def exec_case(case, mon):
    try:
        return exec_case_(case, mon)
    except Exception as ex:
        mon.active = False
        return Outcome("raise", detail="unexpected %r" % (ex,), exc=ex)

def exec_case_(case, mon):
    """case: dict(op, args, operands[, chain=[(op, args, extra operands)...]])"""
    w = U.World()
    mon.active = False
    tensors = [U.build_tensor(s, w) for s in case["operands"]]
    denses = [U.dense_ref(s) for s in case["operands"]]
    # the harness's own denotation must agree with to_dense (this is the 'to_dense' operation)
    op = BYNAME[case["op"]]
    out, res, ref = run_step(op, tensors, denses, case["args"], mon)
    first_res = res
    steps = [(case["op"], out.status)]
    for (opn, args, extra) in case.get("chain", []):
        if out.status != "ok" or res is None: break
        op2 = BYNAME[opn]
        ts2 = [res] + [U.build_tensor(s, w) for s in extra]
        ds2 = [ref] + [U.dense_ref(s) for s in extra]
        out, res, ref = run_step(op2, ts2, ds2, args, mon)
        steps.append((opn, out.status))
    out.steps = steps
    out.first_res = first_res if not case.get("chain") else None
    # inputs must not have been modified
    if out.status == "ok":
        for t, d, s in zip(tensors, denses, case["operands"]):
            if not U.same(t.to_dense(), U.dense_ref(s)):
                return Outcome("input_mutated", detail="operand changed by %s" % case["op"])
    return out

# ---------------------------------------------------------------------------- model check (Model/PTensorCheck.v)
from fractions import Fraction
OPCODE = {"to_dense": 0, "permute": 1, "transpose": 2, "T": 3, "flatten": 4, "unsqueeze": 5, "expand": 6, "getitem": 7,
          "default_to": 8, "freshen": 9, "clone": 9, "detach": 9, "abs": 10, "abs_": 10, "neg_": 11, "relu_": 12,
          "clamp_min": 13, "clamp_max": 14, "add_s": 15, "radd_op": 15, "sub_s": 16, "mul_s": 17, "mul_op_s": 17, "imul_s": 17,
          "div_s": 18, "truediv_op_s": 18, "itruediv_s": 18, "lt_s": 19, "le_s": 20, "gt_s": 21, "ge_s": 22, "eq_s": 23,
          "nan_to_num_": 24, "add": 30, "add_op": 30, "sub": 31, "sub_op": 31, "mul": 32, "mul_op": 32, "imul_t": 32,
          "div": 33, "truediv": 33, "itruediv_t": 33, "maximum": 34, "lt": 35, "le": 36, "gt": 37, "ge": 38, "eq": 39,
          "logical_or": 40, "logical_and": 41}

def xv(v):
    if isinstance(v, bool): return (0, Fraction(int(v)))
    v = float(v)
    if v != v: return (3, Fraction(0))
    if v == INF: return (1, Fraction(0))
    if v == -INF: return (2, Fraction(0))
    return (0, Fraction(v))

def wire_tensor(spec):
    return (list(spec["paxes"]), list(spec["vaxes"]), xv(spec["default"]), [xv(v) for v in spec["values"]])

def wire_case(case, out):
    """value for the pt_check function, or None when the case is outside the modelled fragment"""
    if case.get("chain") or case["op"] not in OPCODE: return None
    if any(s["dtype"] not in ("f64", "bool") for s in case["operands"]): return None
    if any(math.prod(n for _, n in s["paxes"]) > 64 or math.prod(U.a_numel(e) for e in s["vaxes"]) > 100 for s in case["operands"]): return None
    name, args = case["op"], case["args"]
    nd = len(case["operands"][0]["vaxes"])
    na, sc = [], []
    if name == "permute": na = list(args[0])
    elif name == "transpose": na = list(args)
    elif name == "unsqueeze": na = [args[0] if args[0] >= 0 else args[0] + nd + 1]
    elif name == "expand": na = list(args[0])
    elif name == "getitem": na = [args[0]] if isinstance(args[0], int) else list(args[0])
    elif name == "nan_to_num_":
        nan, po, no = args
        sc = [0.0 if nan is None else nan, 0.0 if po is None else po, 0.0 if no is None else no]
        na = [0 if po is None else 1, 0 if no is None else 1]
    elif args: sc = [args[0]]
    if out.status in ("ok", "mismatch") and getattr(out, "first_res", None) is not None:
        r = out.first_res
        try:
            d = r.to_dense() if hasattr(r, "to_dense") else r
        except Exception:
            return None
        if d.dtype not in (torch.float64, torch.bool): return None
        res = (0, list(d.shape), [xv(v) for v in d.flatten().tolist()])
    elif out.status == "raise" and isinstance(out.exc, ZeroDivisionError):
        res = (1, [], [])
    else:
        return None
    return (OPCODE[name], na, [xv(x) for x in sc], [wire_tensor(s) for s in case["operands"]], res)

# ---------------------------------------------------------------------------- model check 2 (Model/PTensorOpsCheck.v)
OPCODE2 = {"where": 50, "stack": 51, "any": 52, "dim_to_dense": 53, "project": 54, "reshape": 55, "reshape_star": 55,
           "view": 56, "copy_": 57, "to": 58, "iter": 59}
GROUP2 = {50: "select", 51: "select", 52: "reduce", 53: "reduce", 54: "reduce", 55: "reshape", 56: "reshape", 57: "storage", 58: "storage",
          59: "reduce"}

def _small(specs):
    return not any(math.prod(n for _, n in s["paxes"]) > 64 or math.prod(U.a_numel(e) for e in s["vaxes"]) > 100 for s in specs)

def wire_result(out, res=None):
    """(tag, shape, values) of the implementation's outcome, or None"""
    if out.status in ("ok", "mismatch") and res is not None:
        try:
            d = res.to_dense() if hasattr(res, "to_dense") else res
        except Exception:
            return None
        if d.dtype not in (torch.float64, torch.float32, torch.bool): return None
        return (0, list(d.shape), [xv(v) for v in d.flatten().tolist()])
    if out.status in ("raise", "allowed_raise", "both_raise") and out.exc is not None:
        if isinstance(out.exc, ZeroDivisionError): return (1, [], [])
        if isinstance(out.exc, RuntimeError): return (2, [], [])
        return (3, [], [])
    return None

def wire_case2(case, out):
    """value for pt_check2 (operations of Model/PTensorOps.v), or None"""
    name = case["op"]
    if case.get("chain") or name not in OPCODE2 or name in SPECIALS: return None
    if any(s["dtype"] not in ("f64", "bool") for s in case["operands"]) or not _small(case["operands"]): return None
    args = case["args"]; nd = len(case["operands"][0]["vaxes"])
    na = []
    if name == "any": na = [args[0] % max(nd, 1), 1 if args[1] else 0]
    elif name == "dim_to_dense": na = [args[0]]
    elif name in ("reshape", "reshape_star", "view"):
        tgt = list(args[0])
        if sum(1 for x in tgt if x == -1) > 1 or any(x < -1 for x in tgt): return None
        inferred = tgt.index(-1) + 1 if -1 in tgt else 0
        na = [1 if args[1] else 0, inferred] + [0 if x == -1 else x for x in tgt]
    elif name == "to": na = [1 if args[0] == "bool" else 0]
    fr = getattr(out, "first_res", None)
    if name == "iter" and isinstance(fr, list):
        # the slices yielded by __iter__, stacked along a new leading dimension (the model does the same)
        if not fr: return None
        fr = torch.stack(fr, 0)
    res = wire_result(out, fr)
    if res is None: return None
    if name != "to" and res[0] == 0 and getattr(out, "first_res", None) is not None:
        r = out.first_res
        if getattr(r, "dtype", None) == torch.float32: return None
    return (OPCODE2[name], na, [], [wire_tensor(s) for s in case["operands"]], res)

# ---------------------------------------------------------------------------- special operations
def special_copy_(rng, mon):
    same_size = rng.random() < 0.6
    dst, _ = U.gen_tensor(rng, kind=rng.choice(["float", "bool"]), **(dict(p_phys=0.8) if same_size else {}))
    same_kind = rng.random() < 0.7          # otherwise: equal element counts but another dtype (no storage re-use)
    dkind = "bool" if dst["dtype"] == "bool" else "float"
    skind = (dkind if same_kind else ("float" if dkind == "bool" else "bool")) if same_size else rng.choice(["float", "bool"])
    src, _ = U.gen_tensor(rng, kind=skind, types=dst["types"] if same_size else None,
                          dtype=dst["dtype"] if (same_size and same_kind and dst["dtype"] != "bool") else None,
                          pool=U.Pool(40), **(dict(p_phys=0.8) if same_size else {}))
    if same_size and rng.random() < 0.5 and len(dst["paxes"]) >= 2:
        # the same pattern (renamed apart): equal physical sizes, so that the re-use rule is decided by dtype and layout
        def sh(e):
            if e[0] == "Phys": return ("Phys", (e[1][0] + 40, e[1][1]))
            if e[0] == "Prod": return ("Prod", [sh(x) for x in e[1]])
            return ("Sum", (e[1][0], sh(e[1][1]), e[1][2]))
        n = math.prod(k for _, k in dst["paxes"])
        src = dict(types=dst["types"], vaxes=[sh(e) for e in dst["vaxes"]], paxes=[(k + 40, m) for k, m in dst["paxes"]],
                   default=src["default"], dtype=src["dtype"], values=U.gen_values(n, rng, "bool" if src["dtype"] == "bool" else "float"))
    relayout([src], rng)
    case = dict(op="copy_", args=[], operands=[dst, src])
    w = U.World()
    d = U.build_tensor(dst, w); s = U.build_tensor(src, w)
    # the storage of the destination: contiguous, a permuted view of a contiguous tensor (contiguous after sorting
    # the strides), an expanded (stride-0) view, or a strided slice
    c = rng.random(); p = d.physical; layout = "contiguous"
    if p.dim() >= 2 and c < 0.3:
        perm = list(range(p.dim())); rng.shuffle(perm)
        inv = [perm.index(i) for i in range(p.dim())]
        d.physical = p.permute(perm).contiguous().permute(inv); layout = "permuted"
    elif p.dim() >= 1 and c < 0.45:
        j = rng.randrange(p.dim())
        d.physical = p.narrow(j, 0, 1).expand(p.size()); layout = "expanded"
    elif p.dim() >= 1 and c < 0.6:
        j = rng.randrange(p.dim())
        big = torch.cat([p, p], dim=j)
        d.physical = big[(slice(None),) * j + (slice(None, None, 2),)]; layout = "strided"
    case["args"] = [layout]
    sizes = list(d.physical.size()); strides = list(d.physical.stride()); ptr = d.physical.data_ptr()
    same_dtype = d.physical.dtype == s.physical.dtype
    sd = U.dense_ref(src)
    mon.active = True
    try:
        r = d.copy_(s)
    except Exception as ex:
        mon.active = False
        return case, Outcome("raise", detail=repr(ex), exc=ex)
    mon.active = False
    out = Outcome("ok")
    if r is not None: out = Outcome("mismatch", detail="copy_ returned a value")
    elif not U.same(d.to_dense(), sd): out = Outcome("mismatch", detail="destination differs from source after copy_")
    elif not U.same(s.to_dense(), sd): out = Outcome("mismatch", detail="source changed by copy_")
    elif d.default != s.default and not (d.default != d.default and s.default != s.default):
        out = Outcome("mismatch", detail="default not copied")
    reused = d.physical.data_ptr() == ptr
    if src["dtype"] in ("f64", "bool") and _small([src]) and math.prod(sizes) > 0 and s.physical.numel() > 0:
        res = wire_result(out, d)
        dummy = dict(paxes=[], vaxes=[], default=0.0, values=[0.0])
        if res is not None:
            out.wire2 = (57, [1 if same_dtype else 0, 1 if reused else 0, len(sizes)] + sizes + strides, [],
                         [wire_tensor(dummy), wire_tensor(src)], res)
    # value semantics (C06_copy_value / C18_clone_independent): copy_ copies, it does not alias.  Update the
    # source in place afterwards: the destination must keep the copied value; then update the destination:
    # the source must keep its own (torch.Tensor.copy_ behaves so).
    if out.status == "ok" and s.physical.numel() > 0 and d.physical.numel() > 0:
        def bump(t):
            with torch.no_grad():
                if t.dtype == torch.bool: t.logical_not_()
                else: t.add_(1.0)
        try:
            bump(s.physical)
            if not U.same(d.to_dense(), sd):
                out = Outcome("mismatch", detail="after copy_, an in-place update of the SOURCE changed the destination (copy_ aliases instead of copying)")
            else:
                s_after = s.to_dense().clone()
                bump(d.physical)
                if not U.same(s.to_dense(), s_after):
                    out = Outcome("mismatch", detail="after copy_, an in-place update of the DESTINATION changed the source (copy_ aliases instead of copying)")
        except RuntimeError:
            pass        # in-place update of an overlapping (expanded) storage is refused by torch
        case["args"] = case["args"] + ["then-inplace"]
    return case, out

def special_stack(rng, mon):
    from fggs.indices import stack
    n = rng.choice([1, 2, 2, 3, 4])
    kind = rng.choice(["float", "float", "bool"])
    first, pool = U.gen_tensor(rng, kind=kind, max_numel=24, **(dict(types=[]) if rng.random() < 0.08 else {}))
    onehot_inputs = rng.random() < 0.12
    if onehot_inputs: first = U.onehot_like(first, rng, keep=0.3)
    specs = [first]
    for _ in range(n - 1):
        share = rng.random() < 0.3
        u, pl = U.gen_tensor(rng, types=first["types"], kind=kind, default=first["default"], dtype=first["dtype"],
                             pool=(pool if share else U.Pool(40 + 20 * len(specs))))
        if share: pool = pl
        if onehot_inputs and rng.random() < 0.7: u = U.onehot_like(u, rng, keep=0.3)
        specs.append(u)
    dim = rng.randrange(len(first["types"]) + 1)
    relayout(specs, rng)
    case = dict(op="stack", args=[dim], operands=specs)
    w = U.World()
    ts = [U.build_tensor(s, w) for s in specs]; ds = [U.dense_ref(s) for s in specs]
    ref = torch.stack(ds, dim)
    mon.active = True
    r = None
    try:
        with warnings.catch_warnings():
            warnings.simplefilter("ignore")
            r = stack(ts, dim)
            ok = tuple(r.size()) == tuple(ref.shape) and U.same(r.to_dense(), ref)
        out = Outcome("ok") if ok else Outcome("mismatch", detail="values")
    except Exception as ex:
        out = Outcome("raise", detail=repr(ex), exc=ex)
    mon.active = False
    if all(s["dtype"] in ("f64", "bool") for s in specs) and _small(specs) and math.prod(ref.shape) <= 200:
        res = wire_result(out, r)
        if res is not None: out.wire2 = (51, [dim], [], [wire_tensor(s) for s in specs], res)
    return case, out

def special_project(rng, mon):
    nested = rng.random() < 0.4
    if nested:
        # the target re-uses t's own physical axes, nested inside sum / product axes and at other positions
        comp = [x for x in U.all_types() if x[0] != "atom" and 1 < U.tsize(x) <= 8]
        a0 = rng.choice(comp)
        ts = [a0, a0] if rng.random() < 0.7 else [rng.choice(comp) for _ in range(rng.choice([1, 2]))]
        t, pool = U.gen_tensor(rng, types=ts, kind=rng.choice(["float", "bool"]), max_numel=64, p_phys=0.1)
        if ts[0] == ts[-1] and len(ts) == 2 and rng.random() < 0.5:
            vax2 = list(reversed(t["vaxes"]))             # the same axes, at the other position
        else:
            vax2, _ = U.gen_pattern(t["types"], rng, pool.copy(), p_phys=0.1, p_share=0.9)
    else:
        t, pool = U.gen_tensor(rng, kind=rng.choice(["float", "bool"]), max_numel=36)
        # target pattern of the same dimension types; sometimes sharing t's own physical axes
        pl = pool.copy() if rng.random() < 0.4 else U.Pool(40)
        vax2, _ = U.gen_pattern(t["types"], rng, pl)
    pax2 = U.fv_list(vax2); rng.shuffle(pax2)
    if math.prod(n for _, n in pax2) > 200: return None, None
    relayout([t], rng)
    case = dict(op="project", args=[pax2, vax2], operands=[t])
    w = U.World()
    tt = U.build_tensor(t, w); d = U.dense_ref(t)
    ref = torch.zeros([n for _, n in pax2], dtype=d.dtype)
    for env in U.all_envs(pax2):
        ref[tuple(env[k] for k, _ in pax2)] = d[tuple(U.a_eval(e, env) for e in vax2)]
    mon.active = True
    r = None
    try:
        with warnings.catch_warnings():
            warnings.simplefilter("ignore")
            r = tt.project(tuple(w.phys(k, n) for k, n in pax2), tuple(w.build(e) for e in vax2))
        out = Outcome("ok") if U.same(r, ref) else Outcome("mismatch", detail="values")
    except Exception as ex:
        out = Outcome("raise", detail=repr(ex), exc=ex)
    mon.active = False
    if t["dtype"] in ("f64", "bool") and _small([t]) and math.prod(n for _, n in pax2) <= 100:
        res = wire_result(out, r)
        if res is not None:
            out.wire2 = (54, [], [], [wire_tensor(t), (list(pax2), list(vax2), xv(0.0), [])], res)
    return case, out

SPECIALS = {"copy_": special_copy_, "stack": special_stack, "project": special_project}

# ---------------------------------------------------------------------------- driver
VIEW_OPS = ["expand", "expand", "expand", "expand_as", "getitem", "transpose", "permute", "T", "flatten", "unsqueeze",
            "freshen", "detach", "reshape", "dim_to_dense", "any"]

def gen_case(op, rng, types, pat=None):
    for _ in range(20):
        specs = gen_operands(op, rng, types, pat)
        ds = [torch.empty([U.a_numel(e) for e in s["vaxes"]], dtype=U.torch_dtype(s["dtype"])) for s in specs]
        if op.cond is not None and not op.cond(ds):
            if pat is not None: return None
            continue
        if op.name in ("to",) and False: pass
        args = op.gen(rng, ds)
        if args is None:
            if pat is not None: return None
            continue
        if op.name == "any" and rng.random() < 0.6:
            sp = specs[0]
            sp["values"] = [rng.random() < 0.08 for _ in sp["values"]]
            if rng.random() < 0.6: sp["default"] = True
        if op.name == "dim_to_dense" and pat is None and rng.random() < 0.4 and len(specs[0]["vaxes"]) >= 2:
            # the dimension to densify is a physical axis shared with another dimension (a diagonal)
            sp = specs[0]; d = args[0]
            cand = [i for i, e in enumerate(sp["vaxes"]) if i != d and e[0] == "Phys" and U.a_numel(e) == U.a_numel(sp["vaxes"][d])]
            if cand:
                sp["vaxes"] = list(sp["vaxes"]); sp["vaxes"][d] = sp["vaxes"][cand[0]]
                sp["paxes"] = U.fv_list(sp["vaxes"]); n = math.prod(k for _, k in sp["paxes"])
                sp["values"] = U.gen_values(n, rng, "bool" if sp["dtype"] == "bool" else "float")
        relayout(specs, rng)
        return dict(op=op.name, args=args, operands=specs)
    return None

P_LAYOUT = 0.35
def relayout(specs, rng, p=None):
    """storage layout of the operands' physical tensors (see _c06_util.add_layout): with probability P_LAYOUT per
    operand the physical tensor is a partially / fully expanded (stride-0) view, a permuted, sliced, offset or
    overlapping view of a larger buffer, the way a caller may supply it; the values of the spec are rewritten
    so that the layout can hold them, hence dense_ref and the wire format still describe the logical contents"""
    for sp in specs:
        if "layout" not in sp and rng.random() < (P_LAYOUT if p is None else p): U.add_layout(sp, rng)
    return specs

def gen_chain(rng, types):
    """a composition of 2..3 operations; later steps only see the shape/dtype of the running result"""
    # operations compared with a tolerance (or with cells excluded) may only end a composition: after them the
    # running reference and the implementation's value may legitimately differ in the last bit
    inexact = lambda o: o.tol > 0 or o.tol32 > 0 or o.excl_nan
    if rng.random() < 0.4:
        # histories: an operation that returns a VIEW of its operand's storage (expand() adds stride-0 dimensions,
        # getitem / iter / any slice, permute / T / flatten / reshape regroup), then operations on that view
        first = BYNAME[rng.choice(VIEW_OPS)]
    else:
        first = rng.choice([o for o in OPS if o.chain and not inexact(o)])
    case = gen_case(first, rng, types)
    if case is None: return None
    try:
        ds = [U.dense_ref(s) for s in case["operands"]]
        with warnings.catch_warnings():
            warnings.simplefilter("ignore")
            cur = first.ref(ds, case["args"])
    except Exception:
        return None
    chain = []
    for _ in range(rng.choice([1, 2])):
        cands = [o for o in OPS if o.chain and o.n <= 2 and
                 (o.kind == A or (o.kind == B) == (cur.dtype == torch.bool)) and o.kind != "where"]
        op = rng.choice(cands)
        if op.cond is not None and not op.cond([cur]): continue
        args = op.gen(rng, [cur])
        if args is None: continue
        extra = []
        if op.n == 2:
            ts2 = [rng.choice(types_for_size(n, types)) if n != 1 else ("prod", []) for n in cur.shape]
            if math.prod(U.tsize(t) for t in ts2) > 64: continue
            u, _ = U.gen_tensor(rng, types=ts2, kind=("bool" if cur.dtype == torch.bool else "float"),
                                dtype=("f32" if cur.dtype == torch.float32 else "f64"), pool=U.Pool(200 + 100 * len(chain)))
            if rng.random() < 0.15: u = U.onehot_like(u, rng, keep=0.25)
            extra = relayout([u], rng)
        try:
            with warnings.catch_warnings():
                warnings.simplefilter("ignore")
                cur = op.ref([cur] + [U.dense_ref(s) for s in extra], args)
        except Exception:
            continue
        chain.append((op.name, args, extra))
        if inexact(op): break
    if not chain: return None
    case["chain"] = chain
    return case

def describe(case):
    def pat(s): return dict(vaxes=s["vaxes"], paxes=s["paxes"], default=s["default"], dtype=s["dtype"])
    return dict(op=case["op"], args=case["args"], operands=case["operands"], chain=case.get("chain", []))

def nontrivial(case):
    return any(any(e[0] != "Phys" for e in s["vaxes"]) or len(set(k for e in s["vaxes"] if e[0] == "Phys" for k in [e[1][0]])) < len(s["vaxes"])
               for s in case["operands"])

def run_ops(tier, seed, violations, cov, mon):
    rng = random.Random(seed * 9176 + 11)
    quick = tier == "quick"
    types = U.all_types()
    # exhaustive pattern pool: every axis of every type (1 dim) and every 2-dim pattern over small types
    pool1 = []
    for t in types:
        for a, _ in U.enum_axes(t, U.Pool()): pool1.append(([t], [a]))
    small = [t for t in types if U.tleaves(t) <= 2 and U.tsize(t) <= 6]
    pool2 = []
    for t1 in small:
        for t2 in small:
            if U.tsize(t1) * U.tsize(t2) > 24: continue
            for vax, _ in U.enum_patterns([t1, t2]): pool2.append(([t1, t2], vax))
    patterns = pool1 + pool2
    # the random streams also draw dimension types with size-1 summands (one-hot dimensions); the exhaustive
    # pools above stay over all_types()
    types_r = types + U.onehot_types()
    hist = {}; status_hist = {}; n_eval = 0; distinct = set(); samples = []; warn_cases = 0; ptvals = []; ptvals2 = []
    onehot_hist = {}
    layout_hist = {}; layout_by_op = {}; result_layout_hist = {}; svals = {}
    def storage_value(p, logical):
        """wire value of storage_view_check for a torch tensor (small ones only)"""
        if p.dtype not in (torch.float64, torch.float32, torch.bool) or p.numel() > 64 or p.numel() == 0: return
        sizes, strides, off, flat = U.storage_view(p)
        if flat.numel() > 200 or len(svals) >= 4000: return
        v = (sizes, strides, off, [xv(x) for x in flat.tolist()], [xv(x) for x in logical])
        svals.setdefault(repr(v), v)
    def observe_layouts(case, out):
        for sp in case["operands"]:
            k = U.layout_kind(sp)
            layout_hist[k] = layout_hist.get(k, 0) + 1
            if k != "contiguous":
                d = layout_by_op.setdefault(case["op"], {}); d[k] = d.get(k, 0) + 1
                # the harness's claim "this storage holds these logical values", judged by the strided-view model
                try: storage_value(U.build_tensor(sp).physical, sp["values"])
                except Exception: pass
        r = getattr(out, "first_res", None)
        if hasattr(r, "physical") and hasattr(r, "paxes"):
            p = r.physical
            st = [x for x, n in zip(p.stride(), p.size()) if n > 1]
            k = ("scalar" if not st else "expanded-full" if all(x == 0 for x in st) else "expanded-partial" if 0 in st
                 else "contiguous" if p.is_contiguous() else "non-contiguous")
            result_layout_hist[k] = result_layout_hist.get(k, 0) + 1
            if k not in ("contiguous", "scalar"):
                # storage made by the library (expand, getitem, any, iter, ...): read through the same model
                try: storage_value(p, p.reshape(-1).tolist())
                except Exception: pass
    def judge(case, out):
        nonlocal n_eval, warn_cases
        n_eval += 1
        observe_layouts(case, out)
        name = case["op"] + ("+" + "+".join(c[0] for c in case.get("chain", [])) if case.get("chain") else "")
        hist[case["op"]] = hist.get(case["op"], 0) + 1
        status_hist[out.status] = status_hist.get(out.status, 0) + 1
        for j, sp in enumerate(case["operands"]):
            if U.is_onehot(sp):
                key = "%s/operand%d" % (case["op"], j); onehot_hist[key] = onehot_hist.get(key, 0) + 1
        if nontrivial(case): distinct.add(repr((case["op"], case["args"], [(s["vaxes"], s["paxes"]) for s in case["operands"]], [c[:2] for c in case.get("chain", [])])))
        if getattr(out, "nwarn", 0): warn_cases += 1
        try:
            wv = wire_case(case, out)
        except Exception:
            wv = None
        if wv is not None: ptvals.append((wv, describe(case)))
        try:
            wv2 = getattr(out, "wire2", None) or wire_case2(case, out)
        except Exception:
            wv2 = None
        if wv2 is not None: ptvals2.append((wv2, describe(case)))
        if out.status in ("ok", "both_raise", "allowed_raise"): return
        if out.status == "ref_raise_only":
            # torch rejects the dense operation but the patterned one succeeded: not a counterexample to the property
            return
        what = {"raise": "%s raised %s although the dense operation succeeds" % (name, out.detail),
                "mismatch": "%s: result differs from the torch operation on the denoted dense tensors (%s)" % (name, out.detail),
                "input_mutated": "%s modified its operand" % name}.get(out.status, out.status)
        violations.append(Violation(what, case=describe(case), observed=out.detail, oracle="torch on dense_ref (denotation by definition)",
                                    corr="C06 (ii): op(t,u).to_dense() == torch op(t.to_dense(), u.to_dense())", failing_input_found=True,
                                    call="PatternedTensor.%s" % case["op"]))
    # per-operation cases
    per_op_exh = 14 if quick else None
    per_op_rand = 22 if quick else 400
    for op in OPS:
        if op.n == 1:
            pats = patterns if per_op_exh is None else rng.sample(patterns, per_op_exh * op.weight)
            for p in pats:
                case = gen_case(op, rng, types, p)
                if case is None: continue
                judge(case, exec_case(case, mon))
        for _ in range(per_op_rand * op.weight):
            case = gen_case(op, rng, types_r)
            if case is None: continue
            judge(case, exec_case(case, mon))
            if len(samples) < 4 and nontrivial(case) and (not samples or rng.random() < 0.02): samples.append(describe(case))
    for name, f in SPECIALS.items():
        for _ in range({"project": 120, "copy_": 150}.get(name, 60) if quick else 800):
            try:
                case, out = f(rng, mon)
            except Exception as ex:
                mon.active = False
                case, out = dict(op=name, args=[], operands=[]), Outcome("raise", detail="unexpected %r" % (ex,), exc=ex)
            if case is None: continue
            judge(case, out)
    # compositions
    n_chain = 0
    for _ in range(350 if quick else 6000):
        case = gen_chain(rng, types_r)
        if case is None: continue
        n_chain += 1
        judge(case, exec_case(case, mon))
    # reshape must succeed on adjacent merges and size-1 insertion/removal: counted through args[1] (must flag)
    cov["tensor_level"] = dict(op_histogram=hist, outcome_histogram=status_hist, compositions=n_chain,
                               exhaustive_pattern_pool=len(patterns), cases_with_type_mismatch_warning=warn_cases,
                               onehot_operand_cases=dict(total=sum(onehot_hist.values()), by_op_and_position=onehot_hist,
                                                         rule="operand without physical axes whose virtual shape is not all ones"),
                               storage_layouts=dict(operands=layout_hist, non_contiguous_operands_by_op=layout_by_op,
                                                    results_of_single_operations=result_layout_hist,
                                                    rule="layout of the physical tensor handed to the library (operands) / returned by it (results): "
                                                         "expanded-partial = some but not all strides 0; overlap = two dimensions share a stride"))
    cov["samples"] = samples[:3]
    cov["_ptvals"] = ptvals
    cov["_ptvals2"] = ptvals2
    cov["_svals"] = list(svals.values())
    return n_eval, len(distinct)

def replay_case(c):
    from harness.props.C06 import MON
    MON.install()
    case = dict(op=c["op"], args=c["args"], operands=c["operands"], chain=[tuple(x) for x in c.get("chain", [])])
    def fix(x):
        if x == "inf": return INF
        if x == "-inf": return -INF
        if x == "nan": return NAN
        if isinstance(x, list): return [fix(y) for y in x]
        if isinstance(x, dict): return {k: fix(v) for k, v in x.items()}
        return x
    case = fix(case)
    def tup(e):
        if e[0] == "Phys": return ("Phys", tuple(e[1]))
        if e[0] == "Prod": return ("Prod", [tup(x) for x in e[1]])
        return ("Sum", (e[1][0], tup(e[1][1]), e[1][2]))
    for s in case["operands"]:
        s["vaxes"] = [tup(e) for e in s["vaxes"]]; s["paxes"] = [tuple(p) for p in s["paxes"]]
    if case["op"] in SPECIALS:
        print("special operation; re-run the check with the same seed"); return 1
    out = exec_case(case, MON)
    print("replay:", case["op"], case["args"], "->", out.status, out.detail)
    return 0 if out.status in ("ok", "both_raise", "allowed_raise") else 1
