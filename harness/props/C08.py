"""C08 -- the four semirings obey the semiring laws on their whole value domain.

Three layers of judgement, all verdicts computed in Coq:
  * bit-exact: RealSemiring / ViterbiSemiring (and LogSemiring.mul, the same code) results are
    compared with the PrimFloat model (Model/FloatOps.v) evaluated by vm_compute; floats travel
    as hexadecimal literals in generated Coq files;
  * exact carriers: every result, as an exact rational, is judged by the carrier operation
    (oracle) and the model of the code's formula (Model/SemiringCheck.v, extracted OCaml for the
    bulk, vm_compute for a sample and for every non-zero verdict);
  * law instances evaluated on the implementation (associativity, ..., star = least solution)
    are judged against the single exact value the law gives them.
Results on PatternedTensors are required to be bit-identical (modulo the sign of zero) to the
results on the dense tensors they denote, and every such result is looked up in the table of
judged scalar results.
"""
import itertools, random, struct, math, json, re, os, shutil
from fractions import Fraction
from harness.core import *
from harness.props import _c08_formats as FF

PID = "C08"
LEVEL = "proof"

W = Tup(Nat, QQ)                       # (tag, q): 0 -inf, 1 finite q, 2 +inf, 3 nan
LR = Tup(Nat, QQ, QQ)                  # log result: tag 0 = -inf, 1 = [lo, hi] in the exp reading, 2 = +inf, 3 = nan
_M = "Model.SemiringCheck"
BINOP = CheckFn("c08-binop", _M, "c08_binop_check", Tup(Nat, Nat, W, W, W))
STAR = CheckFn("c08-star", _M, "c08_star_check", Tup(Nat, W, W))
FROMINT = CheckFn("c08-fromint", _M, "c08_from_int_check", Tup(Nat, Nat, W))
SUM = CheckFn("c08-sum", _M, "c08_sum_check", Tup(Nat, List(W), W))
LAW = CheckFn("c08-law", _M, "c08_law_check_cls", Tup(Nat, Nat, Tup(W, W, W), Tup(W, W)))   # 100 * class + verdict
LAW1 = CheckFn("c08-law1", _M, "c08_law_check", Tup(Nat, Nat, Tup(W, W, W), Tup(W, W)))        # verdict alone (replay)
LAWCLS = CheckFn("c08-lawclass", _M, "c08_law_class", Tup(Nat, Nat, Tup(W, W, W)))
LEAST = CheckFn("c08-least", _M, "c08_least_check", Tup(Nat, W, W, W))   # (sr, x, y, star(x))
LOG = CheckFn("c08-log", _M, "c08_log_check", Tup(Nat, List(W), LR))
LOGLAW = CheckFn("c08-loglaw", _M, "c08_log_law_check", Tup(Nat, Tup(W, W, W), Tup(LR, LR)))
BOOLC = CheckFn("c08-bool", _M, "c08_bool_check", Tup(Nat, Nat, List(Bool), Bool))
CHECKFNS = [BINOP, STAR, FROMINT, SUM, LAW, LAW1, LAWCLS, LEAST, LOG, LOGLAW, BOOLC]

class _F64(Ty):
    """binary64 value as a Coq primitive-float literal (hexadecimal, exact); never extracted"""
    def coq(self, v):
        v = float(v)
        if v != v: return "nan"
        if v == math.inf: return "infinity"
        if v == -math.inf: return "neg_infinity"
        return "(%s)%%float" % v.hex()
    def sexp(self, v): raise NotImplementedError
    def dec(self): raise NotImplementedError
    def coqty(self): return "float"
F64 = _F64()
FBIN = CheckFn("c08-fbin", "Model.FloatOps", "float_binop_check", Tup(Nat, F64, F64, F64), imports=["Model.FloatWire"])
FUN = CheckFn("c08-fun", "Model.FloatOps", "float_unop_check", Tup(Nat, F64, F64), imports=["Model.FloatWire"])

ASSUMPTIONS = [
    "both dtypes of the library are exercised at the float level: every float32 and float64 result of the torch primitives / semiring methods (Real add/mul/sub/star/from_int, Viterbi add/mul/sub/star/from_int, Log mul, comparisons, nan_to_num, relu; plain 0-dim/1-dim tensors and PatternedTensors with a default) is compared bit for bit (any NaN = any NaN) with the Flocq model Model/FloatFormat.v evaluated by vm_compute; the exact-carrier judgement, the law instances and the PrimFloat model use float64",
    "PatternedTensor defaults are Python floats (binary64) also when the physical tensor is float32: the float-format stream uses defaults that are float32 numbers; arithmetic on them in binary64 followed by the conversion in to_dense rounds like the float32 operation (innocuous double rounding, 53 >= 2*24+2), and a default beyond the float32 range densifies to +-inf like a tensor element (finding F22, repaired in /repo 013a2f3)",
    "RealSemiring on PatternedTensors is exercised on its carrier [0, +inf] only at the float-format level (outside it the code's nan_to_num default neginf=None gives -float_max on tensor elements but -inf for a binary64 default converted to float32)",
    "from_int is compared for Python ints below 2^53 (torch converts a Python int to float32 through binary64, which rounds twice above 2^53; not part of the property)",
    "LogSemiring is judged in the exp reading: e^x for a log-space float x is supplied as a rational with >= 45 significant digits of e^x and of e^x - 1 (Python decimal), the result r as the interval [e^(r-t), e^(r+t)], t = 8 * 2^-52 * (|x|+|y|+|r|) per operation (star: 8 * 2^-52 * |r|); log-space magnitudes above 745 are exercised only through mul (bit-exact)",
    "tolerance policy of Model/SemiringCheck.v (accept_q): equality whenever the exact result is a binary64 number, else 1e-12 relative or 2^-1074 absolute; +-inf accepted iff the exact value reaches the binary64 overflow threshold; law instances whose exact intermediate values leave the normal range are skipped (class 2)",
    "torch.maximum on the pair {+0., -0.} returns either zero depending on the kernel (scalar vs vectorised); maximum results are compared modulo the sign of zero",
    "the summation order of torch.sum / logsumexp is not modelled; sums are judged against the exact sum within (n+1) * 1e-12",
]
FLOCQ_AXIOMS = ["ClassicalDedekindReals.sig_forall_dec", "ClassicalDedekindReals.sig_not_dec", "Classical_Prop.classic",
                "FunctionalExtensionality.functional_extensionality_dep"]
TRUSTED_EXTRA = [
    "Flocq 4.1.0 (installed in user-contrib; IEEE754.Binary / BinarySingleNaN / Bits / PrimFloat and Core), used ONLY by Model/FloatFormat.v, Model/FloatFormatWire.v, Proofs/FloatFormat{Laws,Payload,Prim}.v and part (E) of Props/C08.v. The 15 float-format theorems of Props/C08.v depend on exactly four standard-library axioms, through Coq.Reals on which Flocq's specification of rounding is built: "
    + ", ".join(FLOCQ_AXIOMS) + " (the first two axiomatise the classical Dedekind reals, the third is excluded middle, the fourth functional extensionality). harness/core.py accepts these four by exact name and only for C08 (ALLOWED_AXIOMS / AXIOM_SCOPE); any other axiom fails the audit. The 28 exact-carrier / code-formula / oracle theorems remain closed under the global context",
    "Coq.Floats.FloatAxioms (specification of the primitive float operations) for the L0' theorems; Print Assumptions lists exactly which of them each theorem uses",
    "Python decimal (>= 45 digits) for e^x and fractions.Fraction for the exact value of a binary64 number, on the harness side of the Log comparison",
]

# ----------------------------------------------------------------------------
# numbers

INF = math.inf
def wire(v):
    v = float(v)
    if v != v: return (3, Fraction(0))
    if v == INF: return (2, Fraction(0))
    if v == -INF: return (0, Fraction(0))
    return (1, Fraction(v))
def fbits(v):
    return struct.unpack("<q", struct.pack("<d", float(v)))[0]
_NEGZ = fbits(-0.0)
def same_bits_mod_zero(a, b):
    return a == b or (a in (0, _NEGZ) and b in (0, _NEGZ))
def is_nanbits(b):
    return (b & 0x7ff0000000000000) == 0x7ff0000000000000 and (b & 0x000fffffffffffff) != 0

U = 2.0 ** -52
REAL_GRID = [0.0, 5e-324, 2.0 ** -1060, 2.0 ** -1022, 0.5, 1 - 2.0 ** -53, 1.0, 1 + U, 2.0, 3.0, 1e308, INF]
VIT_GRID = [-INF, -1e308, -3.0, -2.0, -1 - U, -1.0, -5e-324, 0.0, 5e-324, 2.0 ** -1022, 1.0, 1 + U, 2.0, 3.0, 1e308, INF]
LOG_GRID = [-INF, -744.0, -50.0, -3.0, -1 - U, -1.0, math.log(0.5), -(2.0 ** -30), -5e-324, 0.0,
            2.0 ** -30, math.log(2), math.log(3), 1.0, 3.0, 50.0, 700.0, INF]
LOG_BIG = [-1e308, 1e308]            # mul only
LOG_STAR_EXTRA = [-1e-300, -1e-17, -2.0 ** -53, -1e-10, -30.0, -36.0, -37.5, -40.0, -100.0, -700.0]   # star only: both ends of the two numerically motivated branches
REAL_TRI = [0.0, 5e-324, 0.5, 1 - 2.0 ** -53, 1.0, 1 + U, 2.0, 1e308, INF]
VIT_TRI = [-INF, -1e308, -1.0, -5e-324, 0.0, 5e-324, 1 + U, 3.0, 1e308, INF]
LOG_TRI = [-INF, -1.0, math.log(0.5), 0.0, math.log(2), 1.0, INF]
# added in the thorough tier (besides seeded random values)
_THOROUGH_EXTRA = dict(REAL_TRI=[3.0], VIT_TRI=[-3.0, 1.0], LOG_TRI=[-50.0, 50.0])

_BASE_GRIDS = dict(REAL_GRID=list(REAL_GRID), VIT_GRID=list(VIT_GRID), LOG_GRID=list(LOG_GRID),
                   REAL_TRI=list(REAL_TRI), VIT_TRI=list(VIT_TRI), LOG_TRI=list(LOG_TRI))
def make_grids(tier, seed):
    """quick: the fixed grids above.  thorough: plus seeded random binary64 values over the whole exponent range
    (Real: positive; Viterbi: both signs; Log: log-space values in [-700, 700])"""
    g = {k: list(v) for k, v in _BASE_GRIDS.items()}
    if tier != "thorough": return g
    for k, v in _THOROUGH_EXTRA.items(): g[k] += v
    rng = random.Random(seed * 1000003 + 8)
    def rpos(): return math.ldexp(1 + rng.random(), rng.choice([rng.randint(-1074, 1022), rng.randint(-60, 60)]))
    g["REAL_GRID"] += [rpos() for _ in range(12)]
    g["VIT_GRID"] += [rng.choice([-1, 1]) * rpos() for _ in range(12)]
    g["LOG_GRID"] += [rng.uniform(-700, 700) for _ in range(5)] + [rng.uniform(-3, 3) for _ in range(5)]
    g["REAL_TRI"] += [rpos() for _ in range(5)]
    g["VIT_TRI"] += [rng.choice([-1, 1]) * rpos() for _ in range(5)]
    g["LOG_TRI"] += [rng.uniform(-60, 60) for _ in range(4)]
    for k in g: g[k] = sorted(set(g[k]))
    return g

_EXPCACHE = {}
def exp_q(x, up=None):
    """e^x as a Fraction with >= 45 correct significant digits *of e^x - 1 as well* (so that
    1 - e^x keeps its leading digits for tiny |x|); up=True/False widens outward by 1e-40 relative"""
    import decimal
    key = (x, up)
    if key in _EXPCACHE: return _EXPCACHE[key]
    fx = Fraction(x)
    extra = 0
    if fx != 0 and abs(fx) < 1:
        extra = min(340, max(0, -int(math.floor(math.log10(abs(float(fx)) if abs(float(fx)) > 0 else 1e-330)))))
    ctx = decimal.Context(prec=45 + extra, Emax=10 ** 9, Emin=-10 ** 9)
    d = ctx.exp(ctx.divide(decimal.Decimal(fx.numerator), decimal.Decimal(fx.denominator)))
    dd, e = d.as_tuple().digits, d.as_tuple().exponent
    q = Fraction(int("".join(map(str, dd)))) * (Fraction(10) ** e)
    if up is True: q = q * (1 + Fraction(1, 10 ** 40))
    if up is False: q = q * (1 - Fraction(1, 10 ** 40))
    _EXPCACHE[key] = q
    return q
def log_wire(x):
    """exp reading of a log-space input"""
    x = float(x)
    if x != x: return (3, Fraction(0))
    if x == INF: return (2, Fraction(0))
    if x == -INF: return (1, Fraction(0))
    return (1, exp_q(x))
def log_result(r, *inputs, k=8):
    r = float(r)
    if r != r: return (3, Fraction(0), Fraction(0))
    if r == INF: return (2, Fraction(0), Fraction(0))
    if r == -INF: return (0, Fraction(0), Fraction(0))
    if abs(r) > 1e5: return (3, Fraction(0), Fraction(0))    # no legitimate result of in-range operands; e^r is not writable
    mag = abs(Fraction(r)) + sum(abs(Fraction(float(v))) for v in inputs if abs(float(v)) != INF)
    t = Fraction(k) * Fraction(2) ** -52 * mag
    return (1, exp_q(Fraction(r) - t, up=False), exp_q(Fraction(r) + t, up=True))
def in_log_range(x):
    return abs(x) == INF or abs(x) <= 745.0

SRNAME = {0: "RealSemiring", 1: "LogSemiring", 2: "ViterbiSemiring", 3: "BoolSemiring"}
OPNAME = {0: "add", 1: "mul", 2: "sub"}
LAWNAME = {0: "add associative", 1: "add commutative", 2: "add identity", 3: "mul associative", 4: "mul commutative",
           5: "mul identity", 6: "zero annihilates", 7: "right distributive", 8: "left distributive",
           9: "star(x) = 1 + x*star(x) and least", 10: "sub(x,y)+y = x for y <= x", 11: "star(zero) = one",
           12: "star(x)*y solves w = x*w + y"}
LAW_ARITY = {0: 3, 1: 2, 2: 1, 3: 3, 4: 2, 5: 1, 6: 1, 7: 3, 8: 3, 9: 1, 10: 2, 11: 1, 12: 2}

def _semirings():
    import torch
    from fggs.semirings import RealSemiring, LogSemiring, ViterbiSemiring, BoolSemiring
    d = torch.float64
    return {0: RealSemiring(dtype=d), 1: LogSemiring(dtype=d), 2: ViterbiSemiring(dtype=d), 3: BoolSemiring()}

def _t(vals):
    import torch
    return torch.tensor(list(vals), dtype=torch.float64)
def _t0(v):
    import torch
    return torch.tensor(v, dtype=torch.float64)
def _apply(S, op, x, y):
    return (S.add, S.mul, S.sub)[op](x, y)

def law_eval(S, n, x, y, z):
    """(lhs, rhs) of law n evaluated with the implementation on tensors x, y, z"""
    zero = S.from_int(0); one = S.from_int(1)
    a, m, sub, st = S.add, S.mul, S.sub, S.star
    if n == 0: return a(x, a(y, z)), a(a(x, y), z)
    if n == 1: return a(x, y), a(y, x)
    if n == 2: return a(x, zero), a(zero, x)
    if n == 3: return m(x, m(y, z)), m(m(x, y), z)
    if n == 4: return m(x, y), m(y, x)
    if n == 5: return m(x, one), m(one, x)
    if n == 6: return m(x, zero), m(zero, x)
    if n == 7: return m(a(x, y), z), a(m(x, z), m(y, z))
    if n == 8: return m(x, a(y, z)), a(m(x, y), m(x, z))
    if n == 9: return st(x), a(one, m(x, st(x)))
    if n == 10: return a(sub(x, y), y), x
    if n == 11: return st(zero).expand_as(x), one.expand_as(x)
    return m(st(x), y), a(m(x, m(st(x), y)), y)

class Ctx:
    def __init__(self, tier, seed):
        self.tier, self.seed = tier, seed
        self.viol = []
        self.n_eval = 0
        self.hist = {}
        self.nontrivial = set()
        self.samples = []
        self.kernel = 0
        self.notes = []
        self.batches = []
    def count(self, key, n=1):
        self.hist[key] = self.hist.get(key, 0) + n
        self.n_eval += n

class Batch:
    def __init__(self, kind, cf, vals, infos, describe, tag, coq_sample, post, chunk, mod=0):
        self.kind, self.cf, self.vals, self.infos, self.describe, self.tag = kind, cf, vals, infos, describe, tag
        self.coq_sample, self.post, self.chunk, self.mod = coq_sample, post, chunk, mod
    def verdict(self, code):
        return code % self.mod if self.mod else code
        self.codes = None

def _judge(ctx, cf, vals, infos, describe, tag, coq_sample=24, post=None, chunk=1500, mod=0):
    """register a batch for the extracted model (bulk) + kernel re-evaluation of a sample and of
    every non-zero verdict; describe(info, code) -> Violation or None; post(codes) afterwards"""
    if vals: ctx.batches.append(Batch("ocaml", cf, vals, infos, describe, tag, coq_sample, post, chunk, mod))

def _judge_kernel(ctx, cf, vals, infos, describe, tag):
    """register a batch that is evaluated only inside Coq (vm_compute): the PrimFloat model"""
    if vals: ctx.batches.append(Batch("coq", cf, vals, infos, describe, tag, len(vals), None, 0))

def _judge_flocq(ctx, cf, cases, tag):
    """register a batch evaluated only inside Coq on the Flocq model (Model/FloatFormat.v); sharded"""
    vals = list(cases.keys())
    infos = [dict(cases[v], _val=v) for v in vals]
    if vals: ctx.batches.append(Batch("flocq", cf, vals, infos, lambda info, c, cf=cf: FF.describe(cf, info["_val"], info, c), tag, len(vals), None, 0))

_RES_RE = re.compile(r"=\s*(\[[^\]]*\])\s*:\s*list nat", re.S)
def run_coq_multi(groups, tag):
    """[(cf, values)] -> [codes]; ONE Coq file with one vm_compute per group (one coqc start-up)"""
    groups = [(cf, vs) for cf, vs in groups]
    d = os.path.join(BUILD, "cases", tag)
    shutil.rmtree(d, ignore_errors=True); os.makedirs(d)
    path = os.path.join(d, "Cases_%s.v" % tag.replace("-", "_"))
    mods = []
    for cf, _ in groups:
        for m in [cf.module] + cf.imports:
            if m not in mods: mods.append(m)
    with open(path, "w") as f:
        f.write("From Coq Require Import List ZArith QArith.\nImport ListNotations.\n")
        for m in mods: f.write("Require Import Fggs.%s.\n" % m)
        for k, (cf, vs) in enumerate(groups):
            f.write("Definition cases%d : list %s := [\n" % (k, cf.ty.coqty()))
            f.write(";\n".join(cf.ty.coq(v) for v in vs))
            f.write("\n].\nEval vm_compute in (List.map %s cases%d).\n" % (cf.coq_name, k))
    rc, out = sh(["timeout", "900", "coqc", "-q", "-noglob", "-R", os.path.join(COQDIR, "theories"), "Fggs", path], timeout=1000, cwd=d)
    if rc != 0: raise BuildError("coqc failed on %s:\n%s" % (path, out[-3000:]))
    res = _RES_RE.findall(out)
    if len(res) != len(groups): raise BuildError("could not parse coqc output of %s (%d results for %d groups)" % (path, len(res), len(groups)))
    codes = []
    for (cf, vs), body in zip(groups, res):
        cs = [int(x) for x in re.findall(r"\d+", body.replace("%nat", ""))]
        if len(cs) != len(vs): raise BuildError("coqc printed %d codes for %d cases of %s" % (len(cs), len(vs), cf.kind))
        codes.append(cs)
    return codes

def dispatch(ctx):
    """run all registered batches concurrently: extracted driver in chunks, the float batches and
    the kernel sample in Coq; then cross-check, re-evaluate every non-zero verdict in the kernel"""
    import time, sys
    from concurrent.futures import ThreadPoolExecutor
    t0 = time.time()
    dbg = os.environ.get("VERIF_DEBUG")
    rng = random.Random(ctx.seed * 7919 + 13)
    with ThreadPoolExecutor(max_workers=int(os.environ.get("VERIF_C08_JOBS", "10"))) as ex:
        picks = {}
        obs = [b for b in ctx.batches if b.kind == "ocaml"]
        cbs = [b for b in ctx.batches if b.kind == "coq"]
        fbs = [b for b in ctx.batches if b.kind == "flocq"]
        for b in obs:
            picks[id(b)] = sorted(rng.sample(range(len(b.vals)), min(len(b.vals), b.coq_sample)))
        # the two Coq runs first (they are the long poles), then the extracted driver in chunks
        kfut = ex.submit(run_coq_multi, [(b.cf, [b.vals[i] for i in picks[id(b)]]) for b in obs], "c08-kernel") if obs else None
        cfut = ex.submit(run_coq_multi, [(b.cf, b.vals) for b in cbs], "c08-float") if cbs else None
        # the Flocq model: a few Coq processes in parallel (loading Flocq costs ~10 s each)
        nshard = int(os.environ.get("VERIF_C08_FLOCQ_SHARDS", "4"))
        allf = [(bi, i) for bi, b in enumerate(fbs) for i in range(len(b.vals))]
        per = max(1, (len(allf) + nshard - 1) // nshard)
        ffuts = []
        for k in range(0, len(allf), per):
            part = allf[k:k + per]
            groups, index = [], []
            for bi in sorted({bi for bi, _ in part}):
                ix = [i for b2, i in part if b2 == bi]
                groups.append((fbs[bi].cf, [fbs[bi].vals[i] for i in ix])); index.append((bi, ix))
            ffuts.append((index, ex.submit(FF.run_flocq, groups, "c08-flocq-%d" % (k // per))))
        for b in obs:
            b.futs = [ex.submit(run_ocaml, b.cf, b.vals[i:i + b.chunk]) for i in range(0, len(b.vals), b.chunk)]
        for b in obs:
            b.codes = [c for f in b.futs for c in f.result()]
        if dbg: print("  extracted driver done: %.1fs" % (time.time() - t0), file=sys.stderr, flush=True)
        if cfut is not None:
            for b, cs in zip(cbs, cfut.result()): b.codes = cs
            ctx.kernel += sum(len(b.vals) for b in cbs)
        if dbg: print("  float batches done: %.1fs" % (time.time() - t0), file=sys.stderr, flush=True)
        for b in fbs: b.codes = [None] * len(b.vals)
        for index, fut in ffuts:
            for (bi, ix), cs in zip(index, fut.result()):
                for i, c in zip(ix, cs): fbs[bi].codes[i] = c
        ctx.kernel += sum(len(b.vals) for b in fbs)
        if dbg: print("  Flocq batches done: %.1fs" % (time.time() - t0), file=sys.stderr, flush=True)
        if kfut is not None:
            for b, cs in zip(obs, kfut.result()):
                for i, c in zip(picks[id(b)], cs):
                    if c != b.codes[i]:
                        raise BuildError("extracted code and vm_compute disagree on %s case %d: %d vs %d" % (b.cf.kind, i, b.codes[i], c))
                ctx.kernel += len(cs)
        if dbg: print("  kernel sample done: %.1fs" % (time.time() - t0), file=sys.stderr, flush=True)
    # every non-zero verdict of the extracted code is confirmed inside the kernel
    bad = [(b, [i for i, c in enumerate(b.codes) if b.verdict(c) != 0][:40]) for b in obs]
    bad = [(b, ix) for b, ix in bad if ix]
    if bad:
        res = run_coq_multi([(b.cf, [b.vals[i] for i in ix]) for b, ix in bad], "c08-nonzero")
        for (b, ix), cs in zip(bad, res):
            for i, c in zip(ix, cs):
                if c != b.codes[i]:
                    raise BuildError("extracted code and vm_compute disagree on %s case %d: %d vs %d" % (b.cf.kind, i, b.codes[i], c))
            ctx.kernel += len(cs)
    for b in ctx.batches:
        if dbg: print("  %s: %d cases, %d non-zero" % (b.tag, len(b.vals), sum(1 for c in b.codes if b.verdict(c))), file=sys.stderr, flush=True)
        if b.describe is not None:
            for info, c in zip(b.infos, b.codes):
                c = b.verdict(c)
                if c == 0: continue
                v = b.describe(info, c)
                if v is not None: ctx.viol.append(v)
        if b.post is not None: b.post(b.codes)

# ----------------------------------------------------------------------------
# part 1: scalar tables (0-dim and 1-dim tensors), bit-exact and exact-carrier judgement

def part_tables(ctx, SR):
    import torch
    tables = {}
    fvals, finfo = [], []          # float-level cases
    evals, einfo = [], []          # exact-carrier cases
    lvals, linfo = [], []          # log cases
    for sr, grid in ((0, REAL_GRID + [-0.0]), (2, VIT_GRID + [-0.0]), (1, LOG_GRID + LOG_BIG + [-0.0])):
        S = SR[sr]
        n = len(grid)
        X = _t([g for g in grid for _ in grid]); Y = _t([h for _ in grid for h in grid])
        for op in (0, 1, 2):
            try:
                R = _apply(S, op, X, Y)
                Xi = X.clone();
                if op == 0: S.add_(Xi, Y)
            except Exception as e:
                ctx.viol.append(Violation("%s.%s raised %r on 1-dim tensors" % (SRNAME[sr], OPNAME[op], e), case=dict(sr=sr, op=op),
                                          call="%s.%s(x, y)" % (SRNAME[sr], OPNAME[op]), corr="corr:binop"))
                continue
            rl = R.tolist(); xl = X.tolist(); yl = Y.tolist(); il = Xi.tolist()
            for x, y, r, ri in zip(xl, yl, rl, il):
                variants = [("1-dim", r)]
                try:
                    r0 = float(_apply(S, op, _t0(x), _t0(y)))
                except Exception as e:
                    ctx.viol.append(Violation("%s.%s raised %r on 0-dim tensors" % (SRNAME[sr], OPNAME[op], e),
                                              case=dict(sr=sr, op=op, x=x, y=y), corr="corr:binop"))
                    r0 = r
                if fbits(r0) != fbits(r): variants.append(("0-dim", r0))
                if op == 0 and fbits(ri) != fbits(r): variants.append(("add_", ri))
                ctx.count("%s.%s" % (SRNAME[sr], OPNAME[op]), 2 + (op == 0))
                tables.setdefault((sr, op), {}).setdefault((fbits(x), fbits(y)), set()).update(fbits(v) for _, v in variants)
                for rep, rv in variants:
                    info = dict(sr=sr, op=op, x=x, y=y, r=rv, rep=rep)
                    if sr in (0, 2):
                        fvals.append((sr // 2 * 3 + op, x, y, rv)); finfo.append(info)
                        evals.append((sr, op, wire(x), wire(y), wire(rv))); einfo.append(info)
                    else:
                        if op == 1:
                            fvals.append((4, x, y, rv)); finfo.append(info)
                        if in_log_range(x) and in_log_range(y):
                            lvals.append((op, [log_wire(x), log_wire(y)], log_result(rv, x, y))); linfo.append(info)
                    if not (x in (0.0, 1.0) and y in (0.0, 1.0)):
                        ctx.nontrivial.add(("binop", sr, op, fbits(x), fbits(y)))
    def d_float(info, c):
        return Violation("%s.%s(%r, %r) on a %s tensor is %r: differs bitwise from the binary64 model (Model/FloatOps.v)"
                         % (SRNAME[info["sr"]], OPNAME[info["op"]], info["x"], info["y"], info["rep"], info["r"]),
                         case=dict(kind="fbin", **info), observed=info["r"], corr="corr:float_binop_check (L0')",
                         failing_input_found=False, call="%s.%s" % (SRNAME[info["sr"]], OPNAME[info["op"]]))
    _judge_kernel(ctx, FBIN, fvals, finfo, d_float, "c08-fbin")
    def d_exact(info, c):
        what = "%s.%s(%r, %r) on a %s tensor is %r" % (SRNAME[info["sr"]], OPNAME[info["op"]], info["x"], info["y"], info["rep"], info["r"])
        if c < 10:
            return Violation(what + ": rejected by the carrier operation (oracle)", case=dict(kind="binop", **info), observed=info["r"],
                             oracle="carrier op (ereal/trop) with accept_q", corr="C08_binop_check_sound_* / C08_laws_exact",
                             call="%s.%s" % (SRNAME[info["sr"]], OPNAME[info["op"]]))
        return Violation(what + ": differs from the model of the code's formula (code %d)" % c, case=dict(kind="binop", **info),
                         observed=info["r"], corr="corr:c08_binop_check", failing_input_found=False)
    _judge(ctx, BINOP, evals, einfo, d_exact, "c08-binop")
    def d_log(info, c):
        what = "LogSemiring.%s(%r, %r) on a %s tensor is %r" % (OPNAME[info["op"]], info["x"], info["y"], info["rep"], info["r"])
        return Violation(what + (": outside the exp-reading interval of the carrier operation" if c < 10 else ": differs from the exp-reading model (code %d)" % c),
                         case=dict(kind="log", **info), observed=info["r"], oracle="ereal op, exp reading" if c < 10 else None,
                         corr="C08_log_code_laws / corr:c08_log_check", failing_input_found=(c < 10))
    _judge(ctx, LOG, lvals, linfo, d_log, "c08-log", chunk=140, coq_sample=10)
    ctx.samples.append(dict(kind="binop", sr="RealSemiring", op="mul", x=REAL_GRID[-1], y=0.0,
                            impl=sorted(tables[(0, 1)][(fbits(INF), fbits(0.0))])))
    return tables

# ----------------------------------------------------------------------------
# part 2: star, from_int, sum

def part_unary(ctx, SR):
    import torch
    fvals, finfo, svals, sinfo, lvals, linfo = [], [], [], [], [], []
    for sr, grid in ((0, REAL_GRID + [-0.0]), (2, VIT_GRID + [-0.0]), (1, LOG_GRID + LOG_STAR_EXTRA)):
        S = SR[sr]
        try:
            R1 = S.star(_t(grid)).tolist()
        except Exception as e:
            ctx.viol.append(Violation("%s.star raised %r" % (SRNAME[sr], e), case=dict(sr=sr), corr="corr:star")); continue
        for x, r1 in zip(grid, R1):
            reps = [("1-dim", r1)]
            try:
                r0 = float(S.star(_t0(x)))
                if fbits(r0) != fbits(r1): reps.append(("0-dim", r0))
            except Exception as e:
                ctx.viol.append(Violation("%s.star raised %r on a 0-dim tensor" % (SRNAME[sr], e), case=dict(sr=sr, x=x), corr="corr:star"))
            ctx.count("%s.star" % SRNAME[sr], 2)
            ctx.nontrivial.add(("star", sr, fbits(x)))
            for rep, rv in reps:
                info = dict(sr=sr, x=x, r=rv, rep=rep)
                if sr in (0, 2):
                    fvals.append((sr // 2, x, rv)); finfo.append(info)
                    svals.append((sr, wire(x), wire(rv))); sinfo.append(info)
                else:
                    lvals.append((3, [log_wire(x)], log_result(rv))); linfo.append(info)
    def d_fun(info, c):
        return Violation("%s.star(%r) is %r: differs bitwise from the binary64 model" % (SRNAME[info["sr"]], info["x"], info["r"]),
                         case=dict(kind="fun", **info), observed=info["r"], corr="corr:float_unop_check (L0')", failing_input_found=False)
    _judge_kernel(ctx, FUN, fvals, finfo, d_fun, "c08-fun")
    def d_star(info, c):
        if c < 10:
            return Violation("%s.star(%r) is %r: not the least solution of y = 1 + x*y" % (SRNAME[info["sr"]], info["x"], info["r"]),
                             case=dict(kind="star", **info), observed=info["r"], expected="least solution (carrier star)",
                             oracle="carrier star = least solution (C08_star_least_solution)", corr="C08_star_check_sound_*",
                             call="%s.star" % SRNAME[info["sr"]])
        return Violation("%s.star(%r) is %r: differs from the model of the code (code %d)" % (SRNAME[info["sr"]], info["x"], info["r"], c),
                         case=dict(kind="star", **info), observed=info["r"], corr="corr:c08_star_check", failing_input_found=False)
    _judge(ctx, STAR, svals, sinfo, d_star, "c08-star")
    def d_lstar(info, c):
        return Violation("LogSemiring.star(%r) is %r: %s" % (info["x"], info["r"], "outside the interval of the least solution 1/(1-e^x)" if c < 10 else "differs from the exp-reading model"),
                         case=dict(kind="logstar", **info), observed=info["r"], oracle="estar, exp reading" if c < 10 else None,
                         corr="C08_log_code_laws / corr:c08_log_check", failing_input_found=(c < 10))
    _judge(ctx, LOG, lvals, linfo, d_lstar, "c08-logstar", coq_sample=8)
    # from_int
    ivals, iinfo, lvals, linfo, bvals, binfo = [], [], [], [], [], []
    ns = [0, 1, 2, 3, 4, 7, 10, 100, 1024, 4999]
    for sr in (0, 1, 2, 3):
        S = SR[sr]
        try:
            tv = S.from_int(torch.tensor(ns)).tolist()
        except Exception as e:
            ctx.viol.append(Violation("%s.from_int(tensor) raised %r" % (SRNAME[sr], e), case=dict(sr=sr), corr="corr:from_int")); tv = [None] * len(ns)
        for n, rt in zip(ns, tv):
            try:
                r = S.from_int(n).item()
            except Exception as e:
                ctx.viol.append(Violation("%s.from_int(%d) raised %r" % (SRNAME[sr], n, e), case=dict(sr=sr, n=n), corr="corr:from_int")); continue
            ctx.count("%s.from_int" % SRNAME[sr], 2)
            ctx.nontrivial.add(("from_int", sr, n))
            for rep, rv in (("int", r), ("tensor", rt)):
                if rv is None: continue
                info = dict(sr=sr, n=n, r=rv, rep=rep)
                if sr in (0, 2): ivals.append((sr, n, wire(rv))); iinfo.append(info)
                elif sr == 1: lvals.append((4, [(1, Fraction(n))], log_result(rv))); linfo.append(info)
                else: bvals.append((4, n, [], bool(rv))); binfo.append(info)
    def d_from(info, c):
        return Violation("%s.from_int(%d) is %r: %s" % (SRNAME[info["sr"]], info["n"], info["r"], "not 1 + ... + 1 (n times)" if c < 10 else "differs from the model of the code"),
                         case=dict(kind="from_int", **info), observed=info["r"], oracle="from_nat (unique homomorphism, C08_from_nat_unique_hom)" if c < 10 else None,
                         corr="corr:from_int", failing_input_found=(c < 10))
    _judge(ctx, FROMINT, ivals, iinfo, d_from, "c08-fromint")
    _judge(ctx, LOG, lvals, linfo, d_from, "c08-logfromint", coq_sample=6)
    _judge(ctx, BOOLC, bvals, binfo, d_from, "c08-boolfromint")
    # sum along a dimension
    rng = random.Random(ctx.seed + 17)
    svals, sinfo, lvals, linfo = [], [], [], []
    for sr, grid in ((0, [0.0, 5e-324, 0.5, 1.0, 1 + U, 2.0, 3.0, 2.0 ** 52, 1e300, INF]),
                     (2, VIT_GRID), (1, [-INF, -50.0, -1.0, math.log(0.5), 0.0, math.log(2), 1.0, 50.0, INF])):
        S = SR[sr]
        rows = [[x, y] for x in grid for y in grid]
        for ln in (1, 3, 5, 12, 23):
            rows += [[rng.choice(grid) for _ in range(ln)] for _ in range(12 if ctx.tier == "quick" else 120)]
        rows.append([])
        bylen = {}
        for row in rows: bylen.setdefault(len(row), []).append(row)
        for ln, rs in bylen.items():
            try:
                t = _t([v for row in rs for v in row]).reshape(len(rs), ln)
                out = S.sum(t, 1).tolist()
            except Exception as e:
                if ln == 0 and sr == 2: continue     # torch.max of an empty dimension has no identity; not in the property
                ctx.viol.append(Violation("%s.sum raised %r on rows of length %d" % (SRNAME[sr], e, ln), case=dict(sr=sr, len=ln), corr="corr:sum")); continue
            for row, r in zip(rs, out):
                ctx.count("%s.sum" % SRNAME[sr])
                if len(row) >= 2: ctx.nontrivial.add(("sum", sr, tuple(fbits(v) for v in row)))
                info = dict(sr=sr, xs=row, r=r)
                if sr in (0, 2): svals.append((sr, [wire(v) for v in row], wire(r))); sinfo.append(info)
                else: lvals.append((5, [log_wire(v) for v in row], log_result(r, *row, k=8 * (len(row) + 1)))); linfo.append(info)
    def d_sum(info, c):
        return Violation("%s.sum(%r) is %r: %s" % (SRNAME[info["sr"]], info["xs"], info["r"], "not the fold of add" if c < 10 else "differs from the model"),
                         case=dict(kind="sum", **info), observed=info["r"], oracle="sum_list (C08_sum_fold, C08_sum_perm)" if c < 10 else None,
                         corr="corr:sum", failing_input_found=(c < 10))
    _judge(ctx, SUM, svals, sinfo, d_sum, "c08-sum")
    _judge(ctx, LOG, lvals, linfo, d_sum, "c08-logsum", coq_sample=8)

# ----------------------------------------------------------------------------
# part 3: law instances evaluated on the implementation

def _law_cases(grid, n):
    ar = LAW_ARITY[n]
    if ar == 3: return [(x, y, z) for x in grid for y in grid for z in grid]
    if ar == 2: return [(x, y, grid[0]) for x in grid for y in grid]
    return [(x, grid[0], grid[0]) for x in grid]

def part_laws(ctx, SR):
    lawvals, lawinfo = [], []
    for sr, grid in ((0, REAL_TRI), (2, VIT_TRI)):
        S = SR[sr]
        for n in range(13):
            cs = _law_cases(grid, n)
            X = _t([c[0] for c in cs]); Y = _t([c[1] for c in cs]); Z = _t([c[2] for c in cs])
            try:
                lhs, rhs = law_eval(S, n, X, Y, Z)
                lhs = lhs.tolist(); rhs = rhs.tolist()
            except Exception as e:
                ctx.viol.append(Violation("law '%s' raised %r in %s" % (LAWNAME[n], e, SRNAME[sr]), case=dict(sr=sr, law=n), corr="corr:law")); continue
            for (x, y, z), l, r in zip(cs, lhs, rhs):
                lawvals.append((sr, n, (wire(x), wire(y), wire(z)), (wire(l), wire(r))))
                lawinfo.append(dict(sr=sr, law=n, x=x, y=y, z=z, lhs=l, rhs=r))
    # 0-dim spot checks of the same laws
    rng = random.Random(ctx.seed + 5)
    for sr, grid in ((0, REAL_TRI), (2, VIT_TRI)):
        S = SR[sr]
        for n in range(13):
            for _ in range(6 if ctx.tier == "quick" else 60):
                x, y, z = rng.choice(grid), rng.choice(grid), rng.choice(grid)
                try:
                    l, r = law_eval(S, n, _t0(x), _t0(y), _t0(z))
                except Exception as e:
                    ctx.viol.append(Violation("law '%s' raised %r in %s on 0-dim tensors" % (LAWNAME[n], e, SRNAME[sr]), case=dict(sr=sr, law=n, x=x, y=y, z=z), corr="corr:law")); continue
                lawvals.append((sr, n, (wire(x), wire(y), wire(z)), (wire(float(l)), wire(float(r)))))
                lawinfo.append(dict(sr=sr, law=n, x=x, y=y, z=z, lhs=float(l), rhs=float(r), rep="0-dim"))
    cls_hist = {0: 0, 1: 0, 2: 0}
    def post_classes(codes):
        for info, code in zip(lawinfo, codes):
            cl = code // 100
            cls_hist[cl] = cls_hist.get(cl, 0) + 1
            ctx.count("law/%s/%s" % (SRNAME[info["sr"]], ("exact", "tolerance", "skipped")[cl]))
            if cl != 2 and len({fbits(info["x"]), fbits(info["y"]), fbits(info["z"])}) >= min(2, LAW_ARITY[info["law"]]):
                ctx.nontrivial.add(("law", info["sr"], info["law"], fbits(info["x"]), fbits(info["y"]), fbits(info["z"])))
    def d_law(info, c):
        starlaw = info["law"] in (9, 12)
        what = "%s: law '%s' at x=%r y=%r z=%r: lhs=%r rhs=%r" % (SRNAME[info["sr"]], LAWNAME[info["law"]], info["x"], info["y"], info["z"], info["lhs"], info["rhs"])
        if c < 10:
            return Violation(what + (": lhs" if c == 1 else ": rhs") + " is not the value the law prescribes", case=dict(kind="law", **info),
                             observed=dict(lhs=info["lhs"], rhs=info["rhs"]), oracle="law_table (C08_law_oracle_sound_*)",
                             corr="C08_laws_exact", call="law instance on the implementation")
        return Violation(what + ": differs from the model of the code (code %d)" % c, case=dict(kind="law", **info),
                         corr="corr:c08_law_check", failing_input_found=False)
    _judge(ctx, LAW, lawvals, lawinfo, d_law, "c08-law", chunk=1000, post=post_classes, mod=100)
    # Log laws, exp reading
    S = SR[1]
    lv, li = [], []
    for n in range(13):
        cs = _law_cases(LOG_TRI, n)
        if n == 10: cs = [c for c in cs if c[1] <= c[0]]
        X = _t([c[0] for c in cs]); Y = _t([c[1] for c in cs]); Z = _t([c[2] for c in cs])
        try:
            lhs, rhs = law_eval(S, n, X, Y, Z)
            lhs = lhs.tolist(); rhs = rhs.tolist()
        except Exception as e:
            ctx.viol.append(Violation("law '%s' raised %r in LogSemiring" % (LAWNAME[n], e), case=dict(sr=1, law=n), corr="corr:law")); continue
        for (x, y, z), l, r in zip(cs, lhs, rhs):
            ins = (x, y, z)[:LAW_ARITY[n]]
            lv.append((n, (log_wire(x), log_wire(y), log_wire(z)), (log_result(l, *ins, r, k=32), log_result(r, *ins, l, k=32))))
            li.append(dict(sr=1, law=n, x=x, y=y, z=z, lhs=l, rhs=r))
            ctx.count("law/LogSemiring")
            ctx.nontrivial.add(("law", 1, n, fbits(x), fbits(y), fbits(z)))
    def d_loglaw(info, c):
        return Violation("LogSemiring: law '%s' at x=%r y=%r z=%r: lhs=%r rhs=%r: %s is outside the interval of the prescribed value (exp reading)"
                         % (LAWNAME[info["law"]], info["x"], info["y"], info["z"], info["lhs"], info["rhs"], "lhs" if c == 1 else "rhs"),
                         case=dict(kind="loglaw", **info), oracle="law_table over ereal, exp reading", corr="C08_laws_exact / C08_log_code_laws")
    _judge(ctx, LOGLAW, lv, li, d_loglaw, "c08-loglaw", chunk=450, coq_sample=10)
    # leastness: for every grid value y that solves y = 1 + x*y exactly (decided in Coq), star(x) <= y
    lvals, linfo = [], []
    for sr, grid in ((0, REAL_GRID), (2, VIT_GRID)):
        S = SR[sr]
        cs = [(x, y) for x in grid for y in grid]
        try:
            ST = S.star(_t([c[0] for c in cs])).tolist()
        except Exception as e:
            ctx.viol.append(Violation("leastness test raised %r in %s" % (e, SRNAME[sr]), case=dict(sr=sr), corr="corr:least")); continue
        for (x, y), st in zip(cs, ST):
            lvals.append((sr, wire(x), wire(y), wire(st))); linfo.append(dict(sr=sr, x=x, y=y, star=st))
            ctx.count("least/%s" % SRNAME[sr])
            ctx.nontrivial.add(("least", sr, fbits(x), fbits(y)))
    def d_least(info, c):
        return Violation("%s: y=%r solves y = 1 + x*y for x=%r exactly, but star(x)=%r is not <= y"
                         % (SRNAME[info["sr"]], info["y"], info["x"], info["star"]), case=dict(kind="least", **info),
                         observed=info["star"], oracle="leastness against exact solutions from the grid", corr="C08_star_least_solution")
    _judge(ctx, LEAST, lvals, linfo, d_least, "c08-least")
    ctx.law_classes = cls_hist

# ----------------------------------------------------------------------------
# part 4: Bool

def part_bool(ctx, SR):
    import torch
    S = SR[3]
    vals, infos = [], []
    B = [False, True]
    for op, f in ((0, S.add), (1, S.mul), (2, S.sub)):
        for x in B:
            for y in B:
                for rep in ("0-dim", "1-dim"):
                    tx = torch.tensor(x) if rep == "0-dim" else torch.tensor([x, x])
                    ty = torch.tensor(y) if rep == "0-dim" else torch.tensor([y, y])
                    r = f(tx, ty)
                    r = bool(r) if rep == "0-dim" else bool(r[0])
                    vals.append((op, 0, [x, y], r)); infos.append(dict(op=op, xs=[x, y], r=r, rep=rep)); ctx.count("BoolSemiring.%s" % OPNAME[op])
                    ctx.nontrivial.add(("bool", op, x, y))
        if op == 0:
            for x in B:
                for y in B:
                    t = torch.tensor([x]); S.add_(t, torch.tensor([y]))
                    vals.append((0, 0, [x, y], bool(t[0]))); infos.append(dict(op=0, xs=[x, y], r=bool(t[0]), rep="add_")); ctx.count("BoolSemiring.add_")
    for x in B:
        r = bool(S.star(torch.tensor(x)))
        vals.append((3, 0, [x], r)); infos.append(dict(op=3, xs=[x], r=r)); ctx.count("BoolSemiring.star")
    for row in [[], [False], [True], [False, False], [False, True], [True, False, False], [False] * 7, [False] * 6 + [True]]:
        r = bool(S.sum(torch.tensor(row, dtype=torch.bool).reshape(1, len(row)), 1)[0])
        vals.append((5, 0, row, r)); infos.append(dict(op=5, xs=row, r=r)); ctx.count("BoolSemiring.sum")
    # laws on all triples, as equalities of implementation values judged through the add/mul tables above
    lawbad = []
    for x, y, z in itertools.product(B, repeat=3):
        tx, ty, tz = torch.tensor(x), torch.tensor(y), torch.tensor(z)
        for n in range(13):
            l, r = law_eval(S, n, tx, ty, tz)
            ctx.count("law/BoolSemiring")
            if n == 10 and (y and not x): continue
            # both sides go to the Coq check as an 'add' with zero: lhs + 0 = rhs  <=>  lhs = rhs
            vals.append((0, 0, [bool(l), False], bool(r))); infos.append(dict(op="law", law=n, xs=[x, y, z], lhs=bool(l), rhs=bool(r)))
    def d_bool(info, c):
        if info.get("op") == "law":
            return Violation("BoolSemiring: law '%s' fails at %r: lhs=%r rhs=%r" % (LAWNAME[info["law"]], info["xs"], info["lhs"], info["rhs"]),
                             case=dict(kind="boollaw", **info), oracle="equality of both sides", corr="C08_laws_exact (bool)")
        return Violation("BoolSemiring op %r on %r is %r: %s" % (info["op"], info["xs"], info["r"], "rejected by the Boolean semiring" if c < 10 else "differs from the model"),
                         case=dict(kind="bool", **info), oracle="bool_ops" if c < 10 else None, corr="C08_bool_code_laws", failing_input_found=(c < 10))
    _judge(ctx, BOOLC, vals, infos, d_bool, "c08-bool")

# ----------------------------------------------------------------------------
# part 5: PatternedTensors must behave like the dense tensors they denote

def _pt_variants(vals, default, shift, torch, ind):
    """PatternedTensors built from the 1-dim float tensor vals (length n); returns {shape: [(name, pt)]}"""
    PT, PA, SumAxis, productAxis = ind.PatternedTensor, ind.PhysicalAxis, ind.SumAxis, ind.productAxis
    n = len(vals)
    v = torch.roll(vals, shift)
    out = {}
    def put(name, pt): out.setdefault(tuple(pt.size()), []).append((name, pt))
    put("dense1", PT(v.clone(), default=default))
    k = PA(n); put("diag", PT(v.clone(), (k,), (k, k), default))
    put("expand", PT(v.clone(), default=default).expand(n, n))
    put("torch-expanded", PT(v.clone().unsqueeze(0).expand(n, n), default=default))
    put("dense2-cols", PT(v.clone().unsqueeze(1).expand(n, n).clone(), default=default))
    k = PA(n); put("sumaxis", PT(v.clone(), (k,), (SumAxis(1, k, 2),), default))
    k = PA(n); l = PA(n); put("product", PT(v.clone().unsqueeze(0).expand(n, n).clone(), (k, l), (productAxis((k, l)),), default))
    k = PA(n); put("product-diag", PT(v.clone(), (k,), (productAxis((k, k)),), default))
    k = PA(n); put("diag-sum", PT(v.clone(), (k,), (k, SumAxis(0, k, 0)), default))
    # NO physical axis but a non-unit virtual shape: a one-hot vector (what PatternedTensor.eye(n, S)[i] is) and a
    # matrix with a single stored cell; every other cell is the default (seeded C08-d: a "scalar" fast path of mul)
    hot = (1 + shift) % n
    put("onehot", PT(v[hot].clone(), (), (SumAxis(hot, ind.unitAxis, n - hot - 1),), default))
    put("onecell", PT(v[hot].clone(), (), (SumAxis(hot, ind.unitAxis, n - hot - 1), SumAxis(2, ind.unitAxis, n - 3)), default))
    return out
_PT_ONEHOT = ("onehot", "onecell")
_PT_ONEHOT_PARTNERS = ("dense1", "diag", "expand", "dense2-cols", "onehot", "onecell")

def part_pt(ctx, SR, tables):
    import torch
    import fggs.indices as ind
    n_checked = 0
    pt_log = {}
    shifts = (0, 1, 5) if ctx.tier == "quick" else (0, 1, 2, 3, 5, 7, 11, 13)
    for sr, grid in ((0, REAL_GRID), (1, LOG_GRID), (2, VIT_GRID), (3, None)):
        S = SR[sr]
        if sr == 3:
            base = torch.tensor([False, True, True, False, True, False, False, True]); defaults = [False, True]
        else:
            base = _t(grid); defaults = [S.from_int(0).item(), S.from_int(1).item(), grid[-1], grid[len(grid) // 2 - 1]]
        for dx in defaults:
            for dy in defaults:
                for sh in shifts:
                    xs = _pt_variants(base, dx, 0, torch, ind)
                    ys = _pt_variants(base, dy, sh, torch, ind)
                    pairs = []
                    for shp, lst in xs.items():
                        for nx, px in lst:
                            for ny, py in ys.get(shp, []): pairs.append((nx, px, ny, py))
                    nn = len(base)
                    for nx, px in xs[(nn, nn)]:
                        for ny, py in ys[(nn,)]: pairs.append((nx, px, ny, py))
                    for nx, px in xs[(nn,)]:
                        for ny, py in ys[(nn, nn)]: pairs.append((nx, px, ny, py))
                    pairs = [q for q in pairs if not ((q[0] in _PT_ONEHOT and q[2] not in _PT_ONEHOT_PARTNERS) or
                                                      (q[2] in _PT_ONEHOT and q[0] not in _PT_ONEHOT_PARTNERS))]
                    for nx, px, ny, py in pairs:
                        for op in (0, 1, 2):
                            ctx.count("PatternedTensor/%s.%s" % (SRNAME[sr], OPNAME[op]))
                            case = dict(kind="pt", sr=sr, op=op, x_pattern=nx, y_pattern=ny, x_default=dx, y_default=dy, shift=sh)
                            try:
                                dxs, dys = px.to_dense(), py.to_dense()
                                want = _apply(S, op, dxs, dys)
                                got = _apply(S, op, px, py)
                                got = got.to_dense() if isinstance(got, ind.PatternedTensor) else got
                            except Exception as e:
                                ctx.viol.append(Violation("%s.%s on PatternedTensors (%s default %r, %s default %r) raised %r; on the dense tensors it does not raise"
                                                          % (SRNAME[sr], OPNAME[op], nx, dx, ny, dy, e),
                                                          case=case, observed=repr(e), oracle="dense result", corr="C08 representation independence",
                                                          call="%s.%s(PatternedTensor, PatternedTensor)" % (SRNAME[sr], OPNAME[op])))
                                continue
                            ctx.nontrivial.add(("pt", sr, op, nx, ny, dx, dy, sh))
                            if tuple(got.shape) != tuple(want.shape):
                                ctx.viol.append(Violation("%s.%s on PatternedTensors (%s, %s): shape %r, dense gives %r" % (SRNAME[sr], OPNAME[op], nx, ny, tuple(got.shape), tuple(want.shape)),
                                                          case=case, oracle="dense result", corr="C08 representation independence")); continue
                            if sr == 3:
                                if not bool((got == want).all()):
                                    ctx.viol.append(Violation("BoolSemiring.%s on PatternedTensors (%s, %s) differs from the dense result" % (OPNAME[op], nx, ny),
                                                              case=case, observed=got.tolist(), expected=want.tolist(), oracle="dense result", corr="C08 representation independence"))
                                continue
                            full = torch.broadcast_shapes(dxs.shape, dys.shape)   # ViterbiSemiring.sub returns x unbroadcast
                            want_b = torch.broadcast_to(want, full).contiguous().view(torch.int64).reshape(-1).tolist()
                            got_b = torch.broadcast_to(got, full).contiguous().view(torch.int64).reshape(-1).tolist()
                            xb = torch.broadcast_to(dxs, full).contiguous().view(torch.int64).reshape(-1).tolist()
                            yb = torch.broadcast_to(dys, full).contiguous().view(torch.int64).reshape(-1).tolist()
                            tab = tables[(sr, op)]
                            bad = None
                            transcendental = (sr == 1 and op in (0, 2))   # logaddexp / log1p / expm1: torch's scalar and
                            for i, (g, w) in enumerate(zip(got_b, want_b)):  # vectorised kernels differ by an ulp; such
                                n_checked += 1                               # results go to the Coq check individually
                                judged = tab.get((xb[i], yb[i]))
                                in_table = judged is not None and any(same_bits_mod_zero(g, j) for j in judged)
                                if transcendental:
                                    if not in_table: pt_log.setdefault((op, xb[i], yb[i], g), dict(case, element=i))
                                    if not same_bits_mod_zero(w, g) and not (judged is not None and any(same_bits_mod_zero(w, j) for j in judged)):
                                        pt_log.setdefault((op, xb[i], yb[i], w), dict(case, element=i, dense=True))
                                    continue
                                if not same_bits_mod_zero(g, w): bad = (i, "dense"); break
                                if not in_table: bad = (i, "table"); break
                            if bad is not None:
                                i, why = bad
                                gv = struct.unpack("<d", struct.pack("<q", got_b[i]))[0]; wv = struct.unpack("<d", struct.pack("<q", want_b[i]))[0]
                                xv = struct.unpack("<d", struct.pack("<q", xb[i]))[0]; yv = struct.unpack("<d", struct.pack("<q", yb[i]))[0]
                                ctx.viol.append(Violation("%s.%s on PatternedTensors (%s default %r, %s default %r): element %d is %r, the dense tensors give %r (operands %r, %r)%s"
                                                          % (SRNAME[sr], OPNAME[op], nx, dx, ny, dy, i, gv, wv, xv, yv, "" if why == "dense" else " -- not a judged scalar result"),
                                                          case=dict(case, x=xv, y=yv), observed=gv, expected=wv, oracle="dense result, bit pattern modulo the sign of zero",
                                                          corr="C08 representation independence", call="%s.%s(PatternedTensor, PatternedTensor)" % (SRNAME[sr], OPNAME[op])))
        # from_int / eye on PatternedTensors
        try:
            for nI in (0, 1, 2, 3):
                p = ind.PatternedTensor.from_int(nI, S); d = S.from_int(nI)
                ctx.count("PatternedTensor/from_int")
                if (p.to_dense().reshape(-1).tolist() != d.reshape(-1).tolist()):
                    ctx.viol.append(Violation("PatternedTensor.from_int(%d, %s) differs from semiring.from_int" % (nI, SRNAME[sr]), case=dict(kind="pt-from_int", sr=sr, n=nI),
                                              observed=p.to_dense().tolist(), expected=d.tolist(), oracle="dense result", corr="C08 representation independence"))
            e = ind.PatternedTensor.eye(3, S).to_dense(); d = S.eye(3)
            if e.tolist() != d.tolist():
                ctx.viol.append(Violation("PatternedTensor.eye(3, %s) differs from semiring.eye" % SRNAME[sr], case=dict(kind="pt-eye", sr=sr), observed=e.tolist(), expected=d.tolist(),
                                          oracle="dense result", corr="C08 representation independence"))
        except Exception as ex:
            ctx.viol.append(Violation("PatternedTensor.from_int/eye raised %r" % (ex,), case=dict(kind="pt-from_int", sr=sr), corr="corr:patterned"))
    ctx.pt_elements = n_checked
    # Log add/sub results on PatternedTensors (or on their dense 2-dim counterparts) that are not bit-identical to a
    # judged 1-dim result: judged individually in the exp reading
    unb = lambda b: struct.unpack("<d", struct.pack("<q", b))[0]
    lv, li = [], []
    for (op, xbits, ybits, rbits), case in pt_log.items():
        x, y, r = unb(xbits), unb(ybits), unb(rbits)
        if not (in_log_range(x) and in_log_range(y)): continue
        lv.append((op, [log_wire(x), log_wire(y)], log_result(r, x, y))); li.append(dict(case, x=x, y=y, r=r))
        ctx.count("PatternedTensor/LogSemiring ulp-variants judged")
    def d_ptlog(info, c):
        return Violation("LogSemiring.%s on %s (%s, %s): element for operands (%r, %r) is %r: outside the exp-reading interval of the carrier operation"
                         % (OPNAME[info["op"]], "dense 2-dim tensors" if info.get("dense") else "PatternedTensors", info["x_pattern"], info["y_pattern"], info["x"], info["y"], info["r"]),
                         case=info, observed=info["r"], oracle="ereal op, exp reading", corr="C08 representation independence / C08_log_code_laws")
    _judge(ctx, LOG, lv, li, d_ptlog, "c08-ptlog", coq_sample=8, chunk=140)

# ----------------------------------------------------------------------------

def run(tier, seed):
    import torch
    ctx = Ctx(tier, seed)
    SR = _semirings()
    globals().update(make_grids(tier, seed))       # the grids the parts below iterate over (module constants for quick)
    import time, sys, os
    timings = {}
    def timed(name, f, *a):
        t0 = time.time(); r = f(*a); timings[name] = round(time.time() - t0, 1)
        if os.environ.get("VERIF_DEBUG"): print("C08 part %s: %.1fs, %d violations so far" % (name, timings[name], len(ctx.viol)), file=sys.stderr, flush=True)
        return r
    tables = timed("tables", part_tables, ctx, SR)
    timed("unary", part_unary, ctx, SR)
    timed("laws", part_laws, ctx, SR)
    timed("bool", part_bool, ctx, SR)
    timed("patterned", part_pt, ctx, SR, tables)
    ffcases = timed("float formats (float32 + float64 vs Flocq)", FF.part_formats, ctx)
    for cf in (FF.FFBIN, FF.FFUN, FF.FFCMP, FF.FFINT):
        _judge_flocq(ctx, cf, ffcases.d[cf.kind], cf.kind)
    ctx.flocq_cases = {k: len(v) for k, v in ffcases.d.items()}
    timed("model (extracted driver + kernel)", dispatch, ctx)
    if os.environ.get("VERIF_DEBUG"):
        for v in ctx.viol[:25]: print("   V: " + v.what[:260], file=sys.stderr)
    # collapse repeated violations of one known-finding class / one message into few reports
    seen, viol = {}, []
    for v in ctx.viol:
        k = (v.finding_key, v.what[:60]) if v.finding_key else (None, v.what)
        if k in seen and not v.finding_key: continue
        seen[k] = 1; viol.append(v)
    cov = dict(evaluations=ctx.n_eval, distinct_nontrivial=len(ctx.nontrivial),
               rule="one evaluation = one implementation result judged in Coq (scalar op on a 0-dim or 1-dim tensor, star, from_int, sum, one side-pair of a law instance, one leastness test) or one add/mul/sub of two PatternedTensors compared elementwise with the dense result and with the judged table; float-format stream: one float32/float64 result (plain tensor element, or PatternedTensor add/mul/sub counted once per call) compared with the Flocq model; non-trivial = distinct (operation, operands) with at least one operand outside {0, 1} / distinct law instance that is not skipped (class exact or tolerance) / distinct (pattern pair, defaults, shift)",
               grids=dict(real=[float(v).hex() for v in REAL_GRID], viterbi=[float(v).hex() for v in VIT_GRID], log=[float(v).hex() for v in LOG_GRID + LOG_BIG],
                          extra="-0.0 at the float level; triples over reduced grids of %d / %d / %d values" % (len(REAL_TRI), len(VIT_TRI), len(LOG_TRI))),
               histogram=ctx.hist, law_instance_classes=getattr(ctx, "law_classes", {}),
               patterned_elements_compared=getattr(ctx, "pt_elements", 0),
               samples=ctx.samples + [dict(kind="star", sr="ViterbiSemiring", x=0.0, impl=float(SR[2].star(_t0(0.0))), least_solution=0.0),
                                      dict(kind="law", law=LAWNAME[7], sr="RealSemiring", x=INF, y=0.0, z=0.0,
                                           impl=[float(t) for t in law_eval(SR[0], 7, _t0(INF), _t0(0.0), _t0(0.0))])],
               kernel_reevaluated=ctx.kernel, timings_s=timings,
               repaired_findings={"F1": "362cf81 PatternedTensor.nan_to_num_ passes neginf (was: Log/Viterbi mul/sub on PatternedTensors gave -float_max for -inf)",
                                  "F2": "d2ec7af ViterbiSemiring.star(0) is 0 (was: where(x >= 0, inf, 0.))",
                                  "F21": "ad94aa4 PatternedTensor.exp/expm1/log/log1p treat the default like torch treats an element (was: LogSemiring.sub on PatternedTensors raised whenever exp(y.default - x.default) >= 1)"},
               float_format_cases=getattr(ctx, "flocq_cases", {}),
               open_items=["associativity of float add/mul and distributivity of Real mul over add are FALSE on binary32 and binary64 (C08_float_assoc_distr_refuted_binary32/64); they are laws of the exact carriers only (part A), which is where star induction / least-solution statements live",
                           "RealSemiring.star = 1/(1-x) is modelled and compared bit-exactly for float32/float64, but the float-level statement star x = 1 + x*star x is not claimed (it is false after rounding); only star x = inf for x >= 1 and the exact-carrier law are proved",
                           "F22 (float32 PatternedTensor with a default beyond the float32 range could not be densified) is repaired in /repo 013a2f3; its two deliberate cases stay in every run as regression cases",
                           "LogSemiring add/sub/star/sum are judged within a tolerance in the exp reading, not bit-exactly (transcendental functions)",
                           "C08_viterbi_old_code_laws_partial concerns the pre-d2ec7af formula viterbi_star_old only (record of F2); the current code has the full C08_viterbi_code_laws"])
    return cov, viol

def replay(path):
    r = json.load(open(path))
    c = r["case"] or {}
    SR = _semirings()
    kind = c.get("kind")
    def fl(v):
        return float(v) if not isinstance(v, str) else {"inf": INF, "-inf": -INF, "nan": math.nan}[v]
    if kind == "star":
        sr, x = c["sr"], fl(c["x"])
        rv = float(SR[sr].star(_t0(x)))
        code = run_coq(STAR, [(sr, wire(x), wire(rv))], tag="replay")[0]
        print("%s.star(%r) = %r; verdict code %d (1 = not the least solution)" % (SRNAME[sr], x, rv, code))
        return 1 if code else 0
    if kind == "binop":
        sr, op, x, y = c["sr"], c["op"], fl(c["x"]), fl(c["y"])
        rv = float(_apply(SR[sr], op, _t0(x), _t0(y)))
        code = run_coq(BINOP, [(sr, op, wire(x), wire(y), wire(rv))], tag="replay")[0]
        print("%s.%s(%r, %r) = %r; verdict code %d" % (SRNAME[sr], OPNAME[op], x, y, rv, code))
        return 1 if code else 0
    if kind == "law":
        sr, n, x, y, z = c["sr"], c["law"], fl(c["x"]), fl(c["y"]), fl(c["z"])
        l, rr = law_eval(SR[sr], n, _t0(x), _t0(y), _t0(z))
        code = run_coq(LAW1, [(sr, n, (wire(x), wire(y), wire(z)), (wire(float(l)), wire(float(rr))))], tag="replay")[0]
        print("%s law '%s' at %r %r %r: lhs=%r rhs=%r; verdict code %d" % (SRNAME[sr], LAWNAME[n], x, y, z, float(l), float(rr), code))
        return 1 if code else 0
    if kind == "least":
        sr, x, y = c["sr"], fl(c["x"]), fl(c["y"])
        st = float(SR[sr].star(_t0(x)))
        code = run_coq(LEAST, [(sr, wire(x), wire(y), wire(st))], tag="replay")[0]
        print("%s: star(%r) = %r, candidate solution y = %r; verdict code %d (3 = y solves y = 1 + x*y exactly and star(x) > y)" % (SRNAME[sr], x, st, y, code))
        return 1 if code else 0
    if kind in ("log", "logstar"):
        x = fl(c["x"])
        if kind == "log":
            op, y = c["op"], fl(c["y"])
            rv = float(_apply(SR[1], op, _t0(x), _t0(y)))
            val = (op, [log_wire(x), log_wire(y)], log_result(rv, x, y)); name = "LogSemiring.%s(%r, %r)" % (OPNAME[op], x, y)
        else:
            rv = float(SR[1].star(_t0(x)))
            val = (3, [log_wire(x)], log_result(rv)); name = "LogSemiring.star(%r)" % x
        code = run_coq(LOG, [val], tag="replay")[0]
        print("%s = %r; verdict code %d (1 = outside the exp-reading interval of the carrier operation)" % (name, rv, code))
        return 1 if code else 0
    if kind == "from_int":
        import torch
        sr, n = c["sr"], int(c["n"])
        rv = SR[sr].from_int(n).item() if c.get("rep") != "tensor" else SR[sr].from_int(torch.tensor([n]))[0].item()
        if sr in (0, 2): code = run_coq(FROMINT, [(sr, n, wire(rv))], tag="replay")[0]
        elif sr == 1: code = run_coq(LOG, [(4, [(1, Fraction(n))], log_result(rv))], tag="replay")[0]
        else: code = run_coq(BOOLC, [(4, n, [], bool(rv))], tag="replay")[0]
        print("%s.from_int(%d) = %r; verdict code %d" % (SRNAME[sr], n, rv, code))
        return 1 if code else 0
    if kind == "sum":
        sr, xs = c["sr"], [fl(v) for v in c["xs"]]
        rv = float(SR[sr].sum(_t(xs).reshape(1, len(xs)), 1)[0])
        if sr in (0, 2): code = run_coq(SUM, [(sr, [wire(v) for v in xs], wire(rv))], tag="replay")[0]
        else: code = run_coq(LOG, [(5, [log_wire(v) for v in xs], log_result(rv, *xs, k=8 * (len(xs) + 1)))], tag="replay")[0]
        print("%s.sum(%r) = %r; verdict code %d" % (SRNAME[sr], xs, rv, code))
        return 1 if code else 0
    if kind == "bool" and c.get("op") in (0, 1, 2, 3):
        import torch
        op, xs = c["op"], [bool(v) for v in c["xs"]]
        S = SR[3]
        rv = bool(S.star(torch.tensor(xs[0]))) if op == 3 else bool((S.add, S.mul, S.sub)[op](torch.tensor(xs[0]), torch.tensor(xs[1])))
        code = run_coq(BOOLC, [(op, 0, xs, rv)], tag="replay")[0]
        print("BoolSemiring op %d on %r = %r; verdict code %d" % (op, xs, rv, code))
        return 1 if code else 0
    if kind in ("ffbin", "ffun", "ffcmp", "ffint", "ffpt"):
        return FF.replay_case(c, run_coq)
    if kind in ("fbin", "fun"):
        sr, x = c["sr"], fl(c["x"])
        if kind == "fbin":
            op, y = c["op"], fl(c["y"])
            rv = float(_apply(SR[sr], op, _t0(x), _t0(y)))
            code = run_coq(FBIN, [((4 if sr == 1 else sr // 2 * 3 + op), x, y, rv)], tag="replay")[0]
            print("%s.%s(%r, %r) = %r (%s); bit-exact verdict code %d" % (SRNAME[sr], OPNAME[op], x, y, rv, float(rv).hex(), code))
        else:
            rv = float(SR[sr].star(_t0(x)))
            code = run_coq(FUN, [(sr // 2, x, rv)], tag="replay")[0]
            print("%s.star(%r) = %r (%s); bit-exact verdict code %d" % (SRNAME[sr], x, rv, float(rv).hex(), code))
        return 1 if code else 0
    if kind == "pt":
        import torch
        import fggs.indices as ind
        sr, op = c["sr"], c["op"]
        S = SR[sr]
        grid = {0: REAL_GRID, 1: LOG_GRID, 2: VIT_GRID}.get(sr)
        base = torch.tensor([False, True, True, False, True, False, False, True]) if sr == 3 else _t(grid)
        dx, dy = c["x_default"], c["y_default"]
        if sr != 3: dx, dy = fl(dx), fl(dy)
        px = dict(p for l in _pt_variants(base, dx, 0, torch, ind).values() for p in l)[c["x_pattern"]]
        py = dict(p for l in _pt_variants(base, dy, c["shift"], torch, ind).values() for p in l)[c["y_pattern"]]
        want = _apply(S, op, px.to_dense(), py.to_dense())
        try:
            got = _apply(S, op, px, py)
            got = got.to_dense() if isinstance(got, ind.PatternedTensor) else got
        except Exception as e:
            print("%s.%s on PatternedTensors (%s default %r, %s default %r) raised %r; dense result:\n%s" % (SRNAME[sr], OPNAME[op], c["x_pattern"], dx, c["y_pattern"], dy, e, want))
            return 1
        full = torch.broadcast_shapes(got.shape, want.shape)
        same = torch.equal(torch.broadcast_to(got, full).nan_to_num(nan=12345.), torch.broadcast_to(want, full).nan_to_num(nan=12345.))
        print("patterned result:\n%s\ndense result:\n%s\nidentical as numbers: %s (ulp-level differences of logaddexp are judged in Coq by bin/check)" % (got, want, same))
        return 0 if same else 1
    print("replay of %r cases: re-run bin/check C08 quick (deterministic grids)" % kind)
    return 1

MANIFEST = dict(
    level="proof",
    text="Coq theorems: bool, [0,inf] over Q (Real; Log read through exp) and [-inf,inf] with max/+ (Viterbi) are commutative semirings incl. annihilation of the infinite elements, naturally ordered, with star = least solution of y = 1 + x*y; from_nat is the unique homomorphism; sub(x,y)+y = x for y <= x; sum = fold of add in any order. The formulas of semirings.py as written (nan_to_num after mul, masked 1/(1-x), relu-sub, the two branches of Log.sub/star) are proved equal to the carrier operations; ViterbiSemiring.star (where(x > 0, inf, 0.)) is the least solution everywhere; the pre-repair formula (x >= 0) is refuted at 0 as a record of F2. On binary64 (primitive floats) annihilation incl. inf, commutativity, max laws, star at 0/1/inf/x>=1, nan_to_num are proved for all values. For EVERY IEEE binary format (Flocq binary_float prec emax, round-to-nearest-even; binary32 and binary64 instantiated, NaN payloads abstracted) and all values: commutativity, 0 annihilates Real mul incl. 0*inf, x+0 = x, x*1 = x, monotonicity of add/mul on [0,inf], max laws, exact distributivity of the Viterbi product over max, -inf annihilates incl. -inf + +inf, the Viterbi star law; associativity and Real distributivity are refuted on floats with binary32/binary64 witnesses. The correspondence check compares every float32 and float64 result bit-exactly with the Flocq model, every float64 result with the PrimFloat model (Real/Viterbi) and with the exact carriers, evaluates law instances on the implementation, and requires PatternedTensor results to equal the dense ones.",
    note="Trusted: Coq kernel + vm_compute, FloatAxioms (spec of primitive floats), Flocq 4.1.0 and through it four named standard-library axioms of the real numbers (float-format theorems only), extraction cross-checked against vm_compute, Python decimal for e^x in the Log comparison. float associativity/distributivity are false (refuted in Coq) and belong to the exact carriers only.",
    technique="Coq proof (exact carriers + code formulas + PrimFloat + Flocq float formats) + model/implementation correspondence with verified-spec oracle",
    design_ref="DESIGN.md section 6, C08")
