"""C19, stream "hist": HISTORIES on the same FGG object.

query (nonterminal_graph, scc of it, sum_products) -> in-place edits -> query again -> ... ; every answer of
every query is judged against the grammar AS IT IS at the time of the query by the verified oracles
(ntg_check, scc_check, sp_order_check) and compared with the answer of a twin: an equal grammar built afresh
through the same constructor path, edited in the same way and NEVER queried before (bit-identical values are
required: the twin runs exactly the same floating-point program), and at the end with a .copy() of the object.

A history is plain data: (spec, path, opts, rounds of edits); an edit refers to rules / nodes / edges by their
position in all_rules() / rhs.nodes() / rhs.edges() at the time it is applied.
  ("add", ri, el, att)       rhs.add_edge of a new edge labelled by nonterminal el; att = node positions, -1 = a new node
  ("del", ri, k)             rhs.remove_edge of the k-th edge
  ("relabel", ri, k, el)     remove the k-th edge and add one labelled el (same type) on the same nodes
  ("swaprhs", ri)            rule.rhs = rule.rhs.copy()   (a new Graph object with equal content)
  ("newrule", x, y)          add_rule of X -> Y' (a rule with one nonterminal edge, or none if y is None): counts change
  ("weights", el)            assign other weights to the factor of terminal el (grammar unchanged)
The first four keep (number of nonterminals, number of rules, number of edge labels) unchanged.
"""
import random, warnings
from fractions import Fraction
from harness.core import *
from harness import gen

PATHS = ["direct", "from_hrg", "copy", "staged"]

def _wconv(v):
    return float("inf") if v == "inf" else float(v)

def _interpret(g, spec, b):
    import fggs
    for i, size in enumerate(spec["nlabels"]):
        g.add_domain(b.nls[i], fggs.FiniteDomain(["v%d_%d" % (i, k) for k in range(size)]))
    for el in spec["weights"]:
        t = gen.weight_tensor(spec, el, _wconv)
        doms = [g.domains[b.nls[nl].name] for nl in spec["elabels"][el]["type"]]
        g.add_factor(b.els[el], fggs.FiniteFactor(doms, t))

def build(spec, path):
    """the FGG of spec through one of the constructor / conversion paths; returns (fgg, els, nls)"""
    import fggs
    if path == "direct":
        b = gen.build_fgg(spec, _wconv, ids="explicit")
        return b.fgg, b.els, b.nls
    if path == "staged":      # rules added in two stages with a sum_products call in between (the object grows)
        def stage(g):
            with warnings.catch_warnings():
                warnings.simplefilter("ignore")
                fggs.sum_products(g, kmax=5)
        b = gen.build_fgg(spec, _wconv, ids="explicit", rng=random.Random(len(spec["rules"])), stage=stage)
        return b.fgg, b.els, b.nls
    if path == "from_hrg":    # FGG.from_hrg shares the rule objects with the HRG
        b = gen.build_hrg(spec, ids="explicit")
        g = fggs.FGG.from_hrg(b.hrg)
        _interpret(g, spec, b)
        return g, b.els, b.nls
    if path == "copy":        # an equal but not identical object; the original was queried, the copy was not
        b = gen.build_fgg(spec, _wconv, ids="explicit")
        with warnings.catch_warnings():
            warnings.simplefilter("ignore")
            try: fggs.sum_products(b.fgg, kmax=5)
            except Exception: pass
        return b.fgg.copy(), b.els, b.nls
    raise ValueError(path)

def apply_edit(g, els, nls, ed, counter):
    import fggs, torch
    op = ed[0]
    if op == "weights":
        el = els[ed[1]]
        fac = g.factors[el.name]          # what a training loop does: new weights on the same factor object
        fac.weights = fac.weights.to_dense() * 0.5 + 0.125
        return
    if op == "newrule":
        x = els[ed[1]]
        gr = fggs.Graph()
        nodes = [fggs.Node(l, id="hx%d_%d" % (counter[0], i)) for i, l in enumerate(x.type)]
        for n in nodes: gr.add_node(n)
        if ed[2] is not None:
            y = els[ed[2]]
            att = [fggs.Node(l, id="hy%d_%d" % (counter[0], i)) for i, l in enumerate(y.type)]
            gr.add_edge(fggs.Edge(y, att, id="he%d" % counter[0]))
        gr.ext = nodes
        counter[0] += 1
        g.add_rule(fggs.HRGRule(x, gr))
        return
    rule = g.all_rules()[ed[1]]
    if op == "swaprhs":
        rule.rhs = rule.rhs.copy()
        return
    rhs = rule.rhs
    if op == "add":
        y = els[ed[2]]
        cur = list(rhs.nodes())
        att = []
        for l, pos in zip(y.type, ed[3]):
            if pos < 0:
                n = fggs.Node(l, id="hn%d" % counter[0]); counter[0] += 1
                rhs.add_node(n); att.append(n)
            else:
                att.append(cur[pos])
        rhs.add_edge(fggs.Edge(y, att, id="he%d" % counter[0])); counter[0] += 1
        return
    e = list(rhs.edges())[ed[2]]
    if op == "del":
        rhs.remove_edge(e)
        return
    if op == "relabel":
        rhs.remove_edge(e)
        rhs.add_edge(fggs.Edge(els[ed[3]], e.nodes, id="he%d" % counter[0])); counter[0] += 1
        return
    raise ValueError(op)

def plan_edits(rng, g, els, spec, growth):
    """one round of edits for the CURRENT state of g (plain data)"""
    nts = [i for i, e in enumerate(spec["elabels"]) if not e["term"]]
    eds = []
    for _ in range(rng.choice([1, 1, 2, 3])):
        rules = g.all_rules()             # positions refer to the state the edit is applied to
        if not rules: break
        u = rng.random()
        ri = rng.randrange(len(rules)); r = rules[ri]
        edges = list(r.rhs.edges()); nodes = list(r.rhs.nodes())
        ntpos = [k for k, e in enumerate(edges) if e.label.is_nonterminal]
        if growth and u < 0.25:
            eds.append(("newrule", rng.choice(nts), rng.choice(nts + [None])))
        elif u < 0.1:
            eds.append(("swaprhs", ri))
        elif u < 0.17:
            eds.append(("weights", rng.choice([i for i, e in enumerate(spec["elabels"]) if e["term"]])))
        elif u < 0.4 and ntpos:
            # prefer an edge that goes against the generation order: those close the cycles, and removing one splits a component
            lhs = els.index(r.lhs)
            back = [k for k in ntpos if els.index(edges[k].label) <= lhs]
            eds.append(("del", ri, rng.choice(back) if (back and rng.random() < 0.7) else rng.choice(ntpos)))
        elif u < 0.55 and ntpos:
            k = rng.choice(ntpos)
            same = [i for i in nts if els[i].type == edges[k].label.type and els[i] != edges[k].label]
            if same: eds.append(("relabel", ri, k, rng.choice(same)))
            else: eds.append(("del", ri, k))
        else:
            # a new dependency; prefer one that goes AGAINST the order the grammar was generated in
            # (non-recursive specs only have edges X_i -> X_j with i < j)
            lhs = els.index(r.lhs)
            back = [i for i in nts if i <= lhs]
            y = rng.choice(back) if (back and rng.random() < 0.7) else rng.choice(nts)
            att = []
            for l in els[y].type:
                cands = [k for k, n in enumerate(nodes) if n.label == l]
                att.append(rng.choice(cands) if cands and rng.random() < 0.85 else -1)
            eds.append(("add", ri, y, att))
        # plans refer to positions in the state they are applied to: apply one by one while planning
        yield eds[-1]

def observe(g, opts):
    """everything C19 says about g as it is now.  Returns a dict of plain data (+ dense value tensors)."""
    import fggs
    from fggs.utils import scc, nonterminal_graph
    import importlib; SPM = importlib.import_module("fggs.sum_product")
    nts = list(g.nonterminals())
    num = {x: j for j, x in enumerate(nts)}
    tnum = {}
    def lab(l):
        if l in num: return num[l]
        return 1000 + tnum.setdefault(l, len(tnum))
    ob = dict(nts=list(range(len(nts))), names=[x.name for x in nts],
              rules=[(num[r.lhs], [(lab(e.label), bool(e.label.is_nonterminal)) for e in r.rhs.edges()]) for r in g.all_rules()])
    try:
        ng = nonterminal_graph(g)
        ob["ntg"] = [(num[x], [num[y] for y in ng[x]]) for x in ng]
    except Exception as e:
        ob["ntg_exc"] = repr(e); ng = None
    if ng is not None:
        try:
            ob["scc"] = [[num[x] for x in c] for c in scc(ng)]
        except Exception as e:
            ob["scc_exc"] = repr(e)
    calls = []
    cls = SPM.SumProduct
    orig = cls.__dict__["apply_to_patterned_tensors"]
    inner = orig.__func__ if isinstance(orig, staticmethod) else orig
    def rec(fgg, o, in_labels, out_labels, *in_values):
        in_labels = list(in_labels); out_labels = list(out_labels)
        calls.append((in_labels, out_labels))
        return inner(fgg, o, in_labels, out_labels, *in_values)
    cls.apply_to_patterned_tensors = staticmethod(rec)
    try:
        with warnings.catch_warnings():
            warnings.simplefilter("ignore")
            vals = fggs.sum_products(g, **opts)
        ob["keys"] = [num[x] for x in vals if x in num]
        ob["vals"] = {x.name: vals[x].to_dense().detach().clone() for x in nts if x in vals}
    except Exception as e:
        ob["sp_exc"] = "%s: %s" % (type(e).__name__, e)
        ob["sp_exc_type"] = type(e).__name__
    finally:
        setattr(cls, "apply_to_patterned_tensors", orig)
    ob["blocks"] = [[num[x] for x in out if x in num] for _, out in calls]
    # viterbi walks the same decomposition (fggs/viterbi.py: one FGGMultiShape(fgg, comp) per component)
    VM = importlib.import_module("fggs.viterbi")
    vcalls = []
    origF = VM.FGGMultiShape
    def recF(fgg, comp, *a, **k):
        vcalls.append(list(comp))
        return origF(fgg, comp, *a, **k)
    VM.FGGMultiShape = recF
    # only the loop over the components matters here; with few iterations the back-pointers of a cyclic grammar can
    # loop and reconstructing the derivation then runs into the recursion limit: keep that limit (and its cost) low
    import sys
    depth, fr = 0, sys._getframe()
    while fr is not None: depth += 1; fr = fr.f_back
    old_limit = sys.getrecursionlimit()
    sys.setrecursionlimit(depth + 160)
    try:
        with warnings.catch_warnings():
            warnings.simplefilter("ignore")
            VM.viterbi(g, (0,) * g.start.arity, kmax=opts.get("kmax", 12))
    except RecursionError:
        ob["vit_exc_type"] = "RecursionError"
    except Exception as e:
        ob["vit_exc_type"] = type(e).__name__; ob["vit_exc"] = "%s: %s" % (type(e).__name__, e)
    finally:
        sys.setrecursionlimit(old_limit)
        VM.FGGMultiShape = origF
    ob["vit_blocks"] = [[num[x] for x in c if x in num] for c in vcalls]
    ob["block_inputs"] = [[getattr(x, "name", repr(x)) for x in ins] for ins, _ in calls]
    return ob

def same_vals(a, b):
    import torch
    if set(a) != set(b): return False
    for k in a:
        x, y = a[k], b[k]
        if x.shape != y.shape or x.dtype != y.dtype: return False
        if not bool(((x == y) | ((x != x) & (y != y))).all()): return False
    return True

def vals_plain(v):
    return {k: t.tolist() for k, t in v.items()}

def replay_history(spec, path, opts, rounds, upto=None):
    """the object with the history: observations after the build and after each round of edits"""
    g, els, nls = build(spec, path)
    counter = [0]
    obs = [observe(g, opts)]
    for eds in rounds[:upto]:
        for ed in eds: apply_edit(g, els, nls, tuple(ed), counter)
        obs.append(observe(g, opts))
    return g, obs

def fresh_twin(spec, path, rounds):
    """an equal grammar that has never been queried"""
    g, els, nls = build(spec, "direct" if path in ("copy", "staged") else path)
    counter = [0]
    for eds in rounds:
        for ed in eds: apply_edit(g, els, nls, tuple(ed), counter)
    return g

def run_stream(tier, seed, SCC, NTG, SPO):
    """returns (violations, coverage dict)"""
    import torch
    nthreads = torch.get_num_threads()
    torch.set_num_threads(1)       # tiny tensors: threads only cost (and one thread keeps the twin comparison bit-exact)
    try:
        return _run_stream(tier, seed, SCC, NTG, SPO)
    finally:
        torch.set_num_threads(nthreads)

def _run_stream(tier, seed, SCC, NTG, SPO):
    rng = random.Random(seed * 31 + 19)
    n_cases = 150 if tier == "quick" else 3000
    violations = []
    wire = {"ntg": [], "scc": [], "spo": [], "vit": []}     # (value, case, observation tag)
    stats = dict(histories=0, queries=0, rounds_counts_unchanged=0, rounds_decomposition_changed=0,
                 rounds_order_contradicted=0, rounds_components_merged_or_split=0, both_raise=0, by_path={}, by_edit={},
                 by_method={}, nt_histogram={})
    samples = []
    distinct = set()
    for ci in range(n_cases):
        if ci % 6 == 5:
            # a cycle through several nonterminals (A1 -> A2 -> ... -> An -> A1): removing any edge of it splits the component
            spec = gen.chain_spec(rng, n_nt=rng.randint(2, 4), dom=2)
        else:
            spec = gen.random_spec(rng, recursive=rng.random() < 0.4, max_nt=5, max_rules=2, max_nodes=3, max_edges=3,
                                   max_dom=2, allow_inf=False, dup_ext=False)
        path = PATHS[ci % len(PATHS)]
        method = "newton" if ci % 5 == 4 else "fixed-point"
        opts = dict(method=method, kmax=12)
        growth = (ci % 3 == 2)
        case = dict(history=True, spec=gen.spec_jsonable(spec), path=path, opts=opts, rounds=[])
        try:
            g, els, nls = build(spec, path)
        except Exception as e:
            violations.append(Violation("building the grammar raised %r" % (e,), case=case, corr="harness", failing_input_found=False))
            continue
        stats["histories"] += 1
        stats["by_path"][path] = stats["by_path"].get(path, 0) + 1
        stats["by_method"][method] = stats["by_method"].get(method, 0) + 1
        n_nt = sum(1 for e in spec["elabels"] if not e["term"])
        stats["nt_histogram"][n_nt] = stats["nt_histogram"].get(n_nt, 0) + 1
        counter = [0]
        prev = None
        n_rounds = rng.choice([1, 2, 2, 3])
        for rd in range(n_rounds + 1):
            if rd > 0:
                eds = []
                try:
                    for ed in plan_edits(rng, g, els, spec, growth):
                        apply_edit(g, els, nls, ed, counter); eds.append(list(ed))
                        stats["by_edit"][ed[0]] = stats["by_edit"].get(ed[0], 0) + 1
                except Exception as e:
                    case["rounds"].append(eds)
                    violations.append(Violation("an in-place edit raised %r" % (e,), case=dict(case, rounds=[list(r) for r in case["rounds"]]),
                                                corr="harness", failing_input_found=False))
                    break
                case["rounds"].append(eds)
            snap = dict(case, rounds=[list(r) for r in case["rounds"]], round=rd)
            ob = observe(g, opts)
            stats["queries"] += 1
            call = "query %d of the same FGG object (built via %s) after %d round(s) of in-place edits" % (rd + 1, path, rd)
            # --- judged by the verified oracles against the CURRENT grammar
            if "ntg_exc" in ob:
                violations.append(Violation("nonterminal_graph raised %s" % ob["ntg_exc"], case=snap, call=call, corr="corr:ntgraph"))
            else:
                wire["ntg"].append(((ob["nts"], ob["rules"], ob["ntg"]), snap, ob))
                if "scc_exc" in ob:
                    violations.append(Violation("scc(nonterminal_graph(fgg)) raised %s" % ob["scc_exc"], case=snap, call=call, corr="corr:scc"))
                else:
                    wire["scc"].append(((ob["ntg"], ob["scc"]), snap, ob))
            twin = None
            try:
                # (before the first edit an object built by "direct" / "from_hrg" IS fresh: no twin needed)
                if rd > 0 or path in ("copy", "staged") or "sp_exc" in ob:
                    twin = observe(fresh_twin(spec, path, case["rounds"]), opts)
            except Exception as e:
                violations.append(Violation("building / querying the fresh twin raised %r" % (e,), case=snap, corr="harness", failing_input_found=False))
            if "sp_exc" in ob:
                if twin is not None and twin.get("sp_exc_type") == ob["sp_exc_type"]:
                    stats["both_raise"] += 1      # the grammar itself is not solvable this way; not a matter of history
                else:
                    violations.append(Violation(
                        "sum_products raised %s on an object with a history (earlier queries, then in-place edits), although an equal grammar built afresh gets a value for every nonterminal; "
                        "components solved before the exception: %r" % (ob["sp_exc"], [[ob["names"][i] for i in b] for b in ob["blocks"]]),
                        case=snap, observed=dict(exception=ob["sp_exc"], blocks_before_exception=ob["blocks"], nonterminals=ob["names"], rules=ob["rules"]),
                        expected=None if twin is None else dict(blocks=twin.get("blocks"), values=vals_plain(twin.get("vals", {}))),
                        oracle="exception on a valid input; fresh twin as reference", corr="C19_sum_products_order / corr:sporder",
                        call="fggs.sum_products(fgg): " + call))
            else:
                wire["spo"].append(((ob["nts"], ob["rules"], ob["blocks"], ob["keys"]), snap, ob))
                flat = [x for b in ob["blocks"] for x in b]
                if flat != ob["keys"]:
                    violations.append(Violation("the nonterminal keys of the dict returned by sum_products are not, in order, the nonterminals of the solved components",
                                                case=snap, observed=dict(keys=ob["keys"], blocks=ob["blocks"]), corr="corr:sporder", call=call, failing_input_found=False))
                if twin is not None and "vals" in twin:
                    if not same_vals(ob["vals"], twin["vals"]):
                        violations.append(Violation(
                            "sum_products on an object with a history differs from sum_products on an equal grammar built afresh (same constructor calls, same edits, never queried)",
                            case=snap, observed=dict(values=vals_plain(ob["vals"]), blocks=ob["blocks"]),
                            expected=dict(values=vals_plain(twin["vals"]), blocks=twin["blocks"]),
                            oracle="fresh twin (bit-identical values required)", corr="corr:sporder (history independence)", call="fggs.sum_products(fgg): " + call))
                elif twin is not None and "sp_exc" in twin:
                    violations.append(Violation("sum_products raises on the freshly built grammar (%s) but not on the equal object with a history" % twin["sp_exc"],
                                                case=snap, corr="corr:sporder (history independence)", call=call))
            # --- viterbi: same decomposition, observed at FGGMultiShape(fgg, comp)
            vflat = sorted(x for b in ob["vit_blocks"] for x in b)
            if twin is not None and (twin.get("vit_exc_type") != ob.get("vit_exc_type") or twin["vit_blocks"] != ob["vit_blocks"]):
                violations.append(Violation(
                    "viterbi on an object with a history ends differently (%s) from viterbi on an equal grammar built afresh (%s); components visited: %r"
                    % (ob.get("vit_exc", ob.get("vit_exc_type", "returns")), twin.get("vit_exc", twin.get("vit_exc_type", "returns")), [[ob["names"][i] for i in b] for b in ob["vit_blocks"]]),
                    case=snap, observed=dict(exception=ob.get("vit_exc"), blocks=ob["vit_blocks"], nonterminals=ob["names"], rules=ob["rules"]),
                    expected=dict(exception=twin.get("vit_exc"), blocks=twin["vit_blocks"]), oracle="exception on a valid input; fresh twin as reference",
                    corr="C19_sum_products_order / corr:sporder (viterbi)", call="fggs.viterbi(fgg, start_asst): " + call))
            if vflat == ob["nts"] or "vit_exc_type" not in ob:
                # the loop over the components was completed (an exception, if any, came from reconstructing the derivation)
                wire["vit"].append(((ob["nts"], ob["rules"], ob["vit_blocks"], [x for b in ob["vit_blocks"] for x in b]), snap, ob))
            # --- what the round did to the dependency structure (coverage only)
            if prev is not None and "scc" in ob and "scc" in prev:
                same_counts = (len(prev["nts"]), len(prev["rules"])) == (len(ob["nts"]), len(ob["rules"]))
                if same_counts:
                    stats["rounds_counts_unchanged"] += 1
                    if prev["scc"] != ob["scc"]:
                        stats["rounds_decomposition_changed"] += 1
                        distinct.add(repr((ob["rules"], prev["rules"])))
                        if sorted(map(sorted, prev["scc"])) != sorted(map(sorted, ob["scc"])):
                            stats["rounds_components_merged_or_split"] += 1
                        pos = {x: i for i, c in enumerate(prev["scc"]) for x in c}
                        if any(pos[y] > pos[x] for x, ys in ob["ntg"] for y in ys):
                            stats["rounds_order_contradicted"] += 1
                            if len(samples) < 2:
                                samples.append(dict(nonterminals=ob["names"], rules_before=prev["rules"], blocks_before=prev["blocks"],
                                                    edits=case["rounds"][-1], rules_after=ob["rules"], blocks_after=ob["blocks"], path=path))
            prev = ob
        else:
            # the end of the history: a copy is a new object and must behave like a fresh one
            try:
                cp = observe(g.copy(), opts)
                if ("sp_exc" in cp) != ("sp_exc" in prev) or ("vals" in cp and not same_vals(cp["vals"], prev["vals"])) or cp["blocks"] != prev["blocks"]:
                    violations.append(Violation("fgg.copy() of an object with a history does not give the same sum_products / components as the object itself",
                                                case=snap, observed=dict(copy=dict(blocks=cp["blocks"], exc=cp.get("sp_exc"), values=vals_plain(cp.get("vals", {}))),
                                                                         original=dict(blocks=prev["blocks"], exc=prev.get("sp_exc"), values=vals_plain(prev.get("vals", {})))),
                                                corr="corr:sporder (equal but not identical objects)", call="fggs.sum_products(fgg.copy())"))
                elif "sp_exc" not in cp:
                    wire["spo"].append(((cp["nts"], cp["rules"], cp["blocks"], cp["keys"]), dict(snap, copy=True), cp))
                stats["queries"] += 1
            except Exception as e:
                violations.append(Violation("querying fgg.copy() raised %r" % (e,), case=snap, corr="harness", failing_input_found=False))
    nk = 0
    for kind, cf in (("ntg", NTG), ("scc", SCC), ("spo", SPO), ("vit", SPO)):
        if not wire[kind]: continue
        # ntg_check / scc_check are re-evaluated in the kernel on samples of the main streams already; here every
        # non-zero verdict is (run_model always does that) and a sample of the new check function's
        codes, k = run_model(cf, [w[0] for w in wire[kind]], seed=seed, tag="hist-" + kind, coq_sample=30 if kind == "spo" else 0)
        nk += k
        for (val, snap, ob), c in zip(wire[kind], codes):
            if c == 0: continue
            names = ob["names"]
            if kind in ("spo", "vit"):
                fn = "sum_products" if kind == "spo" else "viterbi"
                what = {1: fn + " solved the nonterminals in blocks that are NOT the dependency-ordered SCC decomposition of the grammar as it is now (verified oracle scc_ok rejects them): a nonterminal is computed before one it depends on, or blocks are not the components",
                        3: "a nonterminal received no value from " + fn,
                        2: "harness: grammar on the wire is not closed"}.get(c, "the blocks solved by " + fn + " differ from the model's decomposition (code %d) although the oracle accepts them" % c)
                violations.append(Violation(what, case=snap, observed=dict(nonterminals=names, rules=val[1], blocks=val[2], keys=val[3], block_inputs=ob["block_inputs"] if kind == "spo" else None),
                                            oracle="scc_ok (sp_order_check)" if c in (1, 3) else None, corr="C19_sum_products_order / corr:sporder",
                                            failing_input_found=c in (1, 3), call="fggs.%s(fgg) on an object with a history" % fn))
            elif kind == "scc":
                violations.append(Violation("scc(nonterminal_graph(fgg)) on an object with a history: " + ("not the dependency-ordered SCC partition (oracle scc_ok rejects)" if c == 1 else "differs from the model (code %d)" % c),
                                            case=snap, observed=dict(nonterminals=names, graph=val[0], components=val[1]), oracle="scc_ok" if c == 1 else None,
                                            corr="C19_checker / corr:scc", failing_input_found=(c == 1), call="fggs.utils.scc(nonterminal_graph(fgg))"))
            else:
                violations.append(Violation("nonterminal_graph(fgg) on an object with a history: " + ("wrong vertices/edges for the grammar as it is now (oracle ntg_ok rejects)" if c == 1 else "order differs from model"),
                                            case=snap, observed=dict(nonterminals=names, rules=val[1], graph=val[2]), oracle="ntg_ok" if c == 1 else None,
                                            corr="C19_nonterminal_graph_edges / corr:ntgraph", failing_input_found=(c == 1), call="fggs.utils.nonterminal_graph(fgg)"))
    # at most CAP reports of one kind (a stale answer usually stays stale for the rest of the history)
    CAP = 8
    kept, seen = [], {}
    for v in violations:
        k = (v.what.split(":")[0][:48], v.oracle)
        seen[k] = seen.get(k, 0) + 1
        if seen[k] <= CAP: kept.append((k, v))
    for k, v in kept:
        if seen[k] > CAP:
            v.what += " [%d reports of this kind in this run, %d shown]" % (seen[k], CAP)
    stats["violations_by_kind"] = {"%s | %s" % k: n for k, n in seen.items()}
    violations = [v for _, v in kept]
    stats["samples"] = samples
    stats["kernel_reevaluated"] = nk
    stats["evaluations"] = sum(len(v) for v in wire.values())
    stats["distinct_nontrivial"] = len(distinct)
    return violations, stats

def replay_case(case, SCC, NTG, SPO):
    """re-run one recorded history; 1 iff something is wrong at its last query"""
    spec = gen.spec_from_json(case["spec"])
    rounds = [[tuple(e) for e in r] for r in case["rounds"]]
    g, obs = replay_history(spec, case["path"], case["opts"], rounds)
    ob = obs[-1]
    twin = observe(fresh_twin(spec, case["path"], rounds), case["opts"])
    print("nonterminals", ob["names"]); print("rules now", ob["rules"])
    print("blocks solved", ob["blocks"], "exception", ob.get("sp_exc"))
    print("fresh twin: blocks", twin["blocks"], "exception", twin.get("sp_exc"))
    bad = 0
    if "sp_exc" in ob:
        bad = 0 if twin.get("sp_exc_type") == ob["sp_exc_type"] else 1
    else:
        code = run_coq(SPO, [(ob["nts"], ob["rules"], ob["blocks"], ob["keys"])], tag="replay")[0]
        print("sp_order_check verdict", code)
        bad = 1 if code else 0
        if "vals" in twin and not same_vals(ob["vals"], twin["vals"]):
            print("values differ from the fresh twin:", vals_plain(ob["vals"]), vals_plain(twin["vals"])); bad = 1
    if "ntg" in ob:
        c1 = run_coq(NTG, [(ob["nts"], ob["rules"], ob["ntg"])], tag="replay")[0]
        print("ntg_check verdict", c1); bad = bad or (1 if c1 else 0)
        if "scc" in ob:
            c2 = run_coq(SCC, [(ob["ntg"], ob["scc"])], tag="replay")[0]
            print("scc_check verdict", c2); bad = bad or (1 if c2 else 0)
    return bad
