"""C17 -- conjunction generates exactly the paired derivations (fggs/conjunction.py, fggs/utils.py:unique_label_name).

Inputs are generated as plain data (a *pair spec*), from which the fggs objects and the
model-side values are derived.  Observations of the implementation:
  * fggs.utils.unique_label_name(name, labs)                       -> uln_check
  * fggs.conjunction.nonterminal_pairs(g1, g2)  (the nt_map)        -> ntp_check
  * fggs.conjoin_hrgs(g1, g2): output grammar or exception class    -> conj_check
  * derivations of the implementation's output grammar up to depth 3, enumerated by the extracted
    enumerator and counted against the pairable pairs of derivations of g1 and g2 -> count_check
"""
import random, json
from harness.core import *

PID = "C17"
LEVEL = "proof"

# ---------------------------------------------------------------------------- wire types
ElT = Tup(List(NN), List(Nat), Bool)                    # (name code points, node-label indices, is_terminal)
NodeT = Tup(Nat, Nat)                                   # (id code, node-label index)
EdgeT = Tup(Nat, ElT, List(NodeT))                      # (id code, label, attachment nodes)
GraphT = Tup(List(NodeT), List(EdgeT), List(NodeT))     # nodes, edges, ext
RuleT = Tup(ElT, GraphT)
HrgT = Tup(List(Nat), List(ElT), ElT, List(Tup(ElT, List(RuleT))))
NtmT = List(Tup(ElT, ElT, ElT))

ULN = CheckFn("c17-uln", "Model.Conj", "uln_check", Tup(List(NN), List(List(NN)), List(NN)))
NTP = CheckFn("c17-ntp", "Model.Conj", "ntp_check", Tup(HrgT, HrgT, NtmT))
CONJ = CheckFn("c17-conj", "Model.Conj", "conj_check", Tup(HrgT, HrgT, NtmT, Nat, Option(HrgT)))
CNT = CheckFn("c17-count", "Model.Conj", "count_check", Tup(HrgT, HrgT, HrgT, Nat, Nat))
CHECKFNS = [ULN, NTP, CONJ, CNT]

ASSUMPTIONS = [
    "node-label names, node ids and edge ids are canonicalised to naturals by the harness: implicit (int) ids get even codes, explicit (str) ids odd codes, and among ids of the same kind the code order is Python's own order on the ids (Python's str/int comparison is trusted, not modelled)",
    "ids invented by the implementation (fresh implicit ids of re-created edges, `id(self)`) are renumbered per output rule in edge-list order by the model's own fresh_eid rule (least even number above all input ids and above the edges before it); only their freshness and kind, not their numeric value, are meaningful",
    "label names are passed as lists of code points (all < 5000 in the generated inputs); f-string formatting of str and int is modelled by list concatenation and Coq's Nat.to_uint decimal printer",
    "input grammars satisfy the invariants the fggs API maintains (wf_hrg_b: label tables cover the rules, ids unique per graph, edges typed); this is re-checked by the model on every case (verdict 20 otherwise). Under it Graph.add_edge_label cannot raise inside conjoin_rules, so the right-hand sides' own label tables are not modelled",
    "derivation trees name rule occurrences (index in all_rules); children are ordered by the id order of the nonterminal edges",
    "the derivation-count check enumerates to depth 3 and skips grammars with more than 300 trees on one side (counted in coverage)",
]

def run_model_sharded(cf, values, coq_sample, seed, tag, shard, max_bad=12):
    """core.run_model with small shards: the grammar cases are large terms, so the in-kernel
    re-evaluation is split over several coqc processes.  Bulk through the extracted driver, a sample
    and every non-zero verdict re-evaluated by vm_compute; both must agree."""
    codes = run_ocaml(cf, values)
    rng = random.Random(seed * 7919 + 13)
    bad = [i for i in range(len(values)) if codes[i] != 0][:max_bad]
    rest = [i for i in range(len(values)) if codes[i] == 0]
    rng.shuffle(rest)
    pick = sorted(set(bad + rest[:coq_sample]))
    if pick:
        ccodes = run_coq(cf, [values[i] for i in pick], shard=shard, tag=tag)
        for i, c in zip(pick, ccodes):
            if c != codes[i]:
                raise BuildError("extracted code and vm_compute disagree on %s case %d: %d vs %d" % (cf.kind, i, codes[i], c))
    return codes, len(pick)

ERR = {ValueError: 1, TypeError: 2, KeyError: 3}
def err_code(e):
    for k, v in ERR.items():
        if type(e) is k: return v
    return 4

# ---------------------------------------------------------------------------- building fggs objects
def build_pair(ps):
    """ps: pair spec (see gen_pair).  Returns (g1, g2)."""
    import fggs
    nls = [fggs.NodeLabel(n) for n in ps["nlabels"]]
    pool = {}
    def node(tok, nl):
        if tok.startswith("s:"): return fggs.Node(nls[nl], id=tok[2:])
        key = ("n", tok, nl)
        if key not in pool: pool[key] = fggs.Node(nls[nl])
        return pool[key]
    def edge(tok, lab, nodes):
        if tok.startswith("s:"): return fggs.Edge(lab, nodes, id=tok[2:])
        key = ("e", tok, lab, tuple(nodes))
        if key not in pool: pool[key] = fggs.Edge(lab, nodes)
        return pool[key]
    def build(gs):
        els = [fggs.EdgeLabel(n, [nls[i] for i in t], is_terminal=bool(term), is_nonterminal=not term)
               for n, t, term in gs["elabels"]]
        h = fggs.HRG(els[gs["start"]])
        for el in els: h.add_edge_label(el)
        for r in gs["rules"]:
            g = fggs.Graph()
            nodes = [node(tok, nl) for tok, nl in r["nodes"]]
            for n in nodes: g.add_node(n)
            for tok, el, att in r["edges"]:
                g.add_edge(edge(tok, els[el], [nodes[i] for i in att]))
            g.ext = [nodes[i] for i in r["ext"]]
            h.add_rule(fggs.HRGRule(els[r["lhs"]], g))
        return h
    g1 = build(ps["g1"])
    mode = ps.get("mode", "pair")
    if mode == "self": g2 = g1
    elif mode == "copy": g2 = g1.copy()
    else: g2 = build(ps["g2"])
    return g1, g2

# ---------------------------------------------------------------------------- canonicalisation
class Ctx:
    """Canonical numbering.  The ids of the two INPUT grammars are numbered first (even = int,
    odd = str, Python's own order within a kind).  An id that occurs only in the implementation's
    output is an *invented* id (a fresh implicit id, `id(self)` of a re-created edge): it is
    renumbered per rule, in the order of the rule's edge list, to the least even number above
    `base` (the largest input code) and above the codes of the edges before it in that rule --
    exactly Model.Conj.fresh_eid."""
    def __init__(self, hrgs):
        nl, ids = {}, set()
        for h in hrgs:
            for l in h.node_labels(): nl.setdefault(l.name, len(nl))
            for r in h.all_rules():
                for n in r.rhs.nodes(): ids.add(n.id); nl.setdefault(n.label.name, len(nl))
                for e in r.rhs.edges():
                    ids.add(e.id)
                    for n in e.nodes: ids.add(n.id)
                for n in r.rhs.ext: ids.add(n.id)
        self.nl = nl
        ints = sorted(i for i in ids if isinstance(i, int))
        strs = sorted(i for i in ids if isinstance(i, str))
        self.ids = {}
        for k, i in enumerate(ints): self.ids[("i", i)] = 2 * k
        for k, i in enumerate(strs): self.ids[("s", i)] = 2 * k + 1
        self.base = 0                    # = Model.Conj.id_bound: max code of a node or edge of a rule
        for h in hrgs:
            for r in h.all_rules():
                for x in list(r.rhs.nodes()) + list(r.rhs.edges()):
                    self.base = max(self.base, self.id(x.id))
        self.invented = 0
    def nlab(self, l):
        return self.nl.setdefault(l.name, len(self.nl))
    def id(self, i, local=None, before=()):
        key = ("i", i) if isinstance(i, int) else ("s", i)
        if key in self.ids: return self.ids[key]
        if local is None: local = {}
        if key not in local:             # an id invented by the implementation
            m = max([self.base] + list(before) + list(local.values()))
            local[key] = 2 + 2 * (m // 2) if key[0] == "i" else 3 + 2 * (m // 2)
            self.invented += 1
        return local[key]
    def el(self, l):
        return ([ord(c) for c in l.name], [self.nlab(x) for x in l.type], bool(l.is_terminal))
    def node(self, n, local=None): return (self.id(n.id, local), self.nlab(n.label))
    def rule(self, r):
        g = r.rhs
        local = {}
        edges = []
        for e in g.edges():
            code = self.id(e.id, local, [c for c, _, _ in edges])
            edges.append((code, self.el(e.label), [self.node(n, local) for n in e.nodes]))
        return (self.el(r.lhs), ([self.node(n, local) for n in g.nodes()], edges, [self.node(n, local) for n in g.ext]))
    def hrg(self, h):
        groups = []
        for r in h.all_rules():             # all_rules = concatenation of the per-lhs lists, lhs keys distinct
            if groups and groups[-1][0] == r.lhs: groups[-1][1].append(r)
            else: groups.append((r.lhs, [r]))
        return ([self.nlab(l) for l in h.node_labels()], [self.el(l) for l in h.edge_labels()], self.el(h.start),
                [(self.el(k), [self.rule(r) for r in rs]) for k, rs in groups])

def observe(ps):
    """Run the implementation on one pair spec.  Returns dict with the wire values."""
    from fggs.conjunction import nonterminal_pairs, conjoin_hrgs
    g1, g2 = build_pair(ps)
    out = None; code = 0; exc = None
    try:
        out = conjoin_hrgs(g1, g2)
    except Exception as e:
        code = err_code(e); exc = repr(e)
    ntm = None; ntm_exc = None
    try:
        ntm = nonterminal_pairs(g1, g2)
    except Exception as e:
        ntm_exc = repr(e)
    ctx = Ctx([g1, g2])
    w1, w2 = ctx.hrg(g1), ctx.hrg(g2)
    wm = None if ntm is None else [(ctx.el(a), ctx.el(b), ctx.el(v)) for (a, b), v in ntm.items()]
    wo = None if out is None else ctx.hrg(out)
    return dict(w1=w1, w2=w2, ntm=wm, ntm_exc=ntm_exc, code=code, exc=exc, out=wo, invented=ctx.invented)

# ---------------------------------------------------------------------------- generators
NT_NAMES_1 = ["S", "X", "X,Y", "A", "<S,S>"]
NT_NAMES_2 = ["S", "Y,Z", "Z", "Y", "B", "X"]
T_NAMES = ["t", "u", "<X,Y>", "<S,S>", "<X,Y,Z>", "<X,Y,Z>_1", "<S,S>_1", "X", "Z", "α"]
TYPES = [[], [0], [0, 0], [0, 1], [1], [0, 0]]
SLOT_IDS = ["e2", "e10", "e1", "x", "e", "E3"]

def gen_pair(rng, force=None):
    """A pair of grammars over shared skeletons.  force: None | 'clash' | 'tconflict' | 'tname' |
    'sharedtid' | 'implicit' | 'self' | 'dup' | 'tnt'"""
    feats = set()
    ts = rng.sample(TYPES, rng.choice([1, 2, 2, 2, 3]))
    if [] not in ts and rng.random() < 0.8: ts[0] = []
    def mk_labels(names, k_nt, side):
        els = []
        nts = rng.sample(names, max(k_nt, len(ts) if rng.random() < 0.85 else 1))
        if "S" in names and "S" not in nts and rng.random() < 0.7: nts[0] = "S"
        for i, n in enumerate(nts):     # every type gets a nonterminal (mostly)
            els.append((n, list(ts[i] if i < len(ts) else rng.choice(ts)), False))
        return els
    e1 = mk_labels(NT_NAMES_1, rng.randint(1, 3), 1)
    e2 = mk_labels(NT_NAMES_2, rng.randint(1, 3), 2)
    if force == "clash":
        e1 = [("S", [], False), ("X", [], False), ("X,Y", [], False)]
        e2 = [("S", [], False), ("Y,Z", [], False), ("Z", [], False)]
        ts = [[]] + [t for t in ts if t]
        feats.add("clash")
    nt1 = {n for n, _, _ in e1}; nt2 = {n for n, _, _ in e2}
    # terminals: a shared pool of (name, type); each grammar picks some
    tpool = []
    for n in rng.sample(T_NAMES, rng.randint(2, 4)):
        tpool.append((n, list(rng.choice(TYPES[:4])), True))
    if force == "tname":
        a = rng.choice(e1)[0]; b = rng.choice(e2)[0]
        for n in ("<%s,%s>" % (a, b), "<%s,%s>_1" % (a, b)):
            if all(t[0] != n for t in tpool) and rng.random() < 0.8: tpool.append((n, [], True))
    t1 = [t for t in tpool if t[0] not in nt1 and rng.random() < 0.8] or [("t1only", [0], True)]
    t2 = [t for t in tpool if t[0] not in nt2 and rng.random() < 0.8] or [("t2only", [0], True)]
    if force == "tconflict":
        cands = [t for t in t1 if t[0] not in nt2]
        if cands:
            n, ty, _ = rng.choice(cands)
            t2 = [t for t in t2 if t[0] != n] + [(n, ty + [0], True)]
    if force == "tnt":      # a terminal of one grammar named like a nonterminal of the other (no error expected)
        n = e2[-1][0]
        if n not in nt1 and all(t[0] != n for t in t1): t1 = t1 + [(n, [0], True)]; feats.add("terminal_vs_nonterminal_name")
    if any(a[0] == b[0] and a != b for a in t1 for b in t2): feats.add("terminal_conflict")
    pairnames = {"<%s,%s>" % (a, b) for a in nt1 for b in nt2}
    if any(t[0] in pairnames or t[0][:-2] in pairnames for t in t1 + t2): feats.add("terminal_named_like_a_pair")
    if pairnames & (nt1 | nt2): feats.add("nonterminal_named_like_a_pair")
    els1, els2 = e1 + t1, e2 + t2
    def by_type(els, ty, term):
        return [i for i, (n, t, tm) in enumerate(els) if t == ty and tm == term]
    implicit = force in ("implicit", "mixed") or force == "self" and rng.random() < 0.5
    mixed = force == "mixed" or force == "self" and rng.random() < 0.5
    # skeletons
    nsk = rng.randint(1, 4)
    rules1, rules2 = [], []
    tid = [0]
    for k in range(nsk):
        lt = ts[0] if k == 0 or rng.random() < 0.5 else rng.choice(ts)
        nodes = []; ext = []
        for nl in lt:
            same = [e for e in ext if nodes[e] == nl]
            if same and rng.random() < 0.1: ext.append(rng.choice(same)); feats.add("repeated_ext_node")
            else: nodes.append(nl); ext.append(len(nodes) - 1)
        for _ in range(rng.randint(0, 2)): nodes.append(rng.choice([0, 0, 1]))
        slots = []
        nslots = rng.choice([0, 0, 1, 1, 2, 2]) if k > 0 else rng.choice([0, 1, 1, 2])
        sids = rng.sample(SLOT_IDS, nslots)
        for sid in sids:
            ty = rng.choice(ts)
            att = []
            for nl in ty:
                c = [i for i, l in enumerate(nodes) if l == nl]
                if not c: nodes.append(nl); c = [len(nodes) - 1]
                att.append(rng.choice(c))
            slots.append((sid, ty, att))
        if not nodes and rng.random() < 0.5: nodes.append(0)
        nid = ["n%d" % i for i in range(len(nodes))]
        which = "both" if k == 0 else rng.choice(["both", "both", "both", "both", "g1", "g2"])
        if which != "both": feats.add("skeleton_in_one_grammar")
        def inst(els, side, variant):
            lhs_c = by_type(els, lt, False)
            if k == 0 and rng.random() < 0.8: lhs_c = [0]       # rules for the start symbol
            if not lhs_c: return None
            ndl = list(nodes); nidl = list(nid); extl = list(ext); sl = [(s, ty, list(a)) for s, ty, a in slots]
            if variant == "extra_node": ndl.append(0); nidl.append("nx")
            elif variant == "node_label" and ndl:
                j = rng.randrange(len(ndl))
                if j not in extl and all(j not in a for _, _, a in sl): ndl[j] = 1 - ndl[j]
            elif variant == "drop_slot" and sl: sl.pop(rng.randrange(len(sl)))
            elif variant == "slot_att" and sl:
                j = rng.randrange(len(sl)); s, ty, a = sl[j]
                for p, nl in enumerate(ty):
                    c = [i for i, l in enumerate(ndl) if l == nl and i != a[p]]
                    if c: a[p] = rng.choice(c); break
            elif variant == "slot_id" and sl:
                j = rng.randrange(len(sl)); sl[j] = ("q9", sl[j][1], sl[j][2])
            elif variant == "ext_swap" and len(extl) >= 2 and ndl[extl[0]] == ndl[extl[1]]:
                extl[0], extl[1] = extl[1], extl[0]
            elif variant in ("ext_move", "ext_swap") and extl:
                p = rng.randrange(len(extl))
                c = [i for i, l in enumerate(ndl) if l == ndl[extl[p]] and i != extl[p]]
                if c: extl[p] = rng.choice(c)
            edges = []
            for s, ty, a in sl:
                c = by_type(els, ty, False)
                if not c: return None
                tok = ("i:%s" % s) if implicit and not (mixed and rng.random() < 0.5) else ("s:" + s)
                edges.append((tok, rng.choice(c), a))
            for _ in range(rng.choice([0, 1, 1, 2])):
                cands = [i for i, (n, t, tm) in enumerate(els) if tm and all(any(l == nl for l in ndl) for nl in t)]
                if not cands: break
                el = rng.choice(cands)
                att = [rng.choice([i for i, l in enumerate(ndl) if l == nl]) for nl in els[el][1]]
                tok = "s:c%d" % rng.randrange(2)
                if force != "sharedtid" or rng.random() < 0.5 or any(t == tok for t, _, _ in edges):
                    tid[0] += 1; tok = "s:%s%d" % ("a" if side == 1 else "b", tid[0])
                edges.append((tok, el, att))
            rng.shuffle(edges)
            ntok = [("i:" if implicit and variant is None else "s:") + x for x in nidl]
            return dict(lhs=rng.choice(lhs_c), nodes=list(zip(ntok, ndl)), edges=edges, ext=extl)
        for side, els, rules in ((1, els1, rules1), (2, els2, rules2)):
            if which not in ("both", "g%d" % side): continue
            for _ in range(rng.choice([1, 1, 2, 3])):
                variant = None
                if rng.random() < 0.15:
                    variant = rng.choice(["extra_node", "node_label", "drop_slot", "slot_att", "slot_att", "slot_id", "ext_swap", "ext_move", "ext_move"])
                    feats.add("near_miss")
                elif len(ext) >= 2 and ext[0] != ext[1] and nodes[ext[0]] == nodes[ext[1]] and rng.random() < 0.3:
                    variant = "ext_swap"; feats.add("near_miss"); feats.add("ext_permuted")
                r = inst(els, side, variant)
                if r is not None:
                    rules.append(r)
                    if force == "dup" and rng.random() < 0.5:
                        rules.append(json.loads(json.dumps(r))); feats.add("duplicate_rule")
    for rules in (rules1, rules2): rng.shuffle(rules)
    def fix(r):     # json round trip turns tuples into lists
        return dict(lhs=r["lhs"], nodes=[tuple(x) for x in r["nodes"]], edges=[(a, b, list(c)) for a, b, c in r["edges"]], ext=list(r["ext"]))
    g1 = dict(elabels=els1, start=0, rules=[fix(r) for r in rules1])
    g2 = dict(elabels=els2, start=0, rules=[fix(r) for r in rules2])
    mode = "pair"
    if force == "self":
        mode = rng.choice(["self", "copy"]); feats.add("self_conjunction")
    if implicit: feats.add("implicit_ids")
    if implicit and mixed: feats.add("mixed_ids")
    if force == "sharedtid": feats.add("shared_terminal_edge_ids")
    if len({(r["lhs"], len(r["nodes"])) for r in rules1}) < len(rules1): feats.add("several_rules_per_skeleton")
    return dict(nlabels=["N", "M"], g1=g1, g2=g2, mode=mode, features=sorted(feats))

def gen_uln(rng):
    """(name, names): names contain name, name_1.. with gaps, near-misses and decimal edge cases"""
    base = rng.choice(["<X,Y>", "S", "<S>", "a_1", "", "<X,Y,Z>", "n_"])
    k = rng.choice([0, 0, 1, 2, 3, 9, 10, 11, 12])
    names = []
    if rng.random() < 0.85: names.append(base)
    for i in range(1, k + 1):
        if rng.random() < 0.9: names.append("%s_%d" % (base, i))
    for _ in range(rng.randint(0, 3)):
        names.append(rng.choice([base + "_", base + "_0", base + "_01", base + "_1_1", base[:-1], base + "_%d" % rng.randint(1, 15), "zz"]))
    rng.shuffle(names)
    if rng.random() < 0.2: names = names + names[:1]
    return base, names

# ---------------------------------------------------------------------------- run
CAP = 300
CONJ_MSG = {
    1: "terminal/terminal label conflict and ValueError do not coincide",
    2: "conjoin_hrgs raised although there is no terminal label conflict",
    3: "output grammar is not the set of conjunctions of the conjoinable rule pairs (verified oracle conj_hrg_ok rejects it)",
    4: "nt_map is not injective / fresh / total (verified oracle ntmap_ok rejects it)",
    7: "number of derivations of the conjunction differs from the number of pairable pairs of derivations",
    10: "output grammar differs from the Gallina model's (order of labels / rules / edges) although the oracles accept it",
    11: "exception class differs from the Gallina model's",
    20: "harness: generated input is not well-formed",
}

def run(tier, seed):
    from fggs.utils import unique_label_name
    import fggs
    rng = random.Random(seed)
    violations = []
    n_pairs = 300 if tier == "quick" else 8000
    n_uln = 1500 if tier == "quick" else 40000
    # ---- unique_label_name
    uvals, ucases = [], []
    for i in range(n_uln):
        name, names = gen_uln(rng)
        labs = [fggs.NodeLabel(n) if (i + j) % 3 == 0 else fggs.EdgeLabel(n, [], is_terminal=(j % 2 == 0), is_nonterminal=(j % 2 == 1))
                for j, n in enumerate(names)]
        if i % 2: labs = set(labs)
        try:
            out = unique_label_name(name, labs)
        except Exception as e:
            violations.append(Violation("unique_label_name raised %r" % (e,), case=dict(name=name, names=names),
                                        call="fggs.utils.unique_label_name", corr="corr:uln")); continue
        uvals.append(([ord(c) for c in name], [[ord(c) for c in n] for n in names], [ord(c) for c in out]))
        ucases.append((name, names, out))
    from concurrent.futures import ThreadPoolExecutor
    pool = ThreadPoolExecutor(4)        # the four model evaluations run side by side (they are subprocesses)
    fut_u = pool.submit(run_model_sharded, ULN, uvals, 20 if tier == "quick" else 200, seed, "c17uln", 20)
    def after_uln():
      ucodes, nk1 = fut_u.result()
      for (name, names, out), c in zip(ucases, ucodes):
        if c:
            violations.append(Violation("unique_label_name: " + ("result is not the first free name among name, name_1, ... (verified oracle unique_ok)" if c == 1 else "differs from model (code %d)" % c),
                                        case=dict(kind="uln", name=name, names=names), observed=out, oracle="unique_ok" if c == 1 else None,
                                        corr="C17_unique_name / corr:uln", failing_input_found=(c == 1),
                                        call="fggs.utils.unique_label_name(name, labels)"))
      return nk1
    # ---- grammar pairs
    forced = ["clash", "tconflict", "tname", "dup", "tnt", "clash", "tconflict", "tname"]
    defect_stream = ["sharedtid", "implicit", "self", "mixed", "self"]
    specs = []
    for i in range(n_pairs):
        if i < len(forced) * 3: f = forced[i % len(forced)]
        elif i % 10 == 0: f = rng.choice(forced)
        elif i % 10 in (1, 2): f = defect_stream[(i // 10 + i) % 5]
        else: f = None
        specs.append(gen_pair(rng, f))
    nvals, cvals, kvals, info = [], [], [], []
    hist = {}
    for ps in specs:
        try:
            ob = observe(ps)
        except Exception as e:
            violations.append(Violation("harness could not build/observe the case: %r" % (e,), case=dict(kind="pair", spec=ps),
                                        corr="harness", failing_input_found=False)); continue
        for f in ps["features"]: hist[f] = hist.get(f, 0) + 1
        if ob["ntm"] is None:
            violations.append(Violation("nonterminal_pairs raised %s" % ob["ntm_exc"], case=dict(kind="pair", spec=ps),
                                        call="fggs.conjunction.nonterminal_pairs(g1, g2)", corr="C17_names")); continue
        info.append((ps, ob))
        nvals.append((ob["w1"], ob["w2"], ob["ntm"]))
        cvals.append((ob["w1"], ob["w2"], ob["ntm"], ob["code"], ob["out"]))
    ns, sh, mb = (6, 5, 4) if tier == "quick" else (48, 4, 24)    # kernel sample, shard size, non-zero verdicts re-evaluated
    kidx = [i for i, (ps, ob) in enumerate(info) if ob["out"] is not None]
    kvals = [(info[i][1]["w1"], info[i][1]["w2"], info[i][1]["out"], 3, CAP) for i in kidx]
    fut_n = pool.submit(run_model_sharded, NTP, nvals, ns, seed, "c17ntp", sh, mb)
    fut_c = pool.submit(run_model_sharded, CONJ, cvals, ns, seed, "c17conj", sh, mb)
    fut_k = pool.submit(run_model_sharded, CNT, kvals, ns, seed, "c17cnt", sh, mb)
    nk1 = after_uln()
    ncodes, nk2 = fut_n.result(); ccodes, nk3 = fut_c.result(); kcodes, nk4 = fut_k.result()
    pool.shutdown()
    outcomes = {}
    for (ps, ob), c in zip(info, ncodes):
        if c:
            violations.append(Violation("nonterminal_pairs: " + ("nt_map is not injective/fresh/total (verified oracle ntmap_ok)" if c == 1 else "differs from model (code %d)" % c),
                                        case=dict(kind="pair", spec=ps), observed=ob["ntm"], oracle="ntmap_ok" if c == 1 else None,
                                        corr="C17_names / corr:ntp", failing_input_found=(c == 1),
                                        call="fggs.conjunction.nonterminal_pairs(g1, g2)"))
    for (ps, ob), c in zip(info, ccodes):
        key = "ok" if c == 0 and ob["code"] == 0 else ("ValueError(conflict)" if c == 0 else "code%d" % c)
        outcomes[key] = outcomes.get(key, 0) + 1
        if c:
            violations.append(Violation("conjoin_hrgs: " + CONJ_MSG.get(c, "code %d" % c), case=dict(kind="pair", spec=ps),
                                        observed=dict(exception=ob["exc"], output=ob["out"]),
                                        oracle={1: "has_tt_conflict", 2: "has_tt_conflict / C17_total", 3: "conj_hrg_ok", 4: "ntmap_ok"}.get(c),
                                        corr="C17_rule / C17_names / corr:conj", failing_input_found=(c < 10),
                                        call="fggs.conjoin_hrgs(g1, g2)"))
    skipped = 0; counted = 0
    for i, c in zip(kidx, kcodes):
        ps, ob = info[i]
        if c == 30: skipped += 1; continue
        if c == 0: counted += 1; continue
        violations.append(Violation("derivations up to depth 3: " + CONJ_MSG.get(c, "code %d" % c), case=dict(kind="pair", spec=ps),
                                    observed=dict(output=ob["out"]), oracle="enum / pairable_b (C17_bijection)",
                                    corr="C17_bijection / corr:count", failing_input_found=(c == 7),
                                    call="fggs.conjoin_hrgs(g1, g2)"))
    def nontrivial(ps, ob):
        return ob["out"] is not None and len(ob["out"][3]) >= 1 and sum(len(rs) for _, rs in ob["out"][3]) >= 2
    distinct = len({json.dumps(ps, sort_keys=True) for ps, ob in info if nontrivial(ps, ob)})
    udist = len({(n, tuple(ns)) for n, ns, o in ucases if o != n})
    samples = []
    for ps, ob in info:
        if nontrivial(ps, ob):
            samples.append(dict(spec=ps, output_rules=sum(len(rs) for _, rs in ob["out"][3]),
                                output_labels=["".join(chr(c) for c in l[0]) for l in ob["out"][1]]))
            if len(samples) >= 2: break
    samples.append(dict(unique_label_name=dict(name=ucases[0][0], names=ucases[0][1], out=ucases[0][2])))
    cov = dict(evaluations=len(uvals) + len(nvals) + len(cvals) + len(kvals),
               distinct_nontrivial=distinct + udist,
               rule="grammar pairs over shared skeletons (shared node ids, shared nonterminal-edge ids in independently shuffled insertion order, 1-3 rules per skeleton and grammar, skeletons in one grammar only, near-miss non-conjoinable variants, duplicate rules, the X+'Y,Z' / 'X,Y'+Z name clash, terminals named like pairs, terminal/terminal conflicts, terminal-vs-nonterminal name reuse, self-conjunction, implicit and mixed ids, shared terminal-edge ids); non-trivial = conjoin_hrgs returned a grammar with >= 2 rules, distinct by spec.  unique_label_name: names with gaps and decimal near-misses; non-trivial = result differs from the name, distinct by (name, names)",
               samples=samples, feature_histogram=hist, conj_outcomes=outcomes,
               derivation_count=dict(grammars_counted=counted, skipped_over_cap=skipped, depth=3, cap=CAP),
               kernel_reevaluated=nk1 + nk2 + nk3 + nk4,
               invented_ids_renumbered=sum(ob["invented"] for ps, ob in info),
               open_items=OPEN_ITEMS)
    return cov, violations

OPEN_ITEMS = []

def replay(path):
    r = json.load(open(path))
    c = r["case"]
    if c.get("kind") == "uln":
        from fggs.utils import unique_label_name
        import fggs
        out = unique_label_name(c["name"], [fggs.NodeLabel(n) for n in c["names"]])
        code = run_coq(ULN, [([ord(x) for x in c["name"]], [[ord(x) for x in n] for n in c["names"]], [ord(x) for x in out])], tag="replay")[0]
        print("unique_label_name(%r, %r) = %r; verdict code %d" % (c["name"], c["names"], out, code))
        return 1 if code else 0
    ps = c["spec"]
    for g in ("g1", "g2"):
        ps[g]["elabels"] = [tuple(x) for x in ps[g]["elabels"]]
        ps[g]["rules"] = [dict(lhs=q["lhs"], nodes=[tuple(x) for x in q["nodes"]], edges=[tuple(x) for x in q["edges"]], ext=q["ext"]) for q in ps[g]["rules"]]
    ob = observe(ps)
    codes = [run_coq(NTP, [(ob["w1"], ob["w2"], ob["ntm"])], tag="replay")[0],
             run_coq(CONJ, [(ob["w1"], ob["w2"], ob["ntm"], ob["code"], ob["out"])], tag="replay")[0]]
    if ob["out"] is not None:
        codes.append(run_coq(CNT, [(ob["w1"], ob["w2"], ob["out"], 3, CAP)], tag="replay")[0])
    print("exception:", ob["exc"]); print("verdict codes (ntp, conj, count):", codes)
    for cc in codes:
        if cc in CONJ_MSG: print(" ", cc, CONJ_MSG[cc])
    bad = [x for x in codes if x not in (0, 30)]
    return 1 if bad else 0

MANIFEST = dict(
    level="proof",
    text="Coq theorems about a Gallina model that follows fggs/conjunction.py and utils.unique_label_name statement by statement: C17_rule (structure and well-typedness of a conjoined rule), C17_names (nt_map total, injective, fresh; unique_label_name returns the first free name within |names|+1 probes; terminal conflicts raise ValueError), C17_bijection (pair/unpair are mutually inverse between derivations of the conjunction and pairable pairs, every depth, on rule occurrences).  The model is tied to /repo by comparing nt_map, the output grammar (labels, start, rules, nodes/edges/ext in order) and the exception class on generated grammar pairs, by judging every output with the verified oracles ntmap_ok / conj_hrg_ok / unique_ok, and by counting derivations of the implementation's output grammar to depth 3 against the pairable pairs.",
    note="Trusted: Coq kernel + vm_compute, extraction cross-checked against vm_compute, the Python harness (canonical numbering of ids and label names).  The two defects found earlier (shared terminal-edge ids -> ValueError; implicit nonterminal-edge ids -> TypeError) are fixed in /repo 00f91d1; the model follows the repaired code and the inputs that triggered them are part of the ordinary stream.",
    technique="Coq proof (model + theorems) + model/implementation correspondence with verified-spec oracles",
    design_ref="DESIGN.md section 6, C17")
