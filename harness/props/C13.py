"""C13 -- equal and allclose decide (approximate) equality of the denoted tensors.

Correspondence (DESIGN.md section 6, C13): ALL pairs of typed patterns over the small shapes (2), (3), (2,2), (3,3),
(2,2,2) (thorough: + (6), (2,3), (4,2)), the second operand renamed apart or sharing physical axes with the first,
x defaults (equal / different) x value assignments built so that the two denotations agree everywhere or differ
in exactly one cell of the overlap / of one support only / of the default region, x tolerances.  Every call
    t.equal(u)   t.allclose(u, rtol, atol, equal_nan)   t.equal_default()   t.allclose_default(rtol, atol)
    MultiTensor.allclose(other, tol)
is sent, together with the implementation's answer, to the extracted check functions c13_check / c13_multi_check
(Model/PTEqual.v), which judge it with the oracle "pointwise comparison of the dense denotations" (the denotation by
brute-force definition, exact rationals) and compare it with the Gallina model of the code.  torch.equal /
torch.allclose on independently computed densifications are a third voice (reported, not deciding).
Symmetry and representation-insensitivity instances (clone, freshen, to_dense-then-wrap, default_to, a re-patterned
copy) are built with the library and go through the same check function.
"""
import itertools, math, random, json, traceback, warnings
from fractions import Fraction
from harness.core import *
from harness.props import _c06_util as U
from harness.props._c06_util import AxisT, PnT

PID = "C13"
LEVEL = "proof"
_IMP = ["Model.Axis", "Model.XVal", "Model.PTensor", "Model.PTensorCheck"]
XvT = Tup(Nat, QQ)
TenT = Tup(List(PnT), List(AxisT), XvT, List(XvT))
CMP = CheckFn("c13-cmp", "Model.PTEqual", "c13_check", Tup(Nat, QQ, QQ, Bool, TenT, TenT, Nat), imports=_IMP)
MULTI = CheckFn("c13-multi", "Model.PTEqual", "c13_multi_check",
                Tup(XvT, QQ, List(Tup(Nat, TenT)), List(Tup(Nat, TenT)), Nat), imports=_IMP)
CHECKFNS = [CMP, MULTI]

ASSUMPTIONS = [
    "PhysicalAxis objects are numbered by the harness (uid) in order of first appearance; the fresh axes made by freshen()/unify inside equal/allclose are not observable in the boolean result",
    "values, defaults and perturbations are small dyadic rationals, 0, +-inf, NaN: float64/float32 subtraction and comparison are exact on them; tolerances are passed to Coq as the exact rational value of the Python float; no generated |x - y| lies within 1e-9 of a threshold atol + rtol*|y|, so torch's rounding of the threshold cannot change a verdict",
    "torch's elementwise ==, isclose, all and as_strided views are trusted as the reference semantics of the dense comparison",
    "both operands of a pair have the same index types per dimension (the library's typing assumption); pairs mixing different sum decompositions of one dimension are outside the property",
]

INF = math.inf
NAN = math.nan
A = lambda n: ("atom", n)
UN = ("prod", [])
# index types per dimension size (unit summands give single-cell injections: nested and disjoint supports)
SIZE_TYPES = {
    2: [A(2), ("sum", [UN, UN])],
    3: [A(3), ("sum", [A(2), UN]), ("sum", [UN, A(2)]), ("sum", [UN, UN, UN])],
    4: [A(4), ("prod", [A(2), A(2)]), ("sum", [A(2), A(2)]), ("sum", [UN, A(3)])],
    6: [A(6), ("prod", [A(2), A(3)]), ("prod", [A(3), A(2)]), ("sum", [A(3), A(3)]), ("sum", [A(2), A(4)])],
}
QUICK_SHAPES = [(2,), (3,), (2, 2), (3, 3), (2, 2, 2)]
THOROUGH_SHAPES = QUICK_SHAPES + [(6,), (2, 3), (4, 2)]
TOLS = [(r, a) for a in (0.0, 0.1, 1e-5) for r in (0.0, 0.5)]
GRID = [k / 4.0 for k in range(-8, 9)]
DELTAS = [2.0 ** -20, 2.0 ** -4, 0.25, 1.0, 3.0]

def xv(v):
    if isinstance(v, bool): return (0, Fraction(int(v)))
    v = float(v)
    if v != v: return (3, Fraction(0))
    if v == INF: return (1, Fraction(0))
    if v == -INF: return (2, Fraction(0))
    return (0, Fraction(v))

def wire_tensor(spec):
    return (list(spec["paxes"]), list(spec["vaxes"]), xv(spec["default"]), [xv(v) for v in spec["values"]])

def shift(vax, k):
    def r(e):
        if e[0] == "Phys": return ("Phys", (e[1][0] + k, e[1][1]))
        if e[0] == "Prod": return ("Prod", [r(x) for x in e[1]])
        return ("Sum", (e[1][0], r(e[1][1]), e[1][2]))
    return [r(e) for e in vax]

# ---------------------------------------------------------------------------- universe
def universe(shapes):
    """{shape: [(types, [vaxes...])]} : every typed pattern of every type assignment of the shape"""
    out = {}
    for shp in shapes:
        combos = []
        for ts in itertools.product(*[SIZE_TYPES[n] for n in shp]):
            ts = list(ts)
            combos.append((ts, [vax for vax, _ in U.enum_patterns(ts)]))
        out[shp] = combos
    return out

def shared_partners(ts, vax):
    """patterns of the same types that re-use physical axes of vax (enumeration continued over vax's pool)"""
    pool = U.Pool()
    # rebuild the pool of vax: same enumeration order as enum_patterns
    for v, pl in U.enum_patterns(ts):
        if v == vax: pool = pl; break
    return [v for v, _ in U.enum_patterns(ts, pool.copy())]

def support(vaxes, paxes):
    cells = {}
    for env in U.all_envs(paxes):
        cells[tuple(U.a_eval(e, env) for e in vaxes)] = tuple(env[k] for k, _ in paxes)
    return cells

def flat_index(coords, sizes):
    off = 0
    for c, n in zip(coords, sizes): off = off * n + c
    return off

# ---------------------------------------------------------------------------- value assignments
VARIANTS = ["none", "overlap", "t_only", "u_only", "default", "random"]

def make_pair(rng, ts, vt, vu, variant, kind="float", nan_p=0.04):
    """two tensor specs over the patterns vt, vu whose denotations agree everywhere or differ as `variant` says.
    returns (spec_t, spec_u, info)"""
    pt_ = U.fv_list(vt); pu_ = U.fv_list(vu)
    if rng.random() < 0.5: rng.shuffle(pt_)
    if rng.random() < 0.5: rng.shuffle(pu_)
    st = support(vt, pt_); su = support(vu, pu_)
    shape = [U.a_numel(e) for e in vt]
    cells = list(itertools.product(*[range(n) for n in shape]))
    both = [c for c in cells if c in st and c in su]
    t_only = [c for c in cells if c in st and c not in su]
    u_only = [c for c in cells if c in su and c not in st]
    neither = [c for c in cells if c not in st and c not in su]
    if kind == "bool":
        grid = [False, True]; dt = rng.random() < 0.5; du = dt if rng.random() < 0.6 else not dt
    else:
        grid = GRID
        dchoices = [0.0, 1.0, -INF, INF, 2.5, -0.5]
        dt = rng.choice(dchoices)
        du = dt if rng.random() < 0.55 else rng.choice(dchoices)
        if rng.random() < nan_p: du = NAN
        if rng.random() < nan_p / 2: dt = NAN
    base = {}
    for c in cells:
        r = rng.random()
        base[c] = dt if r < 0.15 else (du if r < 0.3 else rng.choice(grid))
        if kind != "bool" and rng.random() < 0.04: base[c] = rng.choice([INF, -INF])
    if variant == "random":
        small = [False, True] if kind == "bool" else [0.0, 1.0, dt, du]
        tv = {c: rng.choice(small) for c in st}; uv = {c: rng.choice(small) for c in su}
    else:
        tv = {c: (base[c] if c in su else du) for c in st}
        uv = {c: (base[c] if c in st else dt) for c in su}
    def perturb(v):
        if kind == "bool": return not v
        if v != v or abs(v) == INF: return 1.0
        k = rng.random()
        if k < 0.25 and v != 0: return 2 * v
        if k < 0.4 and v != 0: return v / 2
        if k < 0.45: return INF
        if k < 0.5 and nan_p: return NAN
        return v + rng.choice(DELTAS) * rng.choice([1, -1])
    where = None
    if variant == "overlap" and both:
        c = rng.choice(both); where = c
        if rng.random() < 0.5: tv[c] = perturb(tv[c])
        else: uv[c] = perturb(uv[c])
    elif variant == "t_only" and t_only:
        c = rng.choice(t_only); where = c; tv[c] = perturb(tv[c])
    elif variant == "u_only" and u_only:
        c = rng.choice(u_only); where = c; uv[c] = perturb(uv[c])
    elif variant == "default":
        # the defaults differ; the one-sided cells still match the *new* default, so only unbacked cells can differ
        du = perturb(dt); where = "default"
        tv = {c: (tv[c] if c in su else du) for c in st}
    dtype = "bool" if kind == "bool" else ("f64" if rng.random() < 0.85 else "f32")
    def spec(vax, pax, sup, vals, d):
        sizes = [n for _, n in pax]
        flat = [None] * math.prod(sizes)
        for c, coords in sup.items(): flat[flat_index(coords, sizes)] = vals[c]
        return dict(types=ts, vaxes=vax, paxes=pax, default=d, dtype=dtype, values=flat)
    rel = ("disjoint" if not both else "equal" if not t_only and not u_only else
           "t_in_u" if not t_only else "u_in_t" if not u_only else "overlap")
    info = dict(variant=variant if where is not None or variant in ("none", "random") else variant + "(n/a)",
                supports=rel, defaults="visible" if neither else "covered",
                defaults_equal=(dt == du) or (dt != dt and du != du),
                shared=bool({k for k, _ in pt_} & {k for k, _ in pu_}))
    return spec(vt, pt_, st, tv, dt), spec(vu, pu_, su, uv, du), info

# ---------------------------------------------------------------------------- implementation side
def spec_of(obj, world):
    """plain-data spec of a PatternedTensor built by the library (new axes get the next uids)"""
    import torch
    pax = [(world.name(k), k._numel) for k in obj.paxes]
    vax = [world.wire(e) for e in obj.vaxes]
    dt = {torch.float64: "f64", torch.float32: "f32", torch.bool: "bool"}[obj.physical.dtype]
    return dict(vaxes=vax, paxes=pax, default=obj.default, dtype=dt, values=obj.physical.reshape(-1).tolist())

LAST_WARN = [False]

def call(f):
    """0 False / 1 True / 2 AssertionError / (3, repr) other exception; remembers whether unify warned"""
    with warnings.catch_warnings(record=True) as wl:
        warnings.simplefilter("always")
        try:
            r = 1 if f() else 0
        except AssertionError:
            r = 2
        except Exception as ex:
            r = (3, repr(ex))
    LAST_WARN[0] = any("index type mismatch" in str(w.message) for w in wl)
    return r

def third_voice(mode, st, su, rtol, atol, equal_nan):
    import torch
    dt_ = U.dense_ref(st)
    if mode == 0: return bool(torch.equal(dt_, U.dense_ref(su)))
    if mode == 1:
        du_ = U.dense_ref(su)
        return dt_.shape == du_.shape and bool(torch.allclose(dt_, du_, rtol=rtol, atol=atol, equal_nan=equal_nan))
    d = torch.full_like(dt_, st["default"])
    if mode == 2: return bool(dt_.eq(d).all())
    return bool(torch.allclose(dt_, d, rtol=rtol, atol=atol, equal_nan=True))

class Stream:
    """collects check-function values and their descriptions"""
    def __init__(self):
        self.vals = []; self.desc = []; self.tv = []
        self.hist = {}
    def bump(self, *keys):
        for k in keys: self.hist[k] = self.hist.get(k, 0) + 1
    def add(self, mode, rtol, atol, equal_nan, st, su, impl, info, violations):
        desc = dict(mode=["equal", "allclose", "equal_default", "allclose_default"][mode], rtol=rtol, atol=atol,
                    equal_nan=equal_nan, t=slim(st), u=slim(su) if mode < 2 else None, info=info, warned=LAST_WARN[0])
        if isinstance(impl, tuple):
            violations.append(Violation("%s raised %s" % (desc["mode"], impl[1]), case=desc, corr="corr:c13_check",
                                        call="PatternedTensor.%s" % desc["mode"]))
            return
        self.vals.append((mode, Fraction(rtol), Fraction(atol), bool(equal_nan), wire_tensor(st), wire_tensor(su), impl))
        self.desc.append(desc)
        tv = None
        if impl in (0, 1):
            try:
                tv = third_voice(mode, st, su, rtol, atol, equal_nan)
            except Exception as ex:
                tv = "error: " + repr(ex)[:200]
        self.tv.append(tv)

def slim(s):
    return dict(vaxes=s["vaxes"], paxes=s["paxes"], default=s["default"], dtype=s["dtype"], values=s["values"])

def run_pair(S, rng, st, su, info, violations, all_tols=False, reps=True):
    """every observation of the property on one pair of specs"""
    w = U.World()
    t = U.build_tensor(st, w); u = U.build_tensor(su, w)
    isbool = st["dtype"] == "bool"
    S.add(0, 0.0, 0.0, False, st, su, call(lambda: t.equal(u)), dict(info, role="t.equal(u)"), violations)
    S.add(0, 0.0, 0.0, False, su, st, call(lambda: u.equal(t)), dict(info, role="u.equal(t) (symmetry)"), violations)
    if not isbool:
        tols = TOLS if all_tols else [rng.choice(TOLS + [(0.5, 0.0), (0.5, 0.1)])]
        for rtol, atol in tols:
            en = rng.random() < 0.3
            S.add(1, rtol, atol, en, st, su, call(lambda: t.allclose(u, rtol=rtol, atol=atol, equal_nan=en)),
                  dict(info, role="t.allclose(u)"), violations)
            if rng.random() < 0.5 or all_tols:
                S.add(1, rtol, atol, en, su, st, call(lambda: u.allclose(t, rtol=rtol, atol=atol, equal_nan=en)),
                      dict(info, role="u.allclose(t) (asymmetric rtol)"), violations)
    S.bump("variant:" + info["variant"], "supports:" + info["supports"], "defaults:" + info["defaults"],
           "defaults_equal:%s" % info["defaults_equal"], "shared_axes:%s" % info["shared"], "dtype:" + st["dtype"])
    if reps:
        rep_instances(S, rng, st, t, w, violations)

def rep_instances(S, rng, st, t, w, violations):
    """representation insensitivity, evaluated on the implementation: the copies are built by the library"""
    from fggs.indices import PatternedTensor
    inst = [("t.equal(t)", t)]
    k = rng.randrange(5)
    try:
        if k == 0: inst.append(("t.equal(t.clone())", t.clone()))
        elif k == 1: inst.append(("t.equal(t.freshen())", t.freshen()))
        elif k == 2: inst.append(("t.equal(PatternedTensor(t.to_dense(), default=d'))", PatternedTensor(t.to_dense(), default=rng.choice([0.0, 1.0, t.default]) if st["dtype"] != "bool" else False)))
        elif k == 3: inst.append(("t.equal(t.default_to(d'))", t.default_to(rng.choice([0.0, 2.5]) if st["dtype"] != "bool" else True)))
        else: inst.append(("t.equal(t.detach())", t.detach()))
    except Exception as ex:
        violations.append(Violation("building a copy raised %r" % (ex,), case=dict(t=slim(st)), corr="corr:c13 representation instances"))
        return
    for name, c in inst:
        sc = st if c is t else spec_of(c, w)
        info = dict(role=name, variant="copy", supports="copy", defaults="-", defaults_equal=True, shared=c is t)
        S.add(0, 0.0, 0.0, False, st, sc, call(lambda: t.equal(c)), info, violations)
        if c is not t:
            S.add(0, 0.0, 0.0, False, sc, st, call(lambda: c.equal(t)), dict(info, role=name + " reversed"), violations)
        if st["dtype"] != "bool" and rng.random() < 0.5:
            S.add(1, 0.0, 0.0, True, st, sc, call(lambda: t.allclose(c, rtol=0.0, atol=0.0, equal_nan=True)),
                  dict(info, role=name.replace("equal", "allclose")), violations)
        S.bump("copy:" + name)

def repatterned(rng, st, pats):
    """a spec over another pattern of the same types that denotes the same dense tensor, if one of a few random
    candidates can (its unbacked cells must hold t's default)"""
    dense = {}
    sup = support(st["vaxes"], st["paxes"]); sizes = [n for _, n in st["paxes"]]
    shape = [U.a_numel(e) for e in st["vaxes"]]
    for c in itertools.product(*[range(n) for n in shape]):
        dense[c] = st["values"][flat_index(sup[c], sizes)] if c in sup else st["default"]
    same = lambda a, b: a == b or (a != a and b != b)
    for _ in range(6):
        vax = shift(rng.choice(pats), 40)
        pax = U.fv_list(vax); rng.shuffle(pax)
        s2 = support(vax, pax)
        if all(same(dense[c], st["default"]) for c in dense if c not in s2):
            sz = [n for _, n in pax]; flat = [None] * math.prod(sz)
            for c, coords in s2.items(): flat[flat_index(coords, sz)] = dense[c]
            return dict(types=st["types"], vaxes=vax, paxes=pax, default=st["default"], dtype=st["dtype"], values=flat)
    return None

def default_cases(S, rng, st, violations):
    """equal_default / allclose_default on a tensor whose physical elements equal its default, or all but one"""
    s = dict(st); d = s["default"]; vals = [d] * len(s["values"])
    v = rng.random()
    if v < 0.6 and vals and s["dtype"] != "bool":
        i = rng.randrange(len(vals))
        base = 0.0 if (d != d or abs(d) == INF) else d
        vals[i] = rng.choice([base + rng.choice(DELTAS), base - rng.choice(DELTAS), INF, -INF, NAN, base * 2 + 0.0])
    elif v < 0.7 and vals and s["dtype"] == "bool":
        vals[rng.randrange(len(vals))] = not d
    s["values"] = vals
    t = U.build_tensor(s, U.World())
    info = dict(role="default", variant="default_mode", supports="-", defaults="-", defaults_equal=True, shared=False)
    S.add(2, 0.0, 0.0, False, s, s, call(lambda: t.equal_default()), info, violations)
    if s["dtype"] != "bool":
        rtol, atol = rng.choice(TOLS)
        S.add(3, rtol, atol, True, s, s, call(lambda: t.allclose_default(rtol=rtol, atol=atol)), info, violations)

# ---------------------------------------------------------------------------- mixed index types (outside the typed domain)
def mixed_pairs(rng, n):
    """pairs whose operands are typed by DIFFERENT sum decompositions of some dimension: the library warns
    "index type mismatch" and treats the supports as disjoint"""
    out = []
    is_sum = lambda t: t[0] == "sum"
    while len(out) < n:
        shp = rng.choice([(3,), (3,), (2, 3), (3, 3), (4,), (2, 2)])
        tt = [rng.choice(SIZE_TYPES[k]) for k in shp]; tu = list(tt)
        cand = [i for i, k in enumerate(shp) if sum(1 for t in SIZE_TYPES[k] if is_sum(t)) >= 2]
        if not cand: continue
        i = rng.choice(cand)
        sums = [t for t in SIZE_TYPES[shp[i]] if is_sum(t)]
        tt[i], tu[i] = rng.sample(sums, 2)
        vt, _ = U.gen_pattern(tt, rng, p_phys=0.15); vu, _ = U.gen_pattern(tu, rng, U.Pool(30), p_phys=0.15)
        out.append((tt, vt, vu))
    return out

# ---------------------------------------------------------------------------- MultiTensor.allclose
def multi_cases(rng, uni, n, violations):
    import torch
    from fggs.multi import MultiTensor
    from fggs.semirings import RealSemiring, LogSemiring, BoolSemiring
    vals, descs = [], []
    shapes_l = list(uni.keys())
    for _ in range(n):
        srk = rng.choice(["real", "real", "log", "bool"])
        if srk == "real": sr, zero, kind = RealSemiring(dtype=torch.float64), 0.0, "float"
        elif srk == "log": sr, zero, kind = LogSemiring(dtype=torch.float64), -INF, "float"
        else: sr, zero, kind = BoolSemiring(), False, "bool"
        tol = 0.0 if srk == "bool" else rng.choice([0.0, 0.0, 0.1, 1e-5])
        nk = rng.randint(1, 3)
        shapes = {}; blocks_a = {}; blocks_b = {}
        for k in range(nk):
            shp = rng.choice(shapes_l); ts, pats = rng.choice(uni[shp])
            shapes["K%d" % k] = torch.Size(shp)
            presence = rng.choice(["both", "both", "a", "b", "none"])
            variant = rng.choice(["none", "none", "overlap", "t_only", "u_only", "random"])
            st, su, _ = make_pair(rng, ts, rng.choice(pats), shift(rng.choice(pats), 20), variant, kind=kind, nan_p=0.0)
            for s in (st, su): s["dtype"] = "bool" if kind == "bool" else "f64"
            if presence != "both":
                # a block facing an absent one: default = semiring zero (rarely not: the assert), elements zero or nearly
                for s in (st, su):
                    s["default"] = zero if rng.random() < 0.93 else (1.0 if kind != "bool" else True)
                    base = 0.0 if zero == -INF else zero
                    s["values"] = [zero] * len(s["values"])
                    if s["values"] and rng.random() < 0.55:
                        i = rng.randrange(len(s["values"]))
                        s["values"][i] = (not zero) if kind == "bool" else rng.choice([base + 2.0 ** -20, base + 2.0 ** -30, base + 2.0 ** -40, base + 2.0 ** -4, base - 0.25, -2.0 ** -30, 1.0, INF, -INF])
            if presence in ("both", "a"): blocks_a[k] = st
            if presence in ("both", "b"): blocks_b[k] = su
        a = MultiTensor(shapes, sr); b = MultiTensor(shapes, sr)
        try:
            for k, s in blocks_a.items(): a["K%d" % k] = U.build_tensor(s, U.World())
            for k, s in blocks_b.items(): b["K%d" % k] = U.build_tensor(s, U.World())
        except Exception as ex:
            violations.append(Violation("MultiTensor.__setitem__ raised %r" % (ex,), case=dict(a=blocks_a, b=blocks_b), corr="corr:c13_multi"))
            continue
        impl = call(lambda: a.allclose(b, tol))
        desc = dict(semiring=srk, tol=tol, a={k: slim(s) for k, s in blocks_a.items()}, b={k: slim(s) for k, s in blocks_b.items()})
        if isinstance(impl, tuple):
            violations.append(Violation("MultiTensor.allclose raised %s" % impl[1], case=desc, corr="corr:c13_multi_check", call="MultiTensor.allclose"))
            continue
        vals.append((xv(zero), Fraction(tol), [(k, wire_tensor(s)) for k, s in blocks_a.items()],
                     [(k, wire_tensor(s)) for k, s in blocks_b.items()], impl))
        descs.append(desc)
    return vals, descs

# ---------------------------------------------------------------------------- driver
CMP_CODES = {1: "answered True although the denoted dense tensors differ in some cell (or in shape)",
             2: "answered False although the denoted dense tensors agree in every cell",
             3: "raised an exception", 10: "answer differs from the Gallina model", 11: "the model failed", 20: "malformed input (harness)"}

def run(tier, seed):
    rng = random.Random(seed * 1000003 + 13)
    quick = tier == "quick"
    violations = []
    uni = universe(QUICK_SHAPES if quick else THOROUGH_SHAPES)
    # the generator's patterns must be typed (extracted has_type of C06)
    from harness.props.C06 import TYPED
    tvals = [(vax, [U.tcode(t) for t in ts]) for combos in uni.values() for ts, pats in combos for vax in pats]
    S = Stream()
    pairs_seen = set(); nontrivial = set(); n_pairs = 0
    pair_budget = 1200 if quick else 10 ** 9
    all_pairs = []
    for shp, combos in uni.items():
        for ts, pats in combos:
            for vt in pats:
                for vu in pats:
                    all_pairs.append((shp, ts, vt, shift(vu, 20), False))
                # pairs sharing physical axes with vt
                sh = shared_partners(ts, vt)
                for vu in (sh if not quick else rng.sample(sh, min(4, len(sh)))):
                    all_pairs.append((shp, ts, vt, vu, True))
    n_universe = len(all_pairs)
    if len(all_pairs) > pair_budget:
        rng.shuffle(all_pairs); all_pairs = all_pairs[:pair_budget]
    for shp, ts, vt, vu, shared in all_pairs:
        n_pairs += 1
        key = repr((vt, vu)); pairs_seen.add(key)
        if any(e[0] != "Phys" for e in vt + vu) or len({e[1][0] for e in vt if e[0] == "Phys"}) < len(vt) \
           or len({e[1][0] for e in vu if e[0] == "Phys"}) < len(vu):
            nontrivial.add(key)
        variants = [rng.choice(VARIANTS)] if quick else VARIANTS
        for variant in variants:
            kind = "bool" if rng.random() < 0.06 else "float"
            try:
                st, su, info = make_pair(rng, ts, vt, vu, variant, kind=kind)
                run_pair(S, rng, st, su, info, violations, all_tols=(not quick and rng.random() < 0.15),
                         reps=(rng.random() < (0.25 if quick else 0.1)))
                if rng.random() < (0.15 if quick else 0.05):
                    s2 = repatterned(rng, st, [p for ts2, pats in uni[shp] if ts2 == ts for p in pats])
                    if s2 is not None:
                        run_pair(S, rng, st, s2, dict(info, variant="repatterned", supports="repatterned"), violations, reps=False)
                if rng.random() < (0.2 if quick else 0.1):
                    default_cases(S, rng, st, violations)
            except Exception as ex:
                violations.append(Violation("harness: pair raised %r" % (ex,), case=dict(vt=vt, vu=vu, variant=variant),
                                            observed=traceback.format_exc()[-1500:], corr="harness", failing_input_found=False))
    n_typed_vals = len(S.vals)
    for tt, vt, vu in mixed_pairs(rng, 120 if quick else 1500):
        try:
            st, su, info = make_pair(rng, tt, vt, vu, rng.choice(VARIANTS))
            run_pair(S, rng, st, su, dict(info, mixed=True), violations, reps=False)
        except Exception as ex:
            violations.append(Violation("harness: mixed pair raised %r" % (ex,), case=dict(vt=vt, vu=vu),
                                        observed=traceback.format_exc()[-1500:], corr="harness", failing_input_found=False))
    mvals, mdescs = multi_cases(rng, uni, 250 if quick else 4000, violations)
    # ---- model side
    from concurrent.futures import ThreadPoolExecutor
    jobs = [(TYPED, tvals, "c13typed", 10), (CMP, S.vals, "c13cmp", 40), (MULTI, mvals, "c13multi", 15)]
    with ThreadPoolExecutor(max_workers=3) as ex:
        results = list(ex.map(lambda j: run_model(j[0], j[1], seed=seed, tag=j[2], coq_sample=j[3]), jobs))
    (tcodes, k1), (codes, k2), (mcodes, k3) = results
    for v, c in zip(tvals, tcodes):
        if c: raise AssertionError("C13 harness: generator produced an ill-typed pattern (code %d): %r" % (c, v))
    verd = {}; truth = {"True": 0, "False": 0}; premise_false = []
    mixed = dict(cases=0, unify_warned=0, wrong_answers=0, premise_false=0)
    for v, d, c in zip(S.vals, S.desc, codes):
        is_mixed = bool(d["info"].get("mixed"))
        if is_mixed:
            mixed["cases"] += 1; mixed["unify_warned"] += bool(d["warned"]); mixed["premise_false"] += (c == 30)
            if c in (1, 2) and d["warned"]:
                # outside the typed domain; the library itself warned about the index types
                mixed["wrong_answers"] += 1
                violations.append(Violation("%s on operands typed by different sum decompositions of a dimension: %s (the library warned 'index type mismatch' and went on)" % (d["mode"], CMP_CODES[c]),
                                            case=d, observed=v[-1], expected=0 if c == 1 else 1,
                                            oracle="dense_pointwise (pointwise comparison of the dense denotations, exact)",
                                            corr="C13_equal_mixed_types_refuted (the premise compare_pre_b is false for the pair)",
                                            call="PatternedTensor.%s" % d["mode"], finding_key="mixed_index_types_unify_warns"))
                continue
            if c == 30: continue
        else:
            verd[c] = verd.get(c, 0) + 1
            if d["warned"]:
                violations.append(Violation("unify warned 'index type mismatch' on a typed pair", case=d, corr="corr:c13_check (typed stream)",
                                            failing_input_found=False, call="PatternedTensor.%s" % d["mode"]))
        if c == 30:
            # answer right, model agrees, but the boolean premise of C13_equal_correct is false for the pair
            if len(premise_false) < 5: premise_false.append(d)
            c = 0
        if c == 0:
            truth["True" if v[-1] == 1 else "False"] += 1
            continue
        oracle = c < 10
        violations.append(Violation("%s (%s): %s (verdict %d)" % (d["mode"], d["info"].get("role"), CMP_CODES.get(c, "?"), c), case=d,
                                    observed=v[-1], expected=None if not oracle else (0 if c == 1 else 1),
                                    oracle="dense_pointwise / dense_default (pointwise comparison of the dense denotations, exact)" if oracle else None,
                                    corr="C13_equal_correct / C13_allclose_correct; corr:c13_check (Model.PTEqual vs fggs.indices)",
                                    failing_input_found=oracle, call="PatternedTensor.%s" % d["mode"]))
    mverd = {}
    for v, d, c in zip(mvals, mdescs, mcodes):
        mverd[c] = mverd.get(c, 0) + 1
        if c == 0: continue
        oracle = c < 10
        violations.append(Violation("MultiTensor.allclose: %s (verdict %d)" % (CMP_CODES.get(c, "?"), c), case=d, observed=v[-1],
                                    oracle="mt_spec (cell by cell, absent block = zero)" if oracle else None,
                                    corr="C13_multi_absent_is_zero; corr:c13_multi_check", failing_input_found=oracle,
                                    call="MultiTensor.allclose"))
    # the third voice (torch on independently computed densifications) does not decide; it is tallied against the Coq oracle
    voice = dict(compared=0, agrees_with_coq_oracle=0, disagrees_with_coq_oracle=0, errors=0, samples=[])
    for v, d, c, tv in zip(S.vals, S.desc, codes, S.tv):
        if tv is None: continue
        if isinstance(tv, str): voice["errors"] += 1; continue
        voice["compared"] += 1
        truth_coq = bool(v[-1]) if c in (0, 30) else (not bool(v[-1])) if c in (1, 2) else None
        if truth_coq is None: continue
        if tv == truth_coq: voice["agrees_with_coq_oracle"] += 1
        else:
            voice["disagrees_with_coq_oracle"] += 1
            if len(voice["samples"]) < 5: voice["samples"].append(dict(case=d, torch=tv, coq_oracle=truth_coq))
    if voice["disagrees_with_coq_oracle"]:
        print("note: torch.equal/allclose on the densifications disagrees with the Coq oracle on %d cases (see evidence; not deciding)" % voice["disagrees_with_coq_oracle"])
    samples = [dict(S.desc[i], impl=S.vals[i][-1]) for i in sorted(rng.sample(range(len(S.desc)), min(4, len(S.desc))))]
    cov = dict(evaluations=len(S.vals) + len(mvals), distinct_nontrivial=len(nontrivial),
               rule="distinct (pattern of t, pattern of u) pairs in which at least one pattern is not a plain dense pattern (a non-physical axis or a repeated physical axis)",
               pattern_pairs=dict(universe=n_universe, run=n_pairs, distinct=len(pairs_seen)),
               patterns_per_shape={repr(s): sum(len(p) for _, p in c) for s, c in uni.items()},
               histogram=S.hist, verdicts=verd, impl_answers_accepted=truth,
               theorem_premise=dict(evaluated_on="every equal/allclose case of equal shapes (compare_pre_b inside c13_check)",
                                    false_on=verd.get(30, 0), samples=premise_false),
               mixed_index_types_stream=mixed,
               multi=dict(cases=len(mvals), verdicts=mverd, impl_answers={str(k): sum(1 for v in mvals if v[-1] == k) for k in (0, 1, 2)}),
               third_voice_torch=voice, kernel_reevaluated=k1 + k2 + k3, samples=samples, open_items=OPEN_ITEMS)
    return cov, violations

OPEN_ITEMS = [
    "The premise is now derived from typing, UNBOUNDED (notes/UNIFY.md): C13_equal_correct_typed / C13_allclose_correct_typed / C13_compare_correct_typed need no executable premise -- for every pair of well-formed operands typed alike in one context over good index types (typed_pair; physical axes may be shared, the freshening path is covered), whenever the model answers Ok b, b is the truth about the two dense tensors; C13_overlap_typed is the bridge (the stride-built views enumerate the coincidences, each once), from C06_unify_complete and a theory of well-typed acyclic substitutions (Proofs/Axis_typed.v, Axis_rank.v, Axis_stride_typed.v). CLOSED (notes/UNIFY.md section 6): the model always answers on typed pairs -- C13_equal_total_typed / C13_allclose_total_typed / C13_compare_total_typed are premise-free and total (exists b, model = Ok b, and b is the truth), C13_model_total_typed / C13_compare_pre_typed (the model of overlap does not fail, hence compare_pre_b = true) have lost the side condition `tyfuel <= unify_fuel`: the fuel formula of the model of unify was refuted (C06_unify_fuel_old_refuted, a finding about the model only) and replaced by one proved sufficient for all typed patterns (C06_unify_complete_model_fuel); stride / fv fuel and the debug check of project() were already unconditional. The bounded theorems (C13_overlap_exact_upto12, _2d_upto6, _small_shapes) and the in-check evaluation of compare_pre_b (verdict 30) are kept as cross-checks",
    "float rounding of torch.isclose's threshold atol + rtol*|y| is not modelled (exact rationals); generated values keep a margin of more than 1e-9",
    "MultiTensor.shouldStop's debugging variant (disabled in /repo by `shouldStop = allclose`) is not modelled",
    "F23 (known finding, outside the typed domain): operands typed by different sum decompositions of one dimension; the model follows the unrepaired code",
]

def _fix(x):
    if isinstance(x, list):
        if len(x) == 2 and x[0] == "Phys": return ("Phys", (x[1][0], x[1][1]))
        if len(x) == 2 and x[0] == "Prod": return ("Prod", [_fix(y) for y in x[1]])
        if len(x) == 2 and x[0] == "Sum": return ("Sum", (x[1][0], _fix(x[1][1]), x[1][2]))
        return [_fix(y) for y in x]
    return x

def _unjson_spec(s):
    def val(v):
        if v == "nan": return NAN
        if v == "inf": return INF
        if v == "-inf": return -INF
        return v
    return dict(vaxes=_fix(s["vaxes"]), paxes=[tuple(p) for p in s["paxes"]], default=val(s["default"]), dtype=s["dtype"],
                values=[val(v) for v in s["values"]])

def replay(path):
    r = json.load(open(path))
    c = r["case"]
    if not isinstance(c, dict) or "mode" not in c:
        print("cannot replay this case automatically; re-run bin/check C13 %s with VERIF_SEED=%s" % (r.get("tier"), r.get("seed")))
        return 1
    mode = ["equal", "allclose", "equal_default", "allclose_default"].index(c["mode"])
    st = _unjson_spec(c["t"]); su = _unjson_spec(c["u"]) if c.get("u") else st
    w = U.World(); t = U.build_tensor(st, w); u = U.build_tensor(su, w) if su is not st else t
    rtol, atol, en = c["rtol"], c["atol"], c["equal_nan"]
    f = [lambda: t.equal(u), lambda: t.allclose(u, rtol=rtol, atol=atol, equal_nan=en), lambda: t.equal_default(),
         lambda: t.allclose_default(rtol=rtol, atol=atol)][mode]
    impl = call(f)
    print("t =", st); print("u =", su); print("implementation answers", impl)
    if isinstance(impl, tuple): return 1
    code = run_coq(CMP, [(mode, Fraction(rtol), Fraction(atol), bool(en), wire_tensor(st), wire_tensor(su), impl)], tag="replay")[0]
    print("verdict code (vm_compute in the kernel):", code, CMP_CODES.get(code, ""))
    return 1 if code else 0

MANIFEST = dict(
    level="proof",
    text="Coq theorems about a Gallina model of PatternedTensor.equal / allclose / equal_default / allclose_default and MultiTensor.allclose that follows the code statement by statement (size test, freshening, per-element verdicts against the other side's default, unification of the patterns, the two projected views, the count n = cells + overlap, the final conjunction): for well-formed operands typed alike over good index types (unbounded: the views built from the unifier enumerate exactly the coincidences of the two patterns, derived from unify soundness + completeness on typed patterns; also stated with a boolean premise that is discharged in the kernel on the bounded typed universes), the model answers True exactly when the two denoted dense tensors have the same shape and satisfy the comparison cell by cell (the counting argument n <= |t| + |u| iff no cell is unbacked on both sides is proved by inclusion-exclusion on the two supports); symmetry, reflexivity and representation insensitivity are corollaries; MultiTensor.allclose reads an absent block as zero. The model is tied to /repo by running both on all pairs of typed patterns over small shapes with steered value assignments; every implementation answer is judged by the extracted oracle 'pointwise comparison of the brute-force dense denotations' on exact rationals.",
    note="Trusted: Coq kernel + vm_compute, extraction cross-checked against vm_compute, the Python harness (numbering of PhysicalAxis objects, value generation with exact dyadics), torch's dense kernels as reference semantics. The premise-free theorems C13_equal_total_typed / C13_allclose_total_typed hold for all typed pairs: the model answers (the fuel formula of the model of unify is proved sufficient, C06_unify_complete_model_fuel) and the answer is the truth about the two dense tensors.",
    technique="Coq proof (model + theorems) + model/implementation correspondence with a verified brute-force oracle + differential third voice (torch on densifications) + metamorphic instances (symmetry, clone/freshen/densify/re-pattern)",
    design_ref="DESIGN.md section 6, C13; Appendix A.6, A.7")
