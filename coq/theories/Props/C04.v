(** C04 — placeholder until Proofs/Viterbi_proofs.v is in. *)
From Coq Require Import List Arith PeanoNat.
Require Import Fggs.Model.Semiring Fggs.Model.SumProduct Fggs.Model.Viterbi.
Theorem C04_depth_pos : forall t, 1 <= depth t.
Proof. intros [ri a ch]. simpl. apply le_n_S, Nat.le_0_l. Qed.
Print Assumptions C04_depth_pos.
