(** C04 — viterbi returns a well-formed derivation of maximal weight.
    Only property theorems live here, each closed by [exact] and followed by Print Assumptions.

    The implementation is judged at the property's observation level: the derivation returned by
    fggs.viterbi is converted to a [dtree] and handed, with derive()'s re-scored weight and the
    observed sum_product(semiring=Viterbi) value, to [vit_check] (Model/Viterbi.v).  The theorems
    say what verdict 0 means:
      - [wf_dtree_b] decides the Prop [wf_dtree] (Proofs/SP_trees.v): the rule belongs to the
        nonterminal rewritten, every node of the rule instance has a value in its domain, the
        external nodes agree with the parent's assignment, exactly one child per edge (a
        well-formed subtree for a nonterminal edge, none for a terminal edge);
      - in the Viterbi semiring (max, +) every well-formed tree's weight is below the Kleene
        iterate at its depth, hence below the exact least fixed point computed by [enclosure];
        and that fixed point IS a maximum over the well-formed trees of bounded depth, attained
        by one of them unless it is -inf;
      - so "weight t = optimum" means: t is optimal among ALL derivations and assignments;
      - [weight] is the product, over the rule instances of the tree, of the instance's terminal
        factor entries = the score of derive()'s factor graph under derive()'s assignment.
    The law records of the carrier ([sr_ring trop_ops], [sr_ordered trop_ops]) are proved in
    Proofs/Viterbi_trop.v (restated here), so nothing below has a premise about the semiring. *)
From Coq Require Import QArith Qcanon List Arith Bool PeanoNat.
Import ListNotations.
Require Import Fggs.Model.Semiring Fggs.Model.SCC Fggs.Model.SumProduct Fggs.Model.SumProductCheck
               Fggs.Model.Kleene Fggs.Model.EReal Fggs.Model.Trop Fggs.Model.Viterbi Fggs.Model.ViterbiAlg.
Require Import Fggs.Proofs.SP_mono Fggs.Proofs.SP_trees Fggs.Proofs.Viterbi_trop Fggs.Proofs.Viterbi_proofs
               Fggs.Proofs.Viterbi_examples Fggs.Proofs.Kleene_scc
               Fggs.Proofs.ViterbiAlg_base Fggs.Proofs.ViterbiAlg_loop Fggs.Proofs.ViterbiAlg_recon
               Fggs.Proofs.ViterbiAlg_opt Fggs.Proofs.ViterbiAlg_check Fggs.Proofs.ViterbiAlg_main
               Fggs.Proofs.ViterbiAlg_examples Fggs.Proofs.ViterbiAlg_rhsasst.
Local Open Scope nat_scope.

(** * 0. the carrier: (max, +) on [-inf, +inf] is an ordered commutative semiring *)
Theorem C04_trop_ring : sr_ring trop_ops.
Proof. exact vt_trop_ring. Qed.
Print Assumptions C04_trop_ring.

Theorem C04_trop_ordered : sr_ordered trop_ops.
Proof. exact vt_trop_ordered. Qed.
Print Assumptions C04_trop_ordered.

(** max is an upper bound of its arguments, returns one of them, and is idempotent *)
Theorem C04_tmax_upper_bound : forall x y, tle x (tmax x y) /\ tle y (tmax x y).
Proof. exact (fun x y => conj (vt_tle_max_l x y) (vt_tle_max_r x y)). Qed.
Print Assumptions C04_tmax_upper_bound.

Theorem C04_tmax_selective : forall x y, tmax x y = x \/ tmax x y = y.
Proof. exact vt_tmax_cases. Qed.
Print Assumptions C04_tmax_selective.

Theorem C04_tmax_idempotent : forall x, tmax x x = x.
Proof. exact vt_tmax_idem. Qed.
Print Assumptions C04_tmax_idempotent.

(** the boolean tests used by the check reflect the order and Leibniz equality *)
Theorem C04_tleb_reflect : forall x y, tleb x y = true <-> tle x y.
Proof. exact vt_tleb_iff. Qed.
Print Assumptions C04_tleb_reflect.

Theorem C04_teqb_reflect : forall x y, teqb x y = true <-> x = y.
Proof. exact vt_teqb_iff. Qed.
Print Assumptions C04_teqb_reflect.

(** * 1. the well-formedness test decides the Prop, for every grammar (no guard needed:
    [wf_dtree_b] compares the assignment with the node sizes coordinate by coordinate, which is
    membership in [all_assts]; the extra length test on the children is implied by the
    one-child-per-edge clause) *)
Theorem C04_wf_reflect :
  forall G t X xi, wf_dtree_b G X xi t = true <-> wf_dtree G X xi t.
Proof. exact wf_reflect. Qed.
Print Assumptions C04_wf_reflect.

(** the model's [depth] (Model/Viterbi.v) is the [depth] of Proofs/SP_trees.v *)
Theorem C04_depth_agrees : forall t, Viterbi.depth t = SP_trees.depth t.
Proof. exact depth_eq. Qed.
Print Assumptions C04_depth_agrees.

Theorem C04_depth_pos : forall t, 1 <= Viterbi.depth t.
Proof. exact depth_pos. Qed.
Print Assumptions C04_depth_pos.

(** * 2. every well-formed tree is below the Kleene iterate at its depth *)
(** generic: any ordered commutative semiring (a <= a + b follows from 0 <= b) *)
Theorem C04_tree_weight_below_kleene_generic :
  forall R (o : sr_ops R), sr_ring o -> sr_ordered o ->
  forall G (w : env (R:=R)) X xi t,
    is_term G X = false -> wf_dtree G X xi t ->
    le o (weight o G w t) (Zk o G w (Viterbi.depth t) X xi).
Proof. exact (@tree_weight_below_Zk). Qed.
Print Assumptions C04_tree_weight_below_kleene_generic.

(** Viterbi.  The guard [is_term G X = false] is needed because [Zk] reads the terminal weight
    at a terminal label; it follows from [wf_grammar G] (second form) since the tree's root rule
    rewrites X *)
Theorem C04_tree_weight_below_kleene :
  forall G (w : env (R:=trop)) X xi t,
    is_term G X = false -> wf_dtree G X xi t ->
    tle (weight trop_ops G w t) (Zk trop_ops G w (Viterbi.depth t) X xi).
Proof. exact trop_tree_weight_below_kleene. Qed.
Print Assumptions C04_tree_weight_below_kleene.

Theorem C04_tree_weight_below_kleene_wf :
  forall G (w : env (R:=trop)) X xi t,
    wf_grammar G = true -> wf_dtree G X xi t ->
    tle (weight trop_ops G w t) (Zk trop_ops G w (Viterbi.depth t) X xi).
Proof. exact trop_tree_weight_below_kleene_wf. Qed.
Print Assumptions C04_tree_weight_below_kleene_wf.

(** a well-formed tree of a well-formed grammar is a tree of a nonterminal of the grammar at an
    in-range external assignment (so the theorems below need no range premise on xi) *)
Theorem C04_wf_tree_in_range :
  forall G X xi t, wf_grammar G = true -> wf_dtree G X xi t ->
    In X (nonterminals G) /\ In xi (all_assts (lshape G X)).
Proof. exact wf_dtree_in_range. Qed.
Print Assumptions C04_wf_tree_in_range.

(** * 3. the value of the exact enclosure is the optimum over ALL derivations *)
(** upper bound for every nonterminal, every external assignment, every well-formed tree of
    any depth; and the value is the Kleene iterate number k <= 4K = the max over the well-formed
    trees of depth <= k, attained by one of them unless it is -inf *)
Theorem C04_optimal :
  forall G (w : env (R:=trop)) K lo u,
    wf_grammar G = true ->
    enclosure trop_ops (fun x => x) (fun x => x) tleb G w K = Some (lo, u) ->
    (forall X xi t, wf_dtree G X xi t -> tle (weight trop_ops G w t) (env_of trop_ops lo X xi))
    /\ exists k, k <= 4 * K /\
       forall X xi, In X (nonterminals G) -> In xi (all_assts (lshape G X)) ->
         env_of trop_ops lo X xi = Zk trop_ops G w k X xi
         /\ Zk trop_ops G w k X xi = tree_sum trop_ops G w k X xi
         /\ (env_of trop_ops lo X xi <> NInf ->
             exists t, wf_dtree G X xi t /\ Viterbi.depth t <= k
                       /\ weight trop_ops G w t = env_of trop_ops lo X xi).
Proof. exact trop_optimal. Qed.
Print Assumptions C04_optimal.

(** * 4. soundness of the check function *)
(** verdict 0 means: a derivation was returned; it is well formed for the start symbol at xi; its
    weight is finite; no well-formed derivation of the start symbol at xi (of any depth, with any
    assignment to the internal nodes) weighs more; that weight is the exact least fixed point
    (a Kleene iterate that bounds all Kleene iterates); the observed sum_product(Viterbi)
    interval contains it; derive()'s re-scored weight equals it *)
Theorem C04_check_sound :
  forall gw ws xi K kind t dw spv,
    vit_check (gw, ws, xi, K, (kind, t, dw, spv)) = 0 ->
    let G := grammar_of_w gw in
    let w := env_of trop_ops (weights_tmt trop_of G ws) in
    kind = 0 /\ wf_grammar G = true
    /\ wf_dtree G (g_start G) xi t
    /\ (exists q, weight trop_ops G w t = TFin q)
    /\ (forall t', wf_dtree G (g_start G) xi t' -> tle (weight trop_ops G w t') (weight trop_ops G w t))
    /\ (exists lo u k, enclosure trop_ops (fun x => x) (fun x => x) tleb G w K = Some (lo, u)
                       /\ weight trop_ops G w t = env_of trop_ops lo (g_start G) xi
                       /\ weight trop_ops G w t = Zk trop_ops G w k (g_start G) xi
                       /\ forall k', tle (Zk trop_ops G w k' (g_start G) xi) (weight trop_ops G w t))
    /\ tle (trop_of (fst spv)) (weight trop_ops G w t) /\ tle (weight trop_ops G w t) (trop_of (snd spv))
    /\ trop_of dw = weight trop_ops G w t.
Proof. exact vit_check_sound. Qed.
Print Assumptions C04_check_sound.

(** * 5. the weight of a derivation is the score of derive()'s factor graph *)
(** [flatten t]: the rule instances (rule index, assignment) of t; [inst_weight]: the product of
    one instance's terminal factor entries; any commutative semiring *)
Theorem C04_weight_is_product :
  forall R (o : sr_ops R), sr_ring o ->
  forall G (w : env (R:=R)) t X xi,
    wf_dtree G X xi t -> weight o G w t = prodS o (flatten t) (inst_weight o G w).
Proof. exact (@weight_is_product). Qed.
Print Assumptions C04_weight_is_product.

(** [tree_factors G t]: one (terminal label, index tuple) per terminal edge of every rule
    instance = the edges of derive()'s factor graph with the values of their attachment nodes *)
Theorem C04_weight_is_factor_product :
  forall R (o : sr_ops R), sr_ring o ->
  forall G (w : env (R:=R)) t X xi,
    wf_dtree G X xi t ->
    weight o G w t = prodS o (tree_factors G t) (fun f => w (fst f) (snd f)).
Proof. exact (@weight_is_factor_product). Qed.
Print Assumptions C04_weight_is_factor_product.

Theorem C04_weight_is_factor_product_viterbi :
  forall G (w : env (R:=trop)) t X xi,
    wf_dtree G X xi t ->
    weight trop_ops G w t = prodS trop_ops (tree_factors G t) (fun f => w (fst f) (snd f)).
Proof. exact (@weight_is_factor_product trop trop_ops vt_trop_ring). Qed.
Print Assumptions C04_weight_is_factor_product_viterbi.

(** * 6. the hypotheses are satisfiable: a recursive grammar with a weight-0 cycle listed
    before the base rule; the check accepts the base-rule derivation and the tie through the
    cycle, and -1 bounds all (infinitely many) derivations *)
Theorem C04_example_check_accepts :
  vit_check (ex_gw, ex_ws, [], 2, (0, ex_t, ex_m1, (ex_m1, ex_m1))) = 0
  /\ vit_check (ex_gw, ex_ws, [], 2, (0, ex_t_cycle, ex_m1, (ex_m1, ex_m1))) = 0.
Proof. exact ex_check_accepts. Qed.
Print Assumptions C04_example_check_accepts.

Theorem C04_example_all_trees_below :
  forall t, wf_dtree ex_G 0 [] t -> tle (weight trop_ops ex_G ex_w t) (trop_of ex_m1).
Proof. exact ex_all_trees_below. Qed.
Print Assumptions C04_example_all_trees_below.

(** * 7. the code-shaped model of fggs/viterbi.py (Model/ViterbiAlg.v)
    [argmax_rule], [F_viterbi_model] (value + lhs_pointer + per-rule rhs_pointer per cell, first
    rule filling, overwritten on STRICT improvement), the per-component loop with the pointer
    merge of repair b171ddf ([vstep], [vloop]), [reconstruct_model] with fuel, [viterbi_model].
    The inside of log_viterbi_einsum_forward is taken by contract (maximum + one maximiser; the
    model picks the first in row-major order, the implementation's choice among ties may differ:
    derivations are compared up to ties by [vit_alg_check]). *)

(** the pointer row determines the candidate: what [reconstruct] rebuilds from the externals'
    values and the values of the summed-out nodes is the assignment the arg-max chose *)
Theorem C04_rebuild_roundtrip :
  forall G r xi a, In a (cands G r xi) -> rebuild r xi (sel a (summed r)) = a.
Proof. exact rebuild_roundtrip. Qed.
Print Assumptions C04_rebuild_roundtrip.

(** [reconstruct]'s loop over the edges' nodes with the counter [ii] and the dict [rhs_asst]
    ([rhs_asst_code], modelled statement by statement) computes [rebuild] when the pointer row
    has one entry per summed-out node, and fails (IndexError / assertion) otherwise; [a0]
    witnesses that the parent's assignment is consistent on repeated external nodes *)
Theorem C04_reconstruct_assignment :
  forall r xi ptr a0, sel a0 (r_ext r) = xi ->
    rhs_asst_code r xi ptr
    = if Nat.eqb (length (summed r)) (length ptr) then Some (rebuild r xi ptr) else None.
Proof. exact rhs_asst_code_spec. Qed.
Print Assumptions C04_reconstruct_assignment.

(** ONE evaluation of F_viterbi at a cell: the value is the max over the rules of the max over
    the candidates of the edge product; if it is not -inf, the lhs_pointer names a rule of the
    nonterminal and that rule's rhs_pointer row rebuilds an in-range assignment that agrees
    with the cell on the external nodes and whose edge product IS the value *)
Theorem C04_F_viterbi_cell :
  forall G lk n xi present v lp rps,
    F_cell G lk n xi = (present, v, lp, rps) ->
    length rps = length (rules_of G n)
    /\ present = existsb (labels_ok lk) (rules_of G n)
    /\ v = Fval G (lk_env lk) n xi
    /\ (v <> NInf ->
        exists r ptr, nth_error (rules_of G n) lp = Some r /\ nth lp rps None = Some ptr
          /\ length ptr = length (summed r)
          /\ In (rebuild r xi ptr) (all_assts (node_sizes G r))
          /\ sel (rebuild r xi ptr) (r_ext r) = xi
          /\ edges_prod (lk_env lk) r (rebuild r xi ptr) = v).
Proof. exact F_cell_spec. Qed.
Print Assumptions C04_F_viterbi_cell.

(** the values of the loop are the Kleene iterates of the component's equations, increasing *)
Theorem C04_loop_values :
  forall G w done comp, wf_grammar G = true ->
  forall k n xi, In n comp -> In xi (all_assts (lshape G n)) ->
    rho G w done comp (S k) n xi = Fval G (E G w done comp k) n xi
    /\ tle (rho G w done comp k n xi) (rho G w done comp (S k) n xi).
Proof. exact loop_values. Qed.
Print Assumptions C04_loop_values.

(** C04_ptr_inv.  After ANY number k >= 1 of passes of the loop over a component ([viter k]: values
    and merged pointers), every cell (n, xi) of the component has a value v = [rho k n xi], one
    rhs_pointer slot per rule, and if v is finite: the lhs_pointer names a rule r of n, r's
    rhs_pointer row rebuilds an in-range assignment agreeing with xi on the externals, and the
    product of the edge values at that assignment -- terminal weights, finished components'
    values, and for the component's own nonterminals the values of pass j-1 ([E (j-1)]), j <= k
    being the pass in which the cell last strictly improved -- equals v. *)
Theorem C04_ptr_inv :
  forall G w done comp, wf_grammar G = true ->
  forall k, 1 <= k ->
  forall n xi, In n comp -> In xi (all_assts (lshape G n)) ->
  exists S nr v lp rps,
    viter G w done comp k = Some S /\ aget S n = Some nr /\ nt_cell nr xi = (v, lp, rps)
    /\ v = rho G w done comp k n xi
    /\ length rps = length (rules_of G n)
    /\ (v <> NInf ->
        exists j r ptr,
          1 <= j <= k /\ rho G w done comp j n xi = v /\ rho G w done comp (j - 1) n xi <> v
          /\ nth_error (rules_of G n) lp = Some r /\ nth lp rps None = Some ptr
          /\ length ptr = length (summed r)
          /\ In (rebuild r xi ptr) (all_assts (node_sizes G r))
          /\ sel (rebuild r xi ptr) (r_ext r) = xi
          /\ edges_prod (E G w done comp (j - 1)) r (rebuild r xi ptr) = v).
Proof. exact ptr_inv_explicit. Qed.
Print Assumptions C04_ptr_inv.

(** what the loop returns is one of these states: [viter (K+1)] for some K < kmax, and its ghost
    flag says whether the last two iterates were exactly equal *)
Theorem C04_loop_returns_iterate :
  forall G w done comp tol kmax st c,
    vloop G w tol done comp kmax None None = Some (st, c) ->
    exists K, K < kmax /\ viter G w done comp (S K) = Some st
              /\ c = all_equal G comp (viter G w done comp K) st.
Proof. exact loop_returns_iterate. Qed.
Print Assumptions C04_loop_returns_iterate.

(** in a STABLE state (the loop stopped with two equal iterates, or the component is trivial) the
    values a finite cell's pointer was recorded with are the children's current values -- so the
    pass in which a child inside the component reached its value is strictly earlier *)
Theorem C04_recorded_values_are_current :
  forall G w done comp, wf_grammar G = true ->
  forall M n xi q j r ptr,
    stable G w done comp M -> In n comp -> In xi (all_assts (lshape G n)) ->
    rho G w done comp M n xi = TFin q -> j <= M -> In r (rules_of G n) ->
    good_ptr G (E G w done comp j) r xi ptr (TFin q) ->
    forall ed, In ed (r_edges r) ->
      E G w done comp M (fst ed) (sel (rebuild r xi ptr) (snd ed))
      = E G w done comp j (fst ed) (sel (rebuild r xi ptr) (snd ed)).
Proof. exact stable_child. Qed.
Print Assumptions C04_recorded_values_are_current.

(** C04_reconstruct_terminates.  If every iterated component ended with two exactly equal
    iterates (flag [true]; components pairwise disjoint), then for EVERY cell (X, xi) of the
    final tables with a finite value, [reconstruct_model] with any fuel >= #components * (kmax+1)
    returns a derivation that is well formed for (X, xi) and whose weight is the cell's value.
    (One level of recursion per (component, pass): the recorded-at pass strictly decreases from
    a cell to the children inside its component.)  Without the flag the statement is false:
    [C04_unconverged_weight_refuted]. *)
Theorem C04_reconstruct_terminates :
  forall G w, wf_grammar G = true ->
  forall order tol kmax T,
    NoDup (concat order) ->
    viterbi_tables G w order tol kmax = Some (T, true) ->
    forall X xi, In xi (all_assts (lshape G X)) -> (exists q, tables_val T X xi = TFin q) ->
    forall fuel, length order * S kmax <= fuel ->
      exists t, reconstruct_model G T fuel X xi = Some t
                /\ wf_dtree G X xi t /\ wf_dtree_b G X xi t = true
                /\ weight trop_ops G w t = tables_val T X xi.
Proof. exact reconstruct_terminates_explicit. Qed.
Print Assumptions C04_reconstruct_terminates.

(** the value tables are the least fixed point of the grammar's equations (max, +): a pre-fixed
    point of [step], below every pre-fixed point, above every Kleene iterate and above the
    weight of every well-formed derivation of every nonterminal *)
Theorem C04_tables_lfp :
  forall G w, wf_grammar G = true ->
  forall order tol kmax T,
    order_ok G order -> viterbi_tables G w order tol kmax = Some (T, true) ->
    env_le_on trop_ops G (step trop_ops G w (tables_val T)) (tables_val T)
    /\ (forall v : env (R:=trop), env_le_on trop_ops G (step trop_ops G w v) v -> env_le_on trop_ops G (tables_val T) v)
    /\ (forall k, env_le_on trop_ops G (Zk trop_ops G w k) (tables_val T))
    /\ (forall X xi t, wf_dtree G X xi t -> tle (weight trop_ops G w t) (tables_val T X xi)).
Proof. exact tables_lfp. Qed.
Print Assumptions C04_tables_lfp.

(** C04_alg_optimal.  For a valid order of components (dependency order, every nonterminal once:
    [order_ok], implied by the verified oracle [scc_ok] of C19), when every loop stopped with
    two equal iterates and the start cell's value is finite: [viterbi_model] returns a
    derivation; it is well formed; its weight is the start cell's value; NO derivation of the
    start symbol at xi weighs more; every Kleene iterate is below it; and it is the value of
    the exact enclosure of Model/Kleene.v (the optimum [vit_check] uses) whenever that exists *)
Theorem C04_alg_optimal :
  forall G w, wf_grammar G = true ->
  forall order tol kmax T xi,
    order_ok G order -> viterbi_tables G w order tol kmax = Some (T, true) ->
    In xi (all_assts (lshape G (g_start G))) -> (exists q, tables_val T (g_start G) xi = TFin q) ->
    exists t, viterbi_model G w order xi tol kmax = Some t
      /\ wf_dtree G (g_start G) xi t
      /\ weight trop_ops G w t = tables_val T (g_start G) xi
      /\ (forall t', wf_dtree G (g_start G) xi t' -> tle (weight trop_ops G w t') (weight trop_ops G w t))
      /\ (forall k, tle (Zk trop_ops G w k (g_start G) xi) (weight trop_ops G w t))
      /\ (forall K lo u, enclosure trop_ops (fun x => x) (fun x => x) tleb G w K = Some (lo, u) ->
                         weight trop_ops G w t = env_of trop_ops lo (g_start G) xi).
Proof. exact alg_optimal. Qed.
Print Assumptions C04_alg_optimal.

(** the order Tarjan's model computes is accepted by [scc_ok] (C19); what [scc_ok] accepts is valid *)
Theorem C04_scc_order_valid :
  forall G order, scc_ok (nt_graph G) order = true -> order_ok G order.
Proof. exact scc_ok_order_ok. Qed.
Print Assumptions C04_scc_order_valid.

(** soundness of the second check function: verdict 0 (the implementation's derivation is the
    model's) or 32 (they differ by tie-breaking only) means: a derivation was returned, it is
    well formed, its weight is finite and equals the model's start cell, no derivation of the
    start symbol at xi weighs more, and the model itself returns a well-formed derivation of the
    same weight *)
Theorem C04_alg_check_sound :
  forall gw ws xi kmax tol kind t,
    let c := vit_alg_check (gw, ws, xi, (kmax, tol), (kind, t)) in
    c = 0 \/ c = 32 ->
    let G := grammar_of_w gw in
    let w := env_of trop_ops (weights_tmt trop_of G ws) in
    kind = 0 /\ wf_grammar G = true
    /\ wf_dtree G (g_start G) xi t
    /\ (exists q, weight trop_ops G w t = TFin q)
    /\ (forall t', wf_dtree G (g_start G) xi t' -> tle (weight trop_ops G w t') (weight trop_ops G w t))
    /\ exists order T tm,
         scc (nt_graph G) = Some order /\ order_ok G order
         /\ viterbi_tables G w order tol kmax = Some (T, true)
         /\ weight trop_ops G w t = tables_val T (g_start G) xi
         /\ viterbi_model G w order xi tol kmax = Some tm
         /\ wf_dtree G (g_start G) xi tm
         /\ weight trop_ops G w tm = weight trop_ops G w t.
Proof. exact vit_alg_check_sound. Qed.
Print Assumptions C04_alg_check_sound.

(** C04_old_pointer_loop_refuted: the discipline BEFORE repair b171ddf (pointers of the last
    evaluation only, [viterbi_old_model]) on  X -> X a | b  (a = 0, b = -1, cycle rule first):
    [reconstruct_model] returns nothing for EVERY fuel (the pointer of X names the cycle rule,
    whose child is X itself); the repaired discipline returns the derivation b of weight -1 *)
Theorem C04_old_pointer_loop_refuted :
  wf_grammar lp_G = true
  /\ (forall fuel, viterbi_old_model lp_G lp_w lp_order [] tol6 1000 fuel = None)
  /\ viterbi_model lp_G lp_w lp_order [] tol6 1000 = Some (DT 1 [] [None])
  /\ wf_dtree lp_G 0 [] (DT 1 [] [None])
  /\ weight trop_ops lp_G lp_w (DT 1 [] [None]) = TFin (Q2Qc ((-1) # 1)).
Proof. exact old_pointer_loop_refuted. Qed.
Print Assumptions C04_old_pointer_loop_refuted.

(** the stability premise of C04_reconstruct_terminates cannot be dropped: cut off by kmax = 3,
    the cell (B, [2]) holds -2 but the derivation reconstructed from it weighs 0 *)
Theorem C04_unconverged_weight_refuted :
  wf_grammar uc_G = true /\ order_ok uc_G uc_order
  /\ viterbi_tables uc_G uc_w uc_order tol6 3 = Some (uc_T 3, false)
  /\ tables_val (uc_T 3) 1 [2] = TFin (Q2Qc ((-2) # 1))
  /\ exists t, reconstruct_model uc_G (uc_T 3) (fuel_bound uc_order 3) 1 [2] = Some t
               /\ wf_dtree uc_G 1 [2] t
               /\ weight trop_ops uc_G uc_w t = TFin (Q2Qc (0 # 1)).
Proof. exact unconverged_weight_refuted. Qed.
Print Assumptions C04_unconverged_weight_refuted.

(** the hypotheses are satisfiable (the recursive grammar of section 6, weight-0 cycle first) *)
Theorem C04_example_alg_hyps :
  wf_grammar ex_G = true /\ scc (nt_graph ex_G) = Some ex_order /\ order_ok ex_G ex_order
  /\ viterbi_tables ex_G ex_w ex_order tol6 1000 = Some (ex_T, true)
  /\ In [] (all_assts (lshape ex_G (g_start ex_G)))
  /\ (exists q, tables_val ex_T (g_start ex_G) [] = TFin q).
Proof. exact ex_alg_hyps. Qed.
Print Assumptions C04_example_alg_hyps.

Theorem C04_example_alg_model : viterbi_model ex_G ex_w ex_order [] tol6 1000 = Some ex_t.
Proof. exact ex_alg_model_tree. Qed.
Print Assumptions C04_example_alg_model.

Theorem C04_example_alg_check :
  vit_alg_check (ex_gw, ex_ws, [], (1000, tol6), (0, ex_t)) = 0
  /\ vit_alg_check (ex_gw, ex_ws, [], (1000, tol6), (0, ex_t_cycle)) = 32
  /\ vit_alg_check (ex_gw, ex_ws, [], (1000, tol6), (0, ex_t_sub)) = 10
  /\ vit_alg_check (ex_gw, ex_ws, [], (1000, tol6), (0, ex_t_bad1)) = 5
  /\ vit_alg_check (ex_gw, ex_ws, [], (1000, tol6), (1, ex_t)) = 1.
Proof. exact ex_alg_check. Qed.
Print Assumptions C04_example_alg_check.

(** * 8. histories of calls on the same FGG object (Model/ViterbiHist.v) *)
(** [hist_cases] is the model of "the FGG as it is at the time of the call": the state of call j
    is the initial grammar with the rules added by steps 0..j, and the initial weights with the
    in-place updates of steps 0..j applied in order; earlier observations play no role *)
Require Import Fggs.Model.ViterbiHist Fggs.Proofs.ViterbiHist_proofs.

Theorem C04_hist_state :
  forall gw ws K steps j ups rs xi ob,
    nth_error steps j = Some (ups, rs, xi, ob) ->
    nth_error (hist_cases gw ws K steps) j
    = Some (gw_add gw (flat_map step_rules (firstn (S j) steps)),
            fold_left ws_set (flat_map step_ups (firstn (S j) steps)) ws, xi, K, ob).
Proof. exact hist_cases_nth. Qed.
Print Assumptions C04_hist_state.

(** the in-place update writes exactly one entry of the weight state *)
Theorem C04_hist_update_same :
  forall ws el i v, ws_get ws el i <> None -> ws_get (ws_set ws (el, i, v)) el i = Some v.
Proof. exact ws_set_get_same. Qed.
Print Assumptions C04_hist_update_same.

Theorem C04_hist_update_other :
  forall ws el i v el' i', (el', i') <> (el, i) -> ws_get (ws_set ws (el, i, v)) el' i' = ws_get ws el' i'.
Proof. exact ws_set_get_other. Qed.
Print Assumptions C04_hist_update_other.

(** verdict 0 of the history check: every call is accepted by [vit_check] in ITS state or is
    outside the property there, and at least one call was judged *)
Theorem C04_hist_check_sound :
  forall gw ws K steps,
    vit_hist_check (gw, ws, K, steps) = 0 ->
    (forall c, In c (hist_cases gw ws K steps) -> vit_check c = 0 \/ vit_check c = 30 \/ vit_check c = 31)
    /\ exists c, In c (hist_cases gw ws K steps) /\ vit_check c = 0.
Proof. exact hist_check_sound. Qed.
Print Assumptions C04_hist_check_sound.

(** ... hence every call returned a well-formed derivation that is optimal for the rules and
    weights the object had at that call *)
Theorem C04_hist_check_optimal :
  forall gw ws K steps,
    vit_hist_check (gw, ws, K, steps) = 0 ->
    forall j ups rs xi kind t dw spv,
      nth_error steps j = Some (ups, rs, xi, (kind, t, dw, spv)) ->
      let gwj := gw_add gw (flat_map step_rules (firstn (S j) steps)) in
      let wsj := fold_left ws_set (flat_map step_ups (firstn (S j) steps)) ws in
      let G := grammar_of_w gwj in
      let w := env_of trop_ops (weights_tmt trop_of G wsj) in
      vit_check (gwj, wsj, xi, K, (kind, t, dw, spv)) = 30
      \/ vit_check (gwj, wsj, xi, K, (kind, t, dw, spv)) = 31
      \/ (kind = 0 /\ wf_grammar G = true /\ wf_dtree G (g_start G) xi t
          /\ (exists q, weight trop_ops G w t = TFin q)
          /\ (forall t', wf_dtree G (g_start G) xi t' -> tle (weight trop_ops G w t') (weight trop_ops G w t))
          /\ trop_of dw = weight trop_ops G w t).
Proof. exact hist_check_optimal. Qed.
Print Assumptions C04_hist_check_optimal.

(** a rejecting verdict 100*j + c names the first rejected call and [vit_check]'s verdict on it *)
Theorem C04_hist_check_rejects :
  forall gw ws K steps v,
    vit_hist_check (gw, ws, K, steps) = v -> v <> 0 -> v <> 31 ->
    exists j c, nth_error (hist_cases gw ws K steps) j = Some c
                /\ v = 100 * (S j) + vit_check c
                /\ vit_check c <> 0 /\ vit_check c <> 30 /\ vit_check c <> 31.
Proof. exact hist_check_rejects. Qed.
Print Assumptions C04_hist_check_rejects.

(** examples: a derivation computed from an earlier state of the object is rejected as call 2
    with verdict 6 (206), the currently optimal one is accepted; a rule added between two calls *)
Theorem C04_example_hist :
  vit_hist_check (ex_gw, ex_ws, 2, [ex_step1; ex_step2_fresh]) = 0
  /\ vit_hist_check (ex_gw, ex_ws, 2, [ex_step1; ex_step2_stale]) = 206
  /\ ws_get (fold_left ws_set [ex_upd] ex_ws) 2 1 = Some ex_m3
  /\ ws_get (fold_left ws_set [ex_upd] ex_ws) 2 0 = Some ex_m2.
Proof. exact ex_hist. Qed.
Print Assumptions C04_example_hist.

Theorem C04_example_hist_rules :
  gw_add ex_gw_part [ex_rule3] = ex_gw
  /\ vit_hist_check (ex_gw_part, ex_ws, 2,
                     [([], [], [], (1, ex_t, ex_m1, ((0, 0 # 1), (0, 0 # 1))));
                      ([], [ex_rule3], [], (0, ex_t, ex_m1, (ex_m1, ex_m1)))]) = 0
  /\ vit_hist_check (ex_gw_part, ex_ws, 2,
                     [([], [], [], (1, ex_t, ex_m1, ((0, 0 # 1), (0, 0 # 1))));
                      ([], [ex_rule3], [], (1, ex_t, ex_m1, (ex_m1, ex_m1)))]) = 201.
Proof. exact ex_hist_rules. Qed.
Print Assumptions C04_example_hist_rules.
