(** C04 — viterbi returns a well-formed derivation of maximal weight.
    Only property theorems live here, each closed by [exact] and followed by Print Assumptions.

    The implementation is judged at the property's observation level: the derivation returned by
    fggs.viterbi is converted to a [dtree] and handed, with derive()'s re-scored weight and the
    observed sum_product(semiring=Viterbi) value, to [vit_check] (Model/Viterbi.v).  The theorems
    say what verdict 0 means:
      - [wf_dtree_b] decides the Prop [wf_dtree] (Proofs/SP_trees.v): the rule belongs to the
        nonterminal rewritten, every node of the rule instance has a value in its domain, the
        external nodes agree with the parent's assignment, exactly one child per edge (a
        well-formed subtree for a nonterminal edge, none for a terminal edge);
      - in the Viterbi semiring (max, +) every well-formed tree's weight is below the Kleene
        iterate at its depth, hence below the exact least fixed point computed by [enclosure];
        and that fixed point IS a maximum over the well-formed trees of bounded depth, attained
        by one of them unless it is -inf;
      - so "weight t = optimum" means: t is optimal among ALL derivations and assignments;
      - [weight] is the product, over the rule instances of the tree, of the instance's terminal
        factor entries = the score of derive()'s factor graph under derive()'s assignment.
    The law records of the carrier ([sr_ring trop_ops], [sr_ordered trop_ops]) are proved in
    Proofs/Viterbi_trop.v (restated here), so nothing below has a premise about the semiring. *)
From Coq Require Import QArith Qcanon List Arith Bool PeanoNat.
Import ListNotations.
Require Import Fggs.Model.Semiring Fggs.Model.SCC Fggs.Model.SumProduct Fggs.Model.SumProductCheck
               Fggs.Model.Kleene Fggs.Model.EReal Fggs.Model.Trop Fggs.Model.Viterbi.
Require Import Fggs.Proofs.SP_trees Fggs.Proofs.Viterbi_trop Fggs.Proofs.Viterbi_proofs
               Fggs.Proofs.Viterbi_examples.
Local Open Scope nat_scope.

(** * 0. the carrier: (max, +) on [-inf, +inf] is an ordered commutative semiring *)
Theorem C04_trop_ring : sr_ring trop_ops.
Proof. exact vt_trop_ring. Qed.
Print Assumptions C04_trop_ring.

Theorem C04_trop_ordered : sr_ordered trop_ops.
Proof. exact vt_trop_ordered. Qed.
Print Assumptions C04_trop_ordered.

(** max is an upper bound of its arguments, returns one of them, and is idempotent *)
Theorem C04_tmax_upper_bound : forall x y, tle x (tmax x y) /\ tle y (tmax x y).
Proof. exact (fun x y => conj (vt_tle_max_l x y) (vt_tle_max_r x y)). Qed.
Print Assumptions C04_tmax_upper_bound.

Theorem C04_tmax_selective : forall x y, tmax x y = x \/ tmax x y = y.
Proof. exact vt_tmax_cases. Qed.
Print Assumptions C04_tmax_selective.

Theorem C04_tmax_idempotent : forall x, tmax x x = x.
Proof. exact vt_tmax_idem. Qed.
Print Assumptions C04_tmax_idempotent.

(** the boolean tests used by the check reflect the order and Leibniz equality *)
Theorem C04_tleb_reflect : forall x y, tleb x y = true <-> tle x y.
Proof. exact vt_tleb_iff. Qed.
Print Assumptions C04_tleb_reflect.

Theorem C04_teqb_reflect : forall x y, teqb x y = true <-> x = y.
Proof. exact vt_teqb_iff. Qed.
Print Assumptions C04_teqb_reflect.

(** * 1. the well-formedness test decides the Prop, for every grammar (no guard needed:
    [wf_dtree_b] compares the assignment with the node sizes coordinate by coordinate, which is
    membership in [all_assts]; the extra length test on the children is implied by the
    one-child-per-edge clause) *)
Theorem C04_wf_reflect :
  forall G t X xi, wf_dtree_b G X xi t = true <-> wf_dtree G X xi t.
Proof. exact wf_reflect. Qed.
Print Assumptions C04_wf_reflect.

(** the model's [depth] (Model/Viterbi.v) is the [depth] of Proofs/SP_trees.v *)
Theorem C04_depth_agrees : forall t, Viterbi.depth t = SP_trees.depth t.
Proof. exact depth_eq. Qed.
Print Assumptions C04_depth_agrees.

Theorem C04_depth_pos : forall t, 1 <= Viterbi.depth t.
Proof. exact depth_pos. Qed.
Print Assumptions C04_depth_pos.

(** * 2. every well-formed tree is below the Kleene iterate at its depth *)
(** generic: any ordered commutative semiring (a <= a + b follows from 0 <= b) *)
Theorem C04_tree_weight_below_kleene_generic :
  forall R (o : sr_ops R), sr_ring o -> sr_ordered o ->
  forall G (w : env (R:=R)) X xi t,
    is_term G X = false -> wf_dtree G X xi t ->
    le o (weight o G w t) (Zk o G w (Viterbi.depth t) X xi).
Proof. exact (@tree_weight_below_Zk). Qed.
Print Assumptions C04_tree_weight_below_kleene_generic.

(** Viterbi.  The guard [is_term G X = false] is needed because [Zk] reads the terminal weight
    at a terminal label; it follows from [wf_grammar G] (second form) since the tree's root rule
    rewrites X *)
Theorem C04_tree_weight_below_kleene :
  forall G (w : env (R:=trop)) X xi t,
    is_term G X = false -> wf_dtree G X xi t ->
    tle (weight trop_ops G w t) (Zk trop_ops G w (Viterbi.depth t) X xi).
Proof. exact trop_tree_weight_below_kleene. Qed.
Print Assumptions C04_tree_weight_below_kleene.

Theorem C04_tree_weight_below_kleene_wf :
  forall G (w : env (R:=trop)) X xi t,
    wf_grammar G = true -> wf_dtree G X xi t ->
    tle (weight trop_ops G w t) (Zk trop_ops G w (Viterbi.depth t) X xi).
Proof. exact trop_tree_weight_below_kleene_wf. Qed.
Print Assumptions C04_tree_weight_below_kleene_wf.

(** a well-formed tree of a well-formed grammar is a tree of a nonterminal of the grammar at an
    in-range external assignment (so the theorems below need no range premise on xi) *)
Theorem C04_wf_tree_in_range :
  forall G X xi t, wf_grammar G = true -> wf_dtree G X xi t ->
    In X (nonterminals G) /\ In xi (all_assts (lshape G X)).
Proof. exact wf_dtree_in_range. Qed.
Print Assumptions C04_wf_tree_in_range.

(** * 3. the value of the exact enclosure is the optimum over ALL derivations *)
(** upper bound for every nonterminal, every external assignment, every well-formed tree of
    any depth; and the value is the Kleene iterate number k <= 4K = the max over the well-formed
    trees of depth <= k, attained by one of them unless it is -inf *)
Theorem C04_optimal :
  forall G (w : env (R:=trop)) K lo u,
    wf_grammar G = true ->
    enclosure trop_ops (fun x => x) (fun x => x) tleb G w K = Some (lo, u) ->
    (forall X xi t, wf_dtree G X xi t -> tle (weight trop_ops G w t) (env_of trop_ops lo X xi))
    /\ exists k, k <= 4 * K /\
       forall X xi, In X (nonterminals G) -> In xi (all_assts (lshape G X)) ->
         env_of trop_ops lo X xi = Zk trop_ops G w k X xi
         /\ Zk trop_ops G w k X xi = tree_sum trop_ops G w k X xi
         /\ (env_of trop_ops lo X xi <> NInf ->
             exists t, wf_dtree G X xi t /\ Viterbi.depth t <= k
                       /\ weight trop_ops G w t = env_of trop_ops lo X xi).
Proof. exact trop_optimal. Qed.
Print Assumptions C04_optimal.

(** * 4. soundness of the check function *)
(** verdict 0 means: a derivation was returned; it is well formed for the start symbol at xi; its
    weight is finite; no well-formed derivation of the start symbol at xi (of any depth, with any
    assignment to the internal nodes) weighs more; that weight is the exact least fixed point
    (a Kleene iterate that bounds all Kleene iterates); the observed sum_product(Viterbi)
    interval contains it; derive()'s re-scored weight equals it *)
Theorem C04_check_sound :
  forall gw ws xi K kind t dw spv,
    vit_check (gw, ws, xi, K, (kind, t, dw, spv)) = 0 ->
    let G := grammar_of_w gw in
    let w := env_of trop_ops (weights_tmt trop_of G ws) in
    kind = 0 /\ wf_grammar G = true
    /\ wf_dtree G (g_start G) xi t
    /\ (exists q, weight trop_ops G w t = TFin q)
    /\ (forall t', wf_dtree G (g_start G) xi t' -> tle (weight trop_ops G w t') (weight trop_ops G w t))
    /\ (exists lo u k, enclosure trop_ops (fun x => x) (fun x => x) tleb G w K = Some (lo, u)
                       /\ weight trop_ops G w t = env_of trop_ops lo (g_start G) xi
                       /\ weight trop_ops G w t = Zk trop_ops G w k (g_start G) xi
                       /\ forall k', tle (Zk trop_ops G w k' (g_start G) xi) (weight trop_ops G w t))
    /\ tle (trop_of (fst spv)) (weight trop_ops G w t) /\ tle (weight trop_ops G w t) (trop_of (snd spv))
    /\ trop_of dw = weight trop_ops G w t.
Proof. exact vit_check_sound. Qed.
Print Assumptions C04_check_sound.

(** * 5. the weight of a derivation is the score of derive()'s factor graph *)
(** [flatten t]: the rule instances (rule index, assignment) of t; [inst_weight]: the product of
    one instance's terminal factor entries; any commutative semiring *)
Theorem C04_weight_is_product :
  forall R (o : sr_ops R), sr_ring o ->
  forall G (w : env (R:=R)) t X xi,
    wf_dtree G X xi t -> weight o G w t = prodS o (flatten t) (inst_weight o G w).
Proof. exact (@weight_is_product). Qed.
Print Assumptions C04_weight_is_product.

(** [tree_factors G t]: one (terminal label, index tuple) per terminal edge of every rule
    instance = the edges of derive()'s factor graph with the values of their attachment nodes *)
Theorem C04_weight_is_factor_product :
  forall R (o : sr_ops R), sr_ring o ->
  forall G (w : env (R:=R)) t X xi,
    wf_dtree G X xi t ->
    weight o G w t = prodS o (tree_factors G t) (fun f => w (fst f) (snd f)).
Proof. exact (@weight_is_factor_product). Qed.
Print Assumptions C04_weight_is_factor_product.

Theorem C04_weight_is_factor_product_viterbi :
  forall G (w : env (R:=trop)) t X xi,
    wf_dtree G X xi t ->
    weight trop_ops G w t = prodS trop_ops (tree_factors G t) (fun f => w (fst f) (snd f)).
Proof. exact (@weight_is_factor_product trop trop_ops vt_trop_ring). Qed.
Print Assumptions C04_weight_is_factor_product_viterbi.

(** * 6. the hypotheses are satisfiable: a recursive grammar with a weight-0 cycle listed
    before the base rule; the check accepts the base-rule derivation and the tie through the
    cycle, and -1 bounds all (infinitely many) derivations *)
Theorem C04_example_check_accepts :
  vit_check (ex_gw, ex_ws, [], 2, (0, ex_t, ex_m1, (ex_m1, ex_m1))) = 0
  /\ vit_check (ex_gw, ex_ws, [], 2, (0, ex_t_cycle, ex_m1, (ex_m1, ex_m1))) = 0.
Proof. exact ex_check_accepts. Qed.
Print Assumptions C04_example_check_accepts.

Theorem C04_example_all_trees_below :
  forall t, wf_dtree ex_G 0 [] t -> tle (weight trop_ops ex_G ex_w t) (trop_of ex_m1).
Proof. exact ex_all_trees_below. Qed.
Print Assumptions C04_example_all_trees_below.
