(** C09 -- semiring linear solvers return the least solution of x = A x + b.
    Only property theorems live here, each closed by [exact] and followed by Print Assumptions.

    Generic theorems are over an abstract [o : sr_ops S] with the law records
    [sr_ring o], [sr_ordered o], [sr_star o] as premises (the instances for the carriers
    ereal / trop / bool are proved under C08 in Proofs/SemiringLaws.v).

    [sol_spec o n A b x]    : forall i < n, x i = sum_{j<n} A[i][j] * x j + b[i]
    [presol_spec o n A b y] : forall i < n, sum_{j<n} A[i][j] * y j + b[i] <= y i
    [least_spec o n A b x]  : sol_spec x /\ forall y, presol_spec y -> forall i < n, x i <= y i *)
From Coq Require Import List Arith Bool Permutation.
Import ListNotations.
Require Import Fggs.Model.Semiring Fggs.Model.Solve.
Require Import Fggs.Proofs.SolveElim Fggs.Proofs.SolveRefine.

(** (A) elimination of the unknowns in ANY order (scalars: solve1 a r = star a * r) yields a
    solution -- from [star a = 1 + a * star a] alone -- ... *)
Theorem C09_elimination_solution :
  forall (S : Type) (o : sr_ops S), sr_ring o ->
    (forall a, star o a = add o (one o) (mul o a (star o a))) ->
  forall n A b order, Permutation order (seq 0 n) ->
    sol_spec o n A b (elim o nat Nat.eq_dec order (get2 o A) (get1 o b)).
Proof. exact (@elim_any_order_sol). Qed.
Print Assumptions C09_elimination_solution.

(** ... which is below every pre-solution (from the star induction law) *)
Theorem C09_elimination_least :
  forall (S : Type) (o : sr_ops S), sr_ring o -> sr_ordered o -> sr_star o ->
  forall n A b order, Permutation order (seq 0 n) ->
    least_spec o n A b (elim o nat Nat.eq_dec order (get2 o A) (get1 o b)).
Proof. exact (@elim_any_order_least). Qed.
Print Assumptions C09_elimination_least.

(** (A) the in-place Gauss-Jordan loop of Semiring.solve_thunks ([solve_model], on lists)
    computes the same vector as the recursive elimination in the order 0, 1, ..., n-1 *)
Theorem C09_gauss_jordan_refines :
  forall (S : Type) (o : sr_ops S), sr_ring o ->
    (forall a, star o a = add o (one o) (mul o a (star o a))) ->
  forall n A b i, i < n ->
    get1 o (solve_model o n A b) i = elim o nat Nat.eq_dec (seq 0 n) (get2 o A) (get1 o b) i.
Proof. exact (@solve_model_elim). Qed.
Print Assumptions C09_gauss_jordan_refines.

(** hence the code's answer is the least solution, and every elimination order gives it *)
Theorem C09_solve_model_least :
  forall (S : Type) (o : sr_ops S), sr_ring o -> sr_ordered o -> sr_star o ->
  forall n A b, least_spec o n A b (get1 o (solve_model o n A b)).
Proof. exact (@solve_model_least_spec). Qed.
Print Assumptions C09_solve_model_least.

Theorem C09_any_order_same_answer :
  forall (S : Type) (o : sr_ops S), sr_ring o -> sr_ordered o -> sr_star o ->
  forall n A b order, Permutation order (seq 0 n) -> forall i, i < n ->
    elim o nat Nat.eq_dec order (get2 o A) (get1 o b) i = get1 o (solve_model o n A b) i.
Proof. exact (@elim_any_order_eq). Qed.
Print Assumptions C09_any_order_same_answer.

(** a matrix right-hand side ([x.ndim == 2] branch) is solved column by column *)
Theorem C09_matrix_rhs_columnwise :
  forall (S : Type) (o : sr_ops S) n m A B i c, i < n -> c < m ->
    get2 o (solve_model_mat o n m A B) i c = get1 o (solve_model o n A (col o n B c)) i.
Proof. exact (@solve_model_mat_col). Qed.
Print Assumptions C09_matrix_rhs_columnwise.

(** (A) sum_{k<=N} A^k b <= solve A b for every N *)
Theorem C09_least_is_series :
  forall (S : Type) (o : sr_ops S), sr_ring o -> sr_ordered o -> sr_star o ->
  forall n A b N i, i < n ->
    le o (get1 o (series o n A b N) i) (get1 o (solve_model o n A b) i).
Proof. exact (@series_le_solve). Qed.
Print Assumptions C09_least_is_series.

(** the oracles that judge every implementation output *)
Theorem C09_oracle_sound :
  forall (S : Type) (o : sr_ops S), sr_ring o -> sr_ordered o -> sr_star o ->
  forall eqb leb : S -> S -> bool,
    (forall x y, eqb x y = true -> x = y) -> (forall x y, leb x y = true <-> le o x y) ->
  forall n A b x, is_least_solution_b o eqb leb n A b x = true -> least_spec o n A b (get1 o x).
Proof. exact (@is_least_solution_b_sound). Qed.
Print Assumptions C09_oracle_sound.

Theorem C09_series_oracle_complete :
  forall (S : Type) (o : sr_ops S), sr_ring o -> sr_ordered o ->
  forall leb : S -> S -> bool, (forall x y, leb x y = true <-> le o x y) ->
  forall n A b N x, sol_spec o n A b (get1 o x) -> series_le_b o leb n A b N x = true.
Proof. exact (@series_le_b_complete). Qed.
Print Assumptions C09_series_oracle_complete.

Theorem C09_certificate_oracle_complete :
  forall (S : Type) (o : sr_ops S) (leb : S -> S -> bool), (forall x y, leb x y = true <-> le o x y) ->
  forall n A b u x, least_spec o n A b (get1 o x) -> cert_le_b o leb n A b u x = true.
Proof. exact (@cert_le_b_complete). Qed.
Print Assumptions C09_certificate_oracle_complete.
