(** C09 -- semiring linear solvers return the least solution of x = A x + b.
    Only property theorems live here, each closed by [exact] and followed by Print Assumptions.

    Generic theorems are over an abstract [o : sr_ops S] with the law records
    [sr_ring o], [sr_ordered o], [sr_star o] as premises.  The law records of the carriers
    ereal / trop / bool are proved under C08 in Proofs/SemiringLaws.v; the carrier-specific
    theorems here (C09_least_is_series_bool_exact, C09_real_lu_path, C09_F2_former_star_*, and the
    instances at the end of the file) are composed with them in Proofs/Instances_solve.v and
    carry NO law premise.

    [sol_spec o n A b x]    : forall i < n, x i = sum_{j<n} A[i][j] * x j + b[i]
    [presol_spec o n A b y] : forall i < n, sum_{j<n} A[i][j] * y j + b[i] <= y i
    [least_spec o n A b x]  : sol_spec x /\ forall y, presol_spec y -> forall i < n, x i <= y i *)
From Coq Require Import List Arith Bool Permutation QArith Qcanon.
Import ListNotations.
Require Import Fggs.Model.Semiring Fggs.Model.EReal Fggs.Model.Trop Fggs.Model.Solve.
Require Import Fggs.Proofs.SolveElim Fggs.Proofs.SolveRefine Fggs.Proofs.SolveCarriers.
Require Import Fggs.Proofs.SolveBool Fggs.Proofs.SolveLU.
Require Import Fggs.Model.MultiSolve Fggs.Proofs.MultiMV Fggs.Proofs.SolveBlock Fggs.Proofs.SolveMatInst.
Require Import Fggs.Proofs.MultiOrder.
Require Import Fggs.Proofs.Instances_solve.
Require Import Fggs.Proofs.SolveStar Fggs.Proofs.MultiSolveSem Fggs.Proofs.MultiSolveLU Fggs.Proofs.MultiSolveDense.
Require Import Fggs.Proofs.Instances_multisolve.
Local Open Scope nat_scope.

(** (A) elimination of the unknowns in ANY order (scalars: solve1 a r = star a * r) yields a
    solution -- from [star a = 1 + a * star a] alone -- ... *)
Theorem C09_elimination_solution :
  forall (S : Type) (o : sr_ops S), sr_ring o ->
    (forall a, star o a = add o (one o) (mul o a (star o a))) ->
  forall n A b order, Permutation order (seq 0 n) ->
    sol_spec o n A b (elim o nat Nat.eq_dec order (get2 o A) (get1 o b)).
Proof. exact (@elim_any_order_sol). Qed.
Print Assumptions C09_elimination_solution.

(** ... which is below every pre-solution (from the star induction law) *)
Theorem C09_elimination_least :
  forall (S : Type) (o : sr_ops S), sr_ring o -> sr_ordered o -> sr_star o ->
  forall n A b order, Permutation order (seq 0 n) ->
    least_spec o n A b (elim o nat Nat.eq_dec order (get2 o A) (get1 o b)).
Proof. exact (@elim_any_order_least). Qed.
Print Assumptions C09_elimination_least.

(** (A) the in-place Gauss-Jordan loop of Semiring.solve_thunks ([solve_model], on lists)
    computes the same vector as the recursive elimination in the order 0, 1, ..., n-1 *)
Theorem C09_gauss_jordan_refines :
  forall (S : Type) (o : sr_ops S), sr_ring o ->
    (forall a, star o a = add o (one o) (mul o a (star o a))) ->
  forall n A b i, i < n ->
    get1 o (solve_model o n A b) i = elim o nat Nat.eq_dec (seq 0 n) (get2 o A) (get1 o b) i.
Proof. exact (@solve_model_elim). Qed.
Print Assumptions C09_gauss_jordan_refines.

(** hence the code's answer is the least solution, and every elimination order gives it *)
Theorem C09_solve_model_least :
  forall (S : Type) (o : sr_ops S), sr_ring o -> sr_ordered o -> sr_star o ->
  forall n A b, least_spec o n A b (get1 o (solve_model o n A b)).
Proof. exact (@solve_model_least_spec). Qed.
Print Assumptions C09_solve_model_least.

Theorem C09_any_order_same_answer :
  forall (S : Type) (o : sr_ops S), sr_ring o -> sr_ordered o -> sr_star o ->
  forall n A b order, Permutation order (seq 0 n) -> forall i, i < n ->
    elim o nat Nat.eq_dec order (get2 o A) (get1 o b) i = get1 o (solve_model o n A b) i.
Proof. exact (@elim_any_order_eq). Qed.
Print Assumptions C09_any_order_same_answer.

(** a matrix right-hand side ([x.ndim == 2] branch) is solved column by column *)
Theorem C09_matrix_rhs_columnwise :
  forall (S : Type) (o : sr_ops S) n m A B i c, i < n -> c < m ->
    get2 o (solve_model_mat o n m A B) i c = get1 o (solve_model o n A (col o n B c)) i.
Proof. exact (@solve_model_mat_col). Qed.
Print Assumptions C09_matrix_rhs_columnwise.

(** (A) sum_{k<=N} A^k b <= solve A b for every N *)
Theorem C09_least_is_series :
  forall (S : Type) (o : sr_ops S), sr_ring o -> sr_ordered o -> sr_star o ->
  forall n A b N i, i < n ->
    le o (get1 o (series o n A b N) i) (get1 o (solve_model o n A b) i).
Proof. exact (@series_le_solve). Qed.
Print Assumptions C09_least_is_series.

(** the oracles that judge every implementation output *)
Theorem C09_oracle_sound :
  forall (S : Type) (o : sr_ops S), sr_ring o -> sr_ordered o -> sr_star o ->
  forall eqb leb : S -> S -> bool,
    (forall x y, eqb x y = true -> x = y) -> (forall x y, leb x y = true <-> le o x y) ->
  forall n A b x, is_least_solution_b o eqb leb n A b x = true -> least_spec o n A b (get1 o x).
Proof. exact (@is_least_solution_b_sound). Qed.
Print Assumptions C09_oracle_sound.

Theorem C09_series_oracle_complete :
  forall (S : Type) (o : sr_ops S), sr_ring o -> sr_ordered o ->
  forall leb : S -> S -> bool, (forall x y, leb x y = true <-> le o x y) ->
  forall n A b N x, sol_spec o n A b (get1 o x) -> series_le_b o leb n A b N x = true.
Proof. exact (@series_le_b_complete). Qed.
Print Assumptions C09_series_oracle_complete.

(** ... with equality at N = dim in the Boolean semiring *)
Theorem C09_least_is_series_bool_exact :
  forall n A b i, i < n ->
    get1 bool_ops (series bool_ops n A b n) i = get1 bool_ops (solve_model bool_ops n A b) i.
Proof. exact bool_series_exact_closed. Qed.
Print Assumptions C09_least_is_series_bool_exact.

(** (A) RealSemiring.solve_thunks: with an LU oracle that returns the unique rational solution
    of (I - A) x = b, the model returns the generic answer whichever branch is taken; in
    particular an accepted LU answer equals the generic answer.
    [lin_sol n A b y]: forall i < n, y i - sum_j A[i][j] * y j = b[i] over Qc *)
Theorem C09_real_lu_path :
  forall (lu : mat ereal -> vec ereal -> option (list luval)) n A b (q : nat -> Qc),
    finite_sys n A b ->
    lu A b = Some (map (fun i => LFin (q i)) (seq 0 n)) ->
    lin_sol n A b q -> (forall y, lin_sol n A b y -> forall i, i < n -> y i = q i) ->
  forall i, i < n ->
    get1 ereal_ops (real_solve_model lu n A b) i = get1 ereal_ops (solve_model ereal_ops n A b) i.
Proof. exact real_lu_path_closed. Qed.
Print Assumptions C09_real_lu_path.

(** (A) multi_mv equals the dense matrix-vector product of the assembled blocks: block x,
    position p of the result is sum_y sum_q A[x,y][p][q] * b[y][q], an absent block of [a] or
    [b] reading as zero ([getm]/[getv]); [a] is a dict (its keys are duplicate-free) *)
Theorem C09_multi_mv :
  forall (E : Type) (o : sr_ops E), sr_ring o ->
  forall (di dj : dims_t) (a : @mt2 E) (b : @mt1 E),
    NoDup (map fst a) -> NoDup (map fst dj) ->
    (forall e, In e a -> In (snd (fst e)) (map fst dj)) ->
  forall x p, p < dim di x ->
    get1 o (getv o di (multi_mv_model o di dj false a b) x) p
    = sumS o nat (map fst dj)
        (fun y => sum_n o (dim dj y)
           (fun q => mul o (get2 o (getm o di dj a x y) p q) (get1 o (getv o dj b y) q))).
Proof. exact (@multi_mv_dense). Qed.
Print Assumptions C09_multi_mv.

Theorem C09_multi_mv_transposed :
  forall (E : Type) (o : sr_ops E), sr_ring o ->
  forall (di dj : dims_t) (a : @mt2 E) (b : @mt1 E),
    NoDup (map fst a) -> NoDup (map fst di) ->
    (forall e, In e a -> In (fst (fst e)) (map fst di)) ->
  forall y q, q < dim dj y ->
    get1 o (getv o dj (multi_mv_model o di dj true a b) y) q
    = sumS o nat (map fst di)
        (fun x => sum_n o (dim di x)
           (fun p => mul o (get2 o (getm o di dj a x y) p q) (get1 o (getv o di b x) p))).
Proof. exact (@multi_mv_dense_T). Qed.
Print Assumptions C09_multi_mv_transposed.

(** (A) block version of C09_elimination_least: coefficients [C] with an associative product
    acting on vectors [V] (nothing commutes), [solve1 a r] the least solution of y = a.y + r,
    [rstar a s] = a.s*.  Eliminating the block unknowns in ANY order (a duplicate-free list
    [vs]; an absent block is the zero coefficient) yields a solution of x = A x + b ... *)
Theorem C09_block_elimination_solution :
  forall (C V : Type) (cadd cmul : C -> C -> C) (act : C -> V -> V) (vadd : V -> V -> V)
         (vzero : V) (vle : V -> V -> Prop) (solve1 : C -> V -> V) (rstar : C -> C -> C),
    semimodule_laws C V cadd cmul act vadd vzero vle solve1 rstar ->
  forall (K : Type) (K_eq_dec : forall a b : K, {a = b} + {a <> b}) (vs : list K), NoDup vs ->
  forall (A : K -> K -> C) (b : K -> V),
    bis_sol C V act vadd vzero K vs A b
      (belim C V cadd cmul act vadd vzero solve1 rstar K K_eq_dec vs A b).
Proof. exact belim_sol. Qed.
Print Assumptions C09_block_elimination_solution.

(** ... which is below every pre-solution *)
Theorem C09_block_elimination_least :
  forall (C V : Type) (cadd cmul : C -> C -> C) (act : C -> V -> V) (vadd : V -> V -> V)
         (vzero : V) (vle : V -> V -> Prop) (solve1 : C -> V -> V) (rstar : C -> C -> C),
    semimodule_laws C V cadd cmul act vadd vzero vle solve1 rstar ->
  forall (K : Type) (K_eq_dec : forall a b : K, {a = b} + {a <> b}) (vs : list K), NoDup vs ->
  forall (A : K -> K -> C) (b y : K -> V),
    bis_presol C V act vadd vzero vle K vs A b y ->
  forall i, In i vs ->
    vle (belim C V cadd cmul act vadd vzero solve1 rstar K K_eq_dec vs A b i) (y i).
Proof. exact belim_least. Qed.
Print Assumptions C09_block_elimination_least.

(** the hypotheses are satisfiable: every ordered star-semiring is such a semimodule over
    itself (solve1 a r = star a * r) *)
Theorem C09_scalar_is_semimodule :
  forall (S : Type) (o : sr_ops S), sr_ring o -> sr_ordered o -> sr_star o ->
    semimodule_laws S S (add o) (mul o) (mul o) (add o) (zero o) (le o)
                    (fun a r => mul o (star o a) r) (fun a s => mul o a (star o s)).
Proof. exact (@scalar_semimodule). Qed.
Print Assumptions C09_scalar_is_semimodule.

(** ... and so are N x N matrices acting on N-vectors, with solve1 = the dense solver (the
    Gauss-Jordan loop [gjf] of Semiring.solve_thunks) and rstar a s = a . (matrix star of s):
    block elimination in any order with the dense solver on the diagonal blocks returns the
    least solution.  [nvec N] = lists of length N; [coef] = nat -> nat -> S; blocks of smaller
    shapes are embedded by zero padding *)
Theorem C09_matrix_block_elimination_least :
  forall (S : Type) (o : sr_ops S), sr_ring o -> sr_ordered o -> sr_star o ->
  forall (N : nat) (K : Type) (K_eq_dec : forall a b : K, {a = b} + {a <> b})
         (vs : list K) (A : K -> K -> @coef S) (b : K -> @nvec S N), NoDup vs ->
  let x := belim (@coef S) (@nvec S N) (cadd o) (cmul o N) (act o N) (vadd o N) (vzero o N)
                 (solve1 o N) (rstar o N) K K_eq_dec vs A b in
  bis_sol (@coef S) (@nvec S N) (act o N) (vadd o N) (vzero o N) K vs A b x /\
  (forall y, bis_presol (@coef S) (@nvec S N) (act o N) (vadd o N) (vzero o N) (vle o N) K vs A b y ->
             forall i, In i vs -> vle o N (x i) (y i)).
Proof. exact (@mat_block_elimination). Qed.
Print Assumptions C09_matrix_block_elimination_least.

(** the model of _order_nonterminals returns a duplicate-free enumeration of the shape keys --
    a legitimate elimination order -- whatever order Python iterates its sets in *)
Theorem C09_order_nonterminals_enumerates :
  forall iter : list key -> list key,
    (forall s x, In x (iter s) -> In x s) -> (forall s x, In x s -> In x (iter s)) ->
    (forall s, NoDup s -> NoDup (iter s)) ->
  forall keys shape_keys l,
    NoDup shape_keys -> (forall e, In e keys -> In (snd e) shape_keys) -> keys <> [] ->
    order_nonterminals_model iter keys shape_keys = Some l ->
    NoDup l /\ forall x, In x l <-> In x shape_keys.
Proof. exact order_model_enumerates. Qed.
Print Assumptions C09_order_nonterminals_enumerates.

(** Finding F2 (repaired in /repo commit d2ec7af): ViterbiSemiring.star as it WAS coded
    ([tstar_code]: inf for x >= 0; the current code is [tstar]).  The model run with the former
    star still returns a solution ... *)
Theorem C09_F2_former_star_solution :
  forall n A b, sol_spec trop_ops n A b (get1 trop_ops (solve_model trop_code_ops n A b)).
Proof. exact viterbi_code_star_solution_closed. Qed.
Print Assumptions C09_F2_former_star_solution.

(** ... which is not the least one: x = max(0 + x, -1) is answered +inf *)
Theorem C09_F2_former_star_refuted :
  presol_spec trop_ops 1 f2_A f2_b (get1 trop_ops f2_b) /\
  ~ (forall i, i < 1 -> tle (get1 trop_ops (solve_model trop_code_ops 1 f2_A f2_b) i) (get1 trop_ops f2_b i)).
Proof. exact viterbi_code_star_not_least. Qed.
Print Assumptions C09_F2_former_star_refuted.

(** ... and is the least one under the guard "no pivot met by the loop is exactly 0" *)
Theorem C09_F2_former_star_guarded :
  forall n A b, no_zero_pivot n A = true ->
    (forall i, i < n -> get1 trop_ops (solve_model trop_code_ops n A b) i
                        = get1 trop_ops (solve_model trop_ops n A b) i)
    /\ least_spec trop_ops n A b (get1 trop_ops (solve_model trop_code_ops n A b)).
Proof. exact viterbi_code_star_guarded_closed. Qed.
Print Assumptions C09_F2_former_star_guarded.

(** the decision procedures handed to the oracles are sound for the three carriers *)
Theorem C09_carrier_decisions :
  (forall x y, eeqb x y = true -> x = y) /\ (forall x y, eleb x y = true <-> ele x y) /\
  (forall x y, teqb x y = true -> x = y) /\ (forall x y, tleb x y = true <-> tle x y) /\
  (forall x y, Bool.eqb x y = true -> x = y) /\ (forall x y, bool_leb x y = true <-> le bool_ops x y).
Proof. exact (conj eeqb_eq (conj eleb_iff (conj teqb_eq (conj tleb_iff (conj bool_eqb_eq bool_leb_iff))))). Qed.
Print Assumptions C09_carrier_decisions.

Theorem C09_certificate_oracle_complete :
  forall (S : Type) (o : sr_ops S) (leb : S -> S -> bool), (forall x y, leb x y = true <-> le o x y) ->
  forall n A b u x, least_spec o n A b (get1 o x) -> cert_le_b o leb n A b u x = true.
Proof. exact (@cert_le_b_complete). Qed.
Print Assumptions C09_certificate_oracle_complete.

(** * carrier instances, no premises: the law records of Proofs/SemiringLaws.v (C08) discharged *)
(** the code's answer ([solve_model] = the Gauss-Jordan loop of Semiring.solve_thunks) is the
    least solution of x = A x + b in BoolSemiring, RealSemiring (LogSemiring read through exp)
    and ViterbiSemiring *)
Theorem C09_solve_model_least_bool :
  forall n A b, least_spec bool_ops n A b (get1 bool_ops (solve_model bool_ops n A b)).
Proof. exact bool_solve_model_least. Qed.
Print Assumptions C09_solve_model_least_bool.

Theorem C09_solve_model_least_real :
  forall n A b, least_spec ereal_ops n A b (get1 ereal_ops (solve_model ereal_ops n A b)).
Proof. exact real_solve_model_least. Qed.
Print Assumptions C09_solve_model_least_real.

Theorem C09_solve_model_least_viterbi :
  forall n A b, least_spec trop_ops n A b (get1 trop_ops (solve_model trop_ops n A b)).
Proof. exact trop_solve_model_least. Qed.
Print Assumptions C09_solve_model_least_viterbi.

(** every elimination order gives the code's answer, which is the least solution *)
Theorem C09_elimination_least_bool :
  forall n A b order, Permutation order (seq 0 n) ->
    least_spec bool_ops n A b (elim bool_ops nat Nat.eq_dec order (get2 bool_ops A) (get1 bool_ops b)).
Proof. exact bool_elimination_least. Qed.
Print Assumptions C09_elimination_least_bool.

Theorem C09_any_order_same_answer_bool :
  forall n A b order, Permutation order (seq 0 n) -> forall i, i < n ->
    elim bool_ops nat Nat.eq_dec order (get2 bool_ops A) (get1 bool_ops b) i = get1 bool_ops (solve_model bool_ops n A b) i.
Proof. exact bool_any_order_same_answer. Qed.
Print Assumptions C09_any_order_same_answer_bool.

Theorem C09_elimination_least_real :
  forall n A b order, Permutation order (seq 0 n) ->
    least_spec ereal_ops n A b (elim ereal_ops nat Nat.eq_dec order (get2 ereal_ops A) (get1 ereal_ops b)).
Proof. exact real_elimination_least. Qed.
Print Assumptions C09_elimination_least_real.

Theorem C09_any_order_same_answer_real :
  forall n A b order, Permutation order (seq 0 n) -> forall i, i < n ->
    elim ereal_ops nat Nat.eq_dec order (get2 ereal_ops A) (get1 ereal_ops b) i = get1 ereal_ops (solve_model ereal_ops n A b) i.
Proof. exact real_any_order_same_answer. Qed.
Print Assumptions C09_any_order_same_answer_real.

Theorem C09_elimination_least_viterbi :
  forall n A b order, Permutation order (seq 0 n) ->
    least_spec trop_ops n A b (elim trop_ops nat Nat.eq_dec order (get2 trop_ops A) (get1 trop_ops b)).
Proof. exact trop_elimination_least. Qed.
Print Assumptions C09_elimination_least_viterbi.

Theorem C09_any_order_same_answer_viterbi :
  forall n A b order, Permutation order (seq 0 n) -> forall i, i < n ->
    elim trop_ops nat Nat.eq_dec order (get2 trop_ops A) (get1 trop_ops b) i = get1 trop_ops (solve_model trop_ops n A b) i.
Proof. exact trop_any_order_same_answer. Qed.
Print Assumptions C09_any_order_same_answer_viterbi.

(** sum_{k<=N} A^k b <= solve A b (Bool: equality at N = n, above) *)
Theorem C09_least_is_series_real :
  forall n A b N i, i < n ->
    le ereal_ops (get1 ereal_ops (series ereal_ops n A b N) i) (get1 ereal_ops (solve_model ereal_ops n A b) i).
Proof. exact real_least_is_series. Qed.
Print Assumptions C09_least_is_series_real.

Theorem C09_least_is_series_viterbi :
  forall n A b N i, i < n ->
    le trop_ops (get1 trop_ops (series trop_ops n A b N) i) (get1 trop_ops (solve_model trop_ops n A b) i).
Proof. exact trop_least_is_series. Qed.
Print Assumptions C09_least_is_series_viterbi.

(** the oracle that judges every implementation output, with exactly the decision procedures
    the check functions [dense_check_*] hand to it: acceptance implies "least solution" *)
Theorem C09_oracle_sound_bool :
  forall n A b x, is_least_solution_b bool_ops Bool.eqb bool_leb n A b x = true -> least_spec bool_ops n A b (get1 bool_ops x).
Proof. exact bool_oracle_sound. Qed.
Print Assumptions C09_oracle_sound_bool.

Theorem C09_oracle_sound_real :
  forall n A b x, is_least_solution_b ereal_ops eeqb eleb n A b x = true -> least_spec ereal_ops n A b (get1 ereal_ops x).
Proof. exact real_oracle_sound. Qed.
Print Assumptions C09_oracle_sound_real.

Theorem C09_oracle_sound_viterbi :
  forall n A b x, is_least_solution_b trop_ops teqb tleb n A b x = true -> least_spec trop_ops n A b (get1 trop_ops x).
Proof. exact trop_oracle_sound. Qed.
Print Assumptions C09_oracle_sound_viterbi.

(** block elimination over N x N matrices with the dense solver on the diagonal blocks *)
Theorem C09_matrix_block_elimination_least_bool :
  forall (N : nat) (K : Type) (K_eq_dec : forall a b : K, {a = b} + {a <> b})
         (vs : list K) (A : K -> K -> @coef bool) (b : K -> @nvec bool N), NoDup vs ->
  let x := belim (@coef bool) (@nvec bool N) (cadd bool_ops) (cmul bool_ops N) (act bool_ops N) (vadd bool_ops N) (vzero bool_ops N)
                 (solve1 bool_ops N) (rstar bool_ops N) K K_eq_dec vs A b in
  bis_sol (@coef bool) (@nvec bool N) (act bool_ops N) (vadd bool_ops N) (vzero bool_ops N) K vs A b x /\
  (forall y, bis_presol (@coef bool) (@nvec bool N) (act bool_ops N) (vadd bool_ops N) (vzero bool_ops N) (vle bool_ops N) K vs A b y ->
             forall i, In i vs -> vle bool_ops N (x i) (y i)).
Proof. exact bool_matrix_block_elimination. Qed.
Print Assumptions C09_matrix_block_elimination_least_bool.

Theorem C09_matrix_block_elimination_least_real :
  forall (N : nat) (K : Type) (K_eq_dec : forall a b : K, {a = b} + {a <> b})
         (vs : list K) (A : K -> K -> @coef ereal) (b : K -> @nvec ereal N), NoDup vs ->
  let x := belim (@coef ereal) (@nvec ereal N) (cadd ereal_ops) (cmul ereal_ops N) (act ereal_ops N) (vadd ereal_ops N) (vzero ereal_ops N)
                 (solve1 ereal_ops N) (rstar ereal_ops N) K K_eq_dec vs A b in
  bis_sol (@coef ereal) (@nvec ereal N) (act ereal_ops N) (vadd ereal_ops N) (vzero ereal_ops N) K vs A b x /\
  (forall y, bis_presol (@coef ereal) (@nvec ereal N) (act ereal_ops N) (vadd ereal_ops N) (vzero ereal_ops N) (vle ereal_ops N) K vs A b y ->
             forall i, In i vs -> vle ereal_ops N (x i) (y i)).
Proof. exact real_matrix_block_elimination. Qed.
Print Assumptions C09_matrix_block_elimination_least_real.

Theorem C09_matrix_block_elimination_least_viterbi :
  forall (N : nat) (K : Type) (K_eq_dec : forall a b : K, {a = b} + {a <> b})
         (vs : list K) (A : K -> K -> @coef trop) (b : K -> @nvec trop N), NoDup vs ->
  let x := belim (@coef trop) (@nvec trop N) (cadd trop_ops) (cmul trop_ops N) (act trop_ops N) (vadd trop_ops N) (vzero trop_ops N)
                 (solve1 trop_ops N) (rstar trop_ops N) K K_eq_dec vs A b in
  bis_sol (@coef trop) (@nvec trop N) (act trop_ops N) (vadd trop_ops N) (vzero trop_ops N) K vs A b x /\
  (forall y, bis_presol (@coef trop) (@nvec trop N) (act trop_ops N) (vadd trop_ops N) (vzero trop_ops N) (vle trop_ops N) K vs A b y ->
             forall i, In i vs -> vle trop_ops N (x i) (y i)).
Proof. exact trop_matrix_block_elimination. Qed.
Print Assumptions C09_matrix_block_elimination_least_viterbi.

(** * X = X A + B, the matrix star, and multi_solve (Proofs/SolveStar.v, MultiSolveSem.v,
      MultiSolveLU.v, MultiSolveDense.v)

    [rsol_spec o n m A B X]    : forall p < m, q < n, X p q = sum_{k<n} X p k * A[k][q] + B[p][q]
    [rpresol_spec o n m A B Y] : forall p < m, q < n, sum_{k<n} Y p k * A[k][q] + B[p][q] <= Y p q
    [rleast_spec o n m A B X]  : rsol_spec X /\ forall Y, rpresol_spec Y -> X p q <= Y p q
    [rsolve_model o n m A B]   = transpose (solve_model_mat (transpose A) (transpose B)): what the
                                 LU step of multi_solve computes, [a[z,z].T.solve(a[x,z].T).T]
    [star_model o n A]         = solve_model_mat o n n A identity: the matrix star *)

(** the least solution of X = X A + B is the transpose of the dense solver's answer on the
    transposed system (here the commutativity of the scalar semiring is used) *)
Theorem C09_right_solve_least :
  forall (S : Type) (o : sr_ops S), sr_ring o -> sr_ordered o -> sr_star o ->
  forall n m (A B : mat S), rleast_spec o n m A B (get2 o (rsolve_model o n m A B)).
Proof. exact (@rsolve_model_least). Qed.
Print Assumptions C09_right_solve_least.

(** right multiplication by the star: B . A* is the least solution of X = X A + B *)
Theorem C09_mul_star_least :
  forall (S : Type) (o : sr_ops S), sr_ring o -> sr_ordered o -> sr_star o ->
  forall n m (A B : mat S),
    rleast_spec o n m A B (get2 o (mm_model o m n n B (star_model o n A))).
Proof. exact (@mul_star_least). Qed.
Print Assumptions C09_mul_star_least.

(** solve (A^T) (B^T) = (B . A* )^T, entry by entry *)
Theorem C09_solve_transposed :
  forall (S : Type) (o : sr_ops S), sr_ring o -> sr_ordered o -> sr_star o ->
  forall n m (A B : mat S) p q, p < m -> q < n ->
    get2 o (solve_model_mat o n m (transpose_model o n n A) (transpose_model o m n B)) q p
    = get2 o (mm_model o m n n B (star_model o n A)) p q.
Proof. exact (@solve_transposed). Qed.
Print Assumptions C09_solve_transposed.

(** (A^T)* = (A* )^T *)
Theorem C09_star_transpose :
  forall (S : Type) (o : sr_ops S), sr_ring o -> sr_ordered o -> sr_star o ->
  forall n (A : mat S) i j, i < n -> j < n ->
    get2 o (star_model o n (transpose_model o n n A)) i j = get2 o (star_model o n A) j i.
Proof. exact (@star_model_transpose). Qed.
Print Assumptions C09_star_transpose.

(** A* = A* A + 1 on N x N matrices as functions ([meq N] = equality of the entries below N),
    derived from  A* = A A* + 1  and the left induction law only *)
Theorem C09_star_right_unfold :
  forall (S : Type) (o : sr_ops S), sr_ring o -> sr_ordered o -> sr_star o ->
  forall N (a : nat -> nat -> S),
    meq N (star_mat o N a) (cadd o (cmul o N (star_mat o N a) a) (cid o)).
Proof. exact (@star_sol_r). Qed.
Print Assumptions C09_star_right_unfold.

(** the side facts that make the presence tests [if (x,z) in a] of multi_solve sound: an absent
    block reads as the zero matrix; the dense solver on a zero matrix is the identity, on a zero
    right-hand side it returns zero, and products with a zero block vanish *)
Theorem C09_absent_block_facts :
  forall (S : Type) (o : sr_ops S), sr_ring o ->
    (forall n (b : vec S) i, i < n -> get1 o (solve_model o n (zeros2 o n n) b) i = get1 o b i)
    /\ (forall n (A : mat S) i, i < n -> get1 o (solve_model o n A (zeros1 o n)) i = zero o)
    /\ (forall p q r (B : mat S) i k, i < p -> k < r ->
          get2 o (mm_model o p q r (zeros2 o p q) B) i k = zero o)
    /\ (forall p q r (A : mat S) i k, i < p -> k < r ->
          get2 o (mm_model o p q r A (zeros2 o q r)) i k = zero o).
Proof.
  exact (fun S o Hr => conj (@solve_model_zero_matrix S o Hr)
                      (conj (@solve_model_zero_rhs S o Hr)
                      (conj (@mm_model_zero_l S o Hr) (@mm_model_zero_r S o Hr)))).
Qed.
Print Assumptions C09_absent_block_facts.

(** C09_multi_solve_refines, block level.  For every bound N of the block sizes, every
    duplicate-free elimination order, every family of present blocks and both values of
    [transpose]: block x of [multi_solve_model] (read as an N-vector, zero beyond its shape:
    [semB]) is block x of the block elimination [belim] of Proofs/SolveBlock.v instantiated
    with N x N matrices (Proofs/SolveMatInst.v), run on the block system
    [blockA o d transpose a x y] = block (x, y) of [a] (of [a]^T if [transpose]), absent = zero *)
Theorem C09_multi_solve_refines_blocks :
  forall (S : Type) (o : sr_ops S), sr_ring o -> sr_ordered o -> sr_star o ->
  forall (d : dims_t) (N : nat) (order : list key) (transpose : bool) (a : @mt2 S) (b : @mt1 S),
    (forall x, dim d x <= N) -> NoDup order -> NoDup (map fst a) -> NoDup (map fst b) ->
  forall x, In x order ->
    semB o d N (multi_solve_model o d order transpose a b) x
    = belim (@coef S) (@nvec S N) (cadd o) (cmul o N) (act o N) (vadd o N) (vzero o N)
            (solve1 o N) (rstar o N) key Nat.eq_dec order (blockA o d transpose a) (semB o d N b) x.
Proof. exact (@multi_solve_belim). Qed.
Print Assumptions C09_multi_solve_refines_blocks.

(** C09_multi_solve_refines: hence (C09_matrix_block_elimination_least) the assembled result is
    the LEAST solution of x = A x + b for the assembled dense system, for every elimination
    order that enumerates the keys (as [_order_nonterminals] returns:
    C09_order_nonterminals_enumerates) ... *)
Theorem C09_multi_solve_refines :
  forall (S : Type) (o : sr_ops S), sr_ring o -> sr_ordered o -> sr_star o ->
  forall (d : dims_t) (order : list key) (transpose : bool) (a : @mt2 S) (b : @mt1 S),
    NoDup (map fst d) -> NoDup order -> (forall x, In x order <-> In x (map fst d)) ->
    NoDup (map fst a) -> NoDup (map fst b) ->
    least_spec o (total d) (assemble2 o d transpose a) (assemble1 o d b)
               (get1 o (assemble1 o d (multi_solve_model o d order transpose a b))).
Proof. exact (@multi_solve_least). Qed.
Print Assumptions C09_multi_solve_refines.

(** ... hence equal to the dense solver's answer on the assembled system ... *)
Theorem C09_multi_solve_equals_dense_solve :
  forall (S : Type) (o : sr_ops S), sr_ring o -> sr_ordered o -> sr_star o ->
  forall (d : dims_t) (order : list key) (transpose : bool) (a : @mt2 S) (b : @mt1 S),
    NoDup (map fst d) -> NoDup order -> (forall x, In x order <-> In x (map fst d)) ->
    NoDup (map fst a) -> NoDup (map fst b) ->
  forall i, i < total d ->
    get1 o (assemble1 o d (multi_solve_model o d order transpose a b)) i
    = get1 o (solve_model o (total d) (assemble2 o d transpose a) (assemble1 o d b)) i.
Proof. exact (@multi_solve_is_dense_solve). Qed.
Print Assumptions C09_multi_solve_equals_dense_solve.

(** ... so verdict 13 of [multi_solve_check_exact] ("block model differs from dense model",
    checked on every multi case of every run) cannot occur for well-formed inputs *)
Theorem C09_multi_solve_check_13_impossible :
  forall (S : Type) (o : sr_ops S), sr_ring o -> sr_ordered o -> sr_star o ->
  forall (d : dims_t) (eqb : S -> S -> bool) (order : list key) (transpose : bool) (a : @mt2 S) (b : @mt1 S),
    (forall x, eqb x x = true) ->
    NoDup (map fst d) -> NoDup order -> (forall x, In x order <-> In x (map fst d)) ->
    NoDup (map fst a) -> NoDup (map fst b) ->
    vec_all2 o eqb (total d) (assemble1 o d (multi_solve_model o d order transpose a b))
             (solve_model o (total d) (assemble2 o d transpose a) (assemble1 o d b)) = true.
Proof. exact (@multi_solve_never_13). Qed.
Print Assumptions C09_multi_solve_check_13_impossible.

(** with the order computed by the model of [_order_nonterminals] from the keys of [a], for
    every iteration order of Python's sets; [a] without any block gives the order [] and the
    result [b] *)
Theorem C09_multi_solve_code_order :
  forall (S : Type) (o : sr_ops S), sr_ring o -> sr_ordered o -> sr_star o ->
  forall (d : dims_t) (iter : list key -> list key) (transpose : bool) (a : @mt2 S) (b : @mt1 S) l,
    (forall s x, In x (iter s) -> In x s) -> (forall s x, In x s -> In x (iter s)) ->
    (forall s, NoDup s -> NoDup (iter s)) ->
    NoDup (map fst d) -> NoDup (map fst a) -> NoDup (map fst b) ->
    (forall e, In e (map fst a) -> In (snd e) (map fst d)) ->
    order_nonterminals_model iter (map fst a) (map fst d) = Some l ->
    least_spec o (total d) (assemble2 o d transpose a) (assemble1 o d b)
               (get1 o (assemble1 o d (multi_solve_model o d l transpose a b))).
Proof. exact (@multi_solve_code_order). Qed.
Print Assumptions C09_multi_solve_code_order.

(** the same read block by block (the form C02's [linear] uses):
    [block_sol]/[block_presol o d transpose a b xs]: for every key n and position p < dim n,
    xs n p = (<=) sum_{m in keys} sum_{q < dim m} A[n,m][p][q] * xs m q + b[n][p] *)
Theorem C09_multi_solve_block_form :
  forall (S : Type) (o : sr_ops S), sr_ring o ->
  forall (d : dims_t) (transpose : bool) (a : @mt2 S) (b sol : @mt1 S),
    NoDup (map fst d) ->
    least_spec o (total d) (assemble2 o d transpose a) (assemble1 o d b) (get1 o (assemble1 o d sol)) ->
    block_sol o d transpose a b (semb o d sol)
    /\ forall ys, block_presol o d transpose a b ys ->
         forall n p, In n (map fst d) -> p < dim d n -> le o (semb o d sol n p) (ys n p).
Proof. exact (@block_least_of_dense). Qed.
Print Assumptions C09_multi_solve_block_form.

(** carrier instances; no premises *)
Theorem C09_mul_star_least_bool :
  forall n m (A B : mat bool),
    rleast_spec bool_ops n m A B (get2 bool_ops (mm_model bool_ops m n n B (star_model bool_ops n A))).
Proof. exact bool_mul_star_least. Qed.
Print Assumptions C09_mul_star_least_bool.
Theorem C09_mul_star_least_real :
  forall n m (A B : mat ereal),
    rleast_spec ereal_ops n m A B (get2 ereal_ops (mm_model ereal_ops m n n B (star_model ereal_ops n A))).
Proof. exact real_mul_star_least. Qed.
Print Assumptions C09_mul_star_least_real.
Theorem C09_mul_star_least_viterbi :
  forall n m (A B : mat trop),
    rleast_spec trop_ops n m A B (get2 trop_ops (mm_model trop_ops m n n B (star_model trop_ops n A))).
Proof. exact trop_mul_star_least. Qed.
Print Assumptions C09_mul_star_least_viterbi.

Theorem C09_multi_solve_refines_bool :
  forall (d : dims_t) (order : list key) (transpose : bool) (a : @mt2 bool) (b : @mt1 bool),
    NoDup (map fst d) -> NoDup order -> (forall x, In x order <-> In x (map fst d)) ->
    NoDup (map fst a) -> NoDup (map fst b) ->
    least_spec bool_ops (total d) (assemble2 bool_ops d transpose a) (assemble1 bool_ops d b)
               (get1 bool_ops (assemble1 bool_ops d (multi_solve_model bool_ops d order transpose a b))).
Proof. exact bool_multi_solve_least. Qed.
Print Assumptions C09_multi_solve_refines_bool.
Theorem C09_multi_solve_refines_real :
  forall (d : dims_t) (order : list key) (transpose : bool) (a : @mt2 ereal) (b : @mt1 ereal),
    NoDup (map fst d) -> NoDup order -> (forall x, In x order <-> In x (map fst d)) ->
    NoDup (map fst a) -> NoDup (map fst b) ->
    least_spec ereal_ops (total d) (assemble2 ereal_ops d transpose a) (assemble1 ereal_ops d b)
               (get1 ereal_ops (assemble1 ereal_ops d (multi_solve_model ereal_ops d order transpose a b))).
Proof. exact real_multi_solve_least. Qed.
Print Assumptions C09_multi_solve_refines_real.
Theorem C09_multi_solve_refines_viterbi :
  forall (d : dims_t) (order : list key) (transpose : bool) (a : @mt2 trop) (b : @mt1 trop),
    NoDup (map fst d) -> NoDup order -> (forall x, In x order <-> In x (map fst d)) ->
    NoDup (map fst a) -> NoDup (map fst b) ->
    least_spec trop_ops (total d) (assemble2 trop_ops d transpose a) (assemble1 trop_ops d b)
               (get1 trop_ops (assemble1 trop_ops d (multi_solve_model trop_ops d order transpose a b))).
Proof. exact trop_multi_solve_least. Qed.
Print Assumptions C09_multi_solve_refines_viterbi.

Theorem C09_multi_solve_equals_dense_solve_bool :
  forall (d : dims_t) (order : list key) (transpose : bool) (a : @mt2 bool) (b : @mt1 bool),
    NoDup (map fst d) -> NoDup order -> (forall x, In x order <-> In x (map fst d)) ->
    NoDup (map fst a) -> NoDup (map fst b) ->
  forall i, i < total d ->
    get1 bool_ops (assemble1 bool_ops d (multi_solve_model bool_ops d order transpose a b)) i
    = get1 bool_ops (solve_model bool_ops (total d) (assemble2 bool_ops d transpose a) (assemble1 bool_ops d b)) i.
Proof. exact bool_multi_solve_is_dense_solve. Qed.
Print Assumptions C09_multi_solve_equals_dense_solve_bool.
Theorem C09_multi_solve_equals_dense_solve_real :
  forall (d : dims_t) (order : list key) (transpose : bool) (a : @mt2 ereal) (b : @mt1 ereal),
    NoDup (map fst d) -> NoDup order -> (forall x, In x order <-> In x (map fst d)) ->
    NoDup (map fst a) -> NoDup (map fst b) ->
  forall i, i < total d ->
    get1 ereal_ops (assemble1 ereal_ops d (multi_solve_model ereal_ops d order transpose a b)) i
    = get1 ereal_ops (solve_model ereal_ops (total d) (assemble2 ereal_ops d transpose a) (assemble1 ereal_ops d b)) i.
Proof. exact real_multi_solve_is_dense_solve. Qed.
Print Assumptions C09_multi_solve_equals_dense_solve_real.
Theorem C09_multi_solve_equals_dense_solve_viterbi :
  forall (d : dims_t) (order : list key) (transpose : bool) (a : @mt2 trop) (b : @mt1 trop),
    NoDup (map fst d) -> NoDup order -> (forall x, In x order <-> In x (map fst d)) ->
    NoDup (map fst a) -> NoDup (map fst b) ->
  forall i, i < total d ->
    get1 trop_ops (assemble1 trop_ops d (multi_solve_model trop_ops d order transpose a b)) i
    = get1 trop_ops (solve_model trop_ops (total d) (assemble2 trop_ops d transpose a) (assemble1 trop_ops d b)) i.
Proof. exact trop_multi_solve_is_dense_solve. Qed.
Print Assumptions C09_multi_solve_equals_dense_solve_viterbi.

(** the check functions' cross-check with the decision procedures they use *)
Theorem C09_multi_solve_check_13_impossible_carriers :
  (forall d order tr (a : @mt2 bool) b,
     NoDup (map fst d) -> NoDup order -> (forall x, In x order <-> In x (map fst d)) ->
     NoDup (map fst a) -> NoDup (map fst b) ->
     vec_all2 bool_ops Bool.eqb (total d) (assemble1 bool_ops d (multi_solve_model bool_ops d order tr a b))
              (solve_model bool_ops (total d) (assemble2 bool_ops d tr a) (assemble1 bool_ops d b)) = true)
  /\ (forall d order tr (a : @mt2 ereal) b,
     NoDup (map fst d) -> NoDup order -> (forall x, In x order <-> In x (map fst d)) ->
     NoDup (map fst a) -> NoDup (map fst b) ->
     vec_all2 ereal_ops eeqb (total d) (assemble1 ereal_ops d (multi_solve_model ereal_ops d order tr a b))
              (solve_model ereal_ops (total d) (assemble2 ereal_ops d tr a) (assemble1 ereal_ops d b)) = true)
  /\ (forall d order tr (a : @mt2 trop) b,
     NoDup (map fst d) -> NoDup order -> (forall x, In x order <-> In x (map fst d)) ->
     NoDup (map fst a) -> NoDup (map fst b) ->
     vec_all2 trop_ops teqb (total d) (assemble1 trop_ops d (multi_solve_model trop_ops d order tr a b))
              (solve_model trop_ops (total d) (assemble2 trop_ops d tr a) (assemble1 trop_ops d b)) = true).
Proof.
  exact (conj bool_multi_solve_never_13 (conj real_multi_solve_never_13 trop_multi_solve_never_13)).
Qed.
Print Assumptions C09_multi_solve_check_13_impossible_carriers.

(** * tier B: PatternedTensor.solve (fggs/indices.py), model in Model/PSolve.v.
    [a0], [a1] are the row and column patterns of [a] (they share physical axes), [e0] the pattern
    of the first dimension of [b]; [below next x]: the physical axes of [x] have uids below the
    counter [next]; [szc sz x]: every occurrence of a physical axis [k] in [x] carries the size
    [sz k] (a PhysicalAxis object has one [_numel]).
    [rng e v]          : [v] is in the support of the pattern [e] (a value of [e] at an in-range environment)
    [aimg a0 a1 P v']  : [a] has a cell (v', v) of its pattern with [P v]
    [closed_under a0 a1 P] : forall v', aimg a0 a1 P v' -> P v'
    [psolve_loop]      : the [while True] loop of the current code (exit test of commit 6df0afb);
                         [psolve_loop_old]: the loop before that commit (finding F25). *)
Require Import Fggs.Model.Axis Fggs.Model.AxisCheck Fggs.Model.PSolve Fggs.Model.PSolveCheck.
Require Import Fggs.Proofs.Axis_antiunify Fggs.Proofs.PSolve_anti Fggs.Proofs.PSolve_step Fggs.Proofs.PSolve_sized
               Fggs.Proofs.PSolve_loop Fggs.Proofs.PSolve_term Fggs.Proofs.PSolve_fuel Fggs.Proofs.PSolve_oracle
               Fggs.Proofs.PSolve_dense Fggs.Proofs.PSolve_main Fggs.Proofs.PSolve_check Fggs.Proofs.PSolve_nouf Fggs.Proofs.PSolve_tensor Fggs.Proofs.Instances_psolve.
Notation below := Fggs.Proofs.Axis_complete_gen.below (only parsing).

(** (B1) closure: when the loop exits normally and nothing was warned about, the support of the
    computed solution axis [g] contains the support of [b] and is closed under [a] *)
Theorem C09_psolve_loop_closed :
  forall (next : positive) (a0 a1 e0 : axis) (sz : positive -> nat),
    below next a0 -> below next a1 -> below next e0 ->
    (forall k, In k (fv e0) -> ~ In k (fv a0 ++ fv a1)) ->
    szc sz a0 -> szc sz a1 -> szc sz e0 ->
  forall fuel g ents i',
    psolve_loop fuel a0 a1 e0 (mkLI 0 next false []) = LDone g ents i' -> li_warn i' = false ->
    (forall v, rng e0 v -> rng g v) /\ closed_under a0 a1 (rng g).
Proof. exact psolve_loop_closed. Qed.
Print Assumptions C09_psolve_loop_closed.

(** ... and [g] has the size of [b]'s first dimension, each of its physical axes one size *)
Theorem C09_psolve_loop_shape :
  forall (next : positive) (a0 a1 e0 : axis) (sz : positive -> nat),
    below next a0 -> below next a1 -> below next e0 ->
    (forall k, In k (fv e0) -> ~ In k (fv a0 ++ fv a1)) ->
    szc sz a0 -> szc sz a1 -> szc sz e0 ->
  forall fuel g ents i',
    psolve_loop fuel a0 a1 e0 (mkLI 0 next false []) = LDone g ents i' -> li_warn i' = false ->
    numel g = numel e0 /\ (forall k n n', In (k, n) (fvn g) -> In (k, n') (fvn g) -> n = n').
Proof. exact psolve_loop_shape. Qed.
Print Assumptions C09_psolve_loop_shape.

(** the [return b.clone()] exit: no column of [a] meets the support of [b] *)
Theorem C09_psolve_loop_early :
  forall (next : positive) (a0 a1 e0 : axis) (sz : positive -> nat),
    below next a0 -> below next a1 -> below next e0 ->
    (forall k, In k (fv e0) -> ~ In k (fv a0 ++ fv a1)) ->
    szc sz a0 -> szc sz a1 -> szc sz e0 ->
  forall fuel e' i',
    psolve_loop fuel a0 a1 e0 (mkLI 0 next false []) = LEarly e' i' -> li_warn i' = false ->
    forall v, rng e0 v -> rng a1 v -> False.
Proof. exact psolve_loop_early. Qed.
Print Assumptions C09_psolve_loop_early.

(** the ingredients: one call of antiunify from the empty antisubst covers both arguments, and
    covers nothing more than the first one when the exit test (injective renaming) holds;
    a unifier computed without a warning preserves the sizes of the physical axes *)
Theorem C09_antiunify_covers :
  forall fuel (B : positive) (e f g : axis) (st' : astate),
    Fggs.Proofs.Axis_antiunify_inv.below B e -> Fggs.Proofs.Axis_antiunify_inv.below B f ->
    antiunify fuel e f (astate0 B) = Ok (g, st') -> as_warn st' = false ->
    (forall v, rng e v -> rng g v) /\ (forall v, rng f v -> rng g v) /\
    (acq_injective (as_list st') = true -> forall v, rng g v -> rng e v).
Proof.
  exact (fun fuel B e f g st' Be Bf H W =>
           conj (anti_range1 fuel B e f g st' Be Bf H W)
                (conj (anti_range2 fuel B e f g st' Be Bf H W)
                      (fun Hi v => anti_injective fuel B e f g st' Be Bf H W v Hi))).
Qed.
Print Assumptions C09_antiunify_covers.

Theorem C09_unify_sized :
  forall fuel (e f : axis) (next : positive) (b : bool) (st : ustate) (sz : positive -> nat),
    below next e -> below next f -> szc sz e -> szc sz f ->
    unify fuel e f {| us_subst := []; us_next := next; us_warn := false |} = Ok (b, st) -> us_warn st = false ->
    exists sz', agree next sz sz' /\ szs sz' (us_subst st).
Proof. exact unify_sized. Qed.
Print Assumptions C09_unify_sized.

(** finding F25 (repaired in /repo commit 6df0afb): the former exit test -- every first part of
    the antisubst is a physical axis -- also fired when ONE axis of [e] had been generalised to
    TWO new axes; the loop then returned a support that is not closed (witness: [b] on the cells
    (x, x, inl) of 2 x 2 x (1+1), [a] from column (r, inl, inl) to the rows (r', q, r)) ... *)
Theorem C09_psolve_old_exit_refuted :
  exists a0 a1 e0 next sz g ents i',
    below next a0 /\ below next a1 /\ below next e0 /\
    (forall k, In k (fv e0) -> ~ In k (fv a0 ++ fv a1)) /\
    szc sz a0 /\ szc sz a1 /\ szc sz e0 /\
    psolve_loop_old (loop_fuel e0) a0 a1 e0 (mkLI 0 next false []) = LDone g ents i' /\
    li_warn i' = false /\ ~ closed_under a0 a1 (rng g).
Proof. exact psolve_loop_old_refuted. Qed.
Print Assumptions C09_psolve_old_exit_refuted.

(** ... and a closed one under the guard that the repair turned into the exit test *)
Theorem C09_psolve_old_exit_guarded :
  forall (next : positive) (a0 a1 e0 : axis) (sz : positive -> nat),
    below next a0 -> below next a1 -> below next e0 ->
    (forall k, In k (fv e0) -> ~ In k (fv a0 ++ fv a1)) ->
    szc sz a0 -> szc sz a1 -> szc sz e0 ->
  forall fuel g ents i',
    psolve_loop_old fuel a0 a1 e0 (mkLI 0 next false []) = LDone g ents i' -> li_warn i' = false ->
    acq_injective ents = true ->
    (forall v, rng e0 v -> rng g v) /\ closed_under a0 a1 (rng g).
Proof. exact psolve_loop_old_guarded. Qed.
Print Assumptions C09_psolve_old_exit_guarded.

(** (B2) in every ordered star-semiring: if [rows] is a closed support of the system (every
    nonzero of [A] in a column of [rows] lies in a row of [rows], [B] vanishes outside the rows
    [rows] and outside the columns [cols]), then gathering the system along [rows] / [cols],
    solving it with the dense routine and scattering the result back gives, entry by entry, the
    dense routine's answer on the whole system: the least solution is zero outside the support
    and, on it, the least solution of the projected system *)
Theorem C09_restricted_solve_is_least :
  forall (S : Type) (o : sr_ops S), sr_ring o -> sr_ordered o -> sr_star o ->
  forall n m (rows cols : list nat) (A B : mat S),
    NoDup rows -> (forall r, In r rows -> r < n) -> NoDup cols -> (forall c, In c cols -> c < m) ->
    (forall i j, i < n -> In j rows -> ~ In i rows -> get2 o A i j = Semiring.zero o) ->
    (forall i c, i < n -> c < m -> ~ In i rows -> get2 o B i c = Semiring.zero o) ->
    (forall i c, i < n -> c < m -> ~ In c cols -> get2 o B i c = Semiring.zero o) ->
  forall v w, v < n -> w < m ->
    get2 o (scatter2 (Semiring.zero o) n m rows cols
              (solve_model_mat o (length rows) (length cols)
                 (gather2 (Semiring.zero o) rows rows A) (gather2 (Semiring.zero o) rows cols B))) v w
    = get2 o (solve_model_mat o n m A B) v w.
Proof. exact (@scatter_solve_gather). Qed.
Print Assumptions C09_restricted_solve_is_least.

(** if no nonzero of [A] lies in a column where [b] is nonzero, the least solution is [b] *)
Theorem C09_rhs_only_least :
  forall (S : Type) (o : sr_ops S), sr_ring o -> sr_ordered o ->
  forall n (A : mat S) (b : vec S),
    (forall i j, i < n -> j < n -> get2 o A i j = Semiring.zero o \/ get1 o b j = Semiring.zero o) ->
    least_spec o n A b (get1 o b).
Proof. exact (@rhs_only_least). Qed.
Print Assumptions C09_rhs_only_least.

(** hence PatternedTensor.solve denotes the least solution.  [A], [B]: the dense tensors the
    arguments denote -- [A] vanishes outside the pattern of [a], [B] outside the rows of the
    pattern of [b] and outside the columns [sup_cols ebs] (enumerated without repetition).
    [psolve_dense] = gather along the computed axis [g], dense solve, scatter. *)
Theorem C09_psolve_denotes_least :
  forall (S : Type) (o : sr_ops S), sr_ring o -> sr_ordered o -> sr_star o ->
  forall (next : positive) (a0 a1 b0 : axis),
    below next a0 -> below next a1 -> below next b0 ->
    (forall k, In k (fv b0) -> ~ In k (fv a0 ++ fv a1)) ->
  forall sz, szc sz a0 -> szc sz a1 -> szc sz b0 ->
  forall n m (A B : mat S), numel b0 = n ->
    (forall i j, i < n -> j < n ->
       (forall rho, inrange rho a0 -> inrange rho a1 -> eval rho a0 = i -> eval rho a1 = j -> False) ->
       get2 o A i j = Semiring.zero o) ->
    (forall i c, i < n -> c < m -> ~ rng b0 i -> get2 o B i c = Semiring.zero o) ->
  forall fuel g ents i' ebs,
    psolve_loop fuel a0 a1 b0 (mkLI 0 next false []) = LDone g ents i' -> li_warn i' = false ->
    NoDup (sup_cols ebs) -> (forall c, In c (sup_cols ebs) -> c < m) ->
    (forall i c, i < n -> c < m -> ~ In c (sup_cols ebs) -> get2 o B i c = Semiring.zero o) ->
  forall w, w < m ->
    least_spec o n A (col o n B w)
      (fun v => if v <? n then get2 o (psolve_dense o n m g ebs A B) v w else Semiring.zero o).
Proof. exact (@psolve_dense_least_spec). Qed.
Print Assumptions C09_psolve_denotes_least.

Theorem C09_psolve_equals_dense_solve :
  forall (S : Type) (o : sr_ops S), sr_ring o -> sr_ordered o -> sr_star o ->
  forall (next : positive) (a0 a1 b0 : axis),
    below next a0 -> below next a1 -> below next b0 ->
    (forall k, In k (fv b0) -> ~ In k (fv a0 ++ fv a1)) ->
  forall sz, szc sz a0 -> szc sz a1 -> szc sz b0 ->
  forall n m (A B : mat S), numel b0 = n ->
    (forall i j, i < n -> j < n ->
       (forall rho, inrange rho a0 -> inrange rho a1 -> eval rho a0 = i -> eval rho a1 = j -> False) ->
       get2 o A i j = Semiring.zero o) ->
    (forall i c, i < n -> c < m -> ~ rng b0 i -> get2 o B i c = Semiring.zero o) ->
  forall fuel g ents i' ebs,
    psolve_loop fuel a0 a1 b0 (mkLI 0 next false []) = LDone g ents i' -> li_warn i' = false ->
    NoDup (sup_cols ebs) -> (forall c, In c (sup_cols ebs) -> c < m) ->
    (forall i c, i < n -> c < m -> ~ In c (sup_cols ebs) -> get2 o B i c = Semiring.zero o) ->
  forall v w, v < n -> w < m ->
    get2 o (psolve_dense o n m g ebs A B) v w = get2 o (solve_model_mat o n m A B) v w.
Proof. exact (@psolve_dense_least). Qed.
Print Assumptions C09_psolve_equals_dense_solve.

(** the [b.clone()] exit returns the least solution as well *)
Theorem C09_psolve_early_exit_least :
  forall (S : Type) (o : sr_ops S), sr_ring o -> sr_ordered o -> sr_star o ->
  forall (next : positive) (a0 a1 b0 : axis),
    below next a0 -> below next a1 -> below next b0 ->
    (forall k, In k (fv b0) -> ~ In k (fv a0 ++ fv a1)) ->
  forall sz, szc sz a0 -> szc sz a1 -> szc sz b0 ->
  forall n m (A B : mat S),
    (forall i j, i < n -> j < n ->
       (forall rho, inrange rho a0 -> inrange rho a1 -> eval rho a0 = i -> eval rho a1 = j -> False) ->
       get2 o A i j = Semiring.zero o) ->
    (forall i c, i < n -> c < m -> ~ rng b0 i -> get2 o B i c = Semiring.zero o) ->
  forall fuel e' i',
    psolve_loop fuel a0 a1 b0 (mkLI 0 next false []) = LEarly e' i' -> li_warn i' = false ->
  forall v w, v < n -> w < m -> get2 o (solve_model_mat o n m A B) v w = get2 o B v w.
Proof. exact (@psolve_early_least). Qed.
Print Assumptions C09_psolve_early_exit_least.

(** the link to the tensors (vector right-hand side): for patterned tensors [a] (vaxes [a0; a1])
    and [b] (vaxes [b0]) whose default is the semiring zero, [dense_mat n a] / [dense_col n b]
    tabulate [PTensor.denote] (what [__getitem__] returns, C06); the model's result is the least
    solution of the system they denote *)
Theorem C09_psolve_tensor_least :
  forall (S : Type) (o : sr_ops S), sr_ring o -> sr_ordered o -> sr_star o ->
  forall (a b : PTensor.ptensor S) (a0 a1 b0 : axis) (next : positive) (sz : positive -> nat) (n : nat),
    PTensor.vaxes a = [a0; a1] -> PTensor.vaxes b = [b0] ->
    PTensor.default a = Semiring.zero o -> PTensor.default b = Semiring.zero o ->
    below next a0 -> below next a1 -> below next b0 ->
    (forall k, In k (fv b0) -> ~ In k (fv a0 ++ fv a1)) ->
    szc sz a0 -> szc sz a1 -> szc sz b0 -> numel b0 = n ->
  forall fuel g ents i',
    psolve_loop fuel a0 a1 b0 (mkLI 0 next false []) = LDone g ents i' -> li_warn i' = false ->
    least_spec o n (dense_mat n a) (col o n (dense_col n b) 0)
      (fun v => if v <? n then get2 o (psolve_dense o n 1 g [] (dense_mat n a) (dense_col n b)) v 0
                else Semiring.zero o).
Proof. exact (@psolve_tensor_least). Qed.
Print Assumptions C09_psolve_tensor_least.

Theorem C09_psolve_tensor_early_least :
  forall (S : Type) (o : sr_ops S), sr_ring o -> sr_ordered o -> sr_star o ->
  forall (a b : PTensor.ptensor S) (a0 a1 b0 : axis) (next : positive) (sz : positive -> nat) (n : nat),
    PTensor.vaxes a = [a0; a1] -> PTensor.vaxes b = [b0] ->
    PTensor.default a = Semiring.zero o -> PTensor.default b = Semiring.zero o ->
    below next a0 -> below next a1 -> below next b0 ->
    (forall k, In k (fv b0) -> ~ In k (fv a0 ++ fv a1)) ->
    szc sz a0 -> szc sz a1 -> szc sz b0 -> numel b0 = n ->
  forall fuel e' i',
    psolve_loop fuel a0 a1 b0 (mkLI 0 next false []) = LEarly e' i' -> li_warn i' = false ->
  forall v, v < n ->
    get1 o (solve_model o n (dense_mat n a) (col o n (dense_col n b) 0)) v = PTensor.denote S b [v].
Proof. exact (@psolve_tensor_early_least). Qed.
Print Assumptions C09_psolve_tensor_early_least.

(** carrier instances: no law premise *)
Theorem C09_psolve_equals_dense_solve_bool :
  forall (next : positive) (a0 a1 b0 : axis),
    below next a0 -> below next a1 -> below next b0 ->
    (forall k, In k (fv b0) -> ~ In k (fv a0 ++ fv a1)) ->
  forall sz, szc sz a0 -> szc sz a1 -> szc sz b0 ->
  forall n m (A B : mat bool), numel b0 = n ->
    (forall i j, i < n -> j < n ->
       (forall rho, inrange rho a0 -> inrange rho a1 -> eval rho a0 = i -> eval rho a1 = j -> False) ->
       get2 bool_ops A i j = false) ->
    (forall i c, i < n -> c < m -> ~ rng b0 i -> get2 bool_ops B i c = false) ->
  forall fuel g ents i' ebs,
    psolve_loop fuel a0 a1 b0 (mkLI 0 next false []) = LDone g ents i' -> li_warn i' = false ->
    NoDup (sup_cols ebs) -> (forall c, In c (sup_cols ebs) -> c < m) ->
    (forall i c, i < n -> c < m -> ~ In c (sup_cols ebs) -> get2 bool_ops B i c = false) ->
  forall v w, v < n -> w < m ->
    get2 bool_ops (psolve_dense bool_ops n m g ebs A B) v w = get2 bool_ops (solve_model_mat bool_ops n m A B) v w.
Proof. exact bool_psolve_dense_least. Qed.
Print Assumptions C09_psolve_equals_dense_solve_bool.

Theorem C09_psolve_equals_dense_solve_real :
  forall (next : positive) (a0 a1 b0 : axis),
    below next a0 -> below next a1 -> below next b0 ->
    (forall k, In k (fv b0) -> ~ In k (fv a0 ++ fv a1)) ->
  forall sz, szc sz a0 -> szc sz a1 -> szc sz b0 ->
  forall n m (A B : mat ereal), numel b0 = n ->
    (forall i j, i < n -> j < n ->
       (forall rho, inrange rho a0 -> inrange rho a1 -> eval rho a0 = i -> eval rho a1 = j -> False) ->
       get2 ereal_ops A i j = Semiring.zero ereal_ops) ->
    (forall i c, i < n -> c < m -> ~ rng b0 i -> get2 ereal_ops B i c = Semiring.zero ereal_ops) ->
  forall fuel g ents i' ebs,
    psolve_loop fuel a0 a1 b0 (mkLI 0 next false []) = LDone g ents i' -> li_warn i' = false ->
    NoDup (sup_cols ebs) -> (forall c, In c (sup_cols ebs) -> c < m) ->
    (forall i c, i < n -> c < m -> ~ In c (sup_cols ebs) -> get2 ereal_ops B i c = Semiring.zero ereal_ops) ->
  forall v w, v < n -> w < m ->
    get2 ereal_ops (psolve_dense ereal_ops n m g ebs A B) v w = get2 ereal_ops (solve_model_mat ereal_ops n m A B) v w.
Proof. exact real_psolve_dense_least. Qed.
Print Assumptions C09_psolve_equals_dense_solve_real.

Theorem C09_psolve_equals_dense_solve_viterbi :
  forall (next : positive) (a0 a1 b0 : axis),
    below next a0 -> below next a1 -> below next b0 ->
    (forall k, In k (fv b0) -> ~ In k (fv a0 ++ fv a1)) ->
  forall sz, szc sz a0 -> szc sz a1 -> szc sz b0 ->
  forall n m (A B : mat trop), numel b0 = n ->
    (forall i j, i < n -> j < n ->
       (forall rho, inrange rho a0 -> inrange rho a1 -> eval rho a0 = i -> eval rho a1 = j -> False) ->
       get2 trop_ops A i j = Semiring.zero trop_ops) ->
    (forall i c, i < n -> c < m -> ~ rng b0 i -> get2 trop_ops B i c = Semiring.zero trop_ops) ->
  forall fuel g ents i' ebs,
    psolve_loop fuel a0 a1 b0 (mkLI 0 next false []) = LDone g ents i' -> li_warn i' = false ->
    NoDup (sup_cols ebs) -> (forall c, In c (sup_cols ebs) -> c < m) ->
    (forall i c, i < n -> c < m -> ~ In c (sup_cols ebs) -> get2 trop_ops B i c = Semiring.zero trop_ops) ->
  forall v w, v < n -> w < m ->
    get2 trop_ops (psolve_dense trop_ops n m g ebs A B) v w = get2 trop_ops (solve_model_mat trop_ops n m A B) v w.
Proof. exact trop_psolve_dense_least. Qed.
Print Assumptions C09_psolve_equals_dense_solve_viterbi.

(** (B3) termination.  With [loop_fuel e0 = amsr e0 * (amsr e0 + 1) + 1] units of fuel ([amsr]
    weighs physical axis occurrences by 1, product and sum nodes by 2) the model's loop does not
    run out of fuel: for all patterns in normal form ([nouf]: no factor of size 1 inside a
    product -- what __post_init__ and productAxis guarantee) whose physical axes have one size
    each, the loop finishes within [amsr e0 * (amsr e0 + 1)] passes, unless a warning (index type
    mismatch) is issued on the way.  (Not proved: that typed patterns never warn in LATER passes;
    the typing judgement of C06 is not preserved by antiunify.  Failures of the fuel-bounded axis
    functions are the separate outcome [LErr].) *)
Theorem C09_psolve_loop_terminates :
  forall (next : positive) (a0 a1 e0 : axis) (sz : positive -> nat),
    below next a0 -> below next a1 -> below next e0 ->
    (forall k, In k (fv e0) -> ~ In k (fv a0 ++ fv a1)) ->
    szc sz a0 -> szc sz a1 -> szc sz e0 ->
    nouf a0 = true -> nouf a1 = true -> nouf e0 = true ->
    match psolve_loop (loop_fuel e0) a0 a1 e0 (mkLI 0 next false []) with
    | LFuel _ i' => li_warn i' = false -> False
    | _ => True
    end.
Proof. exact psolve_loop_terminates. Qed.
Print Assumptions C09_psolve_loop_terminates.

(** the same for arbitrary patterns, with the normal form of the clones as a premise on the trace
    of the run (checked on every case by [psolve_axis_check], verdict 15).
    Ingredients: one antiunify never increases the weight and decreases it by the number of
    recorded pairs whose first part is not a physical axis; a pass that goes on with only physical
    first parts increases the number of distinct physical axes, which the weight bounds; [unify]
    (in the values it binds), [clone] under a size-preserving substitution and [antiunify]
    preserve the normal form. *)
Theorem C09_psolve_loop_terminates_partial :
  forall (next : positive) (a0 a1 e0 : axis),
    below next a0 -> below next a1 -> below next e0 ->
    (forall k, In k (fv e0) -> ~ In k (fv a0 ++ fv a1)) ->
    match psolve_loop (loop_fuel e0) a0 a1 e0 (mkLI 0 next false []) with
    | LFuel _ i' => li_warn i' = false -> trace_nouf (li_trace i') = true -> False
    | _ => True
    end.
Proof. exact psolve_loop_terminates_partial. Qed.
Print Assumptions C09_psolve_loop_terminates_partial.

Theorem C09_antiunify_measure :
  forall fuel (e f : axis) (B : positive) (g : axis) (st' : astate),
    antiunify fuel e f (astate0 B) = Ok (g, st') -> nouf f = true ->
    amsr g + cntnp (as_list st') <= amsr e.
Proof. exact anti_measure. Qed.
Print Assumptions C09_antiunify_measure.

Theorem C09_pass_splits :
  forall fuel (B : positive) (e f g : axis) (st' : astate),
    Fggs.Proofs.Axis_antiunify_inv.below B e -> Fggs.Proofs.Axis_antiunify_inv.below B f ->
    antiunify fuel e f (astate0 B) = Ok (g, st') -> as_warn st' = false ->
    acq_all_phys (as_list st') = true -> acq_injective (as_list st') = false -> dvars e < dvars g.
Proof. exact pass_splits. Qed.
Print Assumptions C09_pass_splits.

Theorem C09_normal_form_preserved :
  (forall fuel e f next b st, nouf e = true -> nouf f = true ->
     unify fuel e f {| us_subst := []; us_next := next; us_warn := false |} = Ok (b, st) ->
     forall k T, In (k, T) (us_subst st) -> nouf T = true)
  /\ (forall sigma, Fggs.Proofs.Axis_subst.Sized sigma -> (forall k T, In (k, T) sigma -> nouf T = true) ->
      forall fuel e c, Fggs.Proofs.Axis_clone.sized_for sigma e -> nouf e = true ->
      clone fuel sigma e = Ok c -> nouf c = true)
  /\ (forall fuel e f B g st', nouf e = true -> nouf f = true ->
      antiunify fuel e f (astate0 B) = Ok (g, st') -> nouf g = true).
Proof. exact (conj unify_nouf (conj clone_nouf anti_nouf)). Qed.
Print Assumptions C09_normal_form_preserved.

(** the oracles that judge the implementation's solution axis, and what verdict 0 of the check
    function means *)
Theorem C09_psolve_oracles_sound :
  (forall b0 g, sizes_consistent (fvn b0) = true -> sizes_consistent (fvn g) = true ->
     contains_b b0 g = true -> forall v, rng b0 v -> rng g v)
  /\ (forall a0 a1 g, sizes_consistent (fvn a0 ++ fvn a1) = true -> sizes_consistent (fvn g) = true ->
     (closed_b a0 a1 g = true <-> closed_under a0 a1 (rng g)))
  /\ (forall a1 g, sizes_consistent (fvn a1) = true -> sizes_consistent (fvn g) = true ->
     disjoint_b a1 g = true -> forall v, rng g v -> rng a1 v -> False)
  /\ (forall e, (forall k n n', In (k, n) (fvn e) -> In (k, n') (fvn e) -> n = n') ->
     NoDup (sup_rows e) /\ (forall v, In v (sup_rows e) <-> rng e v) /\ (forall v, In v (sup_rows e) -> v < numel e)).
Proof.
  exact (conj contains_b_sound
        (conj (fun a0 a1 g Sa Sg => conj (closed_b_sound a0 a1 g Sa Sg) (closed_b_complete a0 a1 g Sa Sg))
        (conj disjoint_b_sound
              (fun e C => conj (sup_rows_nodup e C) (conj (sup_rows_rng e C) (sup_rows_bound e C)))))).
Qed.
Print Assumptions C09_psolve_oracles_sound.

Theorem C09_psolve_axis_check_sound :
  forall a_zero aps avs b_zero bps bvs next i_tag i_e i_iters i_warn a0 a1 b0 ebs r,
    psolve_axes a_zero b_zero aps avs bps bvs next = Some (a0, a1, b0, ebs, r) ->
    psolve_axis_check ((a_zero, aps, avs), (b_zero, bps, bvs), next, (i_tag, i_e, i_iters, i_warn)) = 0 ->
    (i_tag = 0 /\ (forall v, rng b0 v -> rng i_e v) /\ closed_under a0 a1 (rng i_e)) \/
    (i_tag = 1 /\ forall v, rng b0 v -> rng a1 v -> False).
Proof. exact psolve_axis_check_sound. Qed.
Print Assumptions C09_psolve_axis_check_sound.
