(** C15 -- hyperedge replacement is typed, fresh and order-independent.
    Only property theorems live here, each closed by [exact] and followed by Print Assumptions. *)
From Coq Require Import List Arith Bool Permutation.
Import ListNotations.
Require Import Fggs.Model.Semiring Fggs.Model.Replace Fggs.Proofs.Replace_spec Fggs.Proofs.Replace_model_spec
  Fggs.Proofs.Replace_confl Fggs.Proofs.Replace_derive_main Fggs.Proofs.Replace_corollaries Fggs.Proofs.Replace_examples Fggs.Proofs.Replace_iso Fggs.Proofs.Replace_dasst
  Fggs.Proofs.Replace_complete Fggs.Proofs.Replace_nlabs Fggs.Proofs.Replace_dasst_fun Fggs.Proofs.Replace_alias
  Fggs.Model.ReplaceCheck Fggs.Proofs.Replace_build.

(** replace_edge on a well-formed host / edge / replacement whose externals are pairwise distinct:
    returns; the result satisfies the replacement specification (exactly the edge removed, rest and
    ext untouched, externals glued to the attachment nodes in order, other nodes and all edges
    copied with fresh ids, labels and attachment order kept, ids unique); well-formedness, the
    counter bound and the label discipline are preserved.  Wrong type: ValueError, nothing changes. *)
Theorem C15_replace_spec : forall L g nx e r,
  wf_graphb g = true -> belowb nx g = true -> memb edge_eqb (g_edges g) e = true ->
  wf_graphb r = true -> nodupb node_eqb (g_ext r) = true ->
  functionalb L = true -> labels_in L g = true -> labels_in L r = true ->
  (l_type (e_label e) = gtype r ->
     exists g' nx' nm em,
       replace_edge_model g nx e r = (g', nx', Ok (nm, em)) /\
       replace_spec g e r g' nm em /\
       wf_graphb g' = true /\ belowb nx' g' = true /\ labels_in L g' = true /\ nx <= nx')
  /\ (l_type (e_label e) <> gtype r -> replace_edge_model g nx e r = (g, nx, Err ValueErr)).
Proof. exact replace_spec_main. Qed.
Print Assumptions C15_replace_spec.

(** an edge whose id is not in the graph: ValueError (after the type check), nothing changes *)
Theorem C15_replace_absent_edge : forall g nx e r, has_edge_id g (e_id e) = false ->
  replace_edge_model g nx e r = (g, nx, Err ValueErr).
Proof. exact replace_absent_edge. Qed.
Print Assumptions C15_replace_absent_edge.

(** the executable oracle run on every implementation output is sound for the specification *)
Theorem C15_replace_ok_sound : forall host e repl res nm em,
  replace_ok host e repl res nm em = true -> replace_spec host e repl res nm em.
Proof. exact replace_ok_sound. Qed.
Print Assumptions C15_replace_ok_sound.

(** without the NoDup guard on the externals the code does not identify externals with attachment
    nodes in order (a repeated external is mapped to the LAST zipped attachment) *)
Theorem C15_replace_glue_refuted :
  exists g nx e r g' nx' nm em,
    wf_graphb g = true /\ belowb nx g = true /\ memb edge_eqb (g_edges g) e = true /\ wf_graphb r = true /\
    l_type (e_label e) = gtype r /\
    replace_edge_model g nx e r = (g', nx', Ok (nm, em)) /\
    map (aget node_eqb nm) (g_ext r) <> map Some (e_att e).
Proof. exact replace_glue_refuted. Qed.
Print Assumptions C15_replace_glue_refuted.

(** confluence: for every well-formed derivation tree and EVERY sequence of replacement steps
    (each step rewrites a currently pending nonterminal edge; a step naming a path that is not
    pending is the only way a run can fail), when nothing is pending any more the graph is
    isomorphic, through the accumulated node/edge maps, to the order-free [derived_graph]. *)
Theorem C15_confluence : forall L t nx,
  wf_dtreeb L t = true -> functionalb L = true ->
  forall l,
    (forall k, run l (init_state t nx) = Err k -> k = OtherErr) /\
    (forall s, run l (init_state t nx) = Ok s -> rs_pending s = [] ->
       iso_via (rs_graph s) (rs_nnames s) (rs_enames s) (derived_graph t)).
Proof. exact confluence_main. Qed.
Print Assumptions C15_confluence.

(** hence any two complete orders give graphs isomorphic to the same canonical graph *)
Theorem C15_confluence_two_orders : forall L t nx l1 l2 s1 s2,
  wf_dtreeb L t = true -> functionalb L = true ->
  run l1 (init_state t nx) = Ok s1 -> rs_pending s1 = [] ->
  run l2 (init_state t nx) = Ok s2 -> rs_pending s2 = [] ->
  iso_via (rs_graph s1) (rs_nnames s1) (rs_enames s1) (derived_graph t) /\
  iso_via (rs_graph s2) (rs_nnames s2) (rs_enames s2) (derived_graph t).
Proof. exact confluence_two_orders. Qed.
Print Assumptions C15_confluence_two_orders.

(** complete linearisations exist: the depth-first order is one, and it is what derive() does *)
Theorem C15_derive_is_a_linearisation : forall L t nx,
  wf_dtreeb L t = true -> functionalb L = true ->
  exists rs, run (preorder [] t) (init_state t nx) = Ok rs /\ rs_pending rs = [] /\
             derive_model t nx = (mkDS (rs_graph rs) (rs_next rs) (rs_asst rs), None).
Proof. exact derive_is_a_linearisation. Qed.
Print Assumptions C15_derive_is_a_linearisation.

Theorem C15_same_upto_naming_sound : forall g nn en d,
  same_upto_naming g nn en d = true -> iso_via g nn en d.
Proof. exact same_upto_naming_sound. Qed.
Print Assumptions C15_same_upto_naming_sound.

(** the names of the derived graph are pairwise distinct (so [iso_via] is a bijection) *)
Theorem C15_derived_names_distinct : forall L t, wf_dtreeb L t = true ->
  NoDup (map fst (d_nodes (derived_graph t))) /\ NoDup (map (fun x => fst (fst x)) (d_edges (derived_graph t))).
Proof. exact derived_names_distinct. Qed.
Print Assumptions C15_derived_names_distinct.

(** derive(): returns (no exception) the derived graph, with an assignment that is total on its
    nodes and whose factor-weight product equals the product of the rule-instance weights, in
    every commutative semiring and for every family of factors [w] *)
Theorem C15_derive : forall L t nx,
  wf_dtreeb L t = true -> functionalb L = true ->
  exists s nn en,
    derive_model t nx = (s, None) /\
    iso_via (ds_graph s) nn en (derived_graph t) /\
    (forall v, In v (g_nodes (ds_graph s)) -> amem node_eqb (ds_asst s) v = true) /\
    forall (S : Type) (o : sr_ops S) (w : elabel -> list nat -> S), sr_ring o ->
      exists W, graph_weight o w (ds_graph s) (ds_asst s) = Some W /\ tree_weight o w t = Some W.
Proof. exact derive_main. Qed.
Print Assumptions C15_derive.

(** the hypotheses are satisfiable by non-trivial values: a 4-instance derivation with a reused
    rule, two different complete linearisations with different graphs, and a rejected sequence *)
Theorem C15_examples :
  (wf_dtreeb xL xtree = true /\ functionalb xL = true /\ tsize xtree = 4) /\
  xcheck = true /\ xbad = true /\ xderive = true.
Proof. exact examples_main. Qed.
Print Assumptions C15_examples.

(** start_graph: a single edge labelled by the start symbol attached to fresh pairwise distinct
    nodes of the right labels, nothing else; ids below the new counter *)
Theorem C15_start_graph : forall s nx,
  start_ok s (fst (fst (start_graph_model s nx))) = true /\
  belowb (snd (fst (start_graph_model s nx))) (fst (fst (start_graph_model s nx))) = true /\
  In (snd (start_graph_model s nx)) (g_edges (fst (fst (start_graph_model s nx)))).
Proof. exact start_graph_model_ok. Qed.
Print Assumptions C15_start_graph.

(** ... and to each other: the relations "same name" on nodes and on edges are bijections between
    the two graphs preserving node labels, edge labels and attachment lists in order *)
Theorem C15_two_orders_isomorphic : forall L t nx l1 l2 s1 s2,
  wf_dtreeb L t = true -> functionalb L = true ->
  run l1 (init_state t nx) = Ok s1 -> rs_pending s1 = [] ->
  run l2 (init_state t nx) = Ok s2 -> rs_pending s2 = [] ->
  graph_iso (rs_graph s1) (rs_graph s2) (Rn (rs_nnames s1) (rs_nnames s2)) (Re (rs_enames s1) (rs_enames s2)).
Proof. exact two_orders_isomorphic. Qed.
Print Assumptions C15_two_orders_isomorphic.

(** the assignment is the derived one: after ANY sequence of steps every value of a named node is
    the value the denotational [derived_asst] gives to that name; in particular for derive() *)
Theorem C15_run_assignment : forall L t nx l s,
  wf_dtreeb L t = true -> functionalb L = true ->
  run l (init_state t nx) = Ok s ->
  forall v x y, In (v, x) (rs_nnames s) -> aget node_eqb (rs_asst s) v = Some y -> In (x, y) (derived_asst t).
Proof. exact run_asst_derived. Qed.
Print Assumptions C15_run_assignment.

Theorem C15_derive_assignment : forall L t nx,
  wf_dtreeb L t = true -> functionalb L = true ->
  exists s nn en,
    derive_model t nx = (s, None) /\ iso_via (ds_graph s) nn en (derived_graph t) /\
    forall v x y, In (v, x) nn -> aget node_eqb (ds_asst s) v = Some y -> In (x, y) (derived_asst t).
Proof. exact derive_asst_main. Qed.
Print Assumptions C15_derive_assignment.

(** ** the oracles are exact deciders of the specifications (sound AND complete, unbounded) *)
Theorem C15_replace_ok_exact : forall host e repl res nm em,
  replace_ok host e repl res nm em = true <-> replace_spec host e repl res nm em.
Proof. exact replace_ok_iff. Qed.
Print Assumptions C15_replace_ok_exact.

(** so an output the oracle rejects is a genuine violation of the replacement specification *)
Theorem C15_replace_ok_rejects : forall host e repl res nm em,
  replace_ok host e repl res nm em = false <-> ~ replace_spec host e repl res nm em.
Proof. exact replace_ok_false. Qed.
Print Assumptions C15_replace_ok_rejects.

Theorem C15_same_upto_naming_exact : forall g nn en d,
  same_upto_naming g nn en d = true <-> iso_via g nn en d.
Proof. exact same_upto_naming_iff. Qed.
Print Assumptions C15_same_upto_naming_exact.

Theorem C15_same_upto_naming_rejects : forall g nn en d,
  same_upto_naming g nn en d = false <-> ~ iso_via g nn en d.
Proof. exact same_upto_naming_false. Qed.
Print Assumptions C15_same_upto_naming_rejects.

(** start_graph: [start_ok] decides the Prop-level specification (one edge labelled by the start
    symbol on pairwise distinct nodes of the right labels, nothing else, both label tables exact) *)
Theorem C15_start_ok_exact : forall s g, start_ok s g = true <-> start_spec s g.
Proof. exact start_ok_iff. Qed.
Print Assumptions C15_start_ok_exact.

Theorem C15_start_graph_spec : forall s nx, start_spec s (fst (fst (start_graph_model s nx))).
Proof. exact start_graph_model_spec. Qed.
Print Assumptions C15_start_graph_spec.

Theorem C15_oracle_exact_example :
  (exists g' nx' nm em, replace_edge_model ex_host 2 ex_edge ex_repl = (g', nx', Ok (nm, em)) /\
                        replace_spec ex_host ex_edge ex_repl g' nm em) /\
  ~ replace_spec ex_host ex_edge ex_repl ex_host [] [].
Proof. exact replace_ok_iff_example. Qed.
Print Assumptions C15_oracle_exact_example.

(** ** the denotational assignment is a function of the node name, defined exactly on the node
    names of the derived graph (same list of names, in the same order) *)
Theorem C15_derived_asst_names : forall L t, wf_dtreeb L t = true ->
  map fst (derived_asst t) = map fst (d_nodes (derived_graph t)).
Proof. exact derived_asst_names. Qed.
Print Assumptions C15_derived_asst_names.

Theorem C15_derived_asst_nodup : forall L t, wf_dtreeb L t = true -> NoDup (map fst (derived_asst t)).
Proof. exact derived_asst_nodup. Qed.
Print Assumptions C15_derived_asst_nodup.

Theorem C15_derived_asst_function : forall L t, wf_dtreeb L t = true ->
  (forall x y y', In (x, y) (derived_asst t) -> In (x, y') (derived_asst t) -> y = y') /\
  (forall x, In x (map fst (d_nodes (derived_graph t))) <-> exists y, In (x, y) (derived_asst t)).
Proof. exact derived_asst_function. Qed.
Print Assumptions C15_derived_asst_function.

(** after ANY sequence of steps the assignment has values only at nodes of the graph *)
Theorem C15_run_assignment_keys : forall L t nx l s,
  wf_dtreeb L t = true -> functionalb L = true ->
  run l (init_state t nx) = Ok s ->
  forall v, amem node_eqb (rs_asst s) v = true -> In v (g_nodes (rs_graph s)).
Proof. exact run_asst_keys. Qed.
Print Assumptions C15_run_assignment_keys.

(** derive(): the assignment is defined on the derived graph's nodes AND NOWHERE ELSE, and read
    through the names it is exactly the denotational assignment (both inclusions) *)
Theorem C15_derive_assignment_exact : forall L t nx,
  wf_dtreeb L t = true -> functionalb L = true ->
  exists s nn en,
    derive_model t nx = (s, None) /\ iso_via (ds_graph s) nn en (derived_graph t) /\
    (forall v, amem node_eqb (ds_asst s) v = true <-> In v (g_nodes (ds_graph s))) /\
    (forall x y, In (x, y) (derived_asst t) <->
                 exists v, In (v, x) nn /\ aget node_eqb (ds_asst s) v = Some y).
Proof. exact derive_asst_exact. Qed.
Print Assumptions C15_derive_assignment_exact.

Theorem C15_derived_asst_example :
  wf_dtreeb xL xtree = true /\ length (derived_asst xtree) = 3 /\
  map fst (derived_asst xtree) = map fst (d_nodes (derived_graph xtree)).
Proof. exact derived_asst_example. Qed.
Print Assumptions C15_derived_asst_example.

(** ** the node-label table [_node_labels]: a replacement only appends to it, keeps every node's
    label registered, and keeps it tight (duplicate-free, exactly the labels of the nodes) *)
Theorem C15_replace_node_labels : forall host e repl res nm em, replace_spec host e repl res nm em ->
  (exists t, g_nlabs res = g_nlabs host ++ t) /\
  (nl_closed host -> nl_closed res) /\
  (nl_tight host -> nl_tight res).
Proof. exact replace_spec_nlabs. Qed.
Print Assumptions C15_replace_node_labels.

Theorem C15_run_node_labels : forall L t nx l s,
  wf_dtreeb L t = true -> functionalb L = true ->
  run l (init_state t nx) = Ok s -> nl_tight (rs_graph s).
Proof. exact run_nlabs_tight. Qed.
Print Assumptions C15_run_node_labels.

Theorem C15_derive_node_labels : forall L t nx,
  wf_dtreeb L t = true -> functionalb L = true ->
  exists s, derive_model t nx = (s, None) /\ nl_tight (ds_graph s).
Proof. exact derive_nlabs_tight. Qed.
Print Assumptions C15_derive_node_labels.

(** ** replace_edge(g, e, g): host used as its own replacement.
    The code as it is now (/repo 0be4bef reads the replacement before mutating the host): the aliased
    call is the functional model with [r := g]; on a well-formed, well-typed call it returns a result
    that satisfies the replacement specification, preserves well-formedness, the counter bound and the
    label discipline; a wrong type is rejected with nothing changed *)
Theorem C15_replace_self_spec : forall L g nx e,
  wf_graphb g = true -> belowb nx g = true -> memb edge_eqb (g_edges g) e = true ->
  nodupb node_eqb (g_ext g) = true -> functionalb L = true -> labels_in L g = true ->
  (l_type (e_label e) = gtype g ->
     exists g' nx' nm em, replace_edge_self_model g nx e = (g', nx', Ok (nm, em)) /\ replace_spec g e g g' nm em /\
                          wf_graphb g' = true /\ belowb nx' g' = true /\ labels_in L g' = true /\ nx <= nx')
  /\ (l_type (e_label e) <> gtype g -> replace_edge_self_model g nx e = (g, nx, Err ValueErr)).
Proof. exact replace_self_spec. Qed.
Print Assumptions C15_replace_self_spec.

(** ... in particular the result contains a copy of [e] itself (what the old code lost) *)
Theorem C15_replace_self_copies_e : forall L g nx e,
  wf_graphb g = true -> belowb nx g = true -> memb edge_eqb (g_edges g) e = true ->
  nodupb node_eqb (g_ext g) = true -> functionalb L = true -> labels_in L g = true ->
  l_type (e_label e) = gtype g ->
  exists g' nx' nm em ge, replace_edge_self_model g nx e = (g', nx', Ok (nm, em)) /\
                          In (e, ge) em /\ In ge (g_edges g') /\ e_label ge = e_label e.
Proof. exact replace_self_copies_e. Qed.
Print Assumptions C15_replace_self_copies_e.

(** ** record of finding c15_replacement_is_host (fixed by 0be4bef): the OLD code, modelled by
    [replace_edge_alias_model_old], never returned a result satisfying the specification ... *)
Theorem C15_replace_alias_old_never_spec : forall g nx e g' nx' nm em,
  replace_edge_alias_model_old g nx e = (g', nx', Ok (nm, em)) -> ~ replace_spec g e g g' nm em.
Proof. exact replace_alias_old_never_spec. Qed.
Print Assumptions C15_replace_alias_old_never_spec.

(** ... on every well-formed, well-typed aliased call it raised RuntimeError with the edge already
    removed, or (every node external, [e] the only edge) returned the host minus [e] with an empty
    edge map, which is not a replacement by the caller's graph *)
Theorem C15_replace_alias_old_guarded : forall L g nx e,
  wf_graphb g = true -> belowb nx g = true -> memb edge_eqb (g_edges g) e = true ->
  nodupb node_eqb (g_ext g) = true -> functionalb L = true -> labels_in L g = true ->
  l_type (e_label e) = gtype g ->
  (exists g' nx', replace_edge_alias_model_old g nx e = (g', nx', Err RuntimeErr) /\
                  has_edge_id g' (e_id e) = false /\ g' <> g)
  \/ (exists nm, replace_edge_alias_model_old g nx e = (remove_edge_id g (e_id e), nx, Ok (nm, [])) /\
                 ~ replace_spec g e g (remove_edge_id g (e_id e)) nm []).
Proof. exact replace_alias_old_guarded_b. Qed.
Print Assumptions C15_replace_alias_old_guarded.

(** concrete witnesses of both outcomes of the old code (vm_compute), next to the outcome of the code
    as it is now on the same input *)
Theorem C15_replace_alias_old_refuted :
  (wf_graphb al_host1 = true /\ belowb 0 al_host1 = true /\ memb edge_eqb (g_edges al_host1) al_e = true /\
   nodupb node_eqb (g_ext al_host1) = true /\ functionalb [al_t; al_X] = true /\ labels_in [al_t; al_X] al_host1 = true /\
   l_type (e_label al_e) = gtype al_host1 /\
   exists g', replace_edge_alias_model_old al_host1 0 al_e = (g', 1, Err RuntimeErr) /\
              length (g_nodes g') = 3 /\ length (g_edges g') = 1) /\
  (wf_graphb al_host2 = true /\ belowb 0 al_host2 = true /\ memb edge_eqb (g_edges al_host2) al_e2 = true /\
   nodupb node_eqb (g_ext al_host2) = true /\ functionalb [al_X] = true /\ labels_in [al_X] al_host2 = true /\
   l_type (e_label al_e2) = gtype al_host2 /\
   exists g' nm, replace_edge_alias_model_old al_host2 0 al_e2 = (g', 0, Ok (nm, [])) /\ g_edges g' = [] /\
                 ~ replace_spec al_host2 al_e2 al_host2 g' nm [] /\
                 exists g'' nm' em', replace_edge_self_model al_host2 0 al_e2 = (g'', 1, Ok (nm', em')) /\
                                     length (g_edges g'') = 1 /\ replace_spec al_host2 al_e2 al_host2 g'' nm' em').
Proof. exact replace_alias_old_refuted. Qed.
Print Assumptions C15_replace_alias_old_refuted.

(** Graphs built through the construction / conversion / copy paths of the library ([Graph.copy],
    [FactorGraph.from_graph], [FactorGraph.copy], rule / grammar copies, JSON, [ext] assigned in any order):
    the observation oracle is exact.  Verdict 0 iff the observed [.type] IS the list of the labels of the
    external nodes (computed by the model from [.ext], never taken from the implementation), [.arity] their
    number, the conversion kept the content and every [HRGRule(lhs, g)] attempt ended as the types say. *)
Theorem C15_build_check_exact : forall wsrc wout mode ty ar wrules,
  build_check (wsrc, wout, mode, (ty, ar), wrules) = 0 <->
  (ty = gtype (d_graph wout) /\ ar = length (g_ext (d_graph wout)))
  /\ content_eqb mode (d_graph wsrc) (d_graph wout) = true
  /\ rules_obs_ok (map (fun p => (d_lab (fst p), snd p)) wrules) (d_graph wout) = true.
Proof. exact build_check_exact. Qed.
Print Assumptions C15_build_check_exact.

(** verdict 1 is a genuine failing input: [.type] / [.arity] is not what the external nodes say *)
Theorem C15_build_check_type_rejects : forall wsrc wout mode ty ar wrules,
  build_check (wsrc, wout, mode, (ty, ar), wrules) = 1 <->
  ~ (ty = gtype (d_graph wout) /\ ar = length (g_ext (d_graph wout))).
Proof. exact build_check_type_rejects. Qed.
Print Assumptions C15_build_check_type_rejects.

Theorem C15_rules_obs_ok_exact : forall rules g,
  rules_obs_ok rules g = true <->
  forall lhs st, In (lhs, st) rules ->
    (st = 0 /\ l_term lhs = false /\ l_type lhs = gtype g) \/ (st = 1 /\ rule_accepts lhs g = false).
Proof. exact rules_obs_ok_exact. Qed.
Print Assumptions C15_rules_obs_ok_exact.

(** replace_edge reads the replacement only through nodes(), edges() and ext: replacements with the same
    content give the same result (same accept / reject decision), however they were built *)
Theorem C15_replace_only_reads_content : forall g nx e r r',
  g_nodes r = g_nodes r' -> g_edges r = g_edges r' -> g_ext r = g_ext r' ->
  replace_edge_model g nx e r = replace_edge_model g nx e r'.
Proof. exact replace_only_reads_content. Qed.
Print Assumptions C15_replace_only_reads_content.

Theorem C15_replace_same_content : forall g nx e r r',
  content_eqb 0 r r' = true -> replace_edge_model g nx e r = replace_edge_model g nx e r'.
Proof. exact replace_same_content. Qed.
Print Assumptions C15_replace_same_content.

(** wrong type -- the type being the labels of the replacement's external nodes -- is rejected with the
    graph untouched, for every replacement (no well-formedness hypothesis) *)
Theorem C15_replace_wrong_type_rejected : forall g nx e r,
  l_type (e_label e) <> map n_label (g_ext r) -> replace_edge_model g nx e r = (g, nx, Err ValueErr).
Proof. exact replace_wrong_type_rejected. Qed.
Print Assumptions C15_replace_wrong_type_rejected.

Theorem C15_build_check_example :
  let n0 := ((0, 0), 0) in let n1 := ((0, 1), 1) in let n2 := ((1, 0), 1) in
  let f := (0, [0; 1], true) in
  let g := ([n0; n1; n2], [((0, 2), f, [n0; n1]); ((1, 1), f, [n0; n2])], [n0; n1], [f], [0; 1]) in
  build_check (g, g, 0, ([0; 1], 2), [((1, [0; 1], false), 0); ((2, [], false), 1); (f, 1)]) = 0
  /\ build_check (g, g, 0, ([], 2), []) = 1
  /\ build_check (g, g, 0, ([0; 1], 2), [((1, [0; 1], false), 1)]) = 3.
Proof. exact build_check_example. Qed.
Print Assumptions C15_build_check_example.
