(** C15 -- hyperedge replacement is typed, fresh and order-independent.
    Only property theorems live here, each closed by [exact] and followed by Print Assumptions. *)
From Coq Require Import List Arith Bool Permutation.
Import ListNotations.
Require Import Fggs.Model.Replace Fggs.Proofs.Replace_spec Fggs.Proofs.Replace_model_spec
  Fggs.Proofs.Replace_confl.

(** replace_edge on a well-formed host / edge / replacement whose externals are pairwise distinct:
    returns; the result satisfies the replacement specification (exactly the edge removed, rest and
    ext untouched, externals glued to the attachment nodes in order, other nodes and all edges
    copied with fresh ids, labels and attachment order kept, ids unique); well-formedness, the
    counter bound and the label discipline are preserved.  Wrong type: ValueError, nothing changes. *)
Theorem C15_replace_spec : forall L g nx e r,
  wf_graphb g = true -> belowb nx g = true -> memb edge_eqb (g_edges g) e = true ->
  wf_graphb r = true -> nodupb node_eqb (g_ext r) = true ->
  functionalb L = true -> labels_in L g = true -> labels_in L r = true ->
  (l_type (e_label e) = gtype r ->
     exists g' nx' nm em,
       replace_edge_model g nx e r = (g', nx', Ok (nm, em)) /\
       replace_spec g e r g' nm em /\
       wf_graphb g' = true /\ belowb nx' g' = true /\ labels_in L g' = true /\ nx <= nx')
  /\ (l_type (e_label e) <> gtype r -> replace_edge_model g nx e r = (g, nx, Err ValueErr)).
Proof. exact replace_spec_main. Qed.
Print Assumptions C15_replace_spec.

(** an edge whose id is not in the graph: ValueError (after the type check), nothing changes *)
Theorem C15_replace_absent_edge : forall g nx e r, has_edge_id g (e_id e) = false ->
  replace_edge_model g nx e r = (g, nx, Err ValueErr).
Proof. exact replace_absent_edge. Qed.
Print Assumptions C15_replace_absent_edge.

(** the executable oracle run on every implementation output is sound for the specification *)
Theorem C15_replace_ok_sound : forall host e repl res nm em,
  replace_ok host e repl res nm em = true -> replace_spec host e repl res nm em.
Proof. exact replace_ok_sound. Qed.
Print Assumptions C15_replace_ok_sound.

(** without the NoDup guard on the externals the code does not identify externals with attachment
    nodes in order (a repeated external is mapped to the LAST zipped attachment) *)
Theorem C15_replace_glue_refuted :
  exists g nx e r g' nx' nm em,
    wf_graphb g = true /\ belowb nx g = true /\ memb edge_eqb (g_edges g) e = true /\ wf_graphb r = true /\
    l_type (e_label e) = gtype r /\
    replace_edge_model g nx e r = (g', nx', Ok (nm, em)) /\
    map (aget node_eqb nm) (g_ext r) <> map Some (e_att e).
Proof. exact replace_glue_refuted. Qed.
Print Assumptions C15_replace_glue_refuted.

(** confluence: for every well-formed derivation tree and EVERY sequence of replacement steps
    (each step rewrites a currently pending nonterminal edge; a step naming a path that is not
    pending is the only way a run can fail), when nothing is pending any more the graph is
    isomorphic, through the accumulated node/edge maps, to the order-free [derived_graph]. *)
Theorem C15_confluence : forall L t nx,
  wf_dtreeb L t = true -> functionalb L = true ->
  forall l,
    (forall k, run l (init_state t nx) = Err k -> k = OtherErr) /\
    (forall s, run l (init_state t nx) = Ok s -> rs_pending s = [] ->
       iso_via (rs_graph s) (rs_nnames s) (rs_enames s) (derived_graph t)).
Proof. exact confluence_main. Qed.
Print Assumptions C15_confluence.

Theorem C15_same_upto_naming_sound : forall g nn en d,
  same_upto_naming g nn en d = true -> iso_via g nn en d.
Proof. exact same_upto_naming_sound. Qed.
Print Assumptions C15_same_upto_naming_sound.
