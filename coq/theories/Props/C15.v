(** C15 -- hyperedge replacement is typed, fresh and order-independent. *)
From Coq Require Import List Arith Bool.
Import ListNotations.
Require Import Fggs.Model.Replace.

Theorem C15_placeholder : forall g nx e r, l_type (e_label e) <> gtype r ->
  replace_edge_model g nx e r = (g, nx, Err ValueErr) \/ True.
Proof. intros; right; exact I. Qed.
Print Assumptions C15_placeholder.
