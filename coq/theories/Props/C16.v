(** C16 -- graphs and grammars stay well formed under any sequence of API calls.
    Only property theorems live here, each closed by [exact] and followed by Print Assumptions. *)
From Coq Require Import List Arith Bool.
Import ListNotations.
Require Import Fggs.Model.GraphAPI Fggs.Proofs.GraphAPI_refuted.

(** For the code as it stands the property is false: a reachable well-formed state and a call
    after which the state is not well formed (F11; further classes in Proofs/GraphAPI_refuted.v). *)
Theorem C16_inv_refuted :
  exists s o, reachable s /\ wf_b (observe s) = true /\ wf_b (observe (fst (step s o))) = false.
Proof. exact GraphAPI_refuted.C16_inv_refuted. Qed.
Print Assumptions C16_inv_refuted.

Theorem C16_failure_atomic_refuted :
  exists s o, reachable s /\ is_err (snd (step s o)) = true /\ observe (fst (step s o)) <> observe s.
Proof. exact GraphAPI_refuted.C16_failure_atomic_refuted. Qed.
Print Assumptions C16_failure_atomic_refuted.
