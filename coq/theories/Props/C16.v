(** C16 -- graphs and grammars stay well formed under any sequence of API calls.
    Only property theorems live here, each closed by [exact] and followed by Print Assumptions.

    Model: Fggs.Model.GraphAPI ([step], [observe], [wf_b], guard [guard_wf] = [alias_ok]),
    following /repo/fggs/fggs.py after the repairs 349378f, 80c0f78, 068b525, 6c89611.
    [inv] (Proofs/GraphAPI_wf.v) is well-formedness of the whole family of objects:
    attachment and external nodes are nodes of their graph, every node / edge / label is stored
    under its own id / name (so ids are unique and a name denotes one label), every edge's
    label is the one registered under its name and types the edge's nodes, every rule's lhs is
    registered and has the type of its rhs (a live graph all of whose edge labels the grammar
    has registered).

    One class remains for which the unguarded statement is false: a grammar keeps a reference
    to the caller's rhs graph ([C16_inv_refuted]); [guard_wf] excludes exactly the successful
    ext= / add_edge / new_edge calls on such a graph that change its type or use a label the
    owning grammar has not registered.  Atomicity and the copy statements hold unguarded. *)
From Coq Require Import List Arith Bool.
Import ListNotations.
Require Import Fggs.Model.GraphAPI.
Require Import Fggs.Proofs.GraphAPI_wf Fggs.Proofs.GraphAPI_inv Fggs.Proofs.GraphAPI_oracle
        Fggs.Proofs.GraphAPI_atomic Fggs.Proofs.GraphAPI_frame Fggs.Proofs.GraphAPI_eq
        Fggs.Proofs.GraphAPI_copy Fggs.Proofs.GraphAPI_refuted Fggs.Proofs.GraphAPI_examples
        Fggs.Proofs.GraphAPI_weights.

(** * (A) C16_inv *)
Theorem C16_inv_init : inv init.
Proof. exact inv_init. Qed.
Print Assumptions C16_inv_init.

(** one call, successful or raising, with any arguments (nodes re-using ids, clashing labels,
    wrong types, ...): well-formedness is preserved, unless the call successfully mutates a
    graph that a grammar uses as a rule's rhs in a way the grammar cannot follow *)
Theorem C16_inv_step : forall s o, inv s -> guard_wf s o = true -> inv (fst (step s o)).
Proof. exact step_inv. Qed.
Print Assumptions C16_inv_step.

Theorem C16_inv_reachable :
  forall ops, all_guarded init ops = true ->
              inv (run init ops) /\ wf_b (observe (run init ops)) = true.
Proof. exact (fun ops G => conj (run_inv ops init inv_init G) (reachable_wf ops G)). Qed.
Print Assumptions C16_inv_reachable.

(** the oracle that judges the implementation's states is sound: what it accepts has the
    properties the statement lists *)
Theorem C16_wf_oracle_sound : forall all, wf_b all = true -> forall o, In o all -> obs_wf all o.
Proof. exact wf_b_sound. Qed.
Print Assumptions C16_wf_oracle_sound.

Theorem C16_wf_oracle_complete : forall s, inv s -> wf_b (observe s) = true.
Proof. exact inv_wf_b. Qed.
Print Assumptions C16_wf_oracle_complete.

(** the remaining defect: without the guard the statement is false *)
Theorem C16_inv_refuted :
  exists s o, reachable s /\ wf_b (observe s) = true /\ guard_wf s o = false /\
              wf_b (observe (fst (step s o))) = false.
Proof. exact GraphAPI_refuted.C16_inv_refuted. Qed.
Print Assumptions C16_inv_refuted.

Theorem C16_inv_refuted_rhs_alias_ext :
  breaks_wf [NewGraph; AddNode 0 (NVal ax); SetExt 0 [NVal ax]; NewHRG (SName 2); AddRule 1 XA 0]
            (SetExt 0 []).
Proof. exact inv_refuted_alias_set_ext. Qed.
Print Assumptions C16_inv_refuted_rhs_alias_ext.

Theorem C16_inv_refuted_rhs_alias_add_edge :
  breaks_wf [NewGraph; NewHRG (SName 2); NewRule 1 1 0] (AddEdge 0 fA [NVal ax] (IdStr 0)).
Proof. exact inv_refuted_alias_add_edge. Qed.
Print Assumptions C16_inv_refuted_rhs_alias_add_edge.

(** * (A) C16_failure_atomic: unconditional *)
(** a call that raises leaves every object as it was -- in every state, for every call *)
Theorem C16_failure_atomic :
  forall s o, is_err (snd (step s o)) = true -> observe (fst (step s o)) = observe s.
Proof. exact step_atomic_observe. Qed.
Print Assumptions C16_failure_atomic.

Theorem C16_failure_atomic_objs :
  forall s o, is_err (snd (step s o)) = true -> objs (fst (step s o)) = objs s.
Proof. exact step_atomic. Qed.
Print Assumptions C16_failure_atomic_objs.

(** * (A) C16_copy *)
(** frame: a call changes at most the object behind its target handle (new objects are
    appended); holds in every state *)
Theorem C16_frame :
  forall s o k, k < length (objs s) -> target o <> Some k ->
                nth_error (objs (fst (step s o))) k = nth_error (objs s) k.
Proof. exact step_other_unchanged. Qed.
Print Assumptions C16_frame.

Theorem C16_frame_oracle :
  forall s o, frame_ok 0 (target o) (observe s) (observe (fst (step s o))) = true.
Proof. exact frame_ok_model. Qed.
Print Assumptions C16_frame_oracle.

(** plain Graph / HRG objects never carry domains or factors: holds in every reachable state *)
Theorem C16_plain_reachable : forall ops, plain_ok (run init ops).
Proof. exact reachable_plain_ok. Qed.
Print Assumptions C16_plain_reachable.

(** a successful copy is [==] to its original *)
Theorem C16_copy_eq :
  forall s h a, inv s -> nth_error (objs s) h = Some a -> snd (step s (Copy h)) = ROk ->
    let s' := fst (step s (Copy h)) in
    exists c, nth_error (objs s') (length (objs s)) = Some c /\ nth_error (objs s') h = Some a /\
              obj_eqb (objs s') a c = true.
Proof. exact copy_eq. Qed.
Print Assumptions C16_copy_eq.

(** a successful copy SHOWS what its original shows -- every accessor, label tables, domains
    and factor weights included; for a grammar: same rules under the same left-hand sides in
    the same order, each rhs a fresh graph that shows what the original rhs shows
    ([copy_match true], the oracle the harness applies to the implementation) *)
Theorem C16_copy_observe :
  forall s h a, inv s -> plain_ok s -> nth_error (objs s) h = Some a -> snd (step s (Copy h)) = ROk ->
    let s' := fst (step s (Copy h)) in
    exists c, nth_error (objs s') (length (objs s)) = Some c /\
              copy_match true (observe s') (obs_obj a) (obs_obj c) = true.
Proof. exact copy_observe. Qed.
Print Assumptions C16_copy_observe.

(** for a Graph / FactorGraph the copy shows literally the same thing *)
Theorem C16_copy_observe_graph :
  forall g c, graph_ok g -> plain_obj (OG g) -> g_copy g = inl c -> obs_obj (OG c) = obs_obj (OG g).
Proof. exact g_copy_observe. Qed.
Print Assumptions C16_copy_observe_graph.

(** the copy of a grammar refers only to new graph objects ... *)
Theorem C16_copy_fresh :
  forall s h x, nth_error (objs s) h = Some (OH x) -> snd (step s (Copy h)) = ROk ->
    let s' := fst (step s (Copy h)) in
    exists c, nth_error (objs s') (length (objs s)) = Some (OH c) /\
              forall r, In r (rules_of (OH c)) -> length (objs s) < r_rhs r < length (objs s').
Proof. exact copy_fresh. Qed.
Print Assumptions C16_copy_fresh.

(** ... hence no later calls on the copy's objects change any older object, and no later calls
    on older objects change any object of the copy (whatever they are, raising or not) *)
Theorem C16_copy_independent :
  forall s h ops,
    let s' := fst (step s (Copy h)) in
    (forall k, k < length (objs s) ->
               (forall o t, In o ops -> target o = Some t -> length (objs s) <= t) ->
               nth_error (objs (run s' ops)) k = nth_error (objs s) k) /\
    (forall k, length (objs s) <= k < length (objs s') ->
               (forall o t, In o ops -> target o = Some t -> t < length (objs s)) ->
               nth_error (objs (run s' ops)) k = nth_error (objs s') k).
Proof. exact copy_independent. Qed.
Print Assumptions C16_copy_independent.

(** * (A) C16_copy, weights: a copy owns the storage of its factor weights *)
(** an in-place update of the weights of a bound factor ([fac.weights *= c], [.physical.fill_],
    [copy_], the setter, ...: [UpdWeights]) succeeds, keeps label tables, domains and the keys of
    the factor dict, and changes exactly the named factor's weights *)
Theorem C16_update_weights_spec :
  forall t n u f, aget Nat.eq_dec (t_fac t) n = Some f ->
    let t' := fst (t_upd_weights t n u) in
    snd (t_upd_weights t n u) = ROk /\
    t_nl t' = t_nl t /\ t_el t' = t_el t /\ t_dom t' = t_dom t /\
    map fst (t_fac t') = map fst (t_fac t) /\
    forall m, aget Nat.eq_dec (t_fac t') m
              = if Nat.eq_dec n m then Some (f_upd u f) else aget Nat.eq_dec (t_fac t) m.
Proof. exact upd_weights_spec. Qed.
Print Assumptions C16_update_weights_spec.

(** after a successful copy of an object that carries a factor [f] under [name]: updating that
    factor's weights in place IN THE COPY succeeds, leaves the original object exactly as it was
    and gives the copy the weights [f_upd u f]; the same update IN THE ORIGINAL leaves the copy
    exactly as it was.  ([C16_frame], [C16_failure_atomic] and [C16_copy_independent] quantify
    over all calls and therefore cover [UpdWeights] as well.) *)
Theorem C16_copy_update_weights :
  forall s h a name u via f,
    inv s -> nth_error (objs s) h = Some a -> has_interp a = true ->
    aget Nat.eq_dec (t_fac (tab_of a)) name = Some f ->
    snd (step s (Copy h)) = ROk ->
    let s1 := fst (step s (Copy h)) in
    let c := length (objs s) in
    (snd (step s1 (UpdWeights c name u via)) = ROk /\
     nth_error (objs (fst (step s1 (UpdWeights c name u via)))) h = Some a /\
     exists x, nth_error (objs (fst (step s1 (UpdWeights c name u via)))) c = Some x /\
               aget Nat.eq_dec (t_fac (tab_of x)) name = Some (f_upd u f)) /\
    (nth_error (objs (fst (step s1 (UpdWeights h name u via)))) c = nth_error (objs s1) c).
Proof. exact copy_update_weights. Qed.
Print Assumptions C16_copy_update_weights.

(** * (A) C16_eq_equiv *)
Theorem C16_eq_refl : forall os a, inv_os os -> In a os -> obj_eqb os a a = true.
Proof. exact obj_eqb_refl. Qed.
Print Assumptions C16_eq_refl.

Theorem C16_eq_sym :
  forall os a b, inv_os os -> In a os -> In b os -> obj_eqb os a b = true -> obj_eqb os b a = true.
Proof. exact obj_eqb_sym. Qed.
Print Assumptions C16_eq_sym.

Theorem C16_eq_trans :
  forall os a b c, inv_os os -> In a os -> In b os -> In c os ->
                   obj_eqb os a b = true -> obj_eqb os b c = true -> obj_eqb os a c = true.
Proof. exact obj_eqb_trans. Qed.
Print Assumptions C16_eq_trans.

(** [==] on graphs is exactly: same nodes, same edges (as id-indexed sets), same external
    nodes -- so graphs differing in any of these are not equal *)
Theorem C16_eq_graph_separates :
  forall a b, graph_keys a -> graph_keys b ->
    (graph_eqb a b = true <->
     (forall k, aget ident_eq_dec (g_nodes a) k = aget ident_eq_dec (g_nodes b) k) /\
     (forall k, aget ident_eq_dec (g_edges a) k = aget ident_eq_dec (g_edges b) k) /\
     g_ext a = g_ext b).
Proof. exact graph_eqb_spec. Qed.
Print Assumptions C16_eq_graph_separates.

(** equal grammars have the same start symbol, label tables, and pairwise-equal rule lists
    under every lhs (same lhs, [==] right-hand sides, same order) *)
Theorem C16_eq_hrg_separates :
  forall os a b, hrg_keys os a -> hrg_keys os b -> hrg_eqb os a b = true ->
    h_start a = h_start b /\
    (forall n, aget Nat.eq_dec (t_nl (h_tab a)) n = aget Nat.eq_dec (t_nl (h_tab b)) n) /\
    (forall n, aget Nat.eq_dec (t_el (h_tab a)) n = aget Nat.eq_dec (t_el (h_tab b)) n) /\
    length (h_rules a) = length (h_rules b) /\
    forall lhs ra, aget elabel_eq_dec (h_rules a) lhs = Some ra ->
                   exists rb, aget elabel_eq_dec (h_rules b) lhs = Some rb /\ list_eqb (rule_eqb os) ra rb = true.
Proof. exact hrg_eqb_separates. Qed.
Print Assumptions C16_eq_hrg_separates.

(** the hypotheses above are satisfiable by a non-trivial history (a factor graph, an FGG with
    a rule, domains, a factor, a copy, raising calls incl. an id re-used by another node) *)
Theorem C16_example_guarded_history : all_guarded init demo = true.
Proof. exact demo_guarded. Qed.
Print Assumptions C16_example_guarded_history.
