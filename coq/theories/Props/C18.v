(** C18 — queries are pure: the ownership model behind the write monitor. *)
From Coq Require Import List NArith.
Import ListNotations.
Require Import Fggs.Model.Purity Fggs.Proofs.Purity_proofs.

(** a trace accepted by the monitor's checker leaves every storage owned by the caller
    unchanged, for every initial content *)
Theorem C18_writes_only_fresh :
  forall user tr st s, trace_ok user tr = true -> In s user -> run tr st s = st s.
Proof. exact trace_ok_preserves. Qed.
Print Assumptions C18_writes_only_fresh.

(** and every write it contains targets a storage allocated earlier inside the same call *)
Theorem C18_written_storages_allocated_in_call :
  forall user tr1 tr2 s v, trace_ok user (tr1 ++ Write s v :: tr2) = true -> In (Alloc s) tr1.
Proof. exact trace_ok_writes_fresh. Qed.
Print Assumptions C18_written_storages_allocated_in_call.

(** * The clone clause: heap model of the container layer (Model/Heap.v)
    "In-place operations on a clone of a PatternedTensor or MultiTensor never change the source." *)
Require Import Fggs.Model.Heap Fggs.Proofs.Heap_frame Fggs.Proofs.Heap_clone Fggs.Proofs.Heap_mclone.

(** (d) frame: an operation mutates only the objects [mutates st o] says (a function of the
    operation and the state it starts in: its target argument and, for MultiTensor.copy_, the
    elements of the target), writes only storages of PatternedTensors among them, keeps or renews
    the storage of every old object, and the objects it creates have a new storage or the storage
    of one of [vsrcs o] (the argument of a view operation) *)
Theorem C18_frame :
  forall st o st' out0, step st o = (st', out0) -> frame_rel (mutates st o) (vsrcs o) st st'.
Proof. exact step_frame. Qed.
Print Assumptions C18_frame.

(** ... hence the denotation (physical values, layout, default; for a MultiTensor: of every
    element) of an object that is neither a target nor shares a storage with one is unchanged *)
Theorem C18_frame_denotation :
  forall st o st' out0 y,
    step st o = (st', out0) -> valid st y ->
    (forall r, In r (reach_objs st y) -> ~ In r (mutates st o)) ->
    (forall s, In s (sids_of st (reach_objs st y)) -> ~ In s (sids_of st (mutates st o))) ->
    den st' y = den st y.
Proof. exact step_frame_den. Qed.
Print Assumptions C18_frame_denotation.

(** (a) for every state, every x, c := x.clone(), and EVERY finite sequence of operations that
    respects the ownership discipline [owned_run] (each operation mutates only objects made by
    the clone or later, not counting views of older objects: in-place maps on c, copy_ into c,
    views of c and in-place operations on them, ...), every object that existed before the clone
    -- in particular x -- has the denotation it had *)
Theorem C18_clone_independent :
  forall st x st0 c ops st',
    step st (OClone x) = (st0, ORefs [c]) ->
    owned_run [c] st0 ops = Some st' ->
    forall y, y < length (st_objs st) ->
              closed (length (st_objs st)) (length (st_store st)) st y ->
              den st' y = den st y.
Proof. exact clone_independent. Qed.
Print Assumptions C18_clone_independent.

Theorem C18_clone_source_unchanged :
  forall st x st0 c ops st' p,
    step st (OClone x) = (st0, ORefs [c]) -> owned_run [c] st0 ops = Some st' ->
    get_pt st x = Some p -> pt_sid p < length (st_store st) ->
    den st' x = den st x.
Proof. exact clone_source_unchanged. Qed.
Print Assumptions C18_clone_source_unchanged.

(** the clone denotes what the source denotes *)
Theorem C18_clone_equal :
  forall st x st0 c, step st (OClone x) = (st0, ORefs [c]) -> den st0 c = den st x.
Proof. exact clone_equal. Qed.
Print Assumptions C18_clone_equal.

(** (b) the same for MultiTensor.clone; the owned set is the clone and the element objects it made *)
Theorem C18_mclone_independent :
  forall st x st0 c ops st',
    step st (OMClone x) = (st0, ORefs [c]) ->
    owned_run (seq c (length (st_objs st0) - c)) st0 ops = Some st' ->
    forall y, y < length (st_objs st) ->
              closed (length (st_objs st)) (length (st_store st)) st y ->
              den st' y = den st y.
Proof. exact mclone_independent. Qed.
Print Assumptions C18_mclone_independent.

(** the clone is deep: every element of the clone is an object made by the clone (so writing INTO
    the elements of the clone is inside the discipline) *)
Theorem C18_mclone_deep :
  forall st x st0 c,
    step st (OMClone x) = (st0, ORefs [c]) ->
    c = length (st_objs st) /\
    exists d, get_mt st0 c = Some d /\
              forall e, In e (map snd d) -> In e (seq c (length (st_objs st0) - c)) /\ e <> c.
Proof. exact mclone_deep. Qed.
Print Assumptions C18_mclone_deep.

(** the clone of a MultiTensor denotes what the source denotes: same keys in the same order, every
    element with the denotation of the source's element (source with distinct keys whose elements
    and their storages exist) *)
Theorem C18_mclone_equal :
  forall st x dx st0 c,
    get_mt st x = Some dx -> NoDup (map fst dx) ->
    closed (length (st_objs st)) (length (st_store st)) st x ->
    step st (OMClone x) = (st0, ORefs [c]) -> den st0 c = den st x.
Proof. exact mclone_equal. Qed.
Print Assumptions C18_mclone_equal.

(** what the seeded change seeded/C18-d does ([c = MultiTensor(...); c += self]) is refuted: the
    elements are shared and copy_ into the "clone" changes the source *)
Theorem C18_shallow_clone_refuted :
  exists st x st0 c other st' o,
    mclone_shallow st x = (st0, ORefs [c]) /\ mt_elems st0 c = mt_elems st x /\
    step st0 (OMCopy c other) = (st', o) /\ den st' x <> den st x.
Proof. exact shallow_clone_refuted. Qed.
Print Assumptions C18_shallow_clone_refuted.

(** (c) views DO share: with a view in the place of the clone the conclusion fails *)
Theorem C18_view_shares :
  exists st x lay st0 c ops st',
    step st (OView x lay) = (st0, ORefs [c]) /\ owned_run [c] st0 ops = Some st' /\
    den st' x <> den st x.
Proof. exact view_shares. Qed.
Print Assumptions C18_view_shares.

Theorem C18_getitem_shares :
  exists st x sel lay st0 c ops st',
    step st (OGetItem x sel lay) = (st0, ORefs [c]) /\ owned_run [c] st0 ops = Some st' /\
    den st' x <> den st x.
Proof. exact getitem_shares. Qed.
Print Assumptions C18_getitem_shares.

Theorem C18_iter_shares :
  exists st x items st0 c1 c2 ops st',
    step st (OIter x None items) = (st0, ORefs [c1; c2]) /\ owned_run [c1; c2] st0 ops = Some st' /\
    den st' x <> den st x.
Proof. exact iter_shares. Qed.
Print Assumptions C18_iter_shares.

Theorem C18_to_same_dtype_shares :
  exists st x st0 c ops st',
    step st (OTo x 0) = (st0, ORefs [c]) /\ owned_run [c] st0 ops = Some st' /\
    den st' x <> den st x.
Proof. exact to_same_dtype_shares. Qed.
Print Assumptions C18_to_same_dtype_shares.

Theorem C18_copy_into_view_writes_source :
  exists st x y lay st0 c st' o,
    step st (OView x lay) = (st0, ORefs [c]) /\ step st0 (OCopy c y) = (st', o) /\
    den st' x <> den st x.
Proof. exact copy_into_view_writes_source. Qed.
Print Assumptions C18_copy_into_view_writes_source.

Theorem C18_default_to_same_returns_self :
  forall st x p perm, get_pt st x = Some p -> step st (ODefaultTo x (pt_dflt p) perm) = (st, ORefs [x]).
Proof. exact default_to_same_returns_self. Qed.
Print Assumptions C18_default_to_same_returns_self.

(** add_single with a new key stores the given object: a later copy_ into the MultiTensor writes it *)
Theorem C18_add_single_aliases :
  exists st m k x prm st1 o1 other st2 o2,
    step st (OMAddSingle m k x prm) = (st1, o1) /\ get_mt st1 m = Some [(k, x)] /\
    step st1 (OMCopy m other) = (st2, o2) /\ den st2 x <> den st x.
Proof. exact add_single_aliases. Qed.
Print Assumptions C18_add_single_aliases.

(** * The rule table under the read-only queries (Model/RuleTable.v)
    sum_product / sum_products / viterbi read the grammar through HRG.rules(x), for every
    nonterminal x -- also those that have no rule. *)
Require Import Fggs.Model.RuleTable Fggs.Proofs.RuleTable_proofs.

(** whatever labels are looked up, the table (dict lhs -> rules, with its key order) is the one
    given: no key is inserted for a nonterminal without rules *)
Theorem C18_rules_lookup_pure : forall t ks, fst (query t ks) = t.
Proof. exact query_table_unchanged. Qed.
Print Assumptions C18_rules_lookup_pure.

Theorem C18_rules_after_add_rule :
  forall t k r, snd (rules (add_rule t k r) k) = snd (rules t k) ++ [r].
Proof. exact rules_after_add_rule. Qed.
Print Assumptions C18_rules_after_add_rule.

(** the check function of the correspondence accepts exactly the unchanged observations *)
Theorem C18_ruletable_check_sound :
  forall before ks after eq0 eq1,
    ruletable_check (before, ks, after, eq0, eq1) = 0 -> after = before /\ eq0 = eq1.
Proof. exact ruletable_check_sound. Qed.
Print Assumptions C18_ruletable_check_sound.

Theorem C18_ruletable_check_complete :
  forall before ks eq0, ruletable_check (before, ks, before, eq0, eq0) = 0.
Proof. exact ruletable_check_complete. Qed.
Print Assumptions C18_ruletable_check_complete.

(** the lookup through a defaultdict (self._rules[lhs]; = seeded/C18-f) is read-only exactly on
    grammars in which every label looked up has an entry *)
Theorem C18_defaultdict_lookup_pure_iff :
  forall t ks, fst (query_dd t ks) = t <-> (forall k, In k ks -> tget t k <> None).
Proof. exact query_dd_unchanged_iff. Qed.
Print Assumptions C18_defaultdict_lookup_pure_iff.
