(** C18 — queries are pure: the ownership model behind the write monitor. *)
From Coq Require Import List NArith.
Import ListNotations.
Require Import Fggs.Model.Purity Fggs.Proofs.Purity_proofs.

(** a trace accepted by the monitor's checker leaves every storage owned by the caller
    unchanged, for every initial content *)
Theorem C18_writes_only_fresh :
  forall user tr st s, trace_ok user tr = true -> In s user -> run tr st s = st s.
Proof. exact trace_ok_preserves. Qed.
Print Assumptions C18_writes_only_fresh.

(** and every write it contains targets a storage allocated earlier inside the same call *)
Theorem C18_written_storages_allocated_in_call :
  forall user tr1 tr2 s v, trace_ok user (tr1 ++ Write s v :: tr2) = true -> In (Alloc s) tr1.
Proof. exact trace_ok_writes_fresh. Qed.
Print Assumptions C18_written_storages_allocated_in_call.
