(** C02 — placeholder until Proofs/Kleene_proofs.v is in. *)
From Coq Require Import List.
Require Import Fggs.Model.Semiring Fggs.Model.SumProduct Fggs.Model.Kleene.
Theorem C02_Zk_unfold : forall R (o : sr_ops R) G w k, Zk o G w (S k) = step o G w (Zk o G w k).
Proof. reflexivity. Qed.
Print Assumptions C02_Zk_unfold.
