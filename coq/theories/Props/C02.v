(** C02 — the sum-product of a recursive FGG is the least fixed point, or says otherwise.
    Only property theorems live here, each closed by [exact] and followed by Print Assumptions.
    Generic over a semiring [o : sr_ops R] with the laws [sr_ring o] (commutative semiring) and
    [sr_ordered o] (monotone operations, zero least) as premises; the law records of the three
    carriers are proved in Proofs/SemiringLaws.v (C08) and the carrier instances below
    (C02_trop_exact, C02_real_enclosure_sound, C02_fp_check_*_sound, section 7) are composed with
    them in Proofs/Instances_kleene.v, so they carry NO law premise.  [Zk o G w k] is the k-th Kleene iterate
    of the grammar's equations [step o G w] from zero (= the sum of the weights of the
    derivation trees of depth <= k: Proofs/SP_trees.v). *)
From Coq Require Import QArith List Arith Bool PeanoNat.
Import ListNotations.
Require Import Fggs.Model.SCC Fggs.Model.SumProduct Fggs.Model.SumProductCheck
               Fggs.Model.EReal Fggs.Model.Trop Fggs.Model.Kleene.
Require Import Fggs.Proofs.SP_mono Fggs.Proofs.Kleene_proofs Fggs.Proofs.Kleene_control Fggs.Proofs.Kleene_linear
               Fggs.Proofs.Kleene_fixpoint Fggs.Proofs.Kleene_check Fggs.Proofs.Kleene_scc.
Require Import Fggs.Model.Semiring.
Require Import Fggs.Proofs.SP_trees Fggs.Proofs.Instances_kleene.
Require Fggs.Model.MultiSolve.
Require Import Fggs.Proofs.Kleene_linear_lfp Fggs.Proofs.Instances_multisolve.
Local Open Scope nat_scope.

(** * 1. monotonicity *)
Theorem C02_sumS_mono :
  forall R (o : sr_ops R), sr_ordered o ->
  forall A (l : list A) (f g : A -> R),
    (forall a, In a l -> le o (f a) (g a)) -> le o (sumS o l f) (sumS o l g).
Proof. exact (fun R o Ho A => @sumS_mono R o Ho A). Qed.
Print Assumptions C02_sumS_mono.

Theorem C02_prodS_mono :
  forall R (o : sr_ops R), sr_ring o -> sr_ordered o ->
  forall A (l : list A) (f g : A -> R),
    (forall a, In a l -> le o (f a) (g a)) -> le o (prodS o l f) (prodS o l g).
Proof. exact (fun R o Hr Ho A => @prodS_mono R o Hr Ho A). Qed.
Print Assumptions C02_prodS_mono.

Theorem C02_rule_val_mono :
  forall R (o : sr_ops R), sr_ring o -> sr_ordered o ->
  forall G (e1 e2 : env (R:=R)) r xi,
    (forall X xj, le o (e1 X xj) (e2 X xj)) -> le o (rule_val o G e1 r xi) (rule_val o G e2 r xi).
Proof. exact (@rule_val_mono). Qed.
Print Assumptions C02_rule_val_mono.

(** the equations are monotone in the environment, pointwise on every label and index tuple *)
Theorem C02_step_mono :
  forall R (o : sr_ops R), sr_ring o -> sr_ordered o ->
  forall G w (x y : env (R:=R)),
    (forall X xi, le o (x X xi) (y X xi)) -> forall X xi, le o (step o G w x X xi) (step o G w y X xi).
Proof. exact (@step_mono). Qed.
Print Assumptions C02_step_mono.

(** a well-formed rule reads its sub-environment only at labels of the grammar and at in-range
    index tuples ... *)
Theorem C02_rule_queries_in_range :
  forall G r ed a,
    wf_rule G r = true -> In ed (r_edges r) -> In a (all_assts (node_sizes G r)) ->
    fst ed < length (g_labels G) /\ In (sel a (snd ed)) (all_assts (lshape G (fst ed))).
Proof.
  exact (fun G r ed a Hwf Hed Ha =>
           conj (proj1 (wf_rule_edge G r ed Hwf Hed)) (wf_rule_query_in_range G r ed a Hwf Hed Ha)).
Qed.
Print Assumptions C02_rule_queries_in_range.

(** ... so for a well-formed grammar it is enough to compare the environments on the
    nonterminals at in-range tuples *)
Theorem C02_step_mono_on_range :
  forall R (o : sr_ops R), sr_ring o -> sr_ordered o ->
  forall G w (x y : env (R:=R)),
    wf_grammar G = true ->
    (forall X xi, In X (nonterminals G) -> In xi (all_assts (lshape G X)) -> le o (x X xi) (y X xi)) ->
    forall X xi, le o (step o G w x X xi) (step o G w y X xi).
Proof. exact (@step_mono_on). Qed.
Print Assumptions C02_step_mono_on_range.

(** the Kleene iterates form an increasing chain (uses zero_le) *)
Theorem C02_Zk_chain :
  forall R (o : sr_ops R), sr_ring o -> sr_ordered o ->
  forall G w k X xi, le o (Zk o G w k X xi) (Zk o G w (S k) X xi).
Proof. exact (@Zk_chain). Qed.
Print Assumptions C02_Zk_chain.

(** * 2. Park: every pre-fixed point bounds every Kleene iterate *)
Theorem C02_park :
  forall R (o : sr_ops R), sr_ring o -> sr_ordered o ->
  forall G w (u : env (R:=R)),
    (forall X xi, le o (step o G w u X xi) (u X xi)) ->
    forall k X xi, le o (Zk o G w k X xi) (u X xi).
Proof. exact (@park). Qed.
Print Assumptions C02_park.

Theorem C02_park_on_range :
  forall R (o : sr_ops R), sr_ring o -> sr_ordered o ->
  forall G w (u : env (R:=R)),
    wf_grammar G = true ->
    (forall X xi, In X (nonterminals G) -> In xi (all_assts (lshape G X)) -> le o (step o G w u X xi) (u X xi)) ->
    forall k X xi, In X (nonterminals G) -> In xi (all_assts (lshape G X)) -> le o (Zk o G w k X xi) (u X xi).
Proof. exact (@park_on). Qed.
Print Assumptions C02_park_on_range.

(** tables: reading back a tabulated function *)
Theorem C02_tab_get_tabulate :
  forall R (o : sr_ops R) shape (f : list nat -> R) xi,
    In xi (all_assts shape) -> tab_get o (tabulate shape f) xi = f xi.
Proof. exact (@tab_get_tabulate). Qed.
Print Assumptions C02_tab_get_tabulate.

(** Kleene iteration on tables with every cell rounded down stays below the exact iterates
    (at every label and tuple: out-of-range reads of a table give zero) *)
Theorem C02_rounded_below_exact :
  forall R (o : sr_ops R), sr_ring o -> sr_ordered o ->
  forall rd : R -> R, (forall x, le o (rd x) x) ->
  forall G w k X xi, le o (env_of o (Ktab o rd G w k) X xi) (Zk o G w k X xi).
Proof. exact (@Ktab_below_Zk). Qed.
Print Assumptions C02_rounded_below_exact.

(** without rounding the tables ARE the iterates, on the range *)
Theorem C02_unrounded_exact :
  forall R (o : sr_ops R) G w k, wf_grammar G = true ->
  forall X xi, In X (nonterminals G) -> In xi (all_assts (lshape G X)) ->
    env_of o (Ktab o (fun x => x) G w k) X xi = Zk o G w k X xi.
Proof. exact (@Ktab_exact). Qed.
Print Assumptions C02_unrounded_exact.

(** * 3. certified enclosures *)
(** [enclosure ... = Some (lo, u)]: u is above every Kleene iterate (so above their limit, the
    least fixed point); lo is the rounded iterate number 4 j (j <= K rounds) and below the exact
    one (so below the limit); lo is below every pre-fixed point; lo <= u; u is a pre-fixed point *)
Theorem C02_enclosure_sound :
  forall R (o : sr_ops R), sr_ring o -> sr_ordered o ->
  forall (rd infl : R -> R) (leb : R -> R -> bool),
    (forall x, le o (rd x) x) -> (forall x y, leb x y = true -> le o x y) ->
  forall G w K lo u,
    wf_grammar G = true ->
    enclosure o rd infl leb G w K = Some (lo, u) ->
    (forall k X xi, In X (nonterminals G) -> In xi (all_assts (lshape G X)) ->
                    le o (Zk o G w k X xi) (env_of o u X xi))
    /\ (exists j, j <= K /\ lo = Ktab o rd G w (4 * j)
                  /\ forall X xi, In X (nonterminals G) -> In xi (all_assts (lshape G X)) ->
                                  le o (env_of o lo X xi) (Zk o G w (4 * j) X xi))
    /\ (forall v : env (R:=R),
          (forall X xi, In X (nonterminals G) -> In xi (all_assts (lshape G X)) -> le o (step o G w v X xi) (v X xi)) ->
          forall X xi, In X (nonterminals G) -> In xi (all_assts (lshape G X)) -> le o (env_of o lo X xi) (v X xi))
    /\ (forall X xi, In X (nonterminals G) -> In xi (all_assts (lshape G X)) ->
                     le o (env_of o lo X xi) (env_of o u X xi))
    /\ (forall X xi, In X (nonterminals G) -> In xi (all_assts (lshape G X)) ->
                     le o (step o G w (env_of o u) X xi) (env_of o u X xi)).
Proof. exact (@enclosure_sound). Qed.
Print Assumptions C02_enclosure_sound.

(** no rounding, no inflation: the enclosure is the least fixed point itself, reached after
    4 j Kleene steps *)
Theorem C02_enclosure_exact :
  forall R (o : sr_ops R), sr_ring o -> sr_ordered o ->
  forall leb : R -> R -> bool, (forall x y, leb x y = true -> le o x y) ->
  forall G w K lo u,
    wf_grammar G = true ->
    enclosure o (fun x => x) (fun x => x) leb G w K = Some (lo, u) ->
    u = lo
    /\ (forall X xi, In X (nonterminals G) -> In xi (all_assts (lshape G X)) ->
                     step o G w (env_of o lo) X xi = env_of o lo X xi)
    /\ (forall v : env (R:=R),
          (forall X xi, In X (nonterminals G) -> In xi (all_assts (lshape G X)) -> le o (step o G w v X xi) (v X xi)) ->
          forall X xi, In X (nonterminals G) -> In xi (all_assts (lshape G X)) -> le o (env_of o lo X xi) (v X xi))
    /\ (forall k X xi, In X (nonterminals G) -> In xi (all_assts (lshape G X)) ->
                       le o (Zk o G w k X xi) (env_of o lo X xi))
    /\ (exists j, j <= K /\ forall X xi, In X (nonterminals G) -> In xi (all_assts (lshape G X)) ->
                                         env_of o lo X xi = Zk o G w (4 * j) X xi).
Proof. exact (@enclosure_exact). Qed.
Print Assumptions C02_enclosure_exact.

(** Bool (the instance used by [fp_check_bool]); no premises *)
Theorem C02_bool_exact :
  forall G w K lo u,
    wf_grammar G = true ->
    enclosure bool_ops (fun x => x) (fun x => x) (fun a b : bool => implb a b) G w K = Some (lo, u) ->
    u = lo
    /\ (forall X xi, In X (nonterminals G) -> In xi (all_assts (lshape G X)) ->
                     step bool_ops G w (env_of bool_ops lo) X xi = env_of bool_ops lo X xi)
    /\ (forall v : env (R:=bool),
          (forall X xi, In X (nonterminals G) -> In xi (all_assts (lshape G X)) ->
                        step bool_ops G w v X xi = true -> v X xi = true) ->
          forall X xi, In X (nonterminals G) -> In xi (all_assts (lshape G X)) ->
                       env_of bool_ops lo X xi = true -> v X xi = true)
    /\ (forall k X xi, In X (nonterminals G) -> In xi (all_assts (lshape G X)) ->
                       Zk bool_ops G w k X xi = true -> env_of bool_ops lo X xi = true)
    /\ (exists j, j <= K /\ forall X xi, In X (nonterminals G) -> In xi (all_assts (lshape G X)) ->
                                         env_of bool_ops lo X xi = Zk bool_ops G w (4 * j) X xi).
Proof. exact enclosure_bool_exact. Qed.
Print Assumptions C02_bool_exact.

(** Viterbi (the instance used by [fp_check_trop]); no premises (laws: Proofs/SemiringLaws.v) *)
Theorem C02_trop_exact :
  forall G w K lo u,
    wf_grammar G = true ->
    enclosure trop_ops (fun x => x) (fun x => x) tleb G w K = Some (lo, u) ->
    u = lo
    /\ (forall X xi, In X (nonterminals G) -> In xi (all_assts (lshape G X)) ->
                     step trop_ops G w (env_of trop_ops lo) X xi = env_of trop_ops lo X xi)
    /\ (forall v : env (R:=trop),
          (forall X xi, In X (nonterminals G) -> In xi (all_assts (lshape G X)) -> tle (step trop_ops G w v X xi) (v X xi)) ->
          forall X xi, In X (nonterminals G) -> In xi (all_assts (lshape G X)) -> tle (env_of trop_ops lo X xi) (v X xi))
    /\ (forall k X xi, In X (nonterminals G) -> In xi (all_assts (lshape G X)) ->
                       tle (Zk trop_ops G w k X xi) (env_of trop_ops lo X xi))
    /\ (exists j, j <= K /\ forall X xi, In X (nonterminals G) -> In xi (all_assts (lshape G X)) ->
                                         env_of trop_ops lo X xi = Zk trop_ops G w (4 * j) X xi).
Proof. exact trop_enclosure_exact. Qed.
Print Assumptions C02_trop_exact.

(** Real / Log (the instance used by [fp_check_real]); no premises (laws: Proofs/SemiringLaws.v) *)
Theorem C02_real_enclosure_sound :
  forall G w K lo u,
    wf_grammar G = true ->
    enclosure ereal_ops rd_real infl_real eleb G w K = Some (lo, u) ->
    (forall k X xi, In X (nonterminals G) -> In xi (all_assts (lshape G X)) ->
                    ele (Zk ereal_ops G w k X xi) (env_of ereal_ops u X xi))
    /\ (exists j, j <= K /\ lo = Ktab ereal_ops rd_real G w (4 * j)
                  /\ forall X xi, In X (nonterminals G) -> In xi (all_assts (lshape G X)) ->
                                  ele (env_of ereal_ops lo X xi) (Zk ereal_ops G w (4 * j) X xi))
    /\ (forall v : env (R:=ereal),
          (forall X xi, In X (nonterminals G) -> In xi (all_assts (lshape G X)) -> ele (step ereal_ops G w v X xi) (v X xi)) ->
          forall X xi, In X (nonterminals G) -> In xi (all_assts (lshape G X)) -> ele (env_of ereal_ops lo X xi) (v X xi))
    /\ (forall X xi, In X (nonterminals G) -> In xi (all_assts (lshape G X)) ->
                     ele (env_of ereal_ops lo X xi) (env_of ereal_ops u X xi))
    /\ (forall X xi, In X (nonterminals G) -> In xi (all_assts (lshape G X)) ->
                     ele (step ereal_ops G w (env_of ereal_ops u) X xi) (env_of ereal_ops u X xi)).
Proof. exact real_enclosure_sound. Qed.
Print Assumptions C02_real_enclosure_sound.

(** the instance-specific side conditions *)
Theorem C02_rd_real_le : forall x, ele (rd_real x) x.
Proof. exact rd_real_le. Qed.
Print Assumptions C02_rd_real_le.

Theorem C02_eleb_sound : forall x y, eleb x y = true -> ele x y.
Proof. exact eleb_sound. Qed.
Print Assumptions C02_eleb_sound.

Theorem C02_tleb_sound : forall x y, tleb x y = true -> tle x y.
Proof. exact tleb_sound. Qed.
Print Assumptions C02_tleb_sound.

(** * 4. control flow *)
(** ValueError is expected exactly for method="linear" (tag 2) when some component of the
    evaluation order is not one-step and has a rule with two or more component edges *)
Theorem C02_expect_value_error_iff :
  forall G meth order,
    expect_value_error G meth order = true <->
    meth = 2 /\ exists comp, In comp order
      /\ ~ (length comp = 1 /\ max_rhs G comp = 0)
      /\ exists n r, In n comp /\ In r (rules_of G n)
                     /\ 2 <= length (filter (fun ed => mem comp (fst ed)) (r_edges r)).
Proof. exact expect_value_error_iff. Qed.
Print Assumptions C02_expect_value_error_iff.

(** [max_rhs] is what its name says *)
Theorem C02_max_rhs_spec :
  forall G comp,
    (forall n r, In n comp -> In r (rules_of G n) ->
                 length (filter (fun ed => mem comp (fst ed)) (r_edges r)) <= max_rhs G comp)
    /\ forall b, (forall n r, In n comp -> In r (rules_of G n) ->
                              length (filter (fun ed => mem comp (fst ed)) (r_edges r)) <= b) ->
                 max_rhs G comp <= b.
Proof. exact (fun G comp => conj (max_rhs_ge G comp) (max_rhs_le G comp)). Qed.
Print Assumptions C02_max_rhs_spec.

(** method="newton" is downgraded to "linear" only where that cannot raise *)
Theorem C02_newton_downgrade_never_raises :
  forall G comp, comp_method G 1 comp = 2 -> linear_raises G comp = false.
Proof. exact newton_downgrade_never_raises. Qed.
Print Assumptions C02_newton_downgrade_never_raises.

(** fixed_point's loop: the fuel suffices; it warns iff the first kmax+1 stopping tests all
    fail; if it does not warn, the returned consecutive iterates pass the stopping test *)
Theorem C02_fixed_point_loop_total :
  forall A (F : A -> A) close kmax x, exists r, fixed_point_loop F close kmax x = Some r.
Proof. exact (@fixed_point_loop_total). Qed.
Print Assumptions C02_fixed_point_loop_total.

Theorem C02_fixed_point_warns_iff :
  forall A (F : A -> A) close kmax x y0 y1 warned,
    fixed_point_loop F close kmax x = Some (y0, y1, warned) ->
    (warned = true <-> forall i, i <= kmax -> close (iter i F x) (iter (S i) F x) = false).
Proof. exact (@fixed_point_loop_warns_iff). Qed.
Print Assumptions C02_fixed_point_warns_iff.

Theorem C02_fixed_point_quiet :
  forall A (F : A -> A) close kmax x y0 y1,
    fixed_point_loop F close kmax x = Some (y0, y1, false) ->
    close y0 y1 = true /\ y1 = F y0 /\ exists k, k <= kmax /\ y0 = iter k F x.
Proof. exact (@fixed_point_loop_quiet). Qed.
Print Assumptions C02_fixed_point_quiet.

(** newton's loop after the F3 repair warns iff no iteration's stop test succeeded *)
Theorem C02_newton_warns_iff :
  forall A (body : A -> A * bool) kmax x,
    snd (newton_loop body kmax x) = true <->
    forall i, i < kmax -> snd (body (iter i (fun y => fst (body y)) x)) = false.
Proof. exact (@newton_loop_warns_iff). Qed.
Print Assumptions C02_newton_warns_iff.

Theorem C02_newton_quiet :
  forall A (body : A -> A * bool) kmax x,
    snd (newton_loop body kmax x) = false ->
    exists i, i < kmax /\ nstop body x i = true /\ (forall j, j < i -> nstop body x j = false)
              /\ fst (newton_loop body kmax x) = nstate body x (S i).
Proof. exact (@newton_loop_quiet). Qed.
Print Assumptions C02_newton_quiet.

(** F3: the loop shape before the repair (`if k > kmax` after `for k in range(kmax)`) can never
    warn, and computes the same state *)
Theorem C02_newton_old_never_warns :
  forall A (body : A -> A * bool) kmax x, snd (newton_loop_old body kmax x) <> Some true.
Proof. exact (@newton_old_never_warns). Qed.
Print Assumptions C02_newton_old_never_warns.

(** witness: budget 1, a body that never stops -- the repaired loop warns, the old one is silent *)
Theorem C02_newton_old_silent_witness :
  snd (newton_loop (fun n : nat => (S n, false)) 1 0) = true
  /\ snd (newton_loop_old (fun n : nat => (S n, false)) 1 0) = Some false
  /\ fst (newton_loop_old (fun n : nat => (S n, false)) 1 0) = fst (newton_loop (fun n : nat => (S n, false)) 1 0).
Proof. exact newton_old_silent_witness. Qed.
Print Assumptions C02_newton_old_silent_witness.

Theorem C02_newton_old_same_state :
  forall A (body : A -> A * bool) kmax x, fst (newton_loop_old body kmax x) = fst (newton_loop body kmax x).
Proof. exact (@newton_old_same_state). Qed.
Print Assumptions C02_newton_old_same_state.

(** * 5. linear recursion *)
(** [linear] raises exactly when some rule of the component has >= 2 component edges,
    i.e. when [max_rhs] exceeds 1 *)
Theorem C02_linear_raises_iff :
  forall G comp, linear_raises G comp = true <-> 2 <= max_rhs G comp.
Proof. exact linear_raises_max_rhs. Qed.
Print Assumptions C02_linear_raises_iff.

(** otherwise the component's equations are affine,  F x = J0 . x + F0,  with F0 and J0 as
    computed by [linear] (definitions [lin_F0], [lin_J0] in Proofs/Kleene_linear.v:
    J0[n, m][xi, eta] = sum over the rules of n whose single component edge is labelled m of
    the sum-product of the rule's OTHER edges with external nodes ext ++ that edge's nodes, at
    xi ++ eta; F0[n][xi] = sum over the rules of n without component edge of their sum-product;
    [inp] gives the values of the nonterminals outside the component).  Only the
    commutative-semiring laws are needed. *)
Theorem C02_linear_affine :
  forall R (o : sr_ops R), sr_ring o ->
  forall G (w inp : env (R:=R)) comp,
    wf_grammar G = true -> (forall m, In m comp -> is_term G m = false) ->
  forall (x : env (R:=R)) n xi,
    NoDup comp -> max_rhs G comp <= 1 -> In n comp -> In xi (all_assts (lshape G n)) ->
    step o G w (fun l => if mem comp l then x l else inp l) n xi
    = add o (sumS o comp (fun m => sumS o (all_assts (lshape G m))
                                        (fun eta => mul o (lin_J0 o G w inp comp n m xi eta) (x m eta))))
            (lin_F0 o G w inp comp n xi).
Proof. exact (@step_linear_affine). Qed.
Print Assumptions C02_linear_affine.

(** one rule with exactly one component edge [ed]: leave-that-edge-out product *)
Theorem C02_rule_affine :
  forall R (o : sr_ops R), sr_ring o ->
  forall G (w inp : env (R:=R)) comp, (forall m, In m comp -> is_term G m = false) ->
  forall r ed (x : env (R:=R)) xi,
    wf_rule G r = true -> filter (fun e => mem comp (fst e)) (r_edges r) = [ed] ->
    length xi = length (r_ext r) ->
    rule_val o G (fun l => if is_term G l then w l else if mem comp l then x l else inp l) r xi
    = sumS o (all_assts (lshape G (fst ed)))
             (fun eta => mul o (rule_val o G (fun l => if is_term G l then w l else inp l)
                                         {| r_lhs := r_lhs r; r_nodes := r_nodes r;
                                            r_edges := filter (fun e => negb (mem comp (fst e))) (r_edges r);
                                            r_ext := r_ext r ++ snd ed |} (xi ++ eta))
                               (x (fst ed) eta)).
Proof. exact (@rule_val_affine). Qed.
Print Assumptions C02_rule_affine.

(** method='linear' (and newton's downgrade to it) returns the LEAST FIXED POINT of the
    component's equations.  [linear] ends with [return multi_solve(J0, F0)]; composing
    C02_linear_affine with C09 (C09_multi_solve_refines: the model of multi_solve -- block LU
    over the present blocks in any elimination order, block back-substitution -- returns the
    least solution of x = J0 x + F0) gives, in every ordered star-semiring:
    [J0t]/[F0t] are the MultiTensors built by [linear], i.e. dictionaries of flattened blocks
    holding [lin_J0]/[lin_F0] at the row-major positions of the index tuples, absent block =
    zero ([tabulates_J0]/[tabulates_F0], Proofs/Kleene_linear_lfp.v; [lin_dims G comp] gives
    each nonterminal of the component the number of its index tuples);
    [env_of_blocks o G comp sol n xi] reads block n of the result at the position of xi.
    Then the result is a fixed point of the component's equations (nonterminals outside the
    component read [inp]) and lies below every pre-fixed point. *)
Theorem C02_linear_is_least_fixed_point :
  forall R (o : sr_ops R), sr_ring o -> sr_ordered o -> sr_star o ->
  forall G (w inp : env (R:=R)) comp,
    wf_grammar G = true -> (forall m, In m comp -> is_term G m = false) ->
    NoDup comp -> max_rhs G comp <= 1 ->
  forall (J0t : @MultiSolve.mt2 R) (F0t : @MultiSolve.mt1 R) (order : list nat),
    tabulates_J0 o G w inp comp J0t -> tabulates_F0 o G w inp comp F0t ->
    NoDup (map fst J0t) -> NoDup (map fst F0t) ->
    NoDup order -> (forall n, In n order <-> In n comp) ->
    let sol := MultiSolve.multi_solve_model o (lin_dims G comp) order false J0t F0t in
    (forall n xi, In n comp -> In xi (all_assts (lshape G n)) ->
       step o G w (fun l => if mem comp l then env_of_blocks o G comp sol l else inp l) n xi
       = env_of_blocks o G comp sol n xi)
    /\ (forall v : env (R:=R),
          (forall n xi, In n comp -> In xi (all_assts (lshape G n)) ->
             le o (step o G w (fun l => if mem comp l then v l else inp l) n xi) (v n xi)) ->
          forall n xi, In n comp -> In xi (all_assts (lshape G n)) ->
             le o (env_of_blocks o G comp sol n xi) (v n xi)).
Proof. exact (@linear_is_lfp_any_order). Qed.
Print Assumptions C02_linear_is_least_fixed_point.

(** the same with the elimination order multi_solve computes itself (the model of
    [_order_nonterminals], for every iteration order [iter] of Python's sets; a J0 without any
    block gives the order [] and the result F0) *)
Theorem C02_linear_is_least_fixed_point_code_order :
  forall R (o : sr_ops R), sr_ring o -> sr_ordered o -> sr_star o ->
  forall G (w inp : env (R:=R)) comp,
    wf_grammar G = true -> (forall m, In m comp -> is_term G m = false) ->
    NoDup comp -> max_rhs G comp <= 1 ->
  forall (iter : list nat -> list nat) (J0t : @MultiSolve.mt2 R) (F0t : @MultiSolve.mt1 R) (order : list nat),
    (forall s x, In x (iter s) -> In x s) -> (forall s x, In x s -> In x (iter s)) ->
    (forall s, NoDup s -> NoDup (iter s)) ->
    tabulates_J0 o G w inp comp J0t -> tabulates_F0 o G w inp comp F0t ->
    NoDup (map fst J0t) -> NoDup (map fst F0t) ->
    (forall e, In e (map fst J0t) -> In (snd e) comp) ->
    MultiSolve.order_nonterminals_model iter (map fst J0t) comp = Some order ->
    let sol := MultiSolve.multi_solve_model o (lin_dims G comp) order false J0t F0t in
    (forall n xi, In n comp -> In xi (all_assts (lshape G n)) ->
       step o G w (fun l => if mem comp l then env_of_blocks o G comp sol l else inp l) n xi
       = env_of_blocks o G comp sol n xi)
    /\ (forall v : env (R:=R),
          (forall n xi, In n comp -> In xi (all_assts (lshape G n)) ->
             le o (step o G w (fun l => if mem comp l then v l else inp l) n xi) (v n xi)) ->
          forall n xi, In n comp -> In xi (all_assts (lshape G n)) ->
             le o (env_of_blocks o G comp sol n xi) (v n xi)).
Proof. exact (@linear_is_lfp_code_order). Qed.
Print Assumptions C02_linear_is_least_fixed_point_code_order.

(** carrier instances (Bool, Real/Log, Viterbi); no law premises *)
Theorem C02_linear_is_least_fixed_point_bool :
  forall G (w inp : env (R:=bool)) comp,
    wf_grammar G = true -> (forall m, In m comp -> is_term G m = false) ->
    NoDup comp -> max_rhs G comp <= 1 ->
  forall (J0t : @MultiSolve.mt2 bool) (F0t : @MultiSolve.mt1 bool) (order : list nat),
    tabulates_J0 bool_ops G w inp comp J0t -> tabulates_F0 bool_ops G w inp comp F0t ->
    NoDup (map fst J0t) -> NoDup (map fst F0t) ->
    NoDup order -> (forall n, In n order <-> In n comp) ->
    let sol := MultiSolve.multi_solve_model bool_ops (lin_dims G comp) order false J0t F0t in
    (forall n xi, In n comp -> In xi (all_assts (lshape G n)) ->
       step bool_ops G w (fun l => if mem comp l then env_of_blocks bool_ops G comp sol l else inp l) n xi
       = env_of_blocks bool_ops G comp sol n xi)
    /\ (forall v : env (R:=bool),
          (forall n xi, In n comp -> In xi (all_assts (lshape G n)) ->
             le bool_ops (step bool_ops G w (fun l => if mem comp l then v l else inp l) n xi) (v n xi)) ->
          forall n xi, In n comp -> In xi (all_assts (lshape G n)) ->
             le bool_ops (env_of_blocks bool_ops G comp sol n xi) (v n xi)).
Proof. exact bool_linear_is_lfp_any_order. Qed.
Print Assumptions C02_linear_is_least_fixed_point_bool.

Theorem C02_linear_is_least_fixed_point_real :
  forall G (w inp : env (R:=ereal)) comp,
    wf_grammar G = true -> (forall m, In m comp -> is_term G m = false) ->
    NoDup comp -> max_rhs G comp <= 1 ->
  forall (J0t : @MultiSolve.mt2 ereal) (F0t : @MultiSolve.mt1 ereal) (order : list nat),
    tabulates_J0 ereal_ops G w inp comp J0t -> tabulates_F0 ereal_ops G w inp comp F0t ->
    NoDup (map fst J0t) -> NoDup (map fst F0t) ->
    NoDup order -> (forall n, In n order <-> In n comp) ->
    let sol := MultiSolve.multi_solve_model ereal_ops (lin_dims G comp) order false J0t F0t in
    (forall n xi, In n comp -> In xi (all_assts (lshape G n)) ->
       step ereal_ops G w (fun l => if mem comp l then env_of_blocks ereal_ops G comp sol l else inp l) n xi
       = env_of_blocks ereal_ops G comp sol n xi)
    /\ (forall v : env (R:=ereal),
          (forall n xi, In n comp -> In xi (all_assts (lshape G n)) ->
             ele (step ereal_ops G w (fun l => if mem comp l then v l else inp l) n xi) (v n xi)) ->
          forall n xi, In n comp -> In xi (all_assts (lshape G n)) ->
             ele (env_of_blocks ereal_ops G comp sol n xi) (v n xi)).
Proof. exact real_linear_is_lfp_any_order. Qed.
Print Assumptions C02_linear_is_least_fixed_point_real.

Theorem C02_linear_is_least_fixed_point_viterbi :
  forall G (w inp : env (R:=trop)) comp,
    wf_grammar G = true -> (forall m, In m comp -> is_term G m = false) ->
    NoDup comp -> max_rhs G comp <= 1 ->
  forall (J0t : @MultiSolve.mt2 trop) (F0t : @MultiSolve.mt1 trop) (order : list nat),
    tabulates_J0 trop_ops G w inp comp J0t -> tabulates_F0 trop_ops G w inp comp F0t ->
    NoDup (map fst J0t) -> NoDup (map fst F0t) ->
    NoDup order -> (forall n, In n order <-> In n comp) ->
    let sol := MultiSolve.multi_solve_model trop_ops (lin_dims G comp) order false J0t F0t in
    (forall n xi, In n comp -> In xi (all_assts (lshape G n)) ->
       step trop_ops G w (fun l => if mem comp l then env_of_blocks trop_ops G comp sol l else inp l) n xi
       = env_of_blocks trop_ops G comp sol n xi)
    /\ (forall v : env (R:=trop),
          (forall n xi, In n comp -> In xi (all_assts (lshape G n)) ->
             tle (step trop_ops G w (fun l => if mem comp l then v l else inp l) n xi) (v n xi)) ->
          forall n xi, In n comp -> In xi (all_assts (lshape G n)) ->
             tle (env_of_blocks trop_ops G comp sol n xi) (v n xi)).
Proof. exact trop_linear_is_lfp_any_order. Qed.
Print Assumptions C02_linear_is_least_fixed_point_viterbi.

(** * 6. the loop of fixed_point on the grammar's equations; what the check's verdict 0 means *)
(** [env_le_on o G x y] / [env_eq_on G x y] (Proofs/SP_mono.v): x <= y / x = y at every
    nonterminal X of G and every in-range index tuple xi, i.e.
    [forall X xi, In X (nonterminals G) -> In xi (all_assts (lshape G X)) -> le o (x X xi) (y X xi)]. *)

(** a Kleene iterate that is a fixed point is the least fixed point *)
Theorem C02_Zk_fixed_is_least :
  forall R (o : sr_ops R), sr_ring o -> sr_ordered o ->
  forall G w k, wf_grammar G = true ->
    env_eq_on G (Zk o G w k) (Zk o G w (S k)) ->
    env_eq_on G (step o G w (Zk o G w k)) (Zk o G w k)
    /\ (forall v : env (R:=R), env_le_on o G (step o G w v) v -> env_le_on o G (Zk o G w k) v)
    /\ (forall j, env_le_on o G (Zk o G w j) (Zk o G w k)).
Proof. exact (@Zk_fixed_is_least). Qed.
Print Assumptions C02_Zk_fixed_is_least.

(** fixed_point's loop run on [step o G w] from zero with an exact stopping test: if it does
    not warn, it returns the least fixed point (Bool; integer-weight Viterbi) *)
Theorem C02_fixed_point_quiet_is_lfp :
  forall R (o : sr_ops R), sr_ring o -> sr_ordered o ->
  forall G w (close : env (R:=R) -> env (R:=R) -> bool) kmax y0 y1,
    wf_grammar G = true ->
    (forall x y, close x y = true -> env_eq_on G x y) ->
    fixed_point_loop (step o G w) close kmax (zero_env o) = Some (y0, y1, false) ->
    exists k, k <= kmax /\ y0 = Zk o G w k /\ y1 = Zk o G w (S k)
      /\ env_eq_on G (step o G w y0) y0
      /\ (forall v : env (R:=R), env_le_on o G (step o G w v) v -> env_le_on o G y0 v)
      /\ (forall j, env_le_on o G (Zk o G w j) y0).
Proof. exact (@fixed_point_quiet_is_lfp). Qed.
Print Assumptions C02_fixed_point_quiet_is_lfp.

(** whether or not it warns, what it returns is below every pre-fixed point *)
Theorem C02_fixed_point_result_below_prefix :
  forall R (o : sr_ops R), sr_ring o -> sr_ordered o ->
  forall G w (close : env (R:=R) -> env (R:=R) -> bool) kmax y0 y1 warned,
    wf_grammar G = true ->
    fixed_point_loop (step o G w) close kmax (zero_env o) = Some (y0, y1, warned) ->
    forall v : env (R:=R), env_le_on o G (step o G w v) v -> env_le_on o G y0 v /\ env_le_on o G y1 v.
Proof. exact (@fixed_point_result_below_prefix). Qed.
Print Assumptions C02_fixed_point_result_below_prefix.

(** SCC decomposition ([is_lfp_on o G S F mu]: F mu = mu at the in-range tuples of the labels in
    S, and mu is below every v with F v <= v there; [comp_step o G w inp comp x] = step with x on
    the component and inp elsewhere; [deps_in G comp earlier]: every nonterminal on a right-hand
    side of the component is in comp or in earlier -- Proofs/Kleene_scc.v).  Solving a component
    exactly, given exact values of what it depends on, yields the global least fixed point there *)
Theorem C02_scc_component_exact :
  forall R (o : sr_ops R), sr_ring o -> sr_ordered o ->
  forall G w, wf_grammar G = true ->
  forall (mu inp nu : env (R:=R)) comp earlier,
    is_lfp_on o G (nonterminals G) (step o G w) mu ->
    (forall n, In n comp -> In n (nonterminals G)) ->
    deps_in G comp earlier ->
    (forall X xi, In X earlier -> In xi (all_assts (lshape G X)) -> inp X xi = mu X xi) ->
    is_lfp_on o G comp (comp_step o G w inp comp) nu ->
    forall X xi, In X comp -> In xi (all_assts (lshape G X)) -> nu X xi = mu X xi.
Proof. exact (@scc_component_exact). Qed.
Print Assumptions C02_scc_component_exact.

(** ... hence the driver (components in dependency order, each solved exactly with the earlier
    results as inputs: [exact_run], [dep_ordered]) computes the global least fixed point *)
Theorem C02_scc_decomposition :
  forall R (o : sr_ops R), sr_ring o -> sr_ordered o ->
  forall G w, wf_grammar G = true ->
  forall (mu : env (R:=R)) order acc final,
    is_lfp_on o G (nonterminals G) (step o G w) mu ->
    exact_run o G w order acc final -> dep_ordered G [] order ->
    (forall X, In X (nonterminals G) -> In X (concat order)) ->
    forall X xi, In X (nonterminals G) -> In xi (all_assts (lshape G X)) -> final X xi = mu X xi.
Proof. exact (@scc_decomposition_all). Qed.
Print Assumptions C02_scc_decomposition.

(** Bool: the Kleene chain is stationary after at most N = number of Boolean cells steps ... *)
Theorem C02_bool_chain_stabilises :
  forall G (w : env (R:=bool)),
    exists k, k <= length (flat_map (fun X => map (pair X) (all_assts (lshape G X))) (nonterminals G))
              /\ env_eq_on G (Zk bool_ops G w k) (Zk bool_ops G w (S k)).
Proof. exact bool_chain_stabilises. Qed.
Print Assumptions C02_bool_chain_stabilises.

(** ... so with an exact stopping test and kmax >= N, fixed_point's loop does not warn and
    returns the least fixed point (DESIGN C02_bool_exact) *)
Theorem C02_bool_fixed_point_exact :
  forall G (w : env (R:=bool)), wf_grammar G = true ->
  forall (close : env (R:=bool) -> env (R:=bool) -> bool) kmax,
    (forall x y, close x y = true <-> env_eq_on G x y) ->
    length (flat_map (fun X => map (pair X) (all_assts (lshape G X))) (nonterminals G)) <= kmax ->
    exists y0 y1 k,
      fixed_point_loop (step bool_ops G w) close kmax (zero_env bool_ops) = Some (y0, y1, false)
      /\ k <= length (flat_map (fun X => map (pair X) (all_assts (lshape G X))) (nonterminals G))
      /\ y0 = Zk bool_ops G w k
      /\ env_eq_on G (step bool_ops G w y0) y0
      /\ (forall v : env (R:=bool), env_le_on bool_ops G (step bool_ops G w v) v -> env_le_on bool_ops G y0 v).
Proof. exact bool_fixed_point_exact. Qed.
Print Assumptions C02_bool_fixed_point_exact.

(** verdict 0 of the Boolean check on a run whose values are judged: the implementation
    returned, for every nonterminal and cell, exactly the least fixed point *)
Theorem C02_fp_check_bool_sound :
  forall gw ws meth kmax tol K warned obs,
    fp_check_bool (gw, ws, (meth, kmax, tol), K, (false, warned, true, obs)) = 0 ->
    let G := grammar_of_w gw in
    let w := env_of bool_ops (weights_tmt (fun b : bool => b) G ws) in
    exists mu : env (R:=bool),
      env_eq_on G (step bool_ops G w mu) mu
      /\ (forall v : env (R:=bool), env_le_on bool_ops G (step bool_ops G w v) v -> env_le_on bool_ops G mu v)
      /\ (exists k, env_eq_on G mu (Zk bool_ops G w k))
      /\ forall X, In X (nonterminals G) ->
           exists ob, obs_get obs X = Some ob /\ ob = map (mu X) (all_assts (lshape G X)).
Proof. exact fp_check_bool_sound. Qed.
Print Assumptions C02_fp_check_bool_sound.

(** Viterbi: the least fixed point lies inside every observed interval *)
Theorem C02_fp_check_trop_sound :
  forall gw ws meth kmax tol K warned obs,
    fp_check_trop (gw, ws, (meth, kmax, tol), K, (false, warned, true, obs)) = 0 ->
    let G := grammar_of_w gw in
    let w := env_of trop_ops (weights_tmt trop_of G ws) in
    exists mu : env (R:=trop),
      env_eq_on G (step trop_ops G w mu) mu
      /\ (forall v : env (R:=trop), env_le_on trop_ops G (step trop_ops G w v) v -> env_le_on trop_ops G mu v)
      /\ (exists k, env_eq_on G mu (Zk trop_ops G w k))
      /\ forall X, In X (nonterminals G) ->
           exists ob, obs_get obs X = Some ob
             /\ length ob = length (all_assts (lshape G X))
             /\ forall i xi b, nth_error (all_assts (lshape G X)) i = Some xi -> nth_error ob i = Some b ->
                               tle (trop_of (fst b)) (mu X xi) /\ tle (mu X xi) (trop_of (snd b)).
Proof. exact trop_fp_check_sound. Qed.
Print Assumptions C02_fp_check_trop_sound.

(** Real / Log: every observed interval meets a certified enclosure [lo, u] of the least fixed point *)
Theorem C02_fp_check_real_sound :
  forall gw ws meth kmax tol K warned obs,
    fp_check_real (gw, ws, (meth, kmax, tol), K, (false, warned, true, obs)) = 0 ->
    let G := grammar_of_w gw in
    let w := env_of ereal_ops (weights_tmt ereal_of G ws) in
    exists lo u : env (R:=ereal),
      (forall k, env_le_on ereal_ops G (Zk ereal_ops G w k) u)
      /\ env_le_on ereal_ops G (step ereal_ops G w u) u
      /\ (exists k, env_le_on ereal_ops G lo (Zk ereal_ops G w k))
      /\ (forall v : env (R:=ereal), env_le_on ereal_ops G (step ereal_ops G w v) v -> env_le_on ereal_ops G lo v)
      /\ forall X, In X (nonterminals G) ->
           exists ob, obs_get obs X = Some ob
             /\ length ob = length (all_assts (lshape G X))
             /\ forall i xi b, nth_error (all_assts (lshape G X)) i = Some xi -> nth_error ob i = Some b ->
                               compat_real (lo X xi) (u X xi) b = true.
Proof. exact real_fp_check_sound. Qed.
Print Assumptions C02_fp_check_real_sound.

(** verdict 0 also means: ValueError was raised iff expected, and a provable budget
    exhaustion ([must_warn]) came with a warning *)
Theorem C02_fp_check_control :
  forall R W B (o : sr_ops R) rd infl leb far (of_wire : W -> R) (compat : R -> R -> B -> bool)
         gw ws meth kmax tol K raised warned chkvals obs,
    fp_check o rd infl leb far of_wire compat (gw, ws, (meth, kmax, tol), K, (raised, warned, chkvals, obs)) = 0 ->
    let G := grammar_of_w gw in
    wf_grammar G = true
    /\ exists order, scc (nt_graph G) = Some order
         /\ raised = expect_value_error G meth order
         /\ (raised = false -> must_warn o far tol G meth kmax order (weights_tmt of_wire G ws) = true -> warned = true).
Proof. exact (@fp_check_zero_control). Qed.
Print Assumptions C02_fp_check_control.

(** * 7. Kleene iterate = bounded-depth derivation sum; carrier instances without premises *)
(** the k-th iterate of the grammar's equations from zero is the sum of the weights of the
    derivation trees of depth <= k, each listed exactly once (any grammar, recursive or not; also
    stated in Props/C01.v); with sections 3 and 6: the certified enclosures / the least fixed
    point are the limits of these bounded-depth sums *)
Theorem C02_kleene_is_bounded_depth :
  forall R (o : sr_ops R), sr_ring o ->
  forall G w k X xi, is_term G X = false ->
    Zk o G w k X xi = sumS o (enum_trees G k X xi) (weight o G w)
    /\ NoDup (enum_trees G k X xi)
    /\ forall t, In t (enum_trees G k X xi) <-> wf_dtree G X xi t /\ depth t <= k.
Proof. exact (fun R o H => @kleene_is_bounded_depth R o H). Qed.
Print Assumptions C02_kleene_is_bounded_depth.

Theorem C02_kleene_is_bounded_depth_real :
  forall G w k X xi, is_term G X = false ->
    Zk ereal_ops G w k X xi = sumS ereal_ops (enum_trees G k X xi) (weight ereal_ops G w)
    /\ NoDup (enum_trees G k X xi)
    /\ forall t, In t (enum_trees G k X xi) <-> wf_dtree G X xi t /\ depth t <= k.
Proof. exact real_kleene_is_bounded_depth. Qed.
Print Assumptions C02_kleene_is_bounded_depth_real.

Theorem C02_kleene_is_bounded_depth_viterbi :
  forall G w k X xi, is_term G X = false ->
    Zk trop_ops G w k X xi = sumS trop_ops (enum_trees G k X xi) (weight trop_ops G w)
    /\ NoDup (enum_trees G k X xi)
    /\ forall t, In t (enum_trees G k X xi) <-> wf_dtree G X xi t /\ depth t <= k.
Proof. exact trop_kleene_is_bounded_depth. Qed.
Print Assumptions C02_kleene_is_bounded_depth_viterbi.

Theorem C02_kleene_is_bounded_depth_bool :
  forall G w k X xi, is_term G X = false ->
    Zk bool_ops G w k X xi = sumS bool_ops (enum_trees G k X xi) (weight bool_ops G w)
    /\ NoDup (enum_trees G k X xi)
    /\ forall t, In t (enum_trees G k X xi) <-> wf_dtree G X xi t /\ depth t <= k.
Proof. exact bool_kleene_is_bounded_depth. Qed.
Print Assumptions C02_kleene_is_bounded_depth_bool.

(** a Kleene iterate that is a fixed point is the least fixed point: Real/Log and Viterbi *)
Theorem C02_Zk_fixed_is_least_real :
  forall G w k, wf_grammar G = true ->
    env_eq_on G (Zk ereal_ops G w k) (Zk ereal_ops G w (S k)) ->
    env_eq_on G (step ereal_ops G w (Zk ereal_ops G w k)) (Zk ereal_ops G w k)
    /\ (forall v : env (R:=ereal), env_le_on ereal_ops G (step ereal_ops G w v) v -> env_le_on ereal_ops G (Zk ereal_ops G w k) v)
    /\ (forall j, env_le_on ereal_ops G (Zk ereal_ops G w j) (Zk ereal_ops G w k)).
Proof. exact real_Zk_fixed_is_least. Qed.
Print Assumptions C02_Zk_fixed_is_least_real.

Theorem C02_Zk_fixed_is_least_viterbi :
  forall G w k, wf_grammar G = true ->
    env_eq_on G (Zk trop_ops G w k) (Zk trop_ops G w (S k)) ->
    env_eq_on G (step trop_ops G w (Zk trop_ops G w k)) (Zk trop_ops G w k)
    /\ (forall v : env (R:=trop), env_le_on trop_ops G (step trop_ops G w v) v -> env_le_on trop_ops G (Zk trop_ops G w k) v)
    /\ (forall j, env_le_on trop_ops G (Zk trop_ops G w j) (Zk trop_ops G w k)).
Proof. exact trop_Zk_fixed_is_least. Qed.
Print Assumptions C02_Zk_fixed_is_least_viterbi.

(** fixed_point's loop with an exact stopping test, Viterbi: if it does not warn it returns the
    least fixed point *)
Theorem C02_fixed_point_quiet_is_lfp_viterbi :
  forall G w (close : env (R:=trop) -> env (R:=trop) -> bool) kmax y0 y1,
    wf_grammar G = true ->
    (forall x y, close x y = true -> env_eq_on G x y) ->
    fixed_point_loop (step trop_ops G w) close kmax (zero_env trop_ops) = Some (y0, y1, false) ->
    exists k, k <= kmax /\ y0 = Zk trop_ops G w k /\ y1 = Zk trop_ops G w (S k)
      /\ env_eq_on G (step trop_ops G w y0) y0
      /\ (forall v : env (R:=trop), env_le_on trop_ops G (step trop_ops G w v) v -> env_le_on trop_ops G y0 v)
      /\ (forall j, env_le_on trop_ops G (Zk trop_ops G w j) y0).
Proof. exact trop_fixed_point_quiet_is_lfp. Qed.
Print Assumptions C02_fixed_point_quiet_is_lfp_viterbi.

(** whatever fixed_point's loop returns is below every pre-fixed point: Real/Log *)
Theorem C02_fixed_point_result_below_prefix_real :
  forall G w (close : env (R:=ereal) -> env (R:=ereal) -> bool) kmax y0 y1 warned,
    wf_grammar G = true ->
    fixed_point_loop (step ereal_ops G w) close kmax (zero_env ereal_ops) = Some (y0, y1, warned) ->
    forall v : env (R:=ereal), env_le_on ereal_ops G (step ereal_ops G w v) v ->
      env_le_on ereal_ops G y0 v /\ env_le_on ereal_ops G y1 v.
Proof. exact real_fixed_point_result_below_prefix. Qed.
Print Assumptions C02_fixed_point_result_below_prefix_real.

(** SCC decomposition, per carrier *)
Theorem C02_scc_decomposition_real :
  forall G w, wf_grammar G = true ->
  forall (mu : env (R:=ereal)) order acc final,
    is_lfp_on ereal_ops G (nonterminals G) (step ereal_ops G w) mu ->
    exact_run ereal_ops G w order acc final -> dep_ordered G [] order ->
    (forall X, In X (nonterminals G) -> In X (concat order)) ->
    forall X xi, In X (nonterminals G) -> In xi (all_assts (lshape G X)) -> final X xi = mu X xi.
Proof. exact real_scc_decomposition. Qed.
Print Assumptions C02_scc_decomposition_real.

Theorem C02_scc_decomposition_viterbi :
  forall G w, wf_grammar G = true ->
  forall (mu : env (R:=trop)) order acc final,
    is_lfp_on trop_ops G (nonterminals G) (step trop_ops G w) mu ->
    exact_run trop_ops G w order acc final -> dep_ordered G [] order ->
    (forall X, In X (nonterminals G) -> In X (concat order)) ->
    forall X xi, In X (nonterminals G) -> In xi (all_assts (lshape G X)) -> final X xi = mu X xi.
Proof. exact trop_scc_decomposition. Qed.
Print Assumptions C02_scc_decomposition_viterbi.

Theorem C02_scc_decomposition_bool :
  forall G w, wf_grammar G = true ->
  forall (mu : env (R:=bool)) order acc final,
    is_lfp_on bool_ops G (nonterminals G) (step bool_ops G w) mu ->
    exact_run bool_ops G w order acc final -> dep_ordered G [] order ->
    (forall X, In X (nonterminals G) -> In X (concat order)) ->
    forall X xi, In X (nonterminals G) -> In xi (all_assts (lshape G X)) -> final X xi = mu X xi.
Proof. exact bool_scc_decomposition. Qed.
Print Assumptions C02_scc_decomposition_bool.


(** * 9. Newton's method (tier B): a model of [newton] and the Esparza-Kiefer-Luttenberger sandwich *)
(** [Model/Newton.v]: [newton_step] = one pass of the loop of fggs/sum_product.py:newton on one
    component [comp] (F0 = max(F x, x); dX = multi_solve(J x, F0 - x); x' = max(x + dX, F0)) with the
    code-shaped Jacobian of Model/Dual.v; [newton_iter k] = k passes from the empty MultiTensor;
    [newton_run] = the for/else loop with its stop test; [solve_ms] = [multi_solve_model] on the
    tabulated blocks.  [le_on o G comp x y] / [eq_on G comp x y]: x <= y / x = y at every nonterminal
    of [comp] and every in-range index tuple.  [newton_laws o sub maxr rsd]: maximum is the binary
    join, (x - y) + y = x for y <= x, and [rsd u x] is the largest a with x + a <= u. *)
Require Import Fggs.Model.Dual Fggs.Model.Newton.
Require Import Fggs.Proofs.SemiringLaws Fggs.Proofs.Newton_taylor Fggs.Proofs.Newton_sandwich Fggs.Proofs.Newton_solve
               Fggs.Proofs.Newton_laws Fggs.Proofs.Newton_inst Fggs.Proofs.Newton_tab Fggs.Proofs.Newton_examples.

(** the product rule as an inequality: every monomial of the expansion of prod (p_i + d_i) contains
    prod p_i and the first-order terms; any number of factors *)
Theorem C02_taylor_product :
  forall R (o : sr_ops R), sr_ring o -> sr_ordered o ->
  forall A (l : list A) (p d : A -> R),
    le o (add o (prodS o l p) (leib o l p d)) (prodS o l (fun x => add o (p x) (d x))).
Proof. exact (fun R o Hr Ho A => @taylor_prod R o Hr Ho A). Qed.
Print Assumptions C02_taylor_product.

(** the Taylor inequality F(x) + J(x) . d <= F(x + d) for the grammar's equations, with J the
    Jacobian the code computes ([J_contribs], blocks [J_val], [multi_mv] = [Amv]) *)
Theorem C02_taylor :
  forall R (o : sr_ops R), sr_ring o -> sr_ordered o ->
  forall G, wf_grammar G = true ->
  forall (w inp : env (R:=R)) comp, NoDup comp -> (forall m, In m comp -> is_term G m = false) ->
  forall (x d : env (R:=R)) n xi, In n comp -> In xi (all_assts (lshape G n)) ->
    le o (add o (ncomp_step o G w inp comp x n xi) (Amv o G comp (J_val o (newton_J o G w inp comp x)) d n xi))
         (ncomp_step o G w inp comp (env_add o x d) n xi).
Proof. exact (@newton_taylor). Qed.
Print Assumptions C02_taylor.

(** the inner linear solves: [multi_solve] on the tabulated blocks is the least solution of
    y = A y + b (C09_multi_solve_refines read at the level of environments) *)
Theorem C02_newton_solve_least :
  forall R (o : sr_ops R), sr_ring o -> sr_ordered o -> sr_star o ->
  forall G comp, NoDup comp -> solve_spec o G comp (solve_ms o G comp).
Proof. exact (@solve_ms_spec). Qed.
Print Assumptions C02_newton_solve_least.

(** the facts about [sub] and [maximum], proved for the code's operations on the three carriers *)
Theorem C02_newton_laws_carriers :
  newton_laws bool_ops bsub2 orb (fun u _ => u)
  /\ newton_laws ereal_ops esub emax2 ersd
  /\ newton_laws trop_ops (fun x _ => x) tmax (fun u _ => u).
Proof. exact (conj bool_newton_laws (conj ereal_newton_laws trop_newton_laws)). Qed.
Print Assumptions C02_newton_laws_carriers.

(** C02_newton_sandwich (one component, any solver that returns least solutions): Kleene <= Newton,
    Newton <= every pre-fixed point *)
Theorem C02_newton_sandwich_any_solver :
  forall R (o : sr_ops R), sr_ring o -> sr_ordered o ->
  forall sub maxr rsd, newton_laws o sub maxr rsd ->
  forall G, wf_grammar G = true ->
  forall (w inp : env (R:=R)) comp, NoDup comp -> (forall m, In m comp -> is_term G m = false) ->
  forall solve, solve_spec o G comp solve ->
  forall k,
    (forall n xi, le o (comp_kleene o G w inp comp k n xi) (newton_iter o sub maxr G w inp comp solve k n xi))
    /\ (forall u, le_on o G comp (ncomp_step o G w inp comp u) u ->
                  le_on o G comp (newton_iter o sub maxr G w inp comp solve k) u).
Proof.
  exact (fun R o Hr Ho sub maxr rsd HL G Hwf w inp comp Hnd Hnt solve Hs k =>
           conj (newton_above_kleene o Hr Ho sub maxr rsd HL G Hwf w inp comp solve k)
                (fun u Hu => newton_below_prefix o Hr Ho sub maxr rsd HL G Hwf w inp comp Hnd Hnt solve Hs u Hu k)).
Qed.
Print Assumptions C02_newton_sandwich_any_solver.

(** C02_newton_sandwich with the code's solver: for every k, kappa_k <= nu_k <= every pre-fixed
    point; nu_k <= nu_{k+1}; nu_k <= F(nu_k) <= nu_{k+1} *)
Theorem C02_newton_sandwich :
  forall R (o : sr_ops R), sr_ring o -> sr_ordered o -> sr_star o ->
  forall sub maxr rsd, newton_laws o sub maxr rsd ->
  forall G, wf_grammar G = true ->
  forall (w inp : env (R:=R)) comp, NoDup comp -> (forall m, In m comp -> is_term G m = false) ->
  forall k,
    let nu := newton_iter o sub maxr G w inp comp (solve_ms o G comp) in
    (forall n xi, le o (comp_kleene o G w inp comp k n xi) (nu k n xi))
    /\ (forall u, le_on o G comp (ncomp_step o G w inp comp u) u -> le_on o G comp (nu k) u)
    /\ (forall n xi, le o (nu k n xi) (nu (S k) n xi))
    /\ le_on o G comp (nu k) (ncomp_step o G w inp comp (nu k))
    /\ (forall n xi, le o (ncomp_step o G w inp comp (nu k) n xi) (nu (S k) n xi)).
Proof. exact (@newton_sandwich). Qed.
Print Assumptions C02_newton_sandwich.

(** the whole grammar as one system: the statement with the global Kleene iterates [Zk] *)
Theorem C02_newton_sandwich_whole :
  forall R (o : sr_ops R), sr_ring o -> sr_ordered o -> sr_star o ->
  forall sub maxr rsd, newton_laws o sub maxr rsd ->
  forall G, wf_grammar G = true ->
  forall (w : env (R:=R)) k,
    (forall X xi, le o (Zk o G w k X xi) (newton_whole o sub maxr G w k X xi))
    /\ (forall u, env_le_on o G (step o G w u) u -> env_le_on o G (newton_whole o sub maxr G w k) u)
    /\ (forall X xi, le o (newton_whole o sub maxr G w k X xi) (newton_whole o sub maxr G w (S k) X xi))
    /\ env_le_on o G (newton_whole o sub maxr G w k) (step o G w (newton_whole o sub maxr G w k)).
Proof. exact (@newton_whole_sandwich). Qed.
Print Assumptions C02_newton_sandwich_whole.

Theorem C02_newton_sandwich_real :
  forall G, wf_grammar G = true -> forall (w : env (R:=ereal)) k,
    (forall X xi, ele (Zk ereal_ops G w k X xi) (newton_whole ereal_ops esub emax2 G w k X xi))
    /\ (forall u, env_le_on ereal_ops G (step ereal_ops G w u) u -> env_le_on ereal_ops G (newton_whole ereal_ops esub emax2 G w k) u)
    /\ (forall X xi, ele (newton_whole ereal_ops esub emax2 G w k X xi) (newton_whole ereal_ops esub emax2 G w (S k) X xi))
    /\ env_le_on ereal_ops G (newton_whole ereal_ops esub emax2 G w k) (step ereal_ops G w (newton_whole ereal_ops esub emax2 G w k)).
Proof. exact newton_whole_sandwich_real. Qed.
Print Assumptions C02_newton_sandwich_real.

Theorem C02_newton_sandwich_bool :
  forall G, wf_grammar G = true -> forall (w : env (R:=bool)) k,
    (forall X xi, le bool_ops (Zk bool_ops G w k X xi) (newton_whole bool_ops bsub2 orb G w k X xi))
    /\ (forall u, env_le_on bool_ops G (step bool_ops G w u) u -> env_le_on bool_ops G (newton_whole bool_ops bsub2 orb G w k) u)
    /\ (forall X xi, le bool_ops (newton_whole bool_ops bsub2 orb G w k X xi) (newton_whole bool_ops bsub2 orb G w (S k) X xi))
    /\ env_le_on bool_ops G (newton_whole bool_ops bsub2 orb G w k) (step bool_ops G w (newton_whole bool_ops bsub2 orb G w k)).
Proof. exact newton_whole_sandwich_bool. Qed.
Print Assumptions C02_newton_sandwich_bool.

Theorem C02_newton_sandwich_viterbi :
  forall G, wf_grammar G = true -> forall (w : env (R:=trop)) k,
    let nw := newton_whole trop_ops (fun x _ => x) tmax G w in
    (forall X xi, tle (Zk trop_ops G w k X xi) (nw k X xi))
    /\ (forall u, env_le_on trop_ops G (step trop_ops G w u) u -> env_le_on trop_ops G (nw k) u)
    /\ (forall X xi, tle (nw k X xi) (nw (S k) X xi))
    /\ env_le_on trop_ops G (nw k) (step trop_ops G w (nw k)).
Proof. exact newton_whole_sandwich_viterbi. Qed.
Print Assumptions C02_newton_sandwich_viterbi.

(** on the exact sequence both [maximum_] clamps of the code are the identity (they only matter
    under rounding): F0 = F(nu_k) and nu_{k+1} = nu_k + dX *)
Theorem C02_newton_clamps_noop :
  forall R (o : sr_ops R), sr_ring o -> sr_ordered o ->
  forall sub maxr rsd, newton_laws o sub maxr rsd ->
  forall G, wf_grammar G = true ->
  forall (w inp : env (R:=R)) comp, NoDup comp -> (forall m, In m comp -> is_term G m = false) ->
  forall solve, solve_spec o G comp solve ->
  forall k,
    let nu := newton_iter o sub maxr G w inp comp solve in
    eq_on G comp (newton_F0 o maxr G w inp comp (nu k)) (ncomp_step o G w inp comp (nu k))
    /\ eq_on G comp (nu (S k)) (env_add o (nu k) (newton_dX o sub maxr G w inp comp solve (nu k))).
Proof. exact (@newton_clamps_noop). Qed.
Print Assumptions C02_newton_clamps_noop.

(** once an iterate is a fixed point of the equations, further passes change nothing (so a run
    whose stop test fired at an exact fixed point equals [newton_iter kmax]) *)
Theorem C02_newton_stationary :
  forall R (o : sr_ops R), sr_ring o -> sr_ordered o ->
  forall sub maxr rsd, newton_laws o sub maxr rsd ->
  forall G, wf_grammar G = true ->
  forall (w inp : env (R:=R)) comp, NoDup comp -> (forall m, In m comp -> is_term G m = false) ->
  forall solve, solve_spec o G comp solve ->
  forall k,
    let nu := newton_iter o sub maxr G w inp comp solve in
    eq_on G comp (ncomp_step o G w inp comp (nu k)) (nu k) -> forall j, eq_on G comp (nu (j + k)) (nu k).
Proof. exact (@newton_stationary). Qed.
Print Assumptions C02_newton_stationary.

(** certified enclosures (Model/Kleene.v, what [fp_check] uses): no Newton iterate exceeds u,
    and from iterate 4 j on (j = rounds used by the enclosure search) they are above lo *)
Theorem C02_newton_in_enclosure :
  forall R (o : sr_ops R), sr_ring o -> sr_ordered o -> sr_star o ->
  forall sub maxr rsd, newton_laws o sub maxr rsd ->
  forall G, wf_grammar G = true ->
  forall (w : env (R:=R)) (rd infl : R -> R) (leb : R -> R -> bool),
    (forall x, le o (rd x) x) -> (forall x y, leb x y = true -> le o x y) ->
  forall K lo u, enclosure o rd infl leb G w K = Some (lo, u) ->
    (forall k, env_le_on o G (newton_whole o sub maxr G w k) (env_of o u))
    /\ exists j, j <= K /\ forall k, 4 * j <= k -> env_le_on o G (env_of o lo) (newton_whole o sub maxr G w k).
Proof. exact (@newton_in_enclosure). Qed.
Print Assumptions C02_newton_in_enclosure.

Theorem C02_newton_in_enclosure_real :
  forall G, wf_grammar G = true -> forall w K lo u,
  enclosure ereal_ops rd_real infl_real eleb G w K = Some (lo, u) ->
  (forall k, env_le_on ereal_ops G (newton_whole ereal_ops esub emax2 G w k) (env_of ereal_ops u))
  /\ exists j, j <= K /\ forall k, 4 * j <= k ->
       env_le_on ereal_ops G (env_of ereal_ops lo) (newton_whole ereal_ops esub emax2 G w k).
Proof. exact newton_in_enclosure_real. Qed.
Print Assumptions C02_newton_in_enclosure_real.

(** the value the loop returns -- whatever the stop test and the budget -- never exceeds u *)
Theorem C02_newton_run_below_enclosure :
  forall R (o : sr_ops R), sr_ring o -> sr_ordered o -> sr_star o ->
  forall sub maxr rsd, newton_laws o sub maxr rsd ->
  forall G, wf_grammar G = true ->
  forall (w : env (R:=R)) (rd infl : R -> R) (leb : R -> R -> bool),
    (forall x, le o (rd x) x) -> (forall x y, leb x y = true -> le o x y) ->
  forall close kmax K lo u, enclosure o rd infl leb G w K = Some (lo, u) ->
    env_le_on o G (fst (newton_whole_run o sub maxr G w close kmax)) (env_of o u).
Proof. exact (@newton_run_below_enclosure). Qed.
Print Assumptions C02_newton_run_below_enclosure.

(** the loop of the model warns iff no pass's stop test succeeded (the loop shape of
    C02_newton_warns_iff instantiated with the modelled body) *)
Theorem C02_newton_run_warns_iff :
  forall R (o : sr_ops R) sub maxr G (w inp : env (R:=R)) comp solve close kmax,
    let nu := newton_iter o sub maxr G w inp comp solve in
    snd (newton_run o sub maxr G w inp comp solve close kmax) = true
    <-> forall i, i < kmax -> close (newton_F0 o maxr G w inp comp (nu i)) (nu i) = false.
Proof. exact (@newton_run_warns_iff). Qed.
Print Assumptions C02_newton_run_warns_iff.

(** exact stop test + no warning: the returned value is the least fixed point of the grammar's
    equations and the supremum of the Kleene iterates (Bool and Viterbi: the code's test with
    tol = 0 is exact equality) *)
Theorem C02_newton_exact_stop_is_lfp :
  forall R (o : sr_ops R), sr_ring o -> sr_ordered o -> sr_star o ->
  forall sub maxr rsd, newton_laws o sub maxr rsd ->
  forall G, wf_grammar G = true ->
  forall (w : env (R:=R)) (eqb : R -> R -> bool) kmax,
    (forall x y, eqb x y = true -> x = y) ->
    snd (newton_whole_run o sub maxr G w (close_exact G (nonterminals G) eqb) kmax) = false ->
    let res := fst (newton_whole_run o sub maxr G w (close_exact G (nonterminals G) eqb) kmax) in
    env_eq_on G (step o G w res) res
    /\ (forall u, env_le_on o G (step o G w u) u -> env_le_on o G res u)
    /\ (forall k, env_le_on o G (Zk o G w k) res).
Proof. exact (@newton_exact_stop_is_lfp). Qed.
Print Assumptions C02_newton_exact_stop_is_lfp.

Theorem C02_newton_exact_stop_is_lfp_bool :
  forall G, wf_grammar G = true -> forall (w : env (R:=bool)) kmax,
    snd (newton_whole_run bool_ops bsub2 orb G w (close_exact G (nonterminals G) Bool.eqb) kmax) = false ->
    let res := fst (newton_whole_run bool_ops bsub2 orb G w (close_exact G (nonterminals G) Bool.eqb) kmax) in
    env_eq_on G (step bool_ops G w res) res
    /\ (forall u, env_le_on bool_ops G (step bool_ops G w u) u -> env_le_on bool_ops G res u)
    /\ (forall k, env_le_on bool_ops G (Zk bool_ops G w k) res).
Proof. exact newton_exact_stop_is_lfp_bool. Qed.
Print Assumptions C02_newton_exact_stop_is_lfp_bool.

Theorem C02_newton_exact_stop_is_lfp_viterbi :
  forall G, wf_grammar G = true -> forall (w : env (R:=trop)) kmax,
    snd (newton_whole_run trop_ops (fun x _ => x) tmax G w (close_exact G (nonterminals G) teqb) kmax) = false ->
    let res := fst (newton_whole_run trop_ops (fun x _ => x) tmax G w (close_exact G (nonterminals G) teqb) kmax) in
    env_eq_on G (step trop_ops G w res) res
    /\ (forall u, env_le_on trop_ops G (step trop_ops G w u) u -> env_le_on trop_ops G res u)
    /\ (forall k, env_le_on trop_ops G (Zk trop_ops G w k) res).
Proof. exact newton_exact_stop_is_lfp_viterbi. Qed.
Print Assumptions C02_newton_exact_stop_is_lfp_viterbi.

Theorem C02_newton_exact_stop_is_lfp_real :
  forall G, wf_grammar G = true -> forall (w : env (R:=ereal)) kmax,
    snd (newton_whole_run ereal_ops esub emax2 G w (close_exact G (nonterminals G) eeqb) kmax) = false ->
    let res := fst (newton_whole_run ereal_ops esub emax2 G w (close_exact G (nonterminals G) eeqb) kmax) in
    env_eq_on G (step ereal_ops G w res) res
    /\ (forall u, env_le_on ereal_ops G (step ereal_ops G w u) u -> env_le_on ereal_ops G res u)
    /\ (forall k, env_le_on ereal_ops G (Zk ereal_ops G w k) res).
Proof. exact newton_exact_stop_is_lfp_real. Qed.
Print Assumptions C02_newton_exact_stop_is_lfp_real.

(** a linearly recursive component (what [sum_products] hands to method 'linear'): ONE Newton pass
    from zero already returns the least fixed point *)
Theorem C02_newton_linear_one_pass :
  forall R (o : sr_ops R), sr_ring o -> sr_ordered o ->
  forall sub maxr rsd, newton_laws o sub maxr rsd ->
  forall G, wf_grammar G = true ->
  forall (w inp : env (R:=R)) comp, NoDup comp -> (forall m, In m comp -> is_term G m = false) ->
  forall solve, solve_spec o G comp solve ->
    max_rhs G comp <= 1 ->
    let x1 := newton_iter o sub maxr G w inp comp solve 1 in
    eq_on G comp (ncomp_step o G w inp comp x1) x1
    /\ (forall u, le_on o G comp (ncomp_step o G w inp comp u) u -> le_on o G comp x1 u).
Proof. exact (@newton_linear_one_pass). Qed.
Print Assumptions C02_newton_linear_one_pass.

(** a pass reads its argument only on the component's range ... *)
Theorem C02_newton_step_ext :
  forall R (o : sr_ops R), sr_ring o -> sr_ordered o ->
  forall sub maxr G, wf_grammar G = true ->
  forall (w inp : env (R:=R)) comp, NoDup comp ->
  forall solve, solve_spec o G comp solve ->
  forall x y, eq_on G comp x y ->
    eq_on G comp (newton_step o sub maxr G w inp comp solve x) (newton_step o sub maxr G w inp comp solve y).
Proof. exact (@newton_step_ext). Qed.
Print Assumptions C02_newton_step_ext.

(** ... hence the tables iterated by the check function [newton_check] are the Newton iterates
    (and its lower-bound tables the Kleene iterates) of the component *)
Theorem C02_newton_comp_refines :
  forall R (o : sr_ops R), sr_ring o -> sr_ordered o -> sr_star o ->
  forall sub maxr G, wf_grammar G = true ->
  forall (all : tmt (R:=R)) comp, NoDup comp ->
  forall k,
    eq_on G comp (env_of o (newton_comp o sub maxr G all comp k))
          (newton_iter o sub maxr G (env_of o all) (env_of o all) comp (solve_ms o G comp) k).
Proof. exact (@newton_comp_refines). Qed.
Print Assumptions C02_newton_comp_refines.

Theorem C02_kleene_comp_refines :
  forall R (o : sr_ops R), sr_ring o -> sr_ordered o ->
  forall G, wf_grammar G = true ->
  forall (all : tmt (R:=R)) comp k,
    eq_on G comp (env_of o (kleene_comp o G all comp k))
          (comp_kleene o G (env_of o all) (env_of o all) comp k).
Proof. exact (@kleene_comp_refines). Qed.
Print Assumptions C02_kleene_comp_refines.

(** the hypotheses are satisfiable: Y -> Y Y | a over the reals, a = 3/16: Newton iterates 3/16,
    39/160, ... strictly between the Kleene iterates (57/256 at k = 2) and the least fixed point
    1/4; the Bool loop with budget 3 stops without warning at the least fixed point *)
Theorem C02_newton_example :
  eeqb (ex_nu 1) (qe (3 # 16)%Q) = true /\ eeqb (ex_nu 2) (qe (39 # 160)%Q) = true
  /\ eeqb (ex_kappa 2) (qe (57 # 256)%Q) = true
  /\ eleb (ex_kappa 3) (ex_nu 3) = true /\ eleb (ex_nu 3) (qe (1 # 4)%Q) = true
  /\ eeqb (ex_nu 3) (qe (1 # 4)%Q) = false.
Proof. exact newton_ex_values. Qed.
Print Assumptions C02_newton_example.

(** ... and therefore inside every certified enclosure [lo, u] (Real: the one of [fp_check_real]) *)
Theorem C02_newton_exact_stop_in_enclosure :
  forall R (o : sr_ops R), sr_ring o -> sr_ordered o -> sr_star o ->
  forall sub maxr rsd, newton_laws o sub maxr rsd ->
  forall G, wf_grammar G = true ->
  forall (w : env (R:=R)) (rd infl : R -> R) (leb eqb : R -> R -> bool) kmax K lo u,
    (forall x, le o (rd x) x) -> (forall x y, leb x y = true -> le o x y) ->
    (forall x y, eqb x y = true -> x = y) ->
    enclosure o rd infl leb G w K = Some (lo, u) ->
    snd (newton_whole_run o sub maxr G w (close_exact G (nonterminals G) eqb) kmax) = false ->
    let res := fst (newton_whole_run o sub maxr G w (close_exact G (nonterminals G) eqb) kmax) in
    env_le_on o G (env_of o lo) res /\ env_le_on o G res (env_of o u).
Proof. exact (@newton_exact_stop_in_enclosure). Qed.
Print Assumptions C02_newton_exact_stop_in_enclosure.

Theorem C02_newton_exact_stop_in_enclosure_real :
  forall G, wf_grammar G = true -> forall w kmax K lo u,
    enclosure ereal_ops rd_real infl_real eleb G w K = Some (lo, u) ->
    snd (newton_whole_run ereal_ops esub emax2 G w (close_exact G (nonterminals G) eeqb) kmax) = false ->
    let res := fst (newton_whole_run ereal_ops esub emax2 G w (close_exact G (nonterminals G) eeqb) kmax) in
    env_le_on ereal_ops G (env_of ereal_ops lo) res /\ env_le_on ereal_ops G res (env_of ereal_ops u).
Proof. exact newton_exact_stop_in_enclosure_real. Qed.
Print Assumptions C02_newton_exact_stop_in_enclosure_real.

(** * 9. "skip a zero pivot row" in the matrix right-hand-side pass of Semiring.solve_thunks
    (what multi_solve runs when it eliminates a nonterminal with a self-loop from a component
    of several non-scalar nonterminals: a[x,z] := a[x,z] star(a[z,z])).    Skipping when the whole
    pivot row is zero is sound in every semiring; "some entry is zero" is the same test for one
    column (vector and (n,1) right-hand sides) and wrong for two (Bool, 2 x 2 witness). *)
Require Fggs.Model.Solve Fggs.Model.SolveSkip Fggs.Proofs.SolveSkip_proofs.

Theorem C02_solve_skip_all_zero_sound :
  forall {S} (o : sr_ops S) (eqb : S -> S -> bool), sr_ring o -> (forall x y, eqb x y = true -> x = y) ->
  forall n m A B, SolveSkip.shaped o n m B ->
    SolveSkip.solve_model_mat_skip o (SolveSkip.row_all_zero o eqb) n m A B = Solve.solve_model_mat o n m A B.
Proof. exact (@SolveSkip_proofs.solve_skip_all_zero_sound). Qed.
Print Assumptions C02_solve_skip_all_zero_sound.

Theorem C02_solve_skip_some_zero_single_column :
  forall {S} (o : sr_ops S) (eqb : S -> S -> bool), sr_ring o -> (forall x y, eqb x y = true -> x = y) ->
  forall n A B, SolveSkip.shaped o n 1 B ->
    SolveSkip.solve_model_mat_skip o (SolveSkip.row_some_zero o eqb) n 1 A B = Solve.solve_model_mat o n 1 A B.
Proof. exact (@SolveSkip_proofs.solve_skip_some_zero_single_column). Qed.
Print Assumptions C02_solve_skip_some_zero_single_column.

Theorem C02_solve_skip_some_zero_refuted :
  SolveSkip.shaped bool_ops 2 2 SolveSkip_proofs.skip_cex_B /\
  Solve.solve_model_mat bool_ops 2 2 SolveSkip_proofs.skip_cex_A SolveSkip_proofs.skip_cex_B = [[true; false]; [true; false]] /\
  SolveSkip.solve_model_mat_skip bool_ops (SolveSkip.row_some_zero bool_ops Bool.eqb) 2 2
    SolveSkip_proofs.skip_cex_A SolveSkip_proofs.skip_cex_B = [[false; false]; [true; false]].
Proof. exact SolveSkip_proofs.solve_skip_some_zero_refuted. Qed.
Print Assumptions C02_solve_skip_some_zero_refuted.

(** * Tolerance: "with an error that vanishes as tol does" at the slowest converging grammars.
    The CRITICAL scalar system x = c x^2 + a x + b with (1-a)^2 = 4 c b (e.g. S -> 1/2 S S | 1/2;
    Model/Critical.v, Proofs/Critical_proofs.v): F'(xs) = 1, no contraction factor exists, but the
    residual is exactly c times the square of the error, so the stopping test F(x) - x <= tol of
    fixed_point / newton bounds the error by sqrt(tol / c).  (For F'(xs) < 1 the bounds are
    C11_fixed_point_stop_bound, C11_fixed_point_stop_bound_quadratic, C11_newton_stop_bound; the
    harness judges every rung of a tolerance ladder with the corresponding check function.) *)
Require Fggs.Model.Magnitude Fggs.Model.Critical Fggs.Proofs.Critical_proofs.

Theorem C02_critical_residual :
  forall a b c x : Q, (0 < c)%Q -> ((1 - a) * (1 - a) == 4 * c * b)%Q ->
    (Magnitude.qF a b c x - x == c * (Critical.crit_xs a c - x) * (Critical.crit_xs a c - x))%Q.
Proof. exact Critical_proofs.crit_residual. Qed.
Print Assumptions C02_critical_residual.

Theorem C02_critical_stop_bound :
  forall a b c x tol : Q, (0 < c)%Q -> ((1 - a) * (1 - a) == 4 * c * b)%Q ->
    (Magnitude.qF a b c x - x <= tol)%Q ->
    (c * (Critical.crit_xs a c - x) * (Critical.crit_xs a c - x) <= tol)%Q.
Proof. exact Critical_proofs.crit_stop_bound. Qed.
Print Assumptions C02_critical_stop_bound.

(** the Kleene iterates increase and stay below the double root *)
Theorem C02_critical_iterates_below :
  forall a b c k, (0 <= a)%Q -> (a < 1)%Q -> (0 < c)%Q -> ((1 - a) * (1 - a) == 4 * c * b)%Q ->
    (Magnitude.qiter a b c k <= Critical.crit_xs a c)%Q /\ (Magnitude.qiter a b c k <= Magnitude.qiter a b c (S k))%Q.
Proof. exact Critical_proofs.crit_iter_below. Qed.
Print Assumptions C02_critical_iterates_below.

(** Newton's step halves the error at a critical system (linear convergence only) *)
Theorem C02_critical_newton_halves :
  forall a b c x : Q, (0 < c)%Q -> ((1 - a) * (1 - a) == 4 * c * b)%Q -> (x < Critical.crit_xs a c)%Q ->
    (Critical.crit_xs a c - (x + (Magnitude.qF a b c x - x) / (1 - Magnitude.qL a c x)) == (Critical.crit_xs a c - x) / 2)%Q.
Proof. exact Critical_proofs.crit_newton_halves. Qed.
Print Assumptions C02_critical_newton_halves.

(** the check function accepts whatever lies between an iterate passing the stopping test and the
    solution (fixed_point returns the iterate, newton something between F(iterate) and xs) ... *)
Theorem C02_crit_check_sound :
  forall a b c tol delta x obs : Q,
    (0 <= a)%Q -> (a < 1)%Q -> (0 < c)%Q -> (0 <= tol)%Q -> (0 <= delta)%Q -> ((1 - a) * (1 - a) == 4 * c * b)%Q ->
    (x <= obs)%Q -> (obs <= Critical.crit_xs a c)%Q -> (Magnitude.qF a b c x - x <= tol)%Q ->
    Critical.crit_check ((a, b, c), tol, delta, obs) = 0.
Proof. exact Critical_proofs.crit_check_sound. Qed.
Print Assumptions C02_crit_check_sound.

Theorem C02_crit_check_accepts_fixed_point :
  forall a b c tol k, (0 <= a)%Q -> (a < 1)%Q -> (0 < c)%Q -> (0 <= tol)%Q -> ((1 - a) * (1 - a) == 4 * c * b)%Q ->
    (Magnitude.qiter a b c (S k) - Magnitude.qiter a b c k <= tol)%Q ->
    Critical.crit_check ((a, b, c), tol, 0%Q, Magnitude.qiter a b c k) = 0.
Proof. exact Critical_proofs.crit_check_accepts_fixed_point. Qed.
Print Assumptions C02_crit_check_accepts_fixed_point.

(** ... accepts only values whose error (beyond the rounding allowance) squared is at most tol/c ... *)
Theorem C02_crit_check_accepts_only :
  forall a b c tol delta obs, Critical.crit_check ((a, b, c), tol, delta, obs) = 0 ->
    (obs <= Critical.crit_xs a c + delta)%Q /\
    ((Critical.crit_xs a c - delta <= obs)%Q \/
     (c * (Critical.crit_xs a c - delta - obs) * (Critical.crit_xs a c - delta - obs) <= tol)%Q).
Proof. exact Critical_proofs.crit_check_accepts_only. Qed.
Print Assumptions C02_crit_check_accepts_only.

(** ... and rejects (verdict 1) every value further away *)
Theorem C02_crit_check_rejects :
  forall a b c tol delta obs : Q,
    (0 <= a)%Q -> (a < 1)%Q -> (0 < c)%Q -> (0 <= tol)%Q -> (0 <= delta)%Q -> ((1 - a) * (1 - a) == 4 * c * b)%Q ->
    (obs < Critical.crit_xs a c - delta)%Q ->
    (tol < c * (Critical.crit_xs a c - delta - obs) * (Critical.crit_xs a c - delta - obs))%Q ->
    Critical.crit_check ((a, b, c), tol, delta, obs) = 1.
Proof. exact Critical_proofs.crit_check_rejects. Qed.
Print Assumptions C02_crit_check_rejects.

(** ladders: a smaller tol cannot stop earlier, so its value is not smaller *)
Theorem C02_ladder_step_monotone :
  forall a b c : Q, (0 <= a)%Q -> (0 <= b)%Q -> (0 <= c)%Q ->
  forall tol1 tol2 k1 k2, (tol2 <= tol1)%Q ->
    (forall j, j < k1 -> ~ (Magnitude.qiter a b c (S j) - Magnitude.qiter a b c j <= tol1)%Q) ->
    (Magnitude.qiter a b c (S k2) - Magnitude.qiter a b c k2 <= tol2)%Q ->
    (Magnitude.qiter a b c k1 <= Magnitude.qiter a b c k2)%Q.
Proof. exact Critical_proofs.ladder_step_monotone. Qed.
Print Assumptions C02_ladder_step_monotone.

Theorem C02_ladder_check_rejects :
  forall delta t1 o1 t2 o2 r, (0 <= delta)%Q -> (o2 < o1 - delta)%Q ->
    Critical.ladder_sorted ((t1, o1) :: (t2, o2) :: r) = true ->
    Critical.ladder_check (delta, (t1, o1) :: (t2, o2) :: r) = 2.
Proof. exact Critical_proofs.ladder_check_rejects. Qed.
Print Assumptions C02_ladder_check_rejects.
