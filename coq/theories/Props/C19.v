(** C19 — strongly connected components are correct and dependency-ordered.
    Only property theorems live here, each closed by [exact] and followed by Print Assumptions. *)
From Coq Require Import List Arith Bool.
Import ListNotations.
Require Import Fggs.Model.SCC Fggs.Proofs.SCC_bounded Fggs.Proofs.SCC_ntgraph.

(** nonterminal_graph has an edge X->Y exactly when some rule for X has a rhs edge labelled by
    the nonterminal Y, and contains every nonterminal, including those without rules. *)
Theorem C19_nonterminal_graph_vertices :
  forall nts rules, verts (ntgraph nts rules) = nts.
Proof. exact ntgraph_verts. Qed.
Print Assumptions C19_nonterminal_graph_vertices.

Theorem C19_nonterminal_graph_edges :
  forall nts rules x y,
    In y (succs (ntgraph nts rules) x) <->
    In x nts /\ exists r, In r rules /\ fst r = x /\ In (y, true) (snd r).
Proof. exact ntgraph_edge. Qed.
Print Assumptions C19_nonterminal_graph_edges.

Theorem C19_ntg_oracle_sound :
  forall nts rules g, ntg_ok nts rules g = true ->
    verts g = nts /\
    (forall x y, In x nts -> In y (succs g x) -> In y nts) /\
    forall x y, In x nts -> In y nts ->
      (In y (succs g x) <-> exists r, In r rules /\ fst r = x /\ In (y, true) (snd r)).
Proof. exact ntg_ok_sound. Qed.
Print Assumptions C19_ntg_oracle_sound.

(** Tarjan as coded, bounded: all 66 067 labelled digraphs on at most 4 vertices, and all
    insertion orders on 3 vertices (finite-domain proofs; bound in the name). *)
Theorem C19_tarjan_correct_upto4 :
  forall g, In g graphs_upto4 -> exists cs, scc g = Some cs /\ scc_ok g cs = true.
Proof. exact tarjan_correct_upto4. Qed.
Print Assumptions C19_tarjan_correct_upto4.

Theorem C19_tarjan_correct_perm3 :
  forall g, In g graphs_perm3 -> exists cs, scc g = Some cs /\ scc_ok g cs = true.
Proof. exact tarjan_correct_perm3. Qed.
Print Assumptions C19_tarjan_correct_perm3.
