(** C19 — strongly connected components are correct and dependency-ordered.
    Only property theorems live here, each closed by [exact] and followed by Print Assumptions. *)
From Coq Require Import List Arith Bool Permutation.
Import ListNotations.
Require Import Fggs.Model.SCC Fggs.Proofs.SCC_bounded Fggs.Proofs.SCC_ntgraph.
Require Import Fggs.Proofs.SCC_checker Fggs.Proofs.SCC_tarjan Fggs.Proofs.SCC_unique Fggs.Proofs.SCC_count.
Require Import Fggs.Model.SCCOrder Fggs.Proofs.SCC_order.

(** nonterminal_graph has an edge X->Y exactly when some rule for X has a rhs edge labelled by
    the nonterminal Y, and contains every nonterminal, including those without rules. *)
Theorem C19_nonterminal_graph_vertices :
  forall nts rules, verts (ntgraph nts rules) = nts.
Proof. exact ntgraph_verts. Qed.
Print Assumptions C19_nonterminal_graph_vertices.

Theorem C19_nonterminal_graph_edges :
  forall nts rules x y,
    In y (succs (ntgraph nts rules) x) <->
    In x nts /\ exists r, In r rules /\ fst r = x /\ In (y, true) (snd r).
Proof. exact ntgraph_edge. Qed.
Print Assumptions C19_nonterminal_graph_edges.

Theorem C19_ntg_oracle_sound :
  forall nts rules g, ntg_ok nts rules g = true ->
    verts g = nts /\
    (forall x y, In x nts -> In y (succs g x) -> In y nts) /\
    forall x y, In x nts -> In y nts ->
      (In y (succs g x) <-> exists r, In r rules /\ fst r = x /\ In (y, true) (snd r)).
Proof. exact ntg_ok_sound. Qed.
Print Assumptions C19_ntg_oracle_sound.

(** The oracle's reachability test is exact: the bounded iteration [reach_n (length g)]
    reaches its fixed point ([path] = reflexive-transitive closure of the edge relation). *)
Theorem C19_reaches_correct :
  forall g u v, closed g = true -> In u (verts g) -> (reaches g u v = true <-> path g u v).
Proof. exact reaches_iff. Qed.
Print Assumptions C19_reaches_correct.

(** The executable oracle [scc_ok] accepts exactly the dependency-ordered SCC decompositions
    ([spec], spelled out): the components partition the vertices, none is empty, two vertices
    share a component iff they are mutually reachable, and no edge leads from a component to a
    later one in the list. *)
Theorem C19_checker :
  forall g cs, closed g = true ->
    (scc_ok g cs = true <->
     NoDup (concat cs) /\ Permutation (concat cs) (verts g)
     /\ (forall c, In c cs -> c <> [])
     /\ (forall u v, In u (verts g) -> In v (verts g) ->
           ((exists c, In c cs /\ In u c /\ In v c) <-> (path g u v /\ path g v u)))
     /\ (forall l1 c l2 d u v, cs = l1 ++ c :: l2 -> In d l2 -> In u c -> In v d -> ~ In v (succs g u))).
Proof. exact scc_ok_spec. Qed.
Print Assumptions C19_checker.

(** Tarjan as coded, unbounded: on every closed graph (distinct keys, every successor a key --
    otherwise Python raises KeyError) the fuel [S (length g)] never runs out and the output
    lists every vertex exactly once ... *)
Theorem C19_partition :
  forall g, closed g = true ->
    exists cs, scc g = Some cs /\ NoDup (concat cs) /\ Permutation (concat cs) (verts g).
Proof. exact tarjan_partition. Qed.
Print Assumptions C19_partition.

(** ... is accepted by the oracle ... *)
Theorem C19_tarjan_correct :
  forall g, closed g = true -> exists cs, scc g = Some cs /\ scc_ok g cs = true.
Proof. exact tarjan_correct. Qed.
Print Assumptions C19_tarjan_correct.

(** ... i.e. is the dependency-ordered SCC decomposition (same statement, Prop level). *)
Theorem C19_tarjan_correct_spec :
  forall g, closed g = true ->
    exists cs, scc g = Some cs /\
     NoDup (concat cs) /\ Permutation (concat cs) (verts g)
     /\ (forall c, In c cs -> c <> [])
     /\ (forall u v, In u (verts g) -> In v (verts g) ->
           ((exists c, In c cs /\ In u c /\ In v c) <-> (path g u v /\ path g v u)))
     /\ (forall l1 c l2 d u v, cs = l1 ++ c :: l2 -> In d l2 -> In u c -> In v d -> ~ In v (succs g u)).
Proof. exact tarjan_correct_spec. Qed.
Print Assumptions C19_tarjan_correct_spec.

(** The specification determines the components: two lists that both satisfy it for the same graph
    have the same components as vertex sets (only the order of components may differ, within the
    last clause) ... *)
Theorem C19_spec_determines_components :
  forall g cs1 cs2, closed g = true -> scc_ok g cs1 = true -> scc_ok g cs2 = true ->
    forall c1, In c1 cs1 -> exists c2, In c2 cs2 /\ forall v, In v c1 <-> In v c2.
Proof.
  intros g cs1 cs2 Hc H1 H2.
  exact (spec_unique g cs1 cs2 (proj1 (scc_ok_spec g cs1 Hc) H1) (proj1 (scc_ok_spec g cs2 Hc) H2)).
Qed.
Print Assumptions C19_spec_determines_components.

(** ... so whatever the oracle accepts has exactly the components of Tarjan's output as coded. *)
Theorem C19_accepted_components_are_tarjan :
  forall g cs', closed g = true -> scc_ok g cs' = true ->
    exists cs, scc g = Some cs /\
      (forall c, In c cs -> exists c', In c' cs' /\ forall v, In v c <-> In v c') /\
      (forall c', In c' cs' -> exists c, In c cs /\ forall v, In v c' <-> In v c).
Proof. exact scc_ok_components_are_tarjan. Qed.
Print Assumptions C19_accepted_components_are_tarjan.

(** ... and as many of them. *)
Theorem C19_accepted_count_is_tarjan :
  forall g cs', closed g = true -> scc_ok g cs' = true ->
    exists cs, scc g = Some cs /\ length cs' = length cs.
Proof. exact scc_ok_count_is_tarjan. Qed.
Print Assumptions C19_accepted_count_is_tarjan.

(** "Dependency-ordered", transitively: everything reachable from a vertex of a component of the
    coded Tarjan's output lies in that component or in an EARLIER one (the last clause of the
    specification speaks of single edges; this lifts it to paths). *)
Theorem C19_tarjan_dependencies_before :
  forall g, closed g = true ->
    exists cs, scc g = Some cs /\
      forall l1 c l2 u v, cs = l1 ++ c :: l2 -> In u c -> path g u v -> In v c \/ In v (concat l1).
Proof. exact tarjan_deps_before. Qed.
Print Assumptions C19_tarjan_dependencies_before.

(** Tarjan as coded, bounded (kept as an independent in-kernel cross-check of the model and
    the oracle): all 66 067 labelled digraphs on at most 4 vertices, and all
    insertion orders on 3 vertices (finite-domain proofs; bound in the name). *)
Theorem C19_tarjan_correct_upto4 :
  forall g, In g graphs_upto4 -> exists cs, scc g = Some cs /\ scc_ok g cs = true.
Proof. exact tarjan_correct_upto4. Qed.
Print Assumptions C19_tarjan_correct_upto4.

Theorem C19_tarjan_correct_perm3 :
  forall g, In g graphs_perm3 -> exists cs, scc g = Some cs /\ scc_ok g cs = true.
Proof. exact tarjan_correct_perm3. Qed.
Print Assumptions C19_tarjan_correct_perm3.

(** Last clause of the property ("every nonterminal's sum-product is computed after those it depends
    on and every nonterminal receives a value"), as judged on one observed call of sum_products:
    [nts]/[rules] describe the grammar as it is AT THE TIME OF THE CALL (also when the same object
    was queried before and edited in place since), [blocks] are the lists of nonterminals handed one
    after the other to the per-component solver, [keys] the nonterminals with a value in the result.
    Verdict 0 of the check function means: every nonterminal has a value, lies in exactly one block,
    every nonterminal on the right-hand side of one of its rules lies in the same or an EARLIER
    block, and the blocks are the model's decomposition of the current nonterminal graph. *)
Theorem C19_sum_products_order :
  forall nts rules blocks keys,
    sp_order_check (nts, rules, blocks, keys) = 0 ->
    (forall x, In x nts -> In x keys) /\
    NoDup (concat blocks) /\
    (forall x, In x nts ->
      exists l1 c l2, blocks = l1 ++ c :: l2 /\ In x c /\
        forall r y, In r rules -> fst r = x -> In (y, true) (snd r) ->
          In y c \/ exists d, In d l1 /\ In y d) /\
    scc (ntgraph nts rules) = Some blocks.
Proof. exact sp_order_check_sound. Qed.
Print Assumptions C19_sum_products_order.

(** ... and the check is satisfiable on every well-formed grammar: the model's own decomposition,
    with a value for every nonterminal, gets verdict 0. *)
Theorem C19_sum_products_order_model :
  forall nts rules, closed (ntgraph nts rules) = true ->
    exists cs, scc (ntgraph nts rules) = Some cs /\ sp_order_check (nts, rules, cs, nts) = 0.
Proof. exact sp_order_check_model. Qed.
Print Assumptions C19_sum_products_order_model.

(** ... and verdict 0 orders TRANSITIVE dependencies too: whatever a nonterminal reaches in the
    nonterminal graph of the grammar at the time of the call lies in its block or an earlier one. *)
Theorem C19_sum_products_order_transitive :
  forall nts rules blocks keys,
    sp_order_check (nts, rules, blocks, keys) = 0 ->
    forall l1 c l2 x y, blocks = l1 ++ c :: l2 -> In x c -> path (ntgraph nts rules) x y ->
      In y c \/ In y (concat l1).
Proof. exact sp_order_check_transitive. Qed.
Print Assumptions C19_sum_products_order_transitive.
