(** C01 — placeholder until the proofs are in; replaced below. *)
From Coq Require Import List.
Require Import Fggs.Model.Semiring Fggs.Model.SumProduct.
Theorem C01_Zk_unfold : forall R (o : sr_ops R) G w k, Zk o G w (S k) = step o G w (Zk o G w k).
Proof. reflexivity. Qed.
Print Assumptions C01_Zk_unfold.
