(** C01 — the sum-product of a non-recursive FGG equals its definition (and the Kleene part of
    C02: the k-th iterate is the sum over derivations of depth <= k).
    Only property theorems live here, each closed by [exact] and followed by Print Assumptions.
    Everything is generic in the semiring: [forall R (o : sr_ops R), sr_ring o -> ...]
    (sr_ring = commutative semiring laws); instances for [bool_ops] at the end. *)
From Coq Require Import List Arith Bool PeanoNat.
Import ListNotations.
Require Import Fggs.Model.Semiring Fggs.Model.SCC Fggs.Model.SumProduct Fggs.Model.SumProductCheck.
Require Import Fggs.Proofs.BigSum Fggs.Proofs.SP_trees Fggs.Proofs.SP_nonrec Fggs.Proofs.SP_code
               Fggs.Proofs.SP_rename Fggs.Proofs.SP_spe Fggs.Proofs.SP_driver Fggs.Proofs.SP_main
               Fggs.Proofs.SP_corollaries Fggs.Proofs.SP_examples Fggs.Proofs.SP_check_sound
               Fggs.Proofs.SP_scc_glue Fggs.Proofs.SP_empty_dom Fggs.Proofs.SP_shared_operand
               Fggs.Proofs.SP_annihilated.
Require Import Fggs.Model.EReal Fggs.Model.Trop Fggs.Proofs.Instances_scc Fggs.Proofs.Instances.

(** * 0. The oracle of the correspondence check is sound *)
(** verdict 0 of [sp_check] (any carrier, any tolerance predicate [within]): the grammar is
    well-formed and every observed cell of every nonterminal is accepted by [within] against the
    Kleene iterate number #nonterminals (by section 3: the sum over all derivation trees) *)
Theorem C01_check_oracle_sound :
  forall R W B (o : sr_ops R) (of_wire : W -> R) (within : R -> B -> bool) (eqb : R -> R -> bool) gw ws obs,
  sp_check o of_wire within eqb (gw, ws, obs) = 0 ->
  let G := grammar_of_w gw in
  let Wt := env_of o (weights_tmt of_wire G ws) in
  wf_grammar G = true
  /\ forall X, is_term G X = false ->
       exists ob, obs_get obs X = Some ob
                  /\ Forall2 (fun xi b => within (Zk o G Wt (length (nonterminals G)) X xi) b = true)
                             (all_assts (lshape G X)) ob.
Proof. exact (fun R W B => @sp_check_sound R W B). Qed.
Print Assumptions C01_check_oracle_sound.

Theorem C01_bool_check_oracle_sound :
  forall gw ws obs, sp_check_bool (gw, ws, obs) = 0 ->
  let G := grammar_of_w gw in
  forall X, is_term G X = false ->
    exists ob, obs_get obs X = Some ob
               /\ ob = map (Zk bool_ops G (env_of bool_ops (weights_tmt (fun b : bool => b) G ws)) (length (nonterminals G)) X)
                           (all_assts (lshape G X)).
Proof. exact sp_check_bool_sound. Qed.
Print Assumptions C01_bool_check_oracle_sound.

(** * 1. Finite sums and products *)
(** product of sums = sum, over all choice functions, of the products *)
Theorem C01_prod_of_sums :
  forall R (o : sr_ops R), sr_ring o ->
  forall A B (l : list A) (f : A -> list B) (g : A -> B -> R),
    prodS o l (fun i => sumS o (f i) (g i))
    = sumS o (choices (map f l)) (fun c => prodS o (combine l c) (fun p => g (fst p) (snd p))).
Proof. exact (fun R o H A B => @prod_of_sums R o H A B). Qed.
Print Assumptions C01_prod_of_sums.

Theorem C01_sum_permutation_invariant :
  forall R (o : sr_ops R), sr_ring o ->
  forall A (l l' : list A) (f : A -> R), Permutation.Permutation l l' -> sumS o l f = sumS o l' f.
Proof. exact (fun R o H A => @sumS_perm R o H A). Qed.
Print Assumptions C01_sum_permutation_invariant.

Theorem C01_sum_exchange :
  forall R (o : sr_ops R), sr_ring o ->
  forall A B (l : list A) (l' : list B) (f : A -> B -> R),
    sumS o l (fun x => sumS o l' (fun y => f x y)) = sumS o l' (fun y => sumS o l (fun x => f x y)).
Proof. exact (fun R o H A B => @sumS_exchange R o H A B). Qed.
Print Assumptions C01_sum_exchange.

(** * 2. Kleene iterate = sum over derivation trees of bounded depth (C01 and C02) *)
Theorem C01_Zk_is_tree_sum :
  forall R (o : sr_ops R), sr_ring o ->
  forall G w k X xi, is_term G X = false -> Zk o G w k X xi = tree_sum o G w k X xi.
Proof. exact (fun R o H => @Zk_is_tree_sum R o H). Qed.
Print Assumptions C01_Zk_is_tree_sum.

(** [enum_trees G k X xi] lists exactly the well-formed derivation trees (with their assignments)
    of X with external assignment xi and depth <= k, each once; so [tree_sum] literally is the sum
    over all derivations of depth <= k and all assignments of the product of the factor weights *)
Theorem C01_enum_trees_spec :
  forall G k X xi t, In t (enum_trees G k X xi) <-> wf_dtree G X xi t /\ depth t <= k.
Proof. exact enum_trees_spec. Qed.
Print Assumptions C01_enum_trees_spec.

Theorem C01_enum_trees_NoDup : forall G k X xi, NoDup (enum_trees G k X xi).
Proof. exact enum_trees_NoDup. Qed.
Print Assumptions C01_enum_trees_NoDup.

(** C02, Kleene part: the k-th iterate of the grammar's equations from zero is the sum of the
    weights of the derivations of depth <= k (any grammar, recursive or not) *)
Theorem C02_kleene_is_bounded_depth :
  forall R (o : sr_ops R), sr_ring o ->
  forall G w k X xi, is_term G X = false ->
    Zk o G w k X xi = sumS o (enum_trees G k X xi) (weight o G w)
    /\ NoDup (enum_trees G k X xi)
    /\ forall t, In t (enum_trees G k X xi) <-> wf_dtree G X xi t /\ depth t <= k.
Proof.
  exact (fun R o H G w k X xi HX =>
           conj (@Zk_is_tree_sum R o H G w k X xi HX)
                (conj (enum_trees_NoDup G k X xi) (enum_trees_spec G k X xi))).
Qed.
Print Assumptions C02_kleene_is_bounded_depth.

(** * 3. Non-recursive grammars *)
Theorem C01_Zk_stable :
  forall R (o : sr_ops R), sr_ring o ->
  forall G w rank, ranked G rank ->
  forall k X xi, is_term G X = false -> rank X < k -> Zk o G w (S k) X xi = Zk o G w k X xi.
Proof. exact (fun R o _ => @Zk_stable R o). Qed.
Print Assumptions C01_Zk_stable.

Theorem C01_tree_depth_le_rank :
  forall G rank, ranked G rank ->
  forall X xi t, is_term G X = false -> wf_dtree G X xi t -> depth t <= S (rank X).
Proof. exact wf_dtree_depth. Qed.
Print Assumptions C01_tree_depth_le_rank.

Theorem C01_rank_normalise :
  forall G rank, ranked G rank ->
  exists rank', ranked G rank' /\ forall X, is_term G X = false -> rank' X < length (nonterminals G).
Proof. exact ranked_normalise. Qed.
Print Assumptions C01_rank_normalise.

(** for k >= the number of nonterminals the iterate is the sum over ALL derivation trees *)
Theorem C01_nonrec_all_trees :
  forall R (o : sr_ops R), sr_ring o ->
  forall G w rank, ranked G rank ->
  forall k X xi, is_term G X = false -> length (nonterminals G) <= k ->
    Zk o G w k X xi = sumS o (enum_trees G k X xi) (weight o G w)
    /\ NoDup (enum_trees G k X xi)
    /\ (forall t, In t (enum_trees G k X xi) <-> wf_dtree G X xi t)
    /\ Zk o G w k X xi = Zk o G w (length (nonterminals G)) X xi.
Proof. exact (fun R o H => @Zk_nonrec_all_trees R o H). Qed.
Print Assumptions C01_nonrec_all_trees.

(** * 4(a). sum_product_edges computes the value of a rule *)
(** [oapp]: a [None] result counts as the zero tensor; [oenv]: a label without value counts as zero *)
Theorem C01_spe_eq_rule_val :
  forall R (o : sr_ops R), sr_ring o ->
  forall G e r xi, wf_rule G r = true -> In xi (all_assts (lshape G (r_lhs r))) ->
    oapp o (spe o (node_sizes G r) e (r_edges r) (r_ext r)) xi = rule_val o G (oenv o e) r xi.
Proof. exact (fun R o H => @spe_spec R o H). Qed.
Print Assumptions C01_spe_eq_rule_val.

Theorem C01_spe_total_env :
  forall R (o : sr_ops R), sr_ring o ->
  forall G (e : env (R:=R)) r, wf_rule G r = true ->
  exists f, spe o (node_sizes G r) (fun l => Some (e l)) (r_edges r) (r_ext r) = Some f
            /\ forall xi, In xi (all_assts (lshape G (r_lhs r))) -> f xi = rule_val o G e r xi.
Proof. exact (fun R o H => @spe_eq_rule_val R o H). Qed.
Print Assumptions C01_spe_total_env.

Theorem C01_spe_none_is_zero :
  forall R (o : sr_ops R), sr_ring o ->
  forall G e r ed, In ed (r_edges r) -> e (fst ed) = None ->
    spe o (node_sizes G r) e (r_edges r) (r_ext r) = None
    /\ forall xi, rule_val o G (oenv o e) r xi = zero o.
Proof. exact (fun R o H => @spe_none R o H). Qed.
Print Assumptions C01_spe_none_is_zero.

(** the dense core, for arbitrary (also duplicated) external nodes, independent of grammars *)
Theorem C01_spe_body_eq :
  forall R (o : sr_ops R), sr_ring o ->
  forall sizes0 e edges ext xi,
    (forall u, In u ext -> u < length sizes0) ->
    (forall ed u, In ed edges -> In u (snd ed) -> u < length sizes0) ->
    In xi (all_assts (map (fun i => nth i sizes0 0) ext)) ->
    spe_body o sizes0 e edges (fst (rename_dups ext [] (length sizes0))) (snd (rename_dups ext [] (length sizes0))) xi
    = sumS o (filter (fun a => nat_list_eqb (sel a ext) xi) (all_assts sizes0)) (edge_prod o e edges).
Proof. exact (fun R o H => @spe_body_eq R o H). Qed.
Print Assumptions C01_spe_body_eq.

(** * 4(b). F / one-step components / driver *)
Theorem C01_sum_products_nonrec_Zk :
  forall R (o : sr_ops R), sr_ring o ->
  forall G, wf_grammar G = true ->
  forall w ord, (forall l, tget w l <> None -> is_term G l = true) -> dep_ordered G [] ord ->
  forall X k xi, In X ord -> length ord <= k -> In xi (all_assts (lshape G X)) ->
    env_of o (sum_products_nonrec o G w (map (fun x => [x]) ord)) X xi = Zk o G (env_of o w) k X xi.
Proof. exact (fun R o H => @sum_products_nonrec_Zk R o H). Qed.
Print Assumptions C01_sum_products_nonrec_Zk.

Theorem C01_Ztab_is_Zk :
  forall R (o : sr_ops R), sr_ring o ->
  forall G, wf_grammar G = true ->
  forall W k X xi, is_term G X = false -> In xi (all_assts (lshape G X)) ->
    env_of o (Ztab o G W k) X xi = Zk o G W k X xi.
Proof. exact (fun R o _ => @Ztab_is_Zk R o). Qed.
Print Assumptions C01_Ztab_is_Zk.

(** C01 for the model, end to end: every entry (every nonterminal: rule-less and unreachable ones
    included; every external assignment: any arity) of the code-shaped driver equals the tabulated
    specification, the Kleene iterate, and the sum over all derivation trees *)
Theorem C01_sum_products_eq_spec :
  forall R (o : sr_ops R), sr_ring o ->
  forall G, wf_grammar G = true ->
  forall w ord, (forall l, tget w l <> None -> is_term G l = true) ->
    dep_ordered G [] ord -> NoDup ord -> (forall X, is_term G X = false -> In X ord) ->
  forall X xi, is_term G X = false -> In xi (all_assts (lshape G X)) ->
    let N := length (nonterminals G) in
    let v := env_of o (sum_products_nonrec o G w (map (fun x => [x]) ord)) X xi in
    v = env_of o (Ztab o G (env_of o w) N) X xi
    /\ v = Zk o G (env_of o w) N X xi
    /\ v = sumS o (enum_trees G N X xi) (weight o G (env_of o w))
    /\ NoDup (enum_trees G N X xi)
    /\ (forall t, In t (enum_trees G N X xi) <-> wf_dtree G X xi t).
Proof. exact (fun R o H => @sum_products_nonrec_correct R o H). Qed.
Print Assumptions C01_sum_products_eq_spec.

Theorem C01_order_gives_rank :
  forall G ord, dep_ordered G [] ord -> (forall X, is_term G X = false -> In X ord) ->
    ranked G (fun X => index_of X ord).
Proof. exact dep_ordered_ranked. Qed.
Print Assumptions C01_order_gives_rank.

Theorem C01_nonrecursive_order_singletons :
  forall G order, nonrecursive_order G order = true -> order = map (fun x => [x]) (concat order).
Proof. exact nonrecursive_order_singletons. Qed.
Print Assumptions C01_nonrecursive_order_singletons.

(** composition with C19: an order accepted by the verified oracle [scc_ok] on the nonterminal graph
    whose components are single non-looping nonterminals is dependency-respecting and complete;
    so the end-to-end theorem needs no premise on the order beyond the two boolean checks
    (and none at all once [scc g = Some cs -> scc_ok g cs = true] is proved in C19) *)
Theorem C01_scc_order_ok :
  forall G order, scc_ok (nt_graph G) order = true -> nonrecursive_order G order = true ->
    dep_ordered G [] (concat order) /\ NoDup (concat order)
    /\ (forall X, is_term G X = false -> In X (concat order)).
Proof. exact scc_order_dep_ordered. Qed.
Print Assumptions C01_scc_order_ok.

Theorem C01_sum_products_eq_spec_scc :
  forall R (o : sr_ops R), sr_ring o ->
  forall G w order,
    wf_grammar G = true -> (forall l, tget w l <> None -> is_term G l = true) ->
    scc_ok (nt_graph G) order = true -> nonrecursive_order G order = true ->
  forall X xi, is_term G X = false -> In xi (all_assts (lshape G X)) ->
    let N := length (nonterminals G) in
    let v := env_of o (sum_products_nonrec o G w order) X xi in
    v = env_of o (Ztab o G (env_of o w) N) X xi
    /\ v = Zk o G (env_of o w) N X xi
    /\ v = sumS o (enum_trees G N X xi) (weight o G (env_of o w))
    /\ NoDup (enum_trees G N X xi)
    /\ (forall t, In t (enum_trees G N X xi) <-> wf_dtree G X xi t).
Proof. exact (fun R o H => @sum_products_scc_correct R o H). Qed.
Print Assumptions C01_sum_products_eq_spec_scc.

(** * 4(c). The shapes the property lists *)
Theorem C01_isolated_internal_node :
  forall R (o : sr_ops R), sr_ring o ->
  forall G e r nl xi, wf_rule G r = true -> nl < length (g_doms G) -> In xi (all_assts (lshape G (r_lhs r))) ->
    oapp o (spe o (node_sizes G (add_node r nl)) e (r_edges r) (r_ext r)) xi
    = mul o (from_nat o (dom G nl)) (rule_val o G (oenv o e) r xi).
Proof. exact (fun R o H => @spe_isolated_internal R o H). Qed.
Print Assumptions C01_isolated_internal_node.

Theorem C01_isolated_external_node :
  forall R (o : sr_ops R), sr_ring o ->
  forall G (e : env (R:=R)) r pre v post xp x x' xq,
    wf_rule G r = true -> r_ext r = pre ++ v :: post -> ~ In v pre -> ~ In v post ->
    (forall ed, In ed (r_edges r) -> ~ In v (snd ed)) ->
    length xp = length pre -> x < nth v (node_sizes G r) 0 -> x' < nth v (node_sizes G r) 0 ->
    rule_val o G e r (xp ++ x' :: xq) = rule_val o G e r (xp ++ x :: xq).
Proof. exact (fun R o H => @rule_val_isolated_external R o H). Qed.
Print Assumptions C01_isolated_external_node.

Theorem C01_nullary_factor :
  forall R (o : sr_ops R), sr_ring o ->
  forall G (e : env (R:=R)) r l xi,
    rule_val o G e (add_edge r (l, [])) xi = mul o (e l []) (rule_val o G e r xi).
Proof. exact (fun R o H => @rule_val_nullary_factor R o H). Qed.
Print Assumptions C01_nullary_factor.

Theorem C01_ruleless_nonterminal_is_zero :
  forall R (o : sr_ops R) G w k X xi, is_term G X = false -> rules_of G X = [] -> Zk o G w k X xi = zero o.
Proof. exact (fun R o => @Zk_ruleless R o). Qed.
Print Assumptions C01_ruleless_nonterminal_is_zero.

Theorem C01_start_symbol_any_arity :
  forall R (o : sr_ops R), sr_ring o ->
  forall G w ord,
    wf_grammar G = true -> (forall l, tget w l <> None -> is_term G l = true) ->
    dep_ordered G [] ord -> NoDup ord -> (forall X, is_term G X = false -> In X ord) ->
  forall xi, In xi (all_assts (lshape G (g_start G))) ->
    env_of o (sum_products_nonrec o G w (map (fun x => [x]) ord)) (g_start G) xi
    = sumS o (enum_trees G (length (nonterminals G)) (g_start G) xi) (weight o G (env_of o w))
    /\ (forall t, In t (enum_trees G (length (nonterminals G)) (g_start G) xi) <-> wf_dtree G (g_start G) xi t).
Proof. exact (fun R o H => @sum_product_start R o H). Qed.
Print Assumptions C01_start_symbol_any_arity.

(** * Instances: the Boolean semiring (ereal / trop: compose with the law proofs of C08) *)
Theorem C01_bool_is_semiring : sr_ring bool_ops.
Proof. exact bool_ring. Qed.
Print Assumptions C01_bool_is_semiring.

Theorem C01_bool_sum_products_eq_spec :
  forall G, wf_grammar G = true ->
  forall w ord, (forall l, tget w l <> None -> is_term G l = true) ->
    dep_ordered G [] ord -> NoDup ord -> (forall X, is_term G X = false -> In X ord) ->
  forall X xi, is_term G X = false -> In xi (all_assts (lshape G X)) ->
    let N := length (nonterminals G) in
    let v := env_of bool_ops (sum_products_nonrec bool_ops G w (map (fun x => [x]) ord)) X xi in
    v = env_of bool_ops (Ztab bool_ops G (env_of bool_ops w) N) X xi
    /\ v = Zk bool_ops G (env_of bool_ops w) N X xi
    /\ v = sumS bool_ops (enum_trees G N X xi) (weight bool_ops G (env_of bool_ops w))
    /\ NoDup (enum_trees G N X xi)
    /\ (forall t, In t (enum_trees G N X xi) <-> wf_dtree G X xi t).
Proof. exact (@sum_products_nonrec_correct bool bool_ops bool_ring). Qed.
Print Assumptions C01_bool_sum_products_eq_spec.

Theorem C01_bool_Zk_is_tree_sum :
  forall G w k X xi, is_term G X = false -> Zk bool_ops G w k X xi = tree_sum bool_ops G w k X xi.
Proof. exact (@Zk_is_tree_sum bool bool_ops bool_ring). Qed.
Print Assumptions C01_bool_Zk_is_tree_sum.

(** the hypotheses are satisfiable: a concrete grammar with an isolated internal node, a rule-less
    unreachable nonterminal and a dependency order (Proofs/SP_examples.v) *)
Theorem C01_example_hypotheses :
  wf_grammar G_ex = true /\ ranked G_ex rank_ex /\ dep_ordered G_ex [] ord_ex /\ NoDup ord_ex
  /\ (forall X, is_term G_ex X = false -> In X ord_ex)
  /\ nonrecursive_order G_ex (map (fun x => [x]) ord_ex) = true
  /\ wf_dtree G_ex 2 [] t_ex.
Proof.
  exact (conj G_ex_wf (conj G_ex_ranked (conj G_ex_dep_ordered (conj ord_ex_NoDup
        (conj ord_ex_all (conj order_ex_nonrecursive t_ex_wf)))))).
Qed.
Print Assumptions C01_example_hypotheses.

(** * 5. Composition with C08 (law records of the carriers) and C19 (Tarjan): no premise left *)
(** the nonterminal graph of EVERY grammar is closed (distinct keys, duplicate-free successor
    lists, every successor a key; a label outside the table counts as a terminal), so the full
    Tarjan theorem of C19 applies without a guard: [scc] succeeds and passes the oracle *)
Theorem C01_nt_graph_closed : forall G, closed (nt_graph G) = true.
Proof. exact nt_graph_closed. Qed.
Print Assumptions C01_nt_graph_closed.

Theorem C01_scc_order_accepted :
  forall G, exists order, scc (nt_graph G) = Some order /\ scc_ok (nt_graph G) order = true.
Proof. exact scc_nt_graph_ok. Qed.
Print Assumptions C01_scc_order_accepted.

(** guard 3 of [sp_check] (nonrecursive_order of the computed order) fires exactly on the
    grammars that are recursive in the Prop sense (no rank function) *)
Theorem C01_nonrecursive_iff_ranked :
  forall G, (exists rank, ranked G rank)
            <-> exists order, scc (nt_graph G) = Some order /\ nonrecursive_order G order = true.
Proof. exact nonrecursive_iff_ranked. Qed.
Print Assumptions C01_nonrecursive_iff_ranked.

Theorem C01_ranked_scc_nonrecursive :
  forall G rank order, ranked G rank -> scc_ok (nt_graph G) order = true -> nonrecursive_order G order = true.
Proof. exact ranked_scc_nonrecursive. Qed.
Print Assumptions C01_ranked_scc_nonrecursive.

(** C01 END TO END (this is what [sp_check] evaluates): for every well-formed grammar and every
    weight table whose keys are terminals, the Tarjan model returns an order, the oracle accepts
    it, it passes [nonrecursive_order] iff the grammar is non-recursive, and then every entry of
    the code-shaped driver run with that order (every nonterminal, every external assignment)
    equals the tabulated specification, the Kleene iterate number #nonterminals, and the sum over
    ALL derivation trees, each listed exactly once.  Generic, then per carrier without premise *)
Theorem C01_end_to_end :
  forall R (o : sr_ops R), sr_ring o ->
  forall G (w : tmt (R:=R)),
    wf_grammar G = true -> (forall l, tget w l <> None -> is_term G l = true) ->
  exists order,
    scc (nt_graph G) = Some order /\ scc_ok (nt_graph G) order = true
    /\ ((exists rank, ranked G rank) <-> nonrecursive_order G order = true)
    /\ (nonrecursive_order G order = true ->
        forall X xi, is_term G X = false -> In xi (all_assts (lshape G X)) ->
          let N := length (nonterminals G) in
          let v := env_of o (sum_products_nonrec o G w order) X xi in
          v = env_of o (Ztab o G (env_of o w) N) X xi
          /\ v = Zk o G (env_of o w) N X xi
          /\ v = sumS o (enum_trees G N X xi) (weight o G (env_of o w))
          /\ NoDup (enum_trees G N X xi)
          /\ (forall t, In t (enum_trees G N X xi) <-> wf_dtree G X xi t)).
Proof. exact (fun R o H => @sum_products_end_to_end R o H). Qed.
Print Assumptions C01_end_to_end.

Theorem C01_end_to_end_ranked :
  forall R (o : sr_ops R), sr_ring o ->
  forall G (w : tmt (R:=R)) rank,
    wf_grammar G = true -> (forall l, tget w l <> None -> is_term G l = true) -> ranked G rank ->
  exists order,
    scc (nt_graph G) = Some order /\ nonrecursive_order G order = true
    /\ forall X xi, is_term G X = false -> In xi (all_assts (lshape G X)) ->
         let N := length (nonterminals G) in
         let v := env_of o (sum_products_nonrec o G w order) X xi in
         v = env_of o (Ztab o G (env_of o w) N) X xi
         /\ v = Zk o G (env_of o w) N X xi
         /\ v = sumS o (enum_trees G N X xi) (weight o G (env_of o w))
         /\ NoDup (enum_trees G N X xi)
         /\ (forall t, In t (enum_trees G N X xi) <-> wf_dtree G X xi t).
Proof. exact (fun R o H => @sum_products_end_to_end_ranked R o H). Qed.
Print Assumptions C01_end_to_end_ranked.

(** Real (and Log, read through exp: the Log semiring is modelled by [ereal_ops] on the exponentials) *)
Theorem C01_end_to_end_real :
  forall G (w : tmt (R:=ereal)),
    wf_grammar G = true -> (forall l, tget w l <> None -> is_term G l = true) ->
  exists order,
    scc (nt_graph G) = Some order /\ scc_ok (nt_graph G) order = true
    /\ ((exists rank, ranked G rank) <-> nonrecursive_order G order = true)
    /\ (nonrecursive_order G order = true ->
        forall X xi, is_term G X = false -> In xi (all_assts (lshape G X)) ->
          let N := length (nonterminals G) in
          let v := env_of ereal_ops (sum_products_nonrec ereal_ops G w order) X xi in
          v = env_of ereal_ops (Ztab ereal_ops G (env_of ereal_ops w) N) X xi
          /\ v = Zk ereal_ops G (env_of ereal_ops w) N X xi
          /\ v = sumS ereal_ops (enum_trees G N X xi) (weight ereal_ops G (env_of ereal_ops w))
          /\ NoDup (enum_trees G N X xi)
          /\ (forall t, In t (enum_trees G N X xi) <-> wf_dtree G X xi t)).
Proof. exact ereal_end_to_end. Qed.
Print Assumptions C01_end_to_end_real.

Theorem C01_end_to_end_ranked_real :
  forall G (w : tmt (R:=ereal)) rank,
    wf_grammar G = true -> (forall l, tget w l <> None -> is_term G l = true) -> ranked G rank ->
  exists order,
    scc (nt_graph G) = Some order /\ nonrecursive_order G order = true
    /\ forall X xi, is_term G X = false -> In xi (all_assts (lshape G X)) ->
         let N := length (nonterminals G) in
         let v := env_of ereal_ops (sum_products_nonrec ereal_ops G w order) X xi in
         v = env_of ereal_ops (Ztab ereal_ops G (env_of ereal_ops w) N) X xi
         /\ v = Zk ereal_ops G (env_of ereal_ops w) N X xi
         /\ v = sumS ereal_ops (enum_trees G N X xi) (weight ereal_ops G (env_of ereal_ops w))
         /\ NoDup (enum_trees G N X xi)
         /\ (forall t, In t (enum_trees G N X xi) <-> wf_dtree G X xi t).
Proof. exact ereal_end_to_end_ranked. Qed.
Print Assumptions C01_end_to_end_ranked_real.

(** Viterbi (max-plus on [-inf,+inf]) *)
Theorem C01_end_to_end_viterbi :
  forall G (w : tmt (R:=trop)),
    wf_grammar G = true -> (forall l, tget w l <> None -> is_term G l = true) ->
  exists order,
    scc (nt_graph G) = Some order /\ scc_ok (nt_graph G) order = true
    /\ ((exists rank, ranked G rank) <-> nonrecursive_order G order = true)
    /\ (nonrecursive_order G order = true ->
        forall X xi, is_term G X = false -> In xi (all_assts (lshape G X)) ->
          let N := length (nonterminals G) in
          let v := env_of trop_ops (sum_products_nonrec trop_ops G w order) X xi in
          v = env_of trop_ops (Ztab trop_ops G (env_of trop_ops w) N) X xi
          /\ v = Zk trop_ops G (env_of trop_ops w) N X xi
          /\ v = sumS trop_ops (enum_trees G N X xi) (weight trop_ops G (env_of trop_ops w))
          /\ NoDup (enum_trees G N X xi)
          /\ (forall t, In t (enum_trees G N X xi) <-> wf_dtree G X xi t)).
Proof. exact trop_end_to_end. Qed.
Print Assumptions C01_end_to_end_viterbi.

Theorem C01_end_to_end_ranked_viterbi :
  forall G (w : tmt (R:=trop)) rank,
    wf_grammar G = true -> (forall l, tget w l <> None -> is_term G l = true) -> ranked G rank ->
  exists order,
    scc (nt_graph G) = Some order /\ nonrecursive_order G order = true
    /\ forall X xi, is_term G X = false -> In xi (all_assts (lshape G X)) ->
         let N := length (nonterminals G) in
         let v := env_of trop_ops (sum_products_nonrec trop_ops G w order) X xi in
         v = env_of trop_ops (Ztab trop_ops G (env_of trop_ops w) N) X xi
         /\ v = Zk trop_ops G (env_of trop_ops w) N X xi
         /\ v = sumS trop_ops (enum_trees G N X xi) (weight trop_ops G (env_of trop_ops w))
         /\ NoDup (enum_trees G N X xi)
         /\ (forall t, In t (enum_trees G N X xi) <-> wf_dtree G X xi t).
Proof. exact trop_end_to_end_ranked. Qed.
Print Assumptions C01_end_to_end_ranked_viterbi.

(** Bool *)
Theorem C01_end_to_end_bool :
  forall G (w : tmt (R:=bool)),
    wf_grammar G = true -> (forall l, tget w l <> None -> is_term G l = true) ->
  exists order,
    scc (nt_graph G) = Some order /\ scc_ok (nt_graph G) order = true
    /\ ((exists rank, ranked G rank) <-> nonrecursive_order G order = true)
    /\ (nonrecursive_order G order = true ->
        forall X xi, is_term G X = false -> In xi (all_assts (lshape G X)) ->
          let N := length (nonterminals G) in
          let v := env_of bool_ops (sum_products_nonrec bool_ops G w order) X xi in
          v = env_of bool_ops (Ztab bool_ops G (env_of bool_ops w) N) X xi
          /\ v = Zk bool_ops G (env_of bool_ops w) N X xi
          /\ v = sumS bool_ops (enum_trees G N X xi) (weight bool_ops G (env_of bool_ops w))
          /\ NoDup (enum_trees G N X xi)
          /\ (forall t, In t (enum_trees G N X xi) <-> wf_dtree G X xi t)).
Proof. exact bool_end_to_end. Qed.
Print Assumptions C01_end_to_end_bool.

Theorem C01_end_to_end_ranked_bool :
  forall G (w : tmt (R:=bool)) rank,
    wf_grammar G = true -> (forall l, tget w l <> None -> is_term G l = true) -> ranked G rank ->
  exists order,
    scc (nt_graph G) = Some order /\ nonrecursive_order G order = true
    /\ forall X xi, is_term G X = false -> In xi (all_assts (lshape G X)) ->
         let N := length (nonterminals G) in
         let v := env_of bool_ops (sum_products_nonrec bool_ops G w order) X xi in
         v = env_of bool_ops (Ztab bool_ops G (env_of bool_ops w) N) X xi
         /\ v = Zk bool_ops G (env_of bool_ops w) N X xi
         /\ v = sumS bool_ops (enum_trees G N X xi) (weight bool_ops G (env_of bool_ops w))
         /\ NoDup (enum_trees G N X xi)
         /\ (forall t, In t (enum_trees G N X xi) <-> wf_dtree G X xi t).
Proof. exact bool_end_to_end_ranked. Qed.
Print Assumptions C01_end_to_end_ranked_bool.

(** instances of the generic theorems for an arbitrary dependency order (the Bool ones are above) *)
Theorem C01_real_sum_products_eq_spec :
  forall G, wf_grammar G = true ->
  forall (w : tmt (R:=ereal)) ord, (forall l, tget w l <> None -> is_term G l = true) ->
    dep_ordered G [] ord -> NoDup ord -> (forall X, is_term G X = false -> In X ord) ->
  forall X xi, is_term G X = false -> In xi (all_assts (lshape G X)) ->
    let N := length (nonterminals G) in
    let v := env_of ereal_ops (sum_products_nonrec ereal_ops G w (map (fun x => [x]) ord)) X xi in
    v = env_of ereal_ops (Ztab ereal_ops G (env_of ereal_ops w) N) X xi
    /\ v = Zk ereal_ops G (env_of ereal_ops w) N X xi
    /\ v = sumS ereal_ops (enum_trees G N X xi) (weight ereal_ops G (env_of ereal_ops w))
    /\ NoDup (enum_trees G N X xi)
    /\ (forall t, In t (enum_trees G N X xi) <-> wf_dtree G X xi t).
Proof. exact ereal_sum_products_eq_spec. Qed.
Print Assumptions C01_real_sum_products_eq_spec.

Theorem C01_real_Zk_is_tree_sum :
  forall G w k X xi, is_term G X = false -> Zk ereal_ops G w k X xi = tree_sum ereal_ops G w k X xi.
Proof. exact ereal_Zk_is_tree_sum. Qed.
Print Assumptions C01_real_Zk_is_tree_sum.

Theorem C01_viterbi_sum_products_eq_spec :
  forall G, wf_grammar G = true ->
  forall (w : tmt (R:=trop)) ord, (forall l, tget w l <> None -> is_term G l = true) ->
    dep_ordered G [] ord -> NoDup ord -> (forall X, is_term G X = false -> In X ord) ->
  forall X xi, is_term G X = false -> In xi (all_assts (lshape G X)) ->
    let N := length (nonterminals G) in
    let v := env_of trop_ops (sum_products_nonrec trop_ops G w (map (fun x => [x]) ord)) X xi in
    v = env_of trop_ops (Ztab trop_ops G (env_of trop_ops w) N) X xi
    /\ v = Zk trop_ops G (env_of trop_ops w) N X xi
    /\ v = sumS trop_ops (enum_trees G N X xi) (weight trop_ops G (env_of trop_ops w))
    /\ NoDup (enum_trees G N X xi)
    /\ (forall t, In t (enum_trees G N X xi) <-> wf_dtree G X xi t).
Proof. exact trop_sum_products_eq_spec. Qed.
Print Assumptions C01_viterbi_sum_products_eq_spec.

Theorem C01_viterbi_Zk_is_tree_sum :
  forall G w k X xi, is_term G X = false -> Zk trop_ops G w k X xi = tree_sum trop_ops G w k X xi.
Proof. exact trop_Zk_is_tree_sum. Qed.
Print Assumptions C01_viterbi_Zk_is_tree_sum.

(** soundness of the oracle of the correspondence check at full strength: verdict 0 of [sp_check]
    means the grammar is well-formed and non-recursive and every observed cell of every
    nonterminal is accepted by [within] against the sum over ALL derivation trees *)
Theorem C01_check_oracle_sound_trees :
  forall R (o : sr_ops R), sr_ring o ->
  forall W B (of_wire : W -> R) (within : R -> B -> bool) (eqb : R -> R -> bool) gw ws obs,
    sp_check o of_wire within eqb (gw, ws, obs) = 0 ->
  let G := grammar_of_w gw in
  let Wt := env_of o (weights_tmt of_wire G ws) in
  let N := length (nonterminals G) in
  wf_grammar G = true
  /\ (exists rank, ranked G rank)
  /\ forall X, is_term G X = false ->
       (exists ob, obs_get obs X = Some ob
                   /\ Forall2 (fun xi b => within (sumS o (enum_trees G N X xi) (weight o G Wt)) b = true)
                              (all_assts (lshape G X)) ob)
       /\ forall xi, NoDup (enum_trees G N X xi)
                     /\ forall t, In t (enum_trees G N X xi) <-> wf_dtree G X xi t.
Proof. exact (fun R o H W B => @sp_check_sound_trees R o H W B). Qed.
Print Assumptions C01_check_oracle_sound_trees.

Theorem C01_real_check_oracle_sound :
  forall gw ws obs,
    sp_check_real (gw, ws, obs) = 0 ->
  let G := grammar_of_w gw in
  let Wt := env_of ereal_ops (weights_tmt ereal_of G ws) in
  let N := length (nonterminals G) in
  wf_grammar G = true
  /\ (exists rank, ranked G rank)
  /\ forall X, is_term G X = false ->
       (exists ob, obs_get obs X = Some ob
                   /\ Forall2 (fun xi b => real_within (sumS ereal_ops (enum_trees G N X xi) (weight ereal_ops G Wt)) b = true)
                              (all_assts (lshape G X)) ob)
       /\ forall xi, NoDup (enum_trees G N X xi)
                     /\ forall t, In t (enum_trees G N X xi) <-> wf_dtree G X xi t.
Proof. exact sp_check_real_sound_trees. Qed.
Print Assumptions C01_real_check_oracle_sound.

Theorem C01_viterbi_check_oracle_sound :
  forall gw ws obs,
    sp_check_trop (gw, ws, obs) = 0 ->
  let G := grammar_of_w gw in
  let Wt := env_of trop_ops (weights_tmt trop_of G ws) in
  let N := length (nonterminals G) in
  wf_grammar G = true
  /\ (exists rank, ranked G rank)
  /\ forall X, is_term G X = false ->
       (exists ob, obs_get obs X = Some ob
                   /\ Forall2 (fun xi (b : (nat * QArith_base.Q) * (nat * QArith_base.Q)) =>
                                 trop_within (sumS trop_ops (enum_trees G N X xi) (weight trop_ops G Wt)) (fst b) (snd b) = true)
                              (all_assts (lshape G X)) ob)
       /\ forall xi, NoDup (enum_trees G N X xi)
                     /\ forall t, In t (enum_trees G N X xi) <-> wf_dtree G X xi t.
Proof. exact sp_check_trop_sound_trees. Qed.
Print Assumptions C01_viterbi_check_oracle_sound.

Theorem C01_bool_check_oracle_sound_trees :
  forall gw ws obs,
    sp_check_bool (gw, ws, obs) = 0 ->
  let G := grammar_of_w gw in
  let Wt := env_of bool_ops (weights_tmt (fun b : bool => b) G ws) in
  let N := length (nonterminals G) in
  wf_grammar G = true
  /\ (exists rank, ranked G rank)
  /\ forall X, is_term G X = false ->
       (exists ob, obs_get obs X = Some ob
                   /\ ob = map (fun xi => sumS bool_ops (enum_trees G N X xi) (weight bool_ops G Wt)) (all_assts (lshape G X)))
       /\ forall xi, NoDup (enum_trees G N X xi)
                     /\ forall t, In t (enum_trees G N X xi) <-> wf_dtree G X xi t.
Proof. exact sp_check_bool_sound_trees. Qed.
Print Assumptions C01_bool_check_oracle_sound_trees.

(** the side condition "the keys of the weight table are terminals" for the wire format of the
    checks: it is the boolean test below (true by construction in the harness, which lists the
    weighted terminals; see notes/GLUE.md) *)
Theorem C01_weights_keys_terminal :
  forall R W (of_wire : W -> R) G (ws : list (nat * list W)),
    forallb (fun p => is_term G (fst p)) ws = true ->
    forall l, tget (weights_tmt of_wire G ws) l <> None -> is_term G l = true.
Proof. exact (fun R W => @weights_tmt_keys R W). Qed.
Print Assumptions C01_weights_keys_terminal.

(** the premises of the end-to-end theorems are satisfiable *)
Theorem C01_end_to_end_hypotheses :
  wf_grammar G_ex = true /\ ranked G_ex rank_ex
  /\ scc (nt_graph G_ex) = Some [[1]; [2]; [3]]
  /\ nonrecursive_order G_ex [[1]; [2]; [3]] = true
  /\ (forall l, tget (@nil (nat * table (R:=bool))) l <> None -> is_term G_ex l = true).
Proof. exact end_to_end_hypotheses. Qed.
Print Assumptions C01_end_to_end_hypotheses.

(** * Size-0 domains and operands shared between levels (classes of the seeded regressions C01-f, C01-e) *)
(** a rule with ANY node over an empty domain has no assignment: its value is zero *)
Theorem C01_empty_domain_node_is_zero :
  forall R (o : sr_ops R), sr_ring o ->
  forall G (e : env (R:=R)) r xi, In 0 (node_sizes G r) -> rule_val o G e r xi = zero o.
Proof. exact (fun R o H => @rule_val_empty_domain_node R o). Qed.
Print Assumptions C01_empty_domain_node_is_zero.

Theorem C01_empty_domain_rules_Zk_zero :
  forall R (o : sr_ops R), sr_ring o ->
  forall G (w : env (R:=R)) k X xi, is_term G X = false ->
    (forall r, In r (rules_of G X) -> In 0 (node_sizes G r)) -> Zk o G w k X xi = zero o.
Proof. exact (fun R o H => @Zk_empty_domain_rules R o H). Qed.
Print Assumptions C01_empty_domain_rules_Zk_zero.

(** the code-shaped model ([multiply_in_disconnected_internals] with multiplier 0) returns zero for an
    unattached internal node over an empty domain, whatever the rest of the rule is worth *)
Theorem C01_isolated_internal_node_empty_domain :
  forall R (o : sr_ops R), sr_ring o ->
  forall G e r nl xi, wf_rule G r = true -> nl < length (g_doms G) -> dom G nl = 0 ->
    In xi (all_assts (lshape G (r_lhs r))) ->
    oapp o (spe o (node_sizes G (add_node r nl)) e (r_edges r) (r_ext r)) xi = zero o.
Proof. exact (fun R o H => @spe_isolated_internal_empty R o H). Qed.
Print Assumptions C01_isolated_internal_node_empty_domain.

Theorem C01_empty_domain_example :
  wf_grammar G_empty = true /\ wf_rule G_empty r_empty = true /\ dom G_empty 1 = 0.
Proof. exact G_empty_wf. Qed.
Print Assumptions C01_empty_domain_example.

(** S(c) -> t(c) X(a,b), X(a,b) -> t(a) u(b) over a 2-element domain: the nonterminal's variables are
    independent of the parent's although both read the same factor t *)
Theorem C01_shared_operand_independent :
  forall R (o : sr_ops R), sr_ring o ->
  forall (w : env (R:=R)) c, c < 2 ->
    Zk o G_share w 2 3 [c]
    = mul o (w 0 [c]) (mul o (add o (w 0 [0]) (w 0 [1])) (add o (w 1 [0]) (w 1 [1]))).
Proof. exact (fun R o H => @shared_operand_S R o H). Qed.
Print Assumptions C01_shared_operand_independent.

(** * Magnitudes (class of the seeded regression C01-g): terms annihilated by a zero factor *)
(** two weight environments that differ only on the factors of terms which contain a zero factor (in both) give
    the same value of the rule: the value is independent of how large / small / infinite the annihilated
    factors are *)
Theorem C01_rule_val_annihilated_terms :
  forall R (o : sr_ops R), sr_ring o ->
  forall G (e e' : env (R:=R)) r xi,
  (forall a, In a (all_assts (node_sizes G r)) ->
     killed2 o e e' r a
     \/ (forall ed, In ed (r_edges r) -> e (fst ed) (sel a (snd ed)) = e' (fst ed) (sel a (snd ed)))) ->
  rule_val o G e r xi = rule_val o G e' r xi.
Proof. exact (fun R o H => @rule_val_annihilated_terms R o H). Qed.
Print Assumptions C01_rule_val_annihilated_terms.

Theorem C01_rule_val_all_killed :
  forall R (o : sr_ops R), sr_ring o ->
  forall G (e : env (R:=R)) r xi,
  (forall a, In a (all_assts (node_sizes G r)) ->
     exists ed, In ed (r_edges r) /\ e (fst ed) (sel a (snd ed)) = zero o) ->
  rule_val o G e r xi = zero o.
Proof. exact (fun R o H => @rule_val_all_killed R o H). Qed.
Print Assumptions C01_rule_val_all_killed.

(** the order of the edges of a right-hand side is immaterial *)
Theorem C01_rule_val_edge_order :
  forall R (o : sr_ops R), sr_ring o ->
  forall G (e : env (R:=R)) r r' xi,
  r_nodes r' = r_nodes r -> r_ext r' = r_ext r -> Permutation.Permutation (r_edges r) (r_edges r') ->
  rule_val o G e r xi = rule_val o G e r' xi.
Proof. exact (fun R o H => @rule_val_edge_order R o H). Qed.
Print Assumptions C01_rule_val_edge_order.

(** a nan of the implementation reaches the oracle as the empty interval ([1, 0] resp. [+inf, -inf]); the
    oracle rejects it whatever the exact value is *)
Theorem C01_nan_rejected_real :
  forall (x : ereal) (lo hi : QArith_base.Q), QArith_base.Qlt hi lo -> real_within x (lo, Some hi) = false.
Proof. exact real_within_empty. Qed.
Print Assumptions C01_nan_rejected_real.

Theorem C01_nan_rejected_trop :
  forall (x : trop) (q q' : QArith_base.Q),
  trop_within x (2, q) (0, q') = false.
Proof. exact trop_within_empty. Qed.
Print Assumptions C01_nan_rejected_trop.

(** S -> f(n) g(n) h(n) with f = g = [B, 1], h = [0, 1], B in {2^1000, +inf, 2^-1000}, all six edge orders:
    [sp_check_real] accepts the observation 1, rejects nan and rejects +inf *)
Theorem C01_magnitude_example :
  forallb (fun edges => forallb (fun big =>
             Nat.eqb (sp_check_real (([2], [(false, []); (true, [0]); (true, [0]); (true, [0])],
                                      [(0, [0], edges, [])], 0), w_mag big, obs_one)) 0
             && Nat.eqb (sp_check_real (([2], [(false, []); (true, [0]); (true, [0]); (true, [0])],
                                      [(0, [0], edges, [])], 0), w_mag big, obs_nan)) 1
             && Nat.eqb (sp_check_real (([2], [(false, []); (true, [0]); (true, [0]); (true, [0])],
                                      [(0, [0], edges, [])], 0), w_mag big, obs_inf)) 1)
          [Some big_q; None; Some tiny_q])
    [[(1, [0]); (2, [0]); (3, [0])]; [(1, [0]); (3, [0]); (2, [0])]; [(3, [0]); (1, [0]); (2, [0])];
     [(2, [0]); (1, [0]); (3, [0])]; [(2, [0]); (3, [0]); (1, [0])]; [(3, [0]); (2, [0]); (1, [0])]] = true.
Proof. exact mag_example_orders. Qed.
Print Assumptions C01_magnitude_example.
