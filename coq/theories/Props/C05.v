(** C05 -- factorisation preserves the grammar's meaning and never widens a rule. *)
From Coq Require Import List Arith Bool.
Import ListNotations.
Require Import Fggs.Model.Conj Fggs.Model.TreeDec Fggs.Model.Factorize Fggs.Proofs.Fz_fresh.

Theorem C05_fresh_head :
  forall r t ords i p labels labels' lhs ext,
    visit_head r t ords i (Some p) labels = Ok (labels', lhs, ext) ->
    ~ In (el_name lhs) (map el_name labels).
Proof. exact visit_head_fresh. Qed.
Print Assumptions C05_fresh_head.
