(** C05 -- factorisation preserves the grammar's meaning and never widens a rule
    (fggs/factorize.py: factorize_rule / factorize_hrg / factorize_fgg).
    Only property theorems live here, each closed by [exact] and followed by Print Assumptions.
    Model: Model/Factorize.v.  [valid_td] is the notion of a valid tree decomposition of C10
    (Proofs/TreeDec_tdok.v); [ftd_wfb] says that the recorded adjacency lists are symmetric and
    duplicate-free; [wf_rule]: node ids distinct, attachments and externals are nodes. *)
From Coq Require Import List Arith Bool Permutation.
Import ListNotations.
Require Import Fggs.Model.Conj Fggs.Model.TreeDec Fggs.Proofs.TreeDec_tdok Fggs.Model.Factorize
               Fggs.Proofs.Fz_fresh Fggs.Proofs.Fz_rooted Fggs.Proofs.Fz_struct Fggs.Proofs.Fz_main
               Fggs.Proofs.Fz_bridge Fggs.Proofs.Fz_final Fggs.Proofs.Fz_inline Fggs.Proofs.Fz_labels
               Fggs.Model.FactorizeCheck Fggs.Proofs.Fz_glueok Fggs.Proofs.Fz_examples.

(** * C05_edges_once
    For EVERY rule, EVERY valid tree decomposition of its primal graph (whatever method produced
    it), EVERY iteration order of the bags, of the adjacency sets and of the [bag & parent] sets,
    and every initial label set: if the model of factorize_rule returns [rs] then [rs] ends with
    a rule for the original left-hand side and externals; every original edge occurs exactly
    once, unchanged (same id, label and attachment), in the new rules, and the only other edges
    are one edge lhs(c)(ext(c)) per new rule c; every new rule's node set is a bag (hence a
    duplicate-free subset of the original nodes, never more nodes than the original); the bags
    cover the node set; the fresh left-hand sides are nonterminals with pairwise different names
    outside the label set (one rule each) and exactly one use each. *)
Theorem C05_edges_once :
  forall r t ords labels rs ls,
    wf_rule r -> ftd_wfb t = true -> valid_td (primal r) (td_of_ftd t) ->
    factorize_rule_model r labels t ords = Ok (rs, ls) ->
    exists front last,
      rs = front ++ [last] /\ fr_lhs last = fr_lhs r /\ fr_ext last = fr_ext r
      /\ Permutation (flat_map fr_edges rs) (fr_edges r ++ map use_edge front)
      /\ (forall c, In c rs ->
            (exists j, j < length t /\ fr_ids c = bag_of t j)
            /\ NoDup (fr_ids c) /\ incl (fr_ids c) (fr_ids r)
            /\ fr_nodes c = map (fun v => (v, nlabel (fr_nodes r) v)) (fr_ids c)
            /\ length (fr_nodes c) <= length (fr_nodes r))
      /\ (forall v, In v (fr_ids r) <-> exists c, In c rs /\ In v (fr_ids c))
      /\ (forall c, In c front ->
            el_term (fr_lhs c) = false /\ el_type (fr_lhs c) = map (nlabel (fr_nodes r)) (fr_ext c)
            /\ ~ In (el_name (fr_lhs c)) (map el_name (init_labels r labels)))
      /\ NoDup (map (fun c => el_name (fr_lhs c)) front)
      /\ (forall c, In c front -> count_label (fr_lhs c) rs = 1)
      /\ Permutation ls (map fr_lhs front ++ init_labels r labels).
Proof. exact edges_once_final. Qed.
Print Assumptions C05_edges_once.

(** hypotheses satisfiable by a non-trivial value: the 4-node path with the decompositions that
    min_fill / quickbb and acb return for it; the model returns 3 resp. 4 rules *)
Example C05_edges_once_example :
  wf_rule path4 /\ ftd_wfb td_mf = true /\ valid_td (primal path4) (td_of_ftd td_mf)
  /\ exists rs ls, factorize_rule_model path4 [] td_mf ords_mf = Ok (rs, ls) /\ length rs = 3.
Proof. exact path4_hyps. Qed.

(** the two halves of the bridge from C10's notion of validity: in a tree the recursion of
    [visit] visits every bag exactly once, for every adjacency order ... *)
Theorem C05_visit_visits_every_bag_once :
  forall ns es, tree_on ns es -> forall adj, adj_ok adj ns es ->
    forall root, In root ns -> exists T, rooted_a adj root None T /\ Permutation (rt_indices T) ns.
Proof. exact tree_rooting. Qed.
Print Assumptions C05_visit_visits_every_bag_once.

(** ... and a valid decomposition rooted where [find_root] says satisfies the rooted form of
    validity (call tree of [visit], running intersection along it) *)
Theorem C05_valid_td_rooted :
  forall r t, ftd_wfb t = true -> valid_td (primal r) (td_of_ftd t) ->
    forall root, NoDup (fr_ids r) -> atts_in_ids r -> incl (fr_ext r) (fr_ids r) ->
      find_root (fr_ext r) t 0 = Some root -> exists T, rooted_valid r t root T.
Proof. exact valid_rooted. Qed.
Print Assumptions C05_valid_td_rooted.

(** the clique lemma behind "every edge is covered": pairwise co-bagged vertices share a bag *)
Theorem C05_clique_in_a_bag :
  forall t T, rip t T -> NoDup (rt_indices T) -> forall S,
    (forall x, In x S -> occurs t x T) ->
    (forall x y, In x S -> In y S -> x <> y ->
                 exists j, In j (rt_indices T) /\ In x (bag_of t j) /\ In y (bag_of t j)) ->
    exists j, In j (rt_indices T) /\ incl S (bag_of t j).
Proof. exact rip_clique. Qed.
Print Assumptions C05_clique_in_a_bag.

(** the fuel-based model of [visit] is the structural pass over the tree of calls *)
Theorem C05_visit_is_structural :
  forall r t ords fuel i parent T st,
    root_td fuel t i parent = Some T -> visit fuel r t ords i parent st = visit_rt r t ords T parent st.
Proof. exact visit_eq. Qed.
Print Assumptions C05_visit_is_structural.

(** * C05_fresh *)
Theorem C05_fresh_head :
  forall r t ords i p labels labels' lhs ext,
    visit_head r t ords i (Some p) labels = Ok (labels', lhs, ext) ->
    ~ In (el_name lhs) (map el_name labels).
Proof. exact visit_head_fresh. Qed.
Print Assumptions C05_fresh_head.

(** the fresh names ([names_ok] is what [C05_edges_once] establishes for them) differ from the
    name of the rule's left-hand side, of EVERY edge label of the rule (terminal or not; as of
    /repo 211579c) and of every label of the [labels] argument *)
Theorem C05_fresh :
  forall r ords nm labels idx,
    names_ok r ords nm (init_labels r labels) idx ->
    forall j, In j idx ->
      ~ In (el_name (nm j)) (map el_name labels)
      /\ el_name (nm j) <> el_name (fr_lhs r)
      /\ forall e, In e (fr_edges r) -> el_name (nm j) <> el_name (fe_lab e).
Proof. exact fresh_names_ok. Qed.
Print Assumptions C05_fresh.
(** F22, the code before 211579c ([factorize_rule_old_model]: only the NONTERMINAL labels of the
    rule were protected): a fresh name could be the name of a terminal label of the rule --
    ValueError, or a silent clash *)
Theorem C05_fresh_old_refuted :
  exists r t ords, td_ok (primal r) (td_of_ftd t) = true /\ factorize_rule_old_model r [] t ords = Err ValueErr.
Proof. exact fresh_old_refuted. Qed.
Print Assumptions C05_fresh_old_refuted.
Theorem C05_fresh_old_refuted_silent :
  exists r t ords rs ls, td_ok (primal r) (td_of_ftd t) = true /\ factorize_rule_old_model r [] t ords = Ok (rs, ls)
    /\ exists c e, In c rs /\ In e (fr_edges r) /\ el_name (fr_lhs c) = el_name (fe_lab e).
Proof. exact fresh_old_refuted_silent. Qed.
Print Assumptions C05_fresh_old_refuted_silent.

(** * C05_method_honoured
    [orc k] = the decompositions tree_decomposition(., method k) returns for the rules.
    factorize_rule receives the decomposition of the requested method as its argument;
    factorize_hrg hands [orc m] to every factorize_rule call; factorize_fgg (as of /repo
    207a206) passes [m] on to factorize_hrg. *)
Theorem C05_method_honoured_hrg : forall m g orc, factorize_hrg_model m g orc = factorize_hrg_with g (orc m).
Proof. exact hrg_method_honoured. Qed.
Print Assumptions C05_method_honoured_hrg.
Theorem C05_method_honoured : forall m g orc, method_honoured factorize_fgg_model m g orc.
Proof. exact fgg_method_honoured. Qed.
Print Assumptions C05_method_honoured.
(** F7, the code before 207a206 ([factorize_fgg_old_model]: factorize_hrg(g) without method):
    refuted, and honoured only for m = 0 (min_fill) *)
Theorem C05_method_honoured_old_refuted :
  exists g orc m,
    (forall k, map (fun ro => Some (fst ro)) (orc k)
               = map (fun c => option_map canon_ftd (tree_decomposition k (primal c))) (fh_all_rules (ff_hrg g)))
    /\ ~ method_honoured factorize_fgg_old_model m g orc.
Proof. exact fgg_old_method_honoured_refuted. Qed.
Print Assumptions C05_method_honoured_old_refuted.
Theorem C05_method_honoured_old_min_fill : forall g orc, method_honoured factorize_fgg_old_model 0 g orc.
Proof. exact fgg_old_method_honoured_min_fill. Qed.
Print Assumptions C05_method_honoured_old_min_fill.

(** * converse, for detection *)
Theorem C05_invalid_td_loses_edge_example :
  td_ok (primal path4) (td_of_ftd td_bad) = false
  /\ exists rs ls, factorize_rule_model path4 [] td_bad [[]; []] = Ok (rs, ls)
       /\ ~ In (ED 2 lt [1; 2]) (flat_map fr_edges rs)
       /\ inline_ok path4 rs = false.
Proof. exact invalid_td_loses_edge_example. Qed.
Print Assumptions C05_invalid_td_loses_edge_example.

(** * same start symbol, same labels, factors and domains
    ([keeps]: the label tables of the input are included in those of the result and the start
    symbol is the same; as of /repo 833be06 and 450bcaa) *)
Theorem C05_hrg_keeps_labels :
  forall g orc g', factorize_hrg_with g orc = Ok g' -> keeps g g'.
Proof. exact factorize_hrg_keeps. Qed.
Print Assumptions C05_hrg_keeps_labels.
Theorem C05_fgg_keeps_labels_factors_domains :
  forall m g orc f, factorize_fgg_model m g orc = Ok f ->
    keeps (ff_hrg g) (ff_hrg f) /\ ff_factors f = ff_factors g /\ ff_domains f = ff_domains g
    /\ (factors_bound g -> factors_bound f) /\ (domains_bound g -> domains_bound f).
Proof. exact factorize_fgg_keeps. Qed.
Print Assumptions C05_fgg_keeps_labels_factors_domains.
(** F20, the code before the repairs ([factorize_hrg_old_with]: tables rebuilt from the rules) *)
Theorem C05_labels_old_refuted :
  exists g orc h, factorize_hrg_old_with g orc = Ok h /\ exists l, In l (fh_elabels g) /\ ~ In l (fh_elabels h).
Proof. exact hrg_old_labels_refuted. Qed.
Print Assumptions C05_labels_old_refuted.

(** * C05_inline
    Under the same hypotheses, replacing (recursively) every edge whose label is the left-hand
    side of one of the new non-root rules by that rule's right-hand side -- the edge is attached
    exactly to the rule's externals, node ids are shared -- turns the last rule into the
    original one: same left-hand side, same externals, same node list up to order (ids with
    labels, every id once), same edge list up to order (ids, labels, attachments). *)
Theorem C05_inline :
  forall r t ords labels rs ls,
    wf_rule r -> ftd_wfb t = true -> valid_td (primal r) (td_of_ftd t) ->
    factorize_rule_model r labels t ords = Ok (rs, ls) ->
    inlines_to r rs.
Proof. exact inline_final. Qed.
Print Assumptions C05_inline.

(** * the oracles run on the implementation's output are sound for these specifications *)
Theorem C05_inline_ok_sound : forall r rs, inline_ok r rs = true -> inlines_to r rs.
Proof. exact inline_ok_sound. Qed.
Print Assumptions C05_inline_ok_sound.
Theorem C05_fresh_ok_sound :
  forall existing rs, fresh_ok existing rs = true ->
    exists tbl root, rs = tbl ++ [root]
      /\ NoDup (map (fun c => el_name (fr_lhs c)) tbl)
      /\ forall c, In c tbl -> ~ In (el_name (fr_lhs c)) existing /\ el_term (fr_lhs c) = false
                               /\ count_label (fr_lhs c) rs = 1.
Proof. exact fresh_ok_sound. Qed.
Print Assumptions C05_fresh_ok_sound.
Theorem C05_nodes_ok_sound :
  forall r t rs, nodes_ok r t rs = true ->
    forall c, In c rs -> length (fr_nodes c) <= length (fr_nodes r) /\ NoDup (fr_ids c)
                         /\ (exists b, In b (map fst t) /\ incl (fr_ids c) b /\ incl b (fr_ids c))
                         /\ incl (fr_nodes c) (fr_nodes r).
Proof. exact nodes_ok_sound. Qed.
Print Assumptions C05_nodes_ok_sound.
(** grammar level ([glue_ok], run on the output of factorize_hrg / factorize_fgg): the new grammar
    is made of exactly the rules the factorize_rule calls returned; the fresh names of ALL calls
    are pairwise different and are the name of NO label of the input grammar; in the whole new
    grammar every fresh nonterminal has exactly one rule and exactly one use *)
Theorem C05_glue_ok_sound :
  forall g outs gnew, glue_ok g outs gnew = true ->
    Permutation (concat outs) (fh_all_rules gnew)
    /\ NoDup (map el_name (flat_map fresh_of outs))
    /\ forall l, In l (flat_map fresh_of outs) ->
         ~ In (el_name l) (map el_name (fh_elabels g))
         /\ rules_with_lhs l (fh_all_rules gnew) = 1
         /\ count_label l (fh_all_rules gnew) = 1.
Proof. exact glue_ok_sound. Qed.
Print Assumptions C05_glue_ok_sound.
Example C05_oracles_example :
  exists rs ls, factorize_rule_model path4 [] td_acb ords_acb = Ok (rs, ls) /\ length rs = 4
    /\ inline_ok path4 rs = true /\ fresh_ok [[83]; [116]] rs = true /\ nodes_ok path4 td_acb rs = true.
Proof. exact path4_acb. Qed.

Require Import Fggs.Model.Semiring Fggs.Model.SumProduct Fggs.Proofs.SP_nonrec Fggs.Proofs.SP_unfold.

(** * C05_sum_product: the unfolding lemma (every commutative semiring)
    [rule_val] / [step] / [Zk] are the definitions of Model/SumProduct.v (C01: [Zk] = sum over
    derivation trees).  Replacing an edge labelled [Y] of a rule [rr] by the right-hand side of
    a rule [c] (externals identified with the attachment nodes) gives a rule whose value is
    the value of [rr] in the environment where [Y] denotes the value of [c]. *)
Theorem C05_unfold_rule :
  forall (R : Type) (o : sr_ops R), sr_ring o ->
  forall G (e : env (R:=R)) rr es1 Y att es2 c xi,
    r_edges rr = es1 ++ (Y, att) :: es2 ->
    unfold_ok G rr es1 es2 att c ->
    (forall ed, In ed (es1 ++ es2) -> fst ed <> Y) ->
    (forall ed, In ed (r_edges c) -> fst ed <> Y) ->
    rule_val o G (fun l => if Nat.eqb l Y then (fun zeta => rule_val o G e c zeta) else e l) rr xi
    = rule_val o G e (inline_rule rr es1 es2 att c) xi.
Proof. exact @rule_val_unfold. Qed.
Print Assumptions C05_unfold_rule.

(** grammar level: [Y] has exactly one rule and exactly one use ([unfolding]); one step of the
    unfolded grammar's equations is a step of the original ones taken after updating [Y] ... *)
Theorem C05_unfold_step :
  forall (R : Type) (o : sr_ops R), sr_ring o ->
  forall G' ir rr es1 Y att es2 c, unfolding G' ir rr es1 Y att es2 c ->
  forall w x X xi, X <> Y ->
    step o (unfolded G' ir rr es1 att es2 c) w x X xi
    = step o G' w (updY Y x (step o G' w x Y)) X xi.
Proof. exact @step_unfold. Qed.
Print Assumptions C05_unfold_step.
(** ... so the solutions of the two systems of equations are the same ... *)
Theorem C05_unfold_fixpoints :
  forall (R : Type) (o : sr_ops R), sr_ring o ->
  forall G' ir rr es1 Y att es2 c, unfolding G' ir rr es1 Y att es2 c ->
  forall w x, fixpoint o G' w x <-> fixpoint o (unfolded G' ir rr es1 att es2 c) w x.
Proof. exact @fixpoint_unfold_iff. Qed.
Print Assumptions C05_unfold_fixpoints.
(** ... and for a non-recursive grammar the sum-product of EVERY nonterminal (stabilised Kleene
    iterate = sum over all derivation trees, C01) is unchanged.
    This is ONE folding/unfolding step; the statement for the whole factorisation is
    [C05_sum_product_nonrec] / [C05_sum_product_recursive] below (proved by the junction-tree
    argument of [C05_sum_product_rule], not by iterating this step). *)
Theorem C05_sum_product_partial :
  forall (R : Type) (o : sr_ops R), sr_ring o ->
  forall G' ir rr es1 Y att es2 c, unfolding G' ir rr es1 Y att es2 c ->
  forall w rank, ranked G' rank ->
  forall X xi, is_term G' X = false ->
    Zk o (unfolded G' ir rr es1 att es2 c) w (S (rank X)) X xi = Zk o G' w (S (rank X)) X xi.
Proof. exact @Zk_unfold_nonrec. Qed.
Print Assumptions C05_sum_product_partial.
Example C05_unfolding_example :
  unfolding ex_G 0 ex_rr [(2, [0; 1])] 1 [1] [] ex_c
  /\ ranked ex_G (fun l => match l with 0 => 2 | 1 => 1 | _ => 0 end).
Proof. exact unfolding_ranked_example. Qed.

Require Import Fggs.Proofs.Fz_treeval.
(** * C05_sum_product, rule level (every commutative semiring, recursive grammars included)
    [tr lab] is [to_sp_rule] with an arbitrary numbering [lab] of the edge labels
    ([to_sp_rule tbl = tr (lab_idx tbl)]).  For every rule whose node ids are its positions (as the
    harness numbers them), every valid decomposition and every order: in ANY environment [e'] that
    gives every fresh nonterminal the value of its one rule, the new rule for the original
    left-hand side has exactly the value of the original rule, at every external assignment that
    is the restriction of an in-range assignment of the nodes.  (Junction-tree argument: every
    node is summed in the topmost bag containing it, [Fz_wv.v]; every edge multiplied in where it
    is placed, [C05_edges_once]; sums over disjoint variable sets commute with products,
    [Fz_ao.v].)
    The grammar-level statements assembled from this theorem: [C05_sum_product_nonrec],
    [C05_sum_product_recursive], [C05_sum_product_fixpoints] at the end of this file. *)
Theorem C05_sum_product_rule :
  forall (R : Type) (o : sr_ops R), sr_ring o ->
  forall r t ords labels rs ls G lab (e' : env (R:=R)),
    Fz_final.wf_rule r -> fr_ids r = seq 0 (length (fr_nodes r)) ->
    ftd_wfb t = true -> valid_td (primal r) (td_of_ftd t) ->
    factorize_rule_model r labels t ords = Ok (rs, ls) ->
    exists front last, rs = front ++ [last] /\
      ((forall c, In c front -> forall zeta, e' (lab (fr_lhs c)) zeta = rule_val o G e' (tr lab c) zeta) ->
       forall a, In a (all_assts (map (dom G) (map snd (fr_nodes r)))) ->
         rule_val o G e' (tr lab last) (sel a (fr_ext r)) = rule_val o G e' (tr lab r) (sel a (fr_ext r))).
Proof. exact @sum_product_rule. Qed.
Print Assumptions C05_sum_product_rule.
Theorem C05_to_sp_rule_is_tr : forall tbl c, to_sp_rule tbl c = tr (lab_idx tbl) c.
Proof. exact to_sp_rule_tr. Qed.
Print Assumptions C05_to_sp_rule_is_tr.

Require Import Fggs.Proofs.SP_refine Fggs.Proofs.Fz_post Fggs.Proofs.Fz_glue Fggs.Proofs.Fz_grammar
               Fggs.Proofs.Fz_gfinal Fggs.Proofs.Fz_gexamples.
Require Fggs.Proofs.SP_mono.

(** * C05_sum_product, GRAMMAR level
    [g] is the input grammar (Model/Factorize.v), [G = to_sp_grammar doms g] its translation to the
    positional grammars of Model/SumProduct.v, [g'] what the model of [factorize_hrg] /
    [factorize_fgg] returns, [G' = to_sp_grammar doms g'].  Hypotheses throughout:
    [wf_grammar G = true] (what HRG guarantees: labels in the tables, attachments and externals
    among the nodes, types match), [ids_are_positions g] (node ids = positions, as the harness
    numbers them), [orc_ok g (orc m)]: the oracle gives for every rule, in [all_rules()] order,
    a well-formed valid tree decomposition ([valid_td], C10) -- with ANY iteration orders.
    Domains may be empty. *)

(** the gluing done by [factorize_hrg] / [factorize_fgg] ([fz_spec]): the new label table is the
    old one with labels appended; the new rules are the rules returned by the [factorize_rule]
    calls (a permutation: regrouped by left-hand side); every call was made with a label set
    containing the grammar's labels; the fresh names are pairwise different over the WHOLE
    grammar; every left-hand side is in the label table; same start symbol *)
Theorem C05_glue_hrg :
  forall g orc g', (forall r, In r (fh_all_rules g) -> Fz_final.wf_rule r) -> orc_ok g orc ->
    factorize_hrg_with g orc = Ok g' -> exists cs, fz_spec g g' cs.
Proof. exact factorize_hrg_spec. Qed.
Print Assumptions C05_glue_hrg.
Theorem C05_glue_fgg :
  forall m g orc f, (forall r, In r (fh_all_rules (ff_hrg g)) -> Fz_final.wf_rule r) -> orc_ok (ff_hrg g) (orc m) ->
    factorize_fgg_model m g orc = Ok f -> exists cs, fz_spec (ff_hrg g) (ff_hrg f) cs.
Proof. exact factorize_fgg_spec. Qed.
Print Assumptions C05_glue_fgg.

(** the label numbering of the factorised grammar extends the original one: original labels keep
    their numbers, fresh ones are appended (no hypothesis on the decompositions) *)
Theorem C05_label_numbering :
  forall g orc g', factorize_hrg_with g orc = Ok g' ->
    (exists ex, fh_elabels g' = fh_elabels g ++ ex)
    /\ forall l, In l (fh_elabels g) -> lab_idx (fh_elabels g') l = lab_idx (fh_elabels g) l.
Proof. exact factorize_hrg_numbering. Qed.
Print Assumptions C05_label_numbering.
Theorem C05_label_numbering_fgg :
  forall m g orc f, factorize_fgg_model m g orc = Ok f ->
    (exists ex, fh_elabels (ff_hrg f) = fh_elabels (ff_hrg g) ++ ex)
    /\ forall l, In l (fh_elabels (ff_hrg g)) -> lab_idx (fh_elabels (ff_hrg f)) l = lab_idx (fh_elabels (ff_hrg g)) l.
Proof. exact factorize_fgg_numbering. Qed.
Print Assumptions C05_label_numbering_fgg.

(** the new rules of one call are in post-order: every edge of the rule at position q is an edge
    of the original rule or the use of the rule at an earlier position ([call_facts], which also
    collects what [C05_edges_once] says about the left-hand sides) *)
Theorem C05_call_facts :
  forall r t ords labels front last ls,
    Fz_final.wf_rule r -> ftd_wfb t = true -> valid_td (primal r) (td_of_ftd t) ->
    factorize_rule_model r labels t ords = Ok (front ++ [last], ls) ->
    call_facts r labels front last ls.
Proof. exact call_facts_model. Qed.
Print Assumptions C05_call_facts.

(** rule level, at EVERY external assignment (also those that are not restrictions of an in-range
    assignment of the nodes, also with empty domains): in any environment that gives every fresh
    nonterminal the value of its one rule, the new rule for the original left-hand side has the
    value of the original rule *)
Theorem C05_sum_product_rule_all :
  forall (R : Type) (o : sr_ops R), sr_ring o ->
  forall r t ords labels front last ls G lab (e' : env (R:=R)),
    Fz_final.wf_rule r -> fr_ids r = seq 0 (length (fr_nodes r)) ->
    ftd_wfb t = true -> valid_td (primal r) (td_of_ftd t) ->
    factorize_rule_model r labels t ords = Ok (front ++ [last], ls) ->
    (forall c, In c front -> forall zeta, e' (lab (fr_lhs c)) zeta = rule_val o G e' (tr lab c) zeta) ->
    forall xi, rule_val o G e' (tr lab last) xi = rule_val o G e' (tr lab r) xi.
Proof. exact @sum_product_rule_all. Qed.
Print Assumptions C05_sum_product_rule_all.

(** the factorised grammar REFINES the original one (Proofs/SP_refine.v): same labels below
    [n0 = #labels of g]; in every environment that solves the equations of the fresh
    nonterminals the equations of the original nonterminals are those of [G] ([rf_step]); the
    fresh nonterminals are ranked by their position in their call's output and owned by the
    call's left-hand side *)
Theorem C05_factorize_refines :
  forall doms g g' cs, fz_spec g g' cs -> wf_fhrg g ->
    refines (to_sp_grammar doms g) (to_sp_grammar doms g') (length (fh_elabels g)) (M_of cs)
            (rk_of (fh_elabels g) (fh_elabels g') cs) (owner_of (fh_elabels g) (fh_elabels g') cs).
Proof. exact factorize_refines. Qed.
Print Assumptions C05_factorize_refines.
Theorem C05_wf_grammar_wf_fhrg :
  forall doms g, wf_grammar (to_sp_grammar doms g) = true -> ids_are_positions g -> wf_fhrg g.
Proof. exact wf_grammar_wf_fhrg. Qed.
Print Assumptions C05_wf_grammar_wf_fhrg.

(** ** C05_sum_product_nonrec: NON-RECURSIVE grammars, every commutative semiring.
    [ranked G rank] (Proofs/SP_nonrec.v): [rank] strictly decreases from the left-hand side of
    every rule to the nonterminals of its right-hand side.  Then the factorised grammar is
    ranked too, and for every original nonterminal [l], every index tuple [xi], every
    k >= #nonterminals of G' and k0 >= #nonterminals of G:
        Zk G' k (number of l in G') xi = Zk G k0 (number of l in G) xi
    -- by C01 ([C01_nonrec_all_trees]) both sides are the sum over ALL derivation trees, so the
    sum over all derivations is unchanged, in every commutative semiring. *)
Theorem C05_sum_product_nonrec :
  forall doms m g orc g' rank,
    wf_grammar (to_sp_grammar doms g) = true -> ids_are_positions g ->
    orc_ok g (orc m) -> factorize_hrg_model m g orc = Ok g' ->
    ranked (to_sp_grammar doms g) rank ->
    (exists rank', ranked (to_sp_grammar doms g') rank')
    /\ forall (R : Type) (o : sr_ops R), sr_ring o -> forall (w : env (R:=R)) l xi,
         In l (fh_elabels g) -> el_term l = false ->
         forall k k0, length (nonterminals (to_sp_grammar doms g')) <= k -> length (nonterminals (to_sp_grammar doms g)) <= k0 ->
           Zk o (to_sp_grammar doms g') w k (lab_idx (fh_elabels g') l) xi
           = Zk o (to_sp_grammar doms g) w k0 (lab_idx (fh_elabels g) l) xi.
Proof. exact sum_product_nonrec_hrg. Qed.
Print Assumptions C05_sum_product_nonrec.
Theorem C05_sum_product_nonrec_fgg :
  forall doms m f orc f' rank,
    wf_grammar (to_sp_grammar doms (ff_hrg f)) = true -> ids_are_positions (ff_hrg f) ->
    orc_ok (ff_hrg f) (orc m) -> factorize_fgg_model m f orc = Ok f' ->
    ranked (to_sp_grammar doms (ff_hrg f)) rank ->
    (exists rank', ranked (to_sp_grammar doms (ff_hrg f')) rank')
    /\ forall (R : Type) (o : sr_ops R), sr_ring o -> forall (w : env (R:=R)) l xi,
         In l (fh_elabels (ff_hrg f)) -> el_term l = false ->
         forall k k0, length (nonterminals (to_sp_grammar doms (ff_hrg f'))) <= k
                      -> length (nonterminals (to_sp_grammar doms (ff_hrg f))) <= k0 ->
           Zk o (to_sp_grammar doms (ff_hrg f')) w k (lab_idx (fh_elabels (ff_hrg f')) l) xi
           = Zk o (to_sp_grammar doms (ff_hrg f)) w k0 (lab_idx (fh_elabels (ff_hrg f)) l) xi.
Proof. exact sum_product_nonrec_fgg. Qed.
Print Assumptions C05_sum_product_nonrec_fgg.
(** the start symbol at k = #nonterminals: exactly what the check function [fz_sp_check] compares *)
Theorem C05_sum_product_nonrec_start :
  forall doms m g orc g' rank,
    wf_grammar (to_sp_grammar doms g) = true -> ids_are_positions g ->
    orc_ok g (orc m) -> factorize_hrg_model m g orc = Ok g' ->
    ranked (to_sp_grammar doms g) rank ->
    forall (R : Type) (o : sr_ops R), sr_ring o -> forall (w : env (R:=R)) xi,
      Zk o (to_sp_grammar doms g') w (length (nonterminals (to_sp_grammar doms g'))) (g_start (to_sp_grammar doms g')) xi
      = Zk o (to_sp_grammar doms g) w (length (nonterminals (to_sp_grammar doms g))) (g_start (to_sp_grammar doms g)) xi.
Proof. exact sum_product_nonrec_start. Qed.
Print Assumptions C05_sum_product_nonrec_start.

(** hypotheses satisfiable: S -> A(0,1) t(1,2) t(2,3), A(0,1) -> t(0,2) t(2,1), the decompositions
    of min_fill; the factorised grammar has 4 rules and 2 fresh nonterminals; and the conclusion
    evaluated in the Boolean semiring (every [xi], also with an empty domain) *)
Example C05_sum_product_nonrec_example :
  wf_grammar (to_sp_grammar [2] gN) = true /\ ids_are_positions gN
  /\ orc_ok gN orcN /\ ranked (to_sp_grammar [2] gN) rankN
  /\ exists g', factorize_hrg_model 0 gN (fun _ => orcN) = Ok g'
                /\ length (fh_all_rules g') = 4 /\ length (fh_elabels g') = 5.
Proof. exact gN_hyps. Qed.

(** ** C05_sum_product_recursive: RECURSIVE grammars included, ordered commutative semirings
    ([sr_ordered]: the natural order, as for C02).  There is a constant [c] (2 + the largest
    number of fresh rules of one call + 1) such that for every original nonterminal and every
    index tuple the Kleene iterates are sandwiched:
        Zk G' k X' <= Zk G k X     and     Zk G k X <= Zk G' (c k) X'
    (one step of G is simulated by at most c steps of G'); hence the two increasing chains have
    the same upper bounds, the same suprema ([is_sup]: the least fixed point when it exists as
    a limit in the carrier), and the same enclosures "lo <= some iterate, every iterate <= hi"
    (what [enclosure] of C02 certifies). *)
Theorem C05_sum_product_recursive :
  forall doms m g orc g',
    wf_grammar (to_sp_grammar doms g) = true -> ids_are_positions g ->
    orc_ok g (orc m) -> factorize_hrg_model m g orc = Ok g' ->
    exists c, forall (R : Type) (o : sr_ops R), sr_ring o -> sr_ordered o -> forall (w : env (R:=R)) l xi,
      In l (fh_elabels g) ->
      let G := to_sp_grammar doms g in let G' := to_sp_grammar doms g' in
      let X := lab_idx (fh_elabels g) l in let X' := lab_idx (fh_elabels g') l in
      (forall k, le o (Zk o G' w k X' xi) (Zk o G w k X xi))
      /\ (forall k, le o (Zk o G w k X xi) (Zk o G' w (c * k) X' xi))
      /\ (forall u, (forall k, le o (Zk o G w k X xi) u) <-> (forall k, le o (Zk o G' w k X' xi) u))
      /\ (forall s, is_sup o (fun k => Zk o G w k X xi) s <-> is_sup o (fun k => Zk o G' w k X' xi) s)
      /\ (forall lo hi,
            ((exists j, le o lo (Zk o G w j X xi)) /\ (forall k, le o (Zk o G w k X xi) hi))
            <-> ((exists j, le o lo (Zk o G' w j X' xi)) /\ (forall k, le o (Zk o G' w k X' xi) hi))).
Proof. exact sum_product_recursive_hrg. Qed.
Print Assumptions C05_sum_product_recursive.
Theorem C05_sum_product_recursive_fgg :
  forall doms m f orc f',
    wf_grammar (to_sp_grammar doms (ff_hrg f)) = true -> ids_are_positions (ff_hrg f) ->
    orc_ok (ff_hrg f) (orc m) -> factorize_fgg_model m f orc = Ok f' ->
    exists c, forall (R : Type) (o : sr_ops R), sr_ring o -> sr_ordered o -> forall (w : env (R:=R)) l xi,
      In l (fh_elabels (ff_hrg f)) ->
      let G := to_sp_grammar doms (ff_hrg f) in let G' := to_sp_grammar doms (ff_hrg f') in
      let X := lab_idx (fh_elabels (ff_hrg f)) l in let X' := lab_idx (fh_elabels (ff_hrg f')) l in
      (forall k, le o (Zk o G' w k X' xi) (Zk o G w k X xi))
      /\ (forall k, le o (Zk o G w k X xi) (Zk o G' w (c * k) X' xi))
      /\ (forall u, (forall k, le o (Zk o G w k X xi) u) <-> (forall k, le o (Zk o G' w k X' xi) u))
      /\ (forall s, is_sup o (fun k => Zk o G w k X xi) s <-> is_sup o (fun k => Zk o G' w k X' xi) s)
      /\ (forall lo hi,
            ((exists j, le o lo (Zk o G w j X xi)) /\ (forall k, le o (Zk o G w k X xi) hi))
            <-> ((exists j, le o lo (Zk o G' w j X' xi)) /\ (forall k, le o (Zk o G' w k X' xi) hi))).
Proof. exact sum_product_recursive_fgg. Qed.
Print Assumptions C05_sum_product_recursive_fgg.

(** solutions and pre-fixed points, recursive grammars included.  Every commutative semiring:
    every solution of the equations of G' is, on the original nonterminals, a solution of the
    equations of G, and every solution of G extends to a solution of G' with the same values on
    the original labels.  Ordered semirings: every pre-fixed point of G extends to a pre-fixed
    point of G' with the same values on the original labels, and every pre-fixed point of G' is
    a pre-fixed point of G -- so (Park, [C02_park]) the least pre-fixed points agree on the
    original nonterminals whenever they exist. *)
Theorem C05_sum_product_fixpoints :
  forall doms m g orc g',
    wf_grammar (to_sp_grammar doms g) = true -> ids_are_positions g ->
    orc_ok g (orc m) -> factorize_hrg_model m g orc = Ok g' ->
    let G := to_sp_grammar doms g in let G' := to_sp_grammar doms g' in
    (forall (R : Type) (o : sr_ops R), sr_ring o -> forall w : env (R:=R),
       (forall x : env (R:=R), fixpoint o G' w x -> fixpoint o G w x)
       /\ (forall x : env (R:=R), fixpoint o G w x ->
             exists x' : env (R:=R), fixpoint o G' w x'
               /\ forall l, In l (fh_elabels g) -> x' (lab_idx (fh_elabels g') l) = x (lab_idx (fh_elabels g) l)))
    /\ forall (R : Type) (o : sr_ops R), sr_ring o -> sr_ordered o -> forall w : env (R:=R),
         (forall u : env (R:=R), SP_mono.env_le o (step o G w u) u ->
            exists u' : env (R:=R), SP_mono.env_le o (step o G' w u') u'
              /\ forall l, In l (fh_elabels g) -> u' (lab_idx (fh_elabels g') l) = u (lab_idx (fh_elabels g) l))
         /\ (forall u' : env (R:=R), SP_mono.env_le o (step o G' w u') u' ->
               forall X xi, is_term G X = false -> le o (step o G w u' X xi) (u' X xi)).
Proof. exact sum_product_fixpoints_hrg. Qed.
Print Assumptions C05_sum_product_fixpoints.

(** hypotheses satisfiable: X(0) -> t(0,1) t(1,2) X(2) | u(0), recursive; the first rule is split *)
Example C05_sum_product_recursive_example :
  wf_grammar (to_sp_grammar [2] gR) = true /\ ids_are_positions gR
  /\ orc_ok gR orcR
  /\ exists g', factorize_hrg_model 0 gR (fun _ => orcR) = Ok g'
                /\ length (fh_all_rules g') = 3 /\ length (fh_elabels g') = 4.
Proof. exact gR_hyps. Qed.

(** the abstract theorems behind (Proofs/SP_refine.v), for any refinement by fresh nonterminals *)
Theorem C05_refines_nonrec :
  forall G G' n0 M rk owner, refines G G' n0 M rk owner ->
  forall (R : Type) (o : sr_ops R), sr_ring o -> forall rank, ranked G rank ->
  forall (w : env (R:=R)) X xi, is_term G X = false ->
  forall k k0, length (nonterminals G') <= k -> length (nonterminals G) <= k0 ->
    Zk o G' w k X xi = Zk o G w k0 X xi.
Proof. exact @refines_Zk_nonrec. Qed.
Print Assumptions C05_refines_nonrec.
Example C05_refines_example :
  exists g' cs, factorize_hrg_model 0 gN (fun _ => orcN) = Ok g'
    /\ refines (to_sp_grammar [2] gN) (to_sp_grammar [2] g') 3 (M_of cs)
               (rk_of (fh_elabels gN) (fh_elabels g') cs) (owner_of (fh_elabels gN) (fh_elabels g') cs).
Proof. exact gN_refines. Qed.
Theorem C05_refines_sandwich :
  forall G G' n0 M rk owner, refines G G' n0 M rk owner ->
  forall (R : Type) (o : sr_ops R), sr_ring o -> sr_ordered o -> forall (w : env (R:=R)) k X xi, X < n0 ->
    le o (Zk o G' w k X xi) (Zk o G w k X xi) /\ le o (Zk o G w k X xi) (Zk o G' w ((M + 2) * k) X xi).
Proof. exact @Zk_refines_sandwich. Qed.
Print Assumptions C05_refines_sandwich.
