(** C11 — solver options change cost, never the answer: the relations between semirings. *)
From Coq Require Import List.
Require Import Fggs.Model.Semiring Fggs.Model.SumProduct Fggs.Model.EReal Fggs.Model.CrossSemiring
               Fggs.Proofs.Homomorphism.
Require Import Fggs.Model.SCC Fggs.Proofs.SP_driver Fggs.Proofs.Instances_cross.
Import ListNotations.

(** a semiring homomorphism commutes with every Kleene iterate of the sum-product *)
Theorem C11_homomorphism_commutes :
  forall R R' (o : sr_ops R) (o' : sr_ops R') (h : R -> R'),
    h (zero o) = zero o' -> h (one o) = one o' ->
    (forall a b, h (add o a b) = add o' (h a) (h b)) ->
    (forall a b, h (mul o a b) = mul o' (h a) (h b)) ->
    forall G w k X xi, h (Zk o G w k X xi) = Zk o' G (fun l idx => h (w l idx)) k X xi.
Proof. exact (@hom_Zk). Qed.
Print Assumptions C11_homomorphism_commutes.

(** the Boolean sum-product is the support of the Real one *)
Theorem C11_bool_is_support_of_real :
  forall G w k X xi,
    supp (Zk ereal_ops G w k X xi) = Zk bool_ops G (fun l idx => supp (w l idx)) k X xi.
Proof. exact supp_Zk. Qed.
Print Assumptions C11_bool_is_support_of_real.

(** Viterbi (max-times in the exp reading) never exceeds Real/Log (plus-times); no premise: the
    law records of [ereal_ops] are proved in Proofs/SemiringLaws.v (C08) *)
Theorem C11_viterbi_le_log :
  forall G w k X xi, ele (Zk maxtimes_ops G w k X xi) (Zk ereal_ops G w k X xi).
Proof. exact maxtimes_le_plustimes_closed. Qed.
Print Assumptions C11_viterbi_le_log.

(** * the same relations at the level of what the check functions evaluate *)
(** the tables [Ztab] (the specification [sp_check] tabulates): the Boolean table is the
    support of the Real table, the max-times table is below the plus-times table, cell by cell *)
Theorem C11_bool_is_support_of_real_Ztab :
  forall G W k X xi,
    wf_grammar G = true -> is_term G X = false -> In xi (all_assts (lshape G X)) ->
    env_of bool_ops (Ztab bool_ops G (fun l idx => supp (W l idx)) k) X xi
    = supp (env_of ereal_ops (Ztab ereal_ops G W k) X xi).
Proof. exact supp_Ztab. Qed.
Print Assumptions C11_bool_is_support_of_real_Ztab.

Theorem C11_viterbi_le_log_Ztab :
  forall G W k X xi,
    wf_grammar G = true -> is_term G X = false -> In xi (all_assts (lshape G X)) ->
    ele (env_of maxtimes_ops (Ztab maxtimes_ops G W k) X xi) (env_of ereal_ops (Ztab ereal_ops G W k) X xi).
Proof. exact maxtimes_le_plustimes_Ztab. Qed.
Print Assumptions C11_viterbi_le_log_Ztab.

(** [tmt_supp w]: the weight table of the Boolean run = the support of every cell of [w] *)
Theorem C11_support_weights :
  forall w l idx, env_of bool_ops (tmt_supp w) l idx = supp (env_of ereal_ops w l idx).
Proof. exact env_of_tmt_supp. Qed.
Print Assumptions C11_support_weights.

(** the code-shaped driver (composition with C01, C08, C19): for a well-formed grammar, with the
    component order computed by the Tarjan model, if it passes [nonrecursive_order] (iff the
    grammar is non-recursive), the Boolean run on the supports of the weights returns the support
    of every entry of the Real run *)
Theorem C11_bool_is_support_of_real_sum_products :
  forall G w order X xi,
    wf_grammar G = true -> (forall l, tget w l <> None -> is_term G l = true) ->
    scc (nt_graph G) = Some order -> nonrecursive_order G order = true ->
    is_term G X = false -> In xi (all_assts (lshape G X)) ->
    env_of bool_ops (sum_products_nonrec bool_ops G (tmt_supp w) order) X xi
    = supp (env_of ereal_ops (sum_products_nonrec ereal_ops G w order) X xi).
Proof. exact supp_sum_products_nonrec. Qed.
Print Assumptions C11_bool_is_support_of_real_sum_products.

(** ** Magnitudes: components whose values are tiny or huge relative to [tol]
    (scalar systems x = F(x) = c x^2 + a x + b, a, b, c >= 0; Model/Magnitude.v).
    An accepted certificate [lo, hi] encloses the least solution: [lo] is below every nonnegative
    pre-fixed point, [hi] above every Kleene iterate. *)
Require Import Fggs.Model.Magnitude Fggs.Proofs.Magnitude_proofs.
From Coq Require Import QArith.

Theorem C11_certificate_encloses_least_solution :
  forall a b c lo hi, cert_ok a b c lo hi = true ->
    (forall y, (0 <= y)%Q -> (qF a b c y <= y)%Q -> (lo <= y)%Q) /\ (forall k, (qiter a b c k <= hi)%Q).
Proof. exact cert_ok_encloses. Qed.
Print Assumptions C11_certificate_encloses_least_solution.

(** the stopping test F(x0) - x0 <= tol at an iterate x0 below a solution xs with F'(xs) <= L < 1:
    newton, which returns at least F(x0), is within tol*L/(1-L) of xs ... *)
Theorem C11_newton_stop_bound :
  forall a b c : Q, (0 <= a)%Q -> (0 <= c)%Q ->
  forall xs x0 L tol, (xs == qF a b c xs)%Q -> (0 <= x0)%Q -> (x0 <= xs)%Q -> (qL a c xs <= L)%Q -> (L < 1)%Q ->
    (qF a b c x0 - x0 <= tol)%Q -> (xs - qF a b c x0 <= tol * L / (1 - L))%Q.
Proof. exact newton_stop_bound. Qed.
Print Assumptions C11_newton_stop_bound.

(** ... fixed-point, which returns x0, within tol/(1-L) ... *)
Theorem C11_fixed_point_stop_bound_quadratic :
  forall a b c : Q, (0 <= c)%Q ->
  forall xs x0 L tol, (xs == qF a b c xs)%Q -> (x0 <= xs)%Q -> (qL a c xs <= L)%Q -> (L < 1)%Q ->
    (qF a b c x0 - x0 <= tol)%Q -> (xs - x0 <= tol / (1 - L))%Q.
Proof. exact fixed_point_stop_bound. Qed.
Print Assumptions C11_fixed_point_stop_bound_quadratic.

(** ... and the base weight b = F(0), which every method returns at least (every Kleene iterate
    after the first is >= b), is the solution up to the relative error L whatever tol is *)
Theorem C11_base_weight_relative_bound :
  forall a b c : Q, (0 <= c)%Q ->
  forall xs x0 L, (xs == qF a b c xs)%Q -> (0 <= x0)%Q -> (x0 <= xs)%Q -> (qL a c xs <= L)%Q ->
    ((1 - L) * xs <= b)%Q.
Proof. exact base_relative_bound. Qed.
Print Assumptions C11_base_weight_relative_bound.

Theorem C11_base_weight_below_iterates :
  forall a b c : Q, (0 <= a)%Q -> (0 <= b)%Q -> (0 <= c)%Q -> forall k, (b <= qiter a b c (S k))%Q.
Proof. exact base_le_iter. Qed.
Print Assumptions C11_base_weight_below_iterates.

(** the check function rejects (verdict 1) every value below the base weight -- in particular 0 for
    a positive base weight -- whatever the method and tol; an accepted value lies in the interval *)
Theorem C11_value_below_base_weight_rejected :
  forall kind tol eps epsg wg a b c lo hi g mb ox ogb ogg,
    cert_ok a b c lo hi = true -> (0 <= g)%Q -> (0 <= mb)%Q -> (eps < 1)%Q -> (ox < b * (1 - eps))%Q ->
    elem_check kind tol eps epsg wg ((a, b, c), (lo, hi), (g, mb), (ox, ogb, ogg)) = 1%nat.
Proof. exact elem_check_rejects_below_base. Qed.
Print Assumptions C11_value_below_base_weight_rejected.

Theorem C11_magnitude_check_sound :
  forall kind tol eps epsg wg a b c lo hi g mb ox ogb ogg,
    elem_check kind tol eps epsg wg ((a, b, c), (lo, hi), (g, mb), (ox, ogb, ogg)) = 0%nat ->
    cert_ok a b c lo hi = true /\
    (xmin kind tol a b c lo hi * (1 - eps) <= ox)%Q /\ (ox <= hi * (1 + eps))%Q.
Proof. exact elem_check_sound. Qed.
Print Assumptions C11_magnitude_check_sound.

(** ** The meaning of the option [tol] (fixed-point method): an absolute stopping distance.
    For the scalar system x = a x + c (grammar X -> c | a X) with 0 <= a < 1, the iterate at
    which the loop of fixed_point stops (distance to the next iterate <= tol) lies within
    tol / (1 - a) below the least fixed point c / (1 - a), whatever the magnitude of the values. *)
Require Import Fggs.Model.Tolerance Fggs.Proofs.Tolerance_proofs.
From Coq Require Import QArith.

Theorem C11_fixed_point_stop_bound :
  forall a c : Q, (0 <= a)%Q -> (a < 1)%Q -> (0 <= c)%Q ->
  forall k tol, (Tolerance.iter a c (S k) - Tolerance.iter a c k <= tol)%Q ->
    (xstar a c - tol / (1 - a) <= Tolerance.iter a c k)%Q /\ (Tolerance.iter a c k <= xstar a c)%Q.
Proof. exact stop_bound. Qed.
Print Assumptions C11_fixed_point_stop_bound.

(** the check function accepts the exact iterate at which the loop stops ... *)
Theorem C11_tol_check_sound :
  forall a c tol k, (0 <= a)%Q -> (a < 1)%Q -> (0 <= c)%Q -> (0 <= tol)%Q ->
    (Tolerance.iter a c (S k) - Tolerance.iter a c k <= tol)%Q ->
    tol_check (a, c, tol, 0%Q, Tolerance.iter a c k) = 0%nat.
Proof. exact tol_check_sound. Qed.
Print Assumptions C11_tol_check_sound.

(** ... and rejects every value further below the fixed point than the bound plus the rounding allowance *)
Theorem C11_tol_check_rejects :
  forall a c tol delta obs, (0 <= a)%Q -> (a < 1)%Q -> (0 <= c)%Q -> (0 <= tol)%Q ->
    (obs < xstar a c - tol / (1 - a) - delta)%Q ->
    tol_check (a, c, tol, delta, obs) = 1%nat.
Proof. exact tol_check_rejects. Qed.
Print Assumptions C11_tol_check_rejects.
