(** C11 — solver options change cost, never the answer: the relations between semirings. *)
From Coq Require Import List.
Require Import Fggs.Model.Semiring Fggs.Model.SumProduct Fggs.Model.EReal Fggs.Model.CrossSemiring
               Fggs.Proofs.Homomorphism.
Require Import Fggs.Model.SCC Fggs.Proofs.SP_driver Fggs.Proofs.Instances_cross.
Import ListNotations.

(** a semiring homomorphism commutes with every Kleene iterate of the sum-product *)
Theorem C11_homomorphism_commutes :
  forall R R' (o : sr_ops R) (o' : sr_ops R') (h : R -> R'),
    h (zero o) = zero o' -> h (one o) = one o' ->
    (forall a b, h (add o a b) = add o' (h a) (h b)) ->
    (forall a b, h (mul o a b) = mul o' (h a) (h b)) ->
    forall G w k X xi, h (Zk o G w k X xi) = Zk o' G (fun l idx => h (w l idx)) k X xi.
Proof. exact (@hom_Zk). Qed.
Print Assumptions C11_homomorphism_commutes.

(** the Boolean sum-product is the support of the Real one *)
Theorem C11_bool_is_support_of_real :
  forall G w k X xi,
    supp (Zk ereal_ops G w k X xi) = Zk bool_ops G (fun l idx => supp (w l idx)) k X xi.
Proof. exact supp_Zk. Qed.
Print Assumptions C11_bool_is_support_of_real.

(** Viterbi (max-times in the exp reading) never exceeds Real/Log (plus-times); no premise: the
    law records of [ereal_ops] are proved in Proofs/SemiringLaws.v (C08) *)
Theorem C11_viterbi_le_log :
  forall G w k X xi, ele (Zk maxtimes_ops G w k X xi) (Zk ereal_ops G w k X xi).
Proof. exact maxtimes_le_plustimes_closed. Qed.
Print Assumptions C11_viterbi_le_log.

(** * the same relations at the level of what the check functions evaluate *)
(** the tables [Ztab] (the specification [sp_check] tabulates): the Boolean table is the
    support of the Real table, the max-times table is below the plus-times table, cell by cell *)
Theorem C11_bool_is_support_of_real_Ztab :
  forall G W k X xi,
    wf_grammar G = true -> is_term G X = false -> In xi (all_assts (lshape G X)) ->
    env_of bool_ops (Ztab bool_ops G (fun l idx => supp (W l idx)) k) X xi
    = supp (env_of ereal_ops (Ztab ereal_ops G W k) X xi).
Proof. exact supp_Ztab. Qed.
Print Assumptions C11_bool_is_support_of_real_Ztab.

Theorem C11_viterbi_le_log_Ztab :
  forall G W k X xi,
    wf_grammar G = true -> is_term G X = false -> In xi (all_assts (lshape G X)) ->
    ele (env_of maxtimes_ops (Ztab maxtimes_ops G W k) X xi) (env_of ereal_ops (Ztab ereal_ops G W k) X xi).
Proof. exact maxtimes_le_plustimes_Ztab. Qed.
Print Assumptions C11_viterbi_le_log_Ztab.

(** [tmt_supp w]: the weight table of the Boolean run = the support of every cell of [w] *)
Theorem C11_support_weights :
  forall w l idx, env_of bool_ops (tmt_supp w) l idx = supp (env_of ereal_ops w l idx).
Proof. exact env_of_tmt_supp. Qed.
Print Assumptions C11_support_weights.

(** the code-shaped driver (composition with C01, C08, C19): for a well-formed grammar, with the
    component order computed by the Tarjan model, if it passes [nonrecursive_order] (iff the
    grammar is non-recursive), the Boolean run on the supports of the weights returns the support
    of every entry of the Real run *)
Theorem C11_bool_is_support_of_real_sum_products :
  forall G w order X xi,
    wf_grammar G = true -> (forall l, tget w l <> None -> is_term G l = true) ->
    scc (nt_graph G) = Some order -> nonrecursive_order G order = true ->
    is_term G X = false -> In xi (all_assts (lshape G X)) ->
    env_of bool_ops (sum_products_nonrec bool_ops G (tmt_supp w) order) X xi
    = supp (env_of ereal_ops (sum_products_nonrec ereal_ops G w order) X xi).
Proof. exact supp_sum_products_nonrec. Qed.
Print Assumptions C11_bool_is_support_of_real_sum_products.
