(** C11 — solver options change cost, never the answer: the relations between semirings. *)
From Coq Require Import List.
Require Import Fggs.Model.Semiring Fggs.Model.SumProduct Fggs.Model.EReal Fggs.Model.CrossSemiring
               Fggs.Proofs.Homomorphism.

(** a semiring homomorphism commutes with every Kleene iterate of the sum-product *)
Theorem C11_homomorphism_commutes :
  forall R R' (o : sr_ops R) (o' : sr_ops R') (h : R -> R'),
    h (zero o) = zero o' -> h (one o) = one o' ->
    (forall a b, h (add o a b) = add o' (h a) (h b)) ->
    (forall a b, h (mul o a b) = mul o' (h a) (h b)) ->
    forall G w k X xi, h (Zk o G w k X xi) = Zk o' G (fun l idx => h (w l idx)) k X xi.
Proof. exact (@hom_Zk). Qed.
Print Assumptions C11_homomorphism_commutes.

(** the Boolean sum-product is the support of the Real one *)
Theorem C11_bool_is_support_of_real :
  forall G w k X xi,
    supp (Zk ereal_ops G w k X xi) = Zk bool_ops G (fun l idx => supp (w l idx)) k X xi.
Proof. exact supp_Zk. Qed.
Print Assumptions C11_bool_is_support_of_real.

(** Viterbi (max-times in the exp reading) never exceeds Real/Log (plus-times) *)
Theorem C11_viterbi_le_log :
  sr_ring ereal_ops -> sr_ordered ereal_ops ->
  forall G w k X xi, ele (Zk maxtimes_ops G w k X xi) (Zk ereal_ops G w k X xi).
Proof. exact maxtimes_le_plustimes. Qed.
Print Assumptions C11_viterbi_le_log.
