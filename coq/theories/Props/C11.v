(** C11 — solver options change cost, never the answer: the relations between semirings. *)
From Coq Require Import List.
Require Import Fggs.Model.Semiring Fggs.Model.SumProduct Fggs.Model.EReal Fggs.Model.CrossSemiring
               Fggs.Proofs.Homomorphism.
Require Import Fggs.Model.SCC Fggs.Proofs.SP_driver Fggs.Proofs.Instances_cross.
Import ListNotations.

(** a semiring homomorphism commutes with every Kleene iterate of the sum-product *)
Theorem C11_homomorphism_commutes :
  forall R R' (o : sr_ops R) (o' : sr_ops R') (h : R -> R'),
    h (zero o) = zero o' -> h (one o) = one o' ->
    (forall a b, h (add o a b) = add o' (h a) (h b)) ->
    (forall a b, h (mul o a b) = mul o' (h a) (h b)) ->
    forall G w k X xi, h (Zk o G w k X xi) = Zk o' G (fun l idx => h (w l idx)) k X xi.
Proof. exact (@hom_Zk). Qed.
Print Assumptions C11_homomorphism_commutes.

(** the Boolean sum-product is the support of the Real one *)
Theorem C11_bool_is_support_of_real :
  forall G w k X xi,
    supp (Zk ereal_ops G w k X xi) = Zk bool_ops G (fun l idx => supp (w l idx)) k X xi.
Proof. exact supp_Zk. Qed.
Print Assumptions C11_bool_is_support_of_real.

(** Viterbi (max-times in the exp reading) never exceeds Real/Log (plus-times); no premise: the
    law records of [ereal_ops] are proved in Proofs/SemiringLaws.v (C08) *)
Theorem C11_viterbi_le_log :
  forall G w k X xi, ele (Zk maxtimes_ops G w k X xi) (Zk ereal_ops G w k X xi).
Proof. exact maxtimes_le_plustimes_closed. Qed.
Print Assumptions C11_viterbi_le_log.

(** * the same relations at the level of what the check functions evaluate *)
(** the tables [Ztab] (the specification [sp_check] tabulates): the Boolean table is the
    support of the Real table, the max-times table is below the plus-times table, cell by cell *)
Theorem C11_bool_is_support_of_real_Ztab :
  forall G W k X xi,
    wf_grammar G = true -> is_term G X = false -> In xi (all_assts (lshape G X)) ->
    env_of bool_ops (Ztab bool_ops G (fun l idx => supp (W l idx)) k) X xi
    = supp (env_of ereal_ops (Ztab ereal_ops G W k) X xi).
Proof. exact supp_Ztab. Qed.
Print Assumptions C11_bool_is_support_of_real_Ztab.

Theorem C11_viterbi_le_log_Ztab :
  forall G W k X xi,
    wf_grammar G = true -> is_term G X = false -> In xi (all_assts (lshape G X)) ->
    ele (env_of maxtimes_ops (Ztab maxtimes_ops G W k) X xi) (env_of ereal_ops (Ztab ereal_ops G W k) X xi).
Proof. exact maxtimes_le_plustimes_Ztab. Qed.
Print Assumptions C11_viterbi_le_log_Ztab.

(** [tmt_supp w]: the weight table of the Boolean run = the support of every cell of [w] *)
Theorem C11_support_weights :
  forall w l idx, env_of bool_ops (tmt_supp w) l idx = supp (env_of ereal_ops w l idx).
Proof. exact env_of_tmt_supp. Qed.
Print Assumptions C11_support_weights.

(** the code-shaped driver (composition with C01, C08, C19): for a well-formed grammar, with the
    component order computed by the Tarjan model, if it passes [nonrecursive_order] (iff the
    grammar is non-recursive), the Boolean run on the supports of the weights returns the support
    of every entry of the Real run *)
Theorem C11_bool_is_support_of_real_sum_products :
  forall G w order X xi,
    wf_grammar G = true -> (forall l, tget w l <> None -> is_term G l = true) ->
    scc (nt_graph G) = Some order -> nonrecursive_order G order = true ->
    is_term G X = false -> In xi (all_assts (lshape G X)) ->
    env_of bool_ops (sum_products_nonrec bool_ops G (tmt_supp w) order) X xi
    = supp (env_of ereal_ops (sum_products_nonrec ereal_ops G w order) X xi).
Proof. exact supp_sum_products_nonrec. Qed.
Print Assumptions C11_bool_is_support_of_real_sum_products.

(** ** Magnitudes: components whose values are tiny or huge relative to [tol]
    (scalar systems x = F(x) = c x^2 + a x + b, a, b, c >= 0; Model/Magnitude.v).
    An accepted certificate [lo, hi] encloses the least solution: [lo] is below every nonnegative
    pre-fixed point, [hi] above every Kleene iterate. *)
Require Import Fggs.Model.Magnitude Fggs.Proofs.Magnitude_proofs.
From Coq Require Import QArith.

Theorem C11_certificate_encloses_least_solution :
  forall a b c lo hi, cert_ok a b c lo hi = true ->
    (forall y, (0 <= y)%Q -> (qF a b c y <= y)%Q -> (lo <= y)%Q) /\ (forall k, (qiter a b c k <= hi)%Q).
Proof. exact cert_ok_encloses. Qed.
Print Assumptions C11_certificate_encloses_least_solution.

(** the stopping test F(x0) - x0 <= tol at an iterate x0 below a solution xs with F'(xs) <= L < 1:
    newton, which returns at least F(x0), is within tol*L/(1-L) of xs ... *)
Theorem C11_newton_stop_bound :
  forall a b c : Q, (0 <= a)%Q -> (0 <= c)%Q ->
  forall xs x0 L tol, (xs == qF a b c xs)%Q -> (0 <= x0)%Q -> (x0 <= xs)%Q -> (qL a c xs <= L)%Q -> (L < 1)%Q ->
    (qF a b c x0 - x0 <= tol)%Q -> (xs - qF a b c x0 <= tol * L / (1 - L))%Q.
Proof. exact newton_stop_bound. Qed.
Print Assumptions C11_newton_stop_bound.

(** ... fixed-point, which returns x0, within tol/(1-L) ... *)
Theorem C11_fixed_point_stop_bound_quadratic :
  forall a b c : Q, (0 <= c)%Q ->
  forall xs x0 L tol, (xs == qF a b c xs)%Q -> (x0 <= xs)%Q -> (qL a c xs <= L)%Q -> (L < 1)%Q ->
    (qF a b c x0 - x0 <= tol)%Q -> (xs - x0 <= tol / (1 - L))%Q.
Proof. exact fixed_point_stop_bound. Qed.
Print Assumptions C11_fixed_point_stop_bound_quadratic.

(** ... and the base weight b = F(0), which every method returns at least (every Kleene iterate
    after the first is >= b), is the solution up to the relative error L whatever tol is *)
Theorem C11_base_weight_relative_bound :
  forall a b c : Q, (0 <= c)%Q ->
  forall xs x0 L, (xs == qF a b c xs)%Q -> (0 <= x0)%Q -> (x0 <= xs)%Q -> (qL a c xs <= L)%Q ->
    ((1 - L) * xs <= b)%Q.
Proof. exact base_relative_bound. Qed.
Print Assumptions C11_base_weight_relative_bound.

Theorem C11_base_weight_below_iterates :
  forall a b c : Q, (0 <= a)%Q -> (0 <= b)%Q -> (0 <= c)%Q -> forall k, (b <= qiter a b c (S k))%Q.
Proof. exact base_le_iter. Qed.
Print Assumptions C11_base_weight_below_iterates.

(** the check function rejects (verdict 1) every value below the base weight -- in particular 0 for
    a positive base weight -- whatever the method and tol; an accepted value lies in the interval *)
Theorem C11_value_below_base_weight_rejected :
  forall kind tol eps epsg wg a b c lo hi g mb ox ogb ogg,
    cert_ok a b c lo hi = true -> (0 <= g)%Q -> (0 <= mb)%Q -> (eps < 1)%Q -> (ox < b * (1 - eps))%Q ->
    elem_check kind tol eps epsg wg ((a, b, c), (lo, hi), (g, mb), (ox, ogb, ogg)) = 1%nat.
Proof. exact elem_check_rejects_below_base. Qed.
Print Assumptions C11_value_below_base_weight_rejected.

Theorem C11_magnitude_check_sound :
  forall kind tol eps epsg wg a b c lo hi g mb ox ogb ogg,
    elem_check kind tol eps epsg wg ((a, b, c), (lo, hi), (g, mb), (ox, ogb, ogg)) = 0%nat ->
    cert_ok a b c lo hi = true /\
    (xmin kind tol a b c lo hi * (1 - eps) <= ox)%Q /\ (ox <= hi * (1 + eps))%Q.
Proof. exact elem_check_sound. Qed.
Print Assumptions C11_magnitude_check_sound.

(** ** The meaning of the option [tol] (fixed-point method): an absolute stopping distance.
    For the scalar system x = a x + c (grammar X -> c | a X) with 0 <= a < 1, the iterate at
    which the loop of fixed_point stops (distance to the next iterate <= tol) lies within
    tol / (1 - a) below the least fixed point c / (1 - a), whatever the magnitude of the values. *)
Require Import Fggs.Model.Tolerance Fggs.Proofs.Tolerance_proofs.
From Coq Require Import QArith.

Theorem C11_fixed_point_stop_bound :
  forall a c : Q, (0 <= a)%Q -> (a < 1)%Q -> (0 <= c)%Q ->
  forall k tol, (Tolerance.iter a c (S k) - Tolerance.iter a c k <= tol)%Q ->
    (xstar a c - tol / (1 - a) <= Tolerance.iter a c k)%Q /\ (Tolerance.iter a c k <= xstar a c)%Q.
Proof. exact stop_bound. Qed.
Print Assumptions C11_fixed_point_stop_bound.

(** the check function accepts the exact iterate at which the loop stops ... *)
Theorem C11_tol_check_sound :
  forall a c tol k, (0 <= a)%Q -> (a < 1)%Q -> (0 <= c)%Q -> (0 <= tol)%Q ->
    (Tolerance.iter a c (S k) - Tolerance.iter a c k <= tol)%Q ->
    tol_check (a, c, tol, 0%Q, Tolerance.iter a c k) = 0%nat.
Proof. exact tol_check_sound. Qed.
Print Assumptions C11_tol_check_sound.

(** ... and rejects every value further below the fixed point than the bound plus the rounding allowance *)
Theorem C11_tol_check_rejects :
  forall a c tol delta obs, (0 <= a)%Q -> (a < 1)%Q -> (0 <= c)%Q -> (0 <= tol)%Q ->
    (obs < xstar a c - tol / (1 - a) - delta)%Q ->
    tol_check (a, c, tol, delta, obs) = 1%nat.
Proof. exact tol_check_rejects. Qed.
Print Assumptions C11_tol_check_rejects.

(** ** The meaning of [tol] for VECTOR / BLOCK systems  x = A x + c  over Q^n: entries >= 0,
    max-row-sum norm ||A|| <= a < 1 ([rowsum r <= a] for every row), Kleene iteration
    [viter A c k] from 0.  [vle x y]: x <= y componentwise; [vle_off t x y]: x <= y + t
    componentwise; [veq]: == componentwise.  (Model/Tolerance.v; Proofs/Tolerance_vec.v,
    Proofs/Tolerance_stop.v; satisfiability of the hypotheses: Proofs/Tolerance_examples.v.) *)
Require Import Fggs.Proofs.Tolerance_vec Fggs.Proofs.Tolerance_stop Fggs.Proofs.Kleene_control.

(** comparison principle: every sub-solution is below every super-solution; hence a fixed point
    [mu] is unique and is the LEAST pre-fixed point (no sign condition on y) *)
Theorem C11_vector_fixed_point_least :
  forall (A : list (list Q)) (c : list Q) (a : Q),
    Forall (Forall (fun q => 0 <= q)%Q) A -> Forall (fun r => rowsum r <= a)%Q A ->
    (0 <= a)%Q -> (a < 1)%Q -> length A = length c ->
    forall mu, veq mu (vstep A c mu) ->
    forall y, length y = length c -> vle (vstep A c y) y -> vle mu y.
Proof. exact vfix_least. Qed.
Print Assumptions C11_vector_fixed_point_least.

Theorem C11_vector_fixed_point_unique :
  forall (A : list (list Q)) (c : list Q) (a : Q),
    Forall (Forall (fun q => 0 <= q)%Q) A -> Forall (fun r => rowsum r <= a)%Q A ->
    (0 <= a)%Q -> (a < 1)%Q -> length A = length c ->
    forall mu, veq mu (vstep A c mu) -> forall mu', veq mu' (vstep A c mu') -> veq mu mu'.
Proof. exact vfix_unique. Qed.
Print Assumptions C11_vector_fixed_point_unique.

(** the code's test [vclose tol x_k x_{k+1}] (every component within tol, absolute, symmetric)
    at pass k implies  x_k <= mu <= x_k + tol/(1-a)  for the iterate fixed_point returns, and
    x_{k+1} <= mu <= x_{k+1} + a tol/(1-a)  for the next one -- whatever the magnitude of c.
    Sharp: for n = 1 the gap is exactly (x_{k+1} - x_k)/(1-a) (Tolerance_proofs.gap). *)
Theorem C11_vector_stop_bound :
  forall (A : list (list Q)) (c : list Q) (a : Q),
    Forall (Forall (fun q => 0 <= q)%Q) A -> Forall (fun r => rowsum r <= a)%Q A ->
    (0 <= a)%Q -> (a < 1)%Q -> length A = length c -> Forall (fun q => 0 <= q)%Q c ->
    forall mu, veq mu (vstep A c mu) ->
    forall k tol, (0 <= tol)%Q -> vclose tol (viter A c k) (viter A c (S k)) = true ->
      vle (viter A c k) mu /\ vle_off (tol / (1 - a)) mu (viter A c k) /\
      vle (viter A c (S k)) mu /\ vle_off (a * (tol / (1 - a))) mu (viter A c (S k)).
Proof. exact vstop_bound_test. Qed.
Print Assumptions C11_vector_stop_bound.

(** MultiTensor.allclose on block representations (absent block = the semiring's zero [z],
    compared with [allclose_default]; present blocks entry by entry; equal infinities close, an
    infinity far from everything else) is the entrywise test on the dense readings, whichever
    blocks are materialised *)
Theorem C11_allclose_is_dense_test :
  forall z tol shapes X Y,
    xclose tol z z = true -> wf_blocks shapes X = true -> wf_blocks shapes Y = true ->
    mt_close z tol X Y = forall2b (xclose tol) (dense z shapes X) (dense z shapes Y).
Proof. exact mt_close_dense. Qed.
Print Assumptions C11_allclose_is_dense_test.

(** termination: the test fires at every pass K with a^K C <= tol (C bounds the entries of c) ... *)
Theorem C11_vector_test_fires :
  forall (A : list (list Q)) (c : list Q) (a : Q),
    Forall (Forall (fun q => 0 <= q)%Q) A -> Forall (fun r => rowsum r <= a)%Q A ->
    (0 <= a)%Q -> length A = length c -> Forall (fun q => 0 <= q)%Q c ->
    forall C K tol, (0 <= C)%Q -> Forall (fun q => q <= C)%Q c -> (qpow a K * C <= tol)%Q ->
      vclose tol (viter A c K) (viter A c (S K)) = true.
Proof. exact vtest_fires. Qed.
Print Assumptions C11_vector_test_fires.

(** ... in particular for the explicit K = pass_bound a tol C = ceil((C - tol)/(tol (1 - a))) *)
Theorem C11_pass_bound_ok :
  forall a tol C, (0 <= a)%Q -> (a < 1)%Q -> (0 < tol)%Q -> (0 <= C)%Q ->
    (qpow a (pass_bound a tol C) * C <= tol)%Q.
Proof. exact pass_bound_ok. Qed.
Print Assumptions C11_pass_bound_ok.

(** the loop of fixed_point (the model of C02: [fixed_point_loop]) run on x |-> A x + c from 0
    with the code's test: with kmax >= K it does not warn, stops at a pass k <= K and returns
    x_k with  x_k <= mu <= x_k + tol/(1-a) *)
Theorem C11_vector_fixed_point_run :
  forall (A : list (list Q)) (c : list Q) (a : Q),
    Forall (Forall (fun q => 0 <= q)%Q) A -> Forall (fun r => rowsum r <= a)%Q A ->
    (0 <= a)%Q -> (a < 1)%Q -> length A = length c -> Forall (fun q => 0 <= q)%Q c ->
    forall mu, veq mu (vstep A c mu) ->
    forall C K tol kmax,
      (0 <= C)%Q -> Forall (fun q => q <= C)%Q c -> (qpow a K * C <= tol)%Q -> (K <= kmax)%nat ->
      exists k, (k <= K)%nat /\
        fixed_point_loop (vstep A c) (vclose tol) kmax (vzero (length c))
          = Some (viter A c k, viter A c (S k), false) /\
        vle (viter A c k) mu /\ vle_off (tol / (1 - a)) mu (viter A c k).
Proof. exact vfixed_point_run. Qed.
Print Assumptions C11_vector_fixed_point_run.

(** the same loop on MultiTensor-like block representations, started from the EMPTY MultiTensor
    (every block absent) with MultiTensor.allclose as the test: for any implementation [FR] of
    x |-> A x + c on representations, whichever blocks it materialises *)
Theorem C11_block_fixed_point_run :
  forall (A : list (list Q)) (c : list Q) (a : Q),
    Forall (Forall (fun q => 0 <= q)%Q) A -> Forall (fun r => rowsum r <= a)%Q A ->
    (0 <= a)%Q -> (a < 1)%Q -> length A = length c -> Forall (fun q => 0 <= q)%Q c ->
    forall mu, veq mu (vstep A c mu) ->
    forall shapes (FR : list block -> list block) C K tol kmax,
      fold_right Nat.add 0%nat shapes = length c ->
      (forall X x, represents shapes X x -> represents shapes (FR X) (vstep A c x)) ->
      (0 <= C)%Q -> Forall (fun q => q <= C)%Q c -> (qpow a K * C <= tol)%Q -> (K <= kmax)%nat ->
      exists k Y0 Y1, (k <= K)%nat /\
        fixed_point_loop FR (mt_close (XFin 0) tol) kmax (repeat None (length shapes)) = Some (Y0, Y1, false) /\
        represents shapes Y0 (viter A c k) /\ represents shapes Y1 (viter A c (S k)) /\
        vle (viter A c k) mu /\ vle_off (tol / (1 - a)) mu (viter A c k).
Proof. exact mt_fixed_point_run. Qed.
Print Assumptions C11_block_fixed_point_run.

(** the check function [vtol_check] (a = mnorm A computed, mu verified to be a fixed point)
    accepts the exact iterate at which the loop stops and rejects every vector with a component
    further below the fixed point than the bound plus the rounding allowance *)
Theorem C11_vtol_check_sound :
  forall A c mu tol k,
    Forall (Forall (fun q => 0 <= q)%Q) A -> Forall (fun q => 0 <= q)%Q c -> (0 <= tol)%Q -> (mnorm A < 1)%Q ->
    length A = length c -> veq mu (vstep A c mu) ->
    vclose tol (viter A c k) (viter A c (S k)) = true ->
    vtol_check (A, c, mu, tol, 0%Q, viter A c k) = 0%nat.
Proof. exact vtol_check_sound. Qed.
Print Assumptions C11_vtol_check_sound.

Theorem C11_vtol_check_rejects :
  forall A c mu tol delta obs,
    vguard A c mu tol obs = true -> veq mu (vstep A c mu) ->
    Exists (fun mo => snd mo < fst mo - tol / (1 - mnorm A) - delta)%Q (combine mu obs) ->
    vtol_check (A, c, mu, tol, delta, obs) = 1%nat.
Proof. exact vtol_check_rejects. Qed.
Print Assumptions C11_vtol_check_rejects.

(** ** NONLINEAR monotone systems.  Abstract form: F maps an invariant set below the fixed point
    mu into itself, is monotone there, and contracts towards mu from below with factor a < 1
    in the one-sided max norm; then the iterate at which the stopping distance is reached is
    within tol/(1-a) below mu (and the next one within a tol/(1-a)). *)
Require Import Fggs.Proofs.Tolerance_poly.

Theorem C11_monotone_stop_bound :
  forall (F : list Q -> list Q) (Inv : list Q -> Prop) (mu x0 : list Q) (a : Q),
    (0 <= a)%Q -> (a < 1)%Q -> veq mu (F mu) ->
    (forall x, Inv x -> vle x mu -> Inv (F x)) ->
    (forall x, Inv x -> vle x mu -> vle (F x) (F mu)) ->
    (forall t x, (0 <= t)%Q -> Inv x -> vle x mu -> vle_off t mu x -> vle_off (a * t) (F mu) (F x)) ->
    vle x0 mu -> Inv x0 ->
    forall k tol, (0 <= tol)%Q -> vle_off tol (iter (S k) F x0) (iter k F x0) ->
      vle (iter k F x0) mu /\ vle_off (tol / (1 - a)) mu (iter k F x0) /\
      vle_off (a * (tol / (1 - a))) mu (iter (S k) F x0).
Proof. exact nl_stop_bound. Qed.
Print Assumptions C11_monotone_stop_bound.

(** polynomial systems over Q^n with non-negative coefficients ([pstep sys], Kleene iterates
    [piter sys k] from 0): if [mu] is a non-negative fixed point at which every row sum of the
    Jacobian ([dpoly_sum mu p]) is <= a < 1, the iterate at which the code's test fires satisfies
    x_k <= mu <= x_k + tol/(1-a)  (below mu the Jacobian is smaller: mean-value inequality with
    the derivative taken at mu, [mono_val_taylor]) *)
Theorem C11_poly_stop_bound :
  forall (sys : list (list (Q * list nat))) (mu : list Q) (a : Q),
    Forall (Forall (fun m => 0 <= fst m)%Q) sys -> Forall (fun p => dpoly_sum mu p <= a)%Q sys ->
    (0 <= a)%Q -> (a < 1)%Q -> veq mu (pstep sys mu) ->
    forall k tol, vle (vzero (length sys)) mu -> (0 <= tol)%Q ->
      vclose tol (piter sys k) (piter sys (S k)) = true ->
      vle (piter sys k) mu /\ vle_off (tol / (1 - a)) mu (piter sys k) /\
      vle_off (a * (tol / (1 - a))) mu (piter sys (S k)).
Proof. exact poly_stop_bound. Qed.
Print Assumptions C11_poly_stop_bound.

(** ** The cross-semiring relations at LEAST FIXED POINTS / certified enclosures of recursive
    grammars (Proofs/Cross_lfp.v: composition with C02's Kleene, Park and enclosure theorems) *)
Require Import Fggs.Model.Kleene Fggs.Proofs.SP_mono Fggs.Proofs.Cross_lfp.

(** Bool = support of Real at the least fixed point: the Boolean least fixed point B (reached by
    the Boolean Kleene chain after k <= #cells passes) is the support of the k-th Real Kleene
    iterate and contains the support of every Real iterate, i.e. it is the support of the
    supremum of the Real chain *)
Theorem C11_bool_lfp_is_support_of_real_lfp :
  forall G (w : env (R:=ereal)),
  wf_grammar G = true ->
  exists k, (k <= length (flat_map (fun X => map (pair X) (all_assts (lshape G X))) (nonterminals G)))%nat /\
    let sw := fun l idx => supp (w l idx) in
    let B := Zk bool_ops G sw k in
    env_eq_on G (step bool_ops G sw B) B /\
    (forall v : env (R:=bool), env_le_on bool_ops G (step bool_ops G sw v) v -> env_le_on bool_ops G B v) /\
    (forall X xi, supp (Zk ereal_ops G w k X xi) = B X xi) /\
    (forall j X xi, In X (nonterminals G) -> In xi (all_assts (lshape G X)) ->
                    le bool_ops (supp (Zk ereal_ops G w j X xi)) (B X xi)).
Proof. exact supp_lfp. Qed.
Print Assumptions C11_bool_lfp_is_support_of_real_lfp.

(** Viterbi <= Log at certified enclosures: every max-times Kleene iterate (hence the Viterbi
    least fixed point, their supremum) is below the upper end of every certified Real enclosure *)
Theorem C11_viterbi_below_real_enclosure :
  forall G w K lo u,
  wf_grammar G = true ->
  enclosure ereal_ops rd_real infl_real eleb G w K = Some (lo, u) ->
  forall k X xi, In X (nonterminals G) -> In xi (all_assts (lshape G X)) ->
    ele (Zk maxtimes_ops G w k X xi) (env_of ereal_ops u X xi).
Proof. exact maxtimes_below_real_enclosure. Qed.
Print Assumptions C11_viterbi_below_real_enclosure.

(** ... and below every pre-fixed point of the Real equations, in particular the Real least
    fixed point wherever it exists as an element of the carrier *)
Theorem C11_viterbi_below_real_prefix :
  forall G w (v : env (R:=ereal)),
  wf_grammar G = true ->
  (forall X xi, In X (nonterminals G) -> In xi (all_assts (lshape G X)) -> ele (step ereal_ops G w v X xi) (v X xi)) ->
  forall k X xi, In X (nonterminals G) -> In xi (all_assts (lshape G X)) ->
    ele (Zk maxtimes_ops G w k X xi) (v X xi).
Proof. exact maxtimes_below_real_prefix. Qed.
Print Assumptions C11_viterbi_below_real_prefix.
