(** C14 -- JSON serialisation round-trips grammars and weights.  (placeholder, filled in below) *)
From Coq Require Import List Arith Bool ZArith.
Import ListNotations.
Require Import Fggs.Model.Json.

Theorem C14_placeholder : att_index [1; 2] (JInt (-1)%Z) = Ok 2.
Proof. reflexivity. Qed.
Print Assumptions C14_placeholder.
