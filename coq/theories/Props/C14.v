(** C14 -- JSON serialisation round-trips grammars and weights.
    Only property theorems live here, each closed by [exact] and followed by Print Assumptions.
    Model: Model/Json.v (follows fggs/formats.py statement by statement).
    [dec : nat -> str] is the oracle argument "decimal string of the address of implicit id n";
    every theorem quantifies over all of them. *)
From Coq Require Import List Arith Bool ZArith Permutation.
Import ListNotations.
Require Import Fggs.Model.Json.
Require Import Fggs.Proofs.Json_base Fggs.Proofs.Json_iso Fggs.Proofs.Json_rule Fggs.Proofs.Json_roundtrip
               Fggs.Proofs.Json_oor Fggs.Proofs.Json_dense Fggs.Proofs.Json_wparse Fggs.Proofs.Json_weights
               Fggs.Proofs.Json_findings Fggs.Proofs.Json_fgg Fggs.Proofs.Json_count.

(** * (A) round trip up to renaming of implicit ids
    [hrg_iso g g']: same start; the edge-label tables are the same map name -> label (so same
    labels and types); the same left-hand sides in the same order and, for each, the rule lists
    pairwise isomorphic in order; a rule isomorphism is a one-to-one pairing of the nodes that
    preserves labels, is the identity on explicit ids (see [C14_iso_identity_on_explicit_ids]),
    maps [ext] position by position, and a one-to-one pairing of the edges that preserves labels,
    explicit ids and attachments position by position. *)
Theorem C14_roundtrip_iso :
  forall (dec : nat -> str) (g : hrg) (c : nat),
    wf_hrg g = true ->
    exists j g', hrg_to_json_model dec g = Ok j /\ json_to_hrg_model c j = Ok g' /\ hrg_iso g g'.
Proof. exact roundtrip_iso. Qed.
Print Assumptions C14_roundtrip_iso.

(** what [hrg_iso] gives: rules isomorphic in [all_rules] order and per left-hand side *)
Theorem C14_iso_all_rules :
  forall g g', hrg_iso g g' -> Forall2 rule_iso (all_rules g) (all_rules g').
Proof. exact hrg_iso_all_rules. Qed.
Print Assumptions C14_iso_all_rules.

Theorem C14_iso_rules_of :
  forall g g' lhs, hrg_iso g g' ->
    Forall2 rule_iso (rules_of (h_rules g) lhs) (rules_of (h_rules g') lhs).
Proof. exact hrg_iso_rules_of. Qed.
Print Assumptions C14_iso_rules_of.

(** the node pairing of an isomorphism is a bijection ... *)
Theorem C14_iso_pairing_functional :
  forall ns ns' v v1 v2, NoDup (map n_id ns) -> paired ns ns' v v1 -> paired ns ns' v v2 -> v1 = v2.
Proof. exact paired_functional. Qed.
Print Assumptions C14_iso_pairing_functional.

Theorem C14_iso_pairing_injective :
  forall ns ns' v1 v2 v', NoDup (map n_id ns') -> paired ns ns' v1 v' -> paired ns ns' v2 v' -> v1 = v2.
Proof. exact paired_injective. Qed.
Print Assumptions C14_iso_pairing_injective.

(** ... and the identity on nodes whose id is explicit *)
Theorem C14_iso_identity_on_explicit_ids :
  forall ns ns' v v' s, Forall2 node_match ns ns' -> paired ns ns' v v' -> n_id v = Explicit s -> v' = v.
Proof. exact paired_explicit_fixed. Qed.
Print Assumptions C14_iso_identity_on_explicit_ids.

(** the executable checker that judges every round-tripped grammar of the implementation is sound *)
Theorem C14_iso_oracle_sound :
  forall g g' perms, hrg_iso_b g g' perms = true -> hrg_iso g g'.
Proof. exact hrg_iso_b_sound. Qed.
Print Assumptions C14_iso_oracle_sound.

(** * (A) repeated rules: an HRG is a list of rules per left-hand side; a rule that occurs twice (the
    same object added twice, an equal copy with identical explicit ids) is kept twice.  The round trip
    keeps the number of rules of every left-hand side and in total (nothing in [wf_hrg] forbids equal
    rules: [dup_hrg_wf], [dup_hrg_roundtrip] in Proofs/Json_count.v) ... *)
Theorem C14_roundtrip_rule_counts :
  forall (dec : nat -> str) (g : hrg) (c : nat),
    wf_hrg g = true ->
    exists j g', hrg_to_json_model dec g = Ok j /\ json_to_hrg_model c j = Ok g' /\
      (forall lhs, length (rules_of (h_rules g') lhs) = length (rules_of (h_rules g) lhs)) /\
      length (all_rules g') = length (all_rules g).
Proof. exact roundtrip_rule_counts. Qed.
Print Assumptions C14_roundtrip_rule_counts.

(** ... and the oracle rejects, for EVERY witness it is handed, a result in which some left-hand side
    has lost or gained a rule (partial completeness of [hrg_iso_b]: a dropped duplicate is verdict 1 of
    [c14_fgg_check] whatever the harness' search for bijections did); second form: as the check applies
    it, after [align_rules] *)
Theorem C14_iso_oracle_rejects_count_mismatch :
  forall g g' perms lhs,
    length (rules_of (h_rules g) lhs) <> length (rules_of (h_rules g') lhs) -> hrg_iso_b g g' perms = false.
Proof. exact iso_oracle_rejects_count_mismatch. Qed.
Print Assumptions C14_iso_oracle_rejects_count_mismatch.

Theorem C14_check_rejects_dropped_rule :
  forall g g' perms lhs,
    wf_hrg g = true -> In lhs (map fst (h_rules g)) ->
    length (rules_of (h_rules g) lhs) <> length (rules_of (h_rules g') lhs) ->
    hrg_iso_b g (align_rules g g') perms = false.
Proof. exact check_rejects_dropped_rule. Qed.
Print Assumptions C14_check_rejects_dropped_rule.

(** * (A) second round trip, all ids explicit
    [json_to_hrg (hrg_to_json g)] written out again gives the same "terminals", "start" and "rules"
    sections, and the same "nonterminals" entries with the start symbol moved to the front (the new
    grammar was created as [HRG(start)]); dict order is the only difference. *)
Theorem C14_second_roundtrip :
  forall (dec dec' : nat -> str) (g : hrg) (c : nat),
    wf_hrg g = true -> all_explicit g = true ->
    exists jrs g',
      hrg_to_json_model dec g = Ok (hrg_json (terminals g) (nonterminals g) (el_name (h_start g)) jrs) /\
      json_to_hrg_model c (hrg_json (terminals g) (nonterminals g) (el_name (h_start g)) jrs) = Ok g' /\
      hrg_to_json_model dec' g' =
        Ok (hrg_json (terminals g) (h_start g :: filter (neq_start (h_start g)) (nonterminals g))
                     (el_name (h_start g)) jrs).
Proof. exact second_roundtrip. Qed.
Print Assumptions C14_second_roundtrip.

(** verbatim, when the start symbol is the first nonterminal of the label table (true of every
    grammar built as [HRG(start)] whose start was not reassigned later) *)
Theorem C14_second_roundtrip_verbatim :
  forall (dec dec' : nat -> str) (g : hrg) (c : nat),
    wf_hrg g = true -> all_explicit g = true ->
    (exists rest, nonterminals g = h_start g :: rest) ->
    exists j g', hrg_to_json_model dec g = Ok j /\ json_to_hrg_model c j = Ok g' /\
                 hrg_to_json_model dec' g' = Ok j.
Proof. exact second_roundtrip_verbatim. Qed.
Print Assumptions C14_second_roundtrip_verbatim.

(** * (A) out-of-range attachment / external node numbers
    (after the repair of F10 in /repo, commit 2f3a5c1: negative numbers no longer wrap around)
    A document that json_to_hrg accepts contains no attachment or external node number outside
    0..n-1 (n = number of nodes of that rule), negative numbers included ... *)
Theorem C14_out_of_range_rejected :
  forall c j g, json_to_hrg_model c j = Ok g -> has_oor j = false.
Proof. exact accepted_in_range. Qed.
Print Assumptions C14_out_of_range_rejected.

(** ... and the error is ValueError: at the indexing statement, for every number outside 0..n-1 ... *)
Theorem C14_out_of_range_is_ValueError :
  forall (l : list node) z, oor (length l) z = true -> att_index l (JInt z) = Err ValueErr.
Proof. exact (@att_index_oor node). Qed.
Print Assumptions C14_out_of_range_is_ValueError.

Theorem C14_negative_is_ValueError :
  forall (l : list node) z, (z < 0)%Z -> att_index l (JInt z) = Err ValueErr.
Proof. exact (@att_index_negative node). Qed.
Print Assumptions C14_negative_is_ValueError.

(** ... and in the edge loop of json_to_hrg (the externals loop uses the same [mapM att_index]) *)
Theorem C14_edge_loop_rejects :
  forall tbl nodes je l c seen d la,
    je = JDict d -> dict_find d k_attachments = Some (JList la) ->
    Forall is_int la -> Exists (fun j => num_sat oor (length nodes) j = true) la ->
    parse_edges tbl nodes (je :: l) c seen = Err ValueErr.
Proof. exact parse_edges_rejects. Qed.
Print Assumptions C14_edge_loop_rejects.

(** * (A) patterned weights
    [spec_denote s idx] reads a specification denotationally (gather): decode each virtual
    coordinate into physical coordinates -- an integer names a physical axis (Python indexing,
    negative from the end; all occurrences of one axis must agree: a diagonal), a list is a
    mixed-radix number (most significant first), a dict embeds its term after [before] unbacked
    cells -- and return the physical entry ([expand] axes broadcast), or the default where nothing
    is backed.  A specification without "vaxes" ([ws_vaxes s = None]; accepted since the repair of
    F19, commit fe13a06) has the physical axes as its virtual axes.  The model of json_to_weights
    followed by the strided to_dense (scatter through [Axis.stride] / [project]) computes exactly
    that tensor. *)
Theorem C14_patterned_weights :
  forall s : wspec, wf_wspec s = true ->
    exists pt t,
      json_to_weights_model (wspec_to_json s) = Ok pt /\
      pt_to_dense pt = Ok t /\
      forall idx, in_bounds idx (spec_shape s) -> tens_get t idx = spec_denote s idx.
Proof. exact patterned_weights. Qed.
Print Assumptions C14_patterned_weights.

(** * (A) FGG level: json_to_fgg (fgg_to_json g), for every well-formed FGG
    [wf_fgg g]: the grammar is well formed and the factors satisfy the invariants that [add_factor] /
    [FiniteFactor] enforce (bound to a registered terminal whose node labels have domains; weights
    of the shape of the domains, densifiable).
    The grammar is isomorphic (through [FGG.from_hrg], which keeps the label table since 450bcaa), the
    domains are equal and every factor denotes the same dense tensor entry by entry (whatever its
    sparsity pattern, infinities included; factors with an empty dimension keep their shape since
    38f8bd3). *)
Theorem C14_fgg_roundtrip :
  forall (dec : nat -> str) (g : fgg) (c : nat),
    wf_fgg g ->
    exists j g',
      fgg_to_json_model dec g = Ok j /\ json_to_fgg_model c j = Ok g' /\
      hrg_iso (f_hrg g) (f_hrg g') /\
      f_domains g' = f_domains g /\
      Forall2 (fun kf kf' => fst kf' = fst kf /\ factor_same (snd kf) (snd kf')) (f_factors g) (f_factors g').
Proof. exact fgg_roundtrip. Qed.
Print Assumptions C14_fgg_roundtrip.

(** the behaviour before the repair of F21 (commit 38f8bd3), about the explicitly named old
    definition [json_to_fgg_model_old] (Proofs/Json_findings.v): a finite factor whose weights have
    shape (0, 3) was written as the empty list and read back with shape (0,): ValueError *)
Theorem C14_fgg_roundtrip_empty_domain_refuted :
  forall dec, wf_hrg f21_hrg = true /\
    exists j, fgg_to_json_model dec f21_fgg = Ok j /\ json_to_fgg_model_old 0 j = Err ValueErr.
Proof. exact f21_old_refuted. Qed.
Print Assumptions C14_fgg_roundtrip_empty_domain_refuted.
