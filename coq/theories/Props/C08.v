(** C08 — the four semirings obey the semiring laws on their whole value domain.
    Only property theorems live here, each closed by [exact] and followed by Print Assumptions.
    Levels: (A) exact carriers bool / ereal (Real, and Log read through exp) / trop (Viterbi);
            (B) the code's formulas over exact numbers coincide with the carrier operations;
            (C) binary64 (primitive floats): the laws that are exact on floats, for all values;
            (D) soundness of the executable oracles used by the correspondence check. *)
From Coq Require Import QArith Qabs Qcanon ZArith Bool List Permutation.
From Coq Require Floats.   (* not imported: Print Assumptions then prints the float primitives with their module names *)
Import ListNotations.
Require Import Fggs.Model.FloatOps Fggs.Proofs.FloatLaws.
Require Import Fggs.Model.Semiring Fggs.Model.EReal Fggs.Model.Trop Fggs.Model.SemiringCode
               Fggs.Model.SemiringCheck.
Require Import Fggs.Proofs.SemiringGeneric Fggs.Proofs.SemiringLaws Fggs.Proofs.SemiringCodeLaws
               Fggs.Proofs.SemiringCheckSound.

(* ------------------------------------------------------------------------- *)
(** * (A) exact carriers *)

(** associativity, commutativity, identities, distributivity, annihilation ([sr_ring] is the
    standard library's semi_ring_theory); natural order; star = least solution *)
Theorem C08_laws_exact :
  (sr_ring bool_ops /\ sr_ordered bool_ops /\ sr_star bool_ops) /\
  (sr_ring ereal_ops /\ sr_ordered ereal_ops /\ sr_star ereal_ops) /\
  (sr_ring trop_ops /\ sr_ordered trop_ops /\ sr_star trop_ops).
Proof. exact semiring_laws_all. Qed.
Print Assumptions C08_laws_exact.

(** zero annihilates every element, including +inf in ereal and +inf in trop *)
Theorem C08_annihilation :
  (forall x : bool, mul bool_ops (zero bool_ops) x = zero bool_ops /\ mul bool_ops x (zero bool_ops) = zero bool_ops) /\
  (forall x : ereal, mul ereal_ops (zero ereal_ops) x = zero ereal_ops /\ mul ereal_ops x (zero ereal_ops) = zero ereal_ops) /\
  (forall x : trop, mul trop_ops (zero trop_ops) x = zero trop_ops /\ mul trop_ops x (zero trop_ops) = zero trop_ops).
Proof. exact annihilation_all. Qed.
Print Assumptions C08_annihilation.

Theorem C08_annihilation_infinite :
  (emul PInf (Fin nn0) = Fin nn0 /\ emul (Fin nn0) PInf = Fin nn0) /\
  (tplus NInf TPInf = NInf /\ tplus TPInf NInf = NInf).
Proof. exact (conj emul_inf_0 tplus_ninf_pinf). Qed.
Print Assumptions C08_annihilation_infinite.

(** star x is a solution of y = 1 + x*y and lies below every solution *)
Theorem C08_star_least_solution :
  (forall x : bool, star bool_ops x = add bool_ops (one bool_ops) (mul bool_ops x (star bool_ops x)) /\
       forall y, y = add bool_ops (one bool_ops) (mul bool_ops x y) -> le bool_ops (star bool_ops x) y) /\
  (forall x : ereal, star ereal_ops x = add ereal_ops (one ereal_ops) (mul ereal_ops x (star ereal_ops x)) /\
       forall y, y = add ereal_ops (one ereal_ops) (mul ereal_ops x y) -> le ereal_ops (star ereal_ops x) y) /\
  (forall x : trop, star trop_ops x = add trop_ops (one trop_ops) (mul trop_ops x (star trop_ops x)) /\
       forall y, y = add trop_ops (one trop_ops) (mul trop_ops x y) -> le trop_ops (star trop_ops x) y).
Proof. exact star_least_solution_all. Qed.
Print Assumptions C08_star_least_solution.

(** star one = one in the idempotent semirings, +inf in ereal *)
Theorem C08_star_one :
  star bool_ops (one bool_ops) = one bool_ops /\
  star trop_ops (one trop_ops) = one trop_ops /\
  star ereal_ops (one ereal_ops) = PInf.
Proof. exact star_one_all. Qed.
Print Assumptions C08_star_one.

(** in every idempotent ordered star semiring star one = one (generic) *)
Theorem C08_star_one_idempotent :
  forall (S : Type) (o : sr_ops S), sr_ring o -> sr_ordered o -> sr_star o ->
    add o (one o) (one o) = one o -> star o (one o) = one o.
Proof. exact (fun S o => star_one_idem o). Qed.
Print Assumptions C08_star_one_idempotent.

(** from_int: n |-> 1 + ... + 1 is a semiring homomorphism from the naturals, and the only one *)
Theorem C08_from_nat_unique_hom :
  forall (S : Type) (o : sr_ops S), sr_ring o ->
    from_nat o 0%nat = zero o /\ from_nat o 1%nat = one o /\
    (forall n m, from_nat o (n + m)%nat = add o (from_nat o n) (from_nat o m)) /\
    (forall n m, from_nat o (n * m)%nat = mul o (from_nat o n) (from_nat o m)) /\
    (forall h : nat -> S, h 0%nat = zero o -> h 1%nat = one o ->
        (forall n m, h (n + m)%nat = add o (h n) (h m)) -> forall n, h n = from_nat o n).
Proof. exact from_nat_hom_unique_all. Qed.
Print Assumptions C08_from_nat_unique_hom.

(** sub(x, y) + y = x whenever y <= x *)
Theorem C08_sub_add :
  (forall x y : bool, le bool_ops y x -> add bool_ops (bsub x y) y = x) /\
  (forall x y : ereal, le ereal_ops y x -> add ereal_ops (esub x y) y = x) /\
  (forall x y : trop, le trop_ops y x -> add trop_ops (tsub x y) y = x).
Proof. exact sub_add_all. Qed.
Print Assumptions C08_sub_add.

(** sum = fold of add, independent of the order of summation; add_ accumulates the same sum *)
Theorem C08_sum_fold :
  forall (S : Type) (o : sr_ops S) (l : list S), sum_list o l = fold_right (add o) (zero o) l.
Proof. exact (fun S o => sum_list_fold o). Qed.
Print Assumptions C08_sum_fold.
Theorem C08_sum_perm :
  forall (S : Type) (o : sr_ops S), sr_ring o ->
    forall l1 l2, Permutation l1 l2 -> sum_list o l1 = sum_list o l2.
Proof. exact (fun S o => sum_list_perm o). Qed.
Print Assumptions C08_sum_perm.
Theorem C08_add_inplace_fold :
  forall (S : Type) (o : sr_ops S), sr_ring o ->
    forall l acc, fold_left (add o) l acc = add o acc (sum_list o l).
Proof. exact (fun S o => sum_list_fold_left o). Qed.
Print Assumptions C08_add_inplace_fold.

(* ------------------------------------------------------------------------- *)
(** * (B) the code's formulas *)

(** RealSemiring: mul = nan->0 after *, star = 1/(1-x) masked to inf at x >= 1,
    sub = nan->0 of relu(x - y), from_int = cast *)
Theorem C08_real_code_laws :
  forall lo, sr_ring (real_code_ops lo) /\ sr_ordered (real_code_ops lo) /\ sr_star (real_code_ops lo).
Proof. exact real_code_laws. Qed.
Print Assumptions C08_real_code_laws.

(** LogSemiring in the exp reading, for both values of the numerically motivated branch *)
Theorem C08_log_code_laws :
  forall c hi, sr_ring (log_code_ops c hi) /\ sr_ordered (log_code_ops c hi) /\ sr_star (log_code_ops c hi).
Proof. exact log_code_laws. Qed.
Print Assumptions C08_log_code_laws.

Theorem C08_bool_code_laws :
  sr_ring bool_code_ops /\ sr_ordered bool_code_ops /\ sr_star bool_code_ops.
Proof. exact bool_code_laws. Qed.
Print Assumptions C08_bool_code_laws.

(** ViterbiSemiring as it is now (star = where(x > 0, inf, 0.), after the repair of F2) *)
Theorem C08_viterbi_code_laws :
  sr_ring viterbi_code_ops /\ sr_ordered viterbi_code_ops /\ sr_star viterbi_code_ops.
Proof. exact viterbi_code_laws. Qed.
Print Assumptions C08_viterbi_code_laws.
Theorem C08_viterbi_star_is_least_solution :
  forall x, viterbi_star (xr_of_trop x) = xr_of_trop (tstar x).
Proof. exact viterbi_star_ok. Qed.
Print Assumptions C08_viterbi_star_is_least_solution.

(** Record of finding F2 (repaired in /repo by d2ec7af).  [viterbi_star_old] is the formula the
    code had before (x >= 0 -> inf); it is NOT the model of the current code.  For it the full
    statement [sr_star] is false: star(0) = +inf is a solution of y = max(0, 0 + y) but not the
    least one; the laws hold under the boolean guard x <> 0. *)
Theorem C08_viterbi_star_old_zero_refuted :
  exists x y : trop,
    viterbi_star_old (xr_of_trop x) = xr_of_trop y /\
    y = add trop_ops (one trop_ops) (mul trop_ops x y) /\
    y <> star trop_ops x /\
    ~ (forall z, z = add trop_ops (one trop_ops) (mul trop_ops x z) -> le trop_ops y z).
Proof. exact viterbi_star_old_zero_refuted. Qed.
Print Assumptions C08_viterbi_star_old_zero_refuted.
Theorem C08_viterbi_old_code_star_refuted : ~ sr_star viterbi_old_code_ops.
Proof. exact viterbi_old_code_star_refuted. Qed.
Print Assumptions C08_viterbi_old_code_star_refuted.
Theorem C08_viterbi_old_code_laws_partial :
  sr_ring viterbi_old_code_ops /\ sr_ordered viterbi_old_code_ops /\
  (forall a, star viterbi_old_code_ops a =
             add viterbi_old_code_ops (one viterbi_old_code_ops) (mul viterbi_old_code_ops a (star viterbi_old_code_ops a))) /\
  (forall a b x, viterbi_star_old_guard a = true ->
     le viterbi_old_code_ops (add viterbi_old_code_ops (mul viterbi_old_code_ops a x) b) x ->
     le viterbi_old_code_ops (mul viterbi_old_code_ops (star viterbi_old_code_ops a) b) x).
Proof. exact viterbi_old_code_laws_partial. Qed.
Print Assumptions C08_viterbi_old_code_laws_partial.

(** pointwise: each formula of the code is the carrier operation *)
Theorem C08_code_formulas_are_carrier_ops :
  (forall lo x y, real_mul lo (xr_of_ereal x) (xr_of_ereal y) = xr_of_ereal (emul x y)) /\
  (forall lo x y, real_sub lo (xr_of_ereal x) (xr_of_ereal y) = xr_of_ereal (esub x y)) /\
  (forall x, real_star (xr_of_ereal x) = xr_of_ereal (estar x)) /\
  (forall x y, log_mul (xr_of_ereal x) (xr_of_ereal y) = xr_of_ereal (emul x y)) /\
  (forall c x y, log_sub c (xr_of_ereal x) (xr_of_ereal y) = xr_of_ereal (esub x y)) /\
  (forall c hi x, log_star c hi (xr_of_ereal x) = xr_of_ereal (estar x)) /\
  (forall x y, viterbi_add (xr_of_trop x) (xr_of_trop y) = xr_of_trop (tmax x y)) /\
  (forall x y, viterbi_mul (xr_of_trop x) (xr_of_trop y) = xr_of_trop (tplus x y)) /\
  (forall n, real_from_int n = xr_of_ereal (from_nat ereal_ops n)) /\
  (forall n, log_from_int n = xr_of_ereal (from_nat ereal_ops n)) /\
  (forall n, viterbi_from_int n = xr_of_trop (from_nat trop_ops n)).
Proof.
  exact (conj real_mul_ok (conj real_sub_ok (conj real_star_ok (conj log_mul_ok (conj log_sub_ok
        (conj log_star_ok (conj viterbi_add_ok (conj viterbi_mul_ok (conj real_from_int_ok
        (conj log_from_int_ok viterbi_from_int_ok)))))))))).
Qed.
Print Assumptions C08_code_formulas_are_carrier_ops.

Theorem C08_code_sub_add :
  (forall lo x y, ele y x ->
      real_add (real_sub lo (xr_of_ereal x) (xr_of_ereal y)) (xr_of_ereal y) = xr_of_ereal x) /\
  (forall c x y, ele y x ->
      log_add (log_sub c (xr_of_ereal x) (xr_of_ereal y)) (xr_of_ereal y) = xr_of_ereal x) /\
  (forall x y, tle y x ->
      viterbi_add (viterbi_sub (xr_of_trop x) (xr_of_trop y)) (xr_of_trop y) = xr_of_trop x) /\
  (forall x y : bool, le bool_ops y x -> boolc_add (boolc_sub x y) y = x).
Proof. exact code_sub_add. Qed.
Print Assumptions C08_code_sub_add.

(* ------------------------------------------------------------------------- *)
(** * (C) binary64, all values (Coq primitive floats; the axioms listed by Print Assumptions are
      the specification of the primitives in Coq.Floats.FloatAxioms) *)
Notation fzero := PrimFloat.zero.        Notation fone := PrimFloat.one.
Notation finf := PrimFloat.infinity.     Notation fninf := PrimFloat.neg_infinity.
Notation fnzero := PrimFloat.neg_zero.   Notation fleb := PrimFloat.leb.
Notation fltb := PrimFloat.ltb.          Notation fisnan := PrimFloat.is_nan.
Notation fiszero := PrimFloat.is_zero.

Theorem C08_float_nan_to_num :
  forall x a b c,
    f_nan_to_num x a b c =
    match Floats.FloatOps.Prim2SF x with
    | SpecFloat.S754_nan => a
    | SpecFloat.S754_infinity false => b
    | SpecFloat.S754_infinity true => c
    | _ => x
    end.
Proof. exact f_nan_to_num_spec. Qed.
Print Assumptions C08_float_nan_to_num.
Theorem C08_float_nan_to_num_id :
  forall x a b c, fisnan x = false -> x <> finf -> x <> fninf -> f_nan_to_num x a b c = x.
Proof. exact f_nan_to_num_id. Qed.
Print Assumptions C08_float_nan_to_num_id.

(** 0 * x = x * 0 = 0 in RealSemiring.mul for every x >= 0, +inf included *)
Theorem C08_float_real_mul_zero :
  forall x, fleb fzero x = true -> x <> fnzero -> freal_mul fzero x = fzero /\ freal_mul x fzero = fzero.
Proof. exact (fun x H Hz => conj (freal_mul_zero_l x H Hz) (freal_mul_zero_r x H Hz)). Qed.
Print Assumptions C08_float_real_mul_zero.

(** (-inf) + x = -inf in ViterbiSemiring.mul / LogSemiring.mul for every x, +inf included *)
Theorem C08_float_viterbi_mul_ninf :
  forall x, fvit_mul fninf x = fninf /\ fvit_mul x fninf = fninf.
Proof. exact (fun x => conj (fvit_mul_ninf_l x) (fvit_mul_ninf_r x)). Qed.
Print Assumptions C08_float_viterbi_mul_ninf.

Theorem C08_float_comm :
  (forall x y, freal_add x y = freal_add y x) /\ (forall x y, freal_mul x y = freal_mul y x) /\
  (forall x y, fvit_mul x y = fvit_mul y x).
Proof. exact (conj freal_add_comm (conj freal_mul_comm fvit_mul_comm)). Qed.
Print Assumptions C08_float_comm.

(** maximum on non-NaN values (modulo the sign of zero where stated) *)
Theorem C08_float_max_laws :
  (forall x, f_max x x = x) /\
  (forall x y, fisnan x = false -> fisnan y = false ->
     same_float_mod_zero (f_max x y) (f_max y x) = true) /\
  (forall x y z, fisnan x = false -> fisnan y = false -> fisnan z = false ->
     same_float_mod_zero (f_max x (f_max y z)) (f_max (f_max x y) z) = true) /\
  (forall x, fisnan x = false -> f_max fninf x = x /\ f_max x fninf = x).
Proof.
  exact (conj f_max_idem (conj f_max_comm (conj f_max_assoc
        (fun x H => conj (f_max_ninf_l x H) (f_max_ninf_r x H))))).
Qed.
Print Assumptions C08_float_max_laws.

Theorem C08_float_identities :
  (forall x, x <> fnzero -> freal_add x fzero = x) /\
  (forall x, fisnan x = false -> x <> fnzero -> fvit_mul x fzero = x).
Proof. exact (conj freal_add_zero_r fvit_mul_one_r). Qed.
Print Assumptions C08_float_identities.

Theorem C08_float_real_star :
  (forall x, fleb fone x = true -> freal_star x = finf) /\
  freal_star fzero = fone /\ freal_star fone = finf /\ freal_star finf = finf.
Proof.
  exact (conj freal_star_ge1 (conj (proj1 freal_star_values)
        (conj (proj1 (proj2 freal_star_values)) (proj1 (proj2 (proj2 freal_star_values)))))).
Qed.
Print Assumptions C08_float_real_star.

Theorem C08_float_viterbi_star :
  (forall x, fltb fzero x = true -> fvit_star x = finf) /\
  (forall x, fltb fzero x = false -> fvit_star x = fzero) /\
  fvit_star fzero = fzero /\ fvit_star fnzero = fzero /\
  (forall x, fisnan x = false -> fvit_add fzero (fvit_mul x (fvit_star x)) = fvit_star x).
Proof.
  exact (conj fvit_star_pos (conj fvit_star_nonpos
        (conj (proj1 (proj2 (proj2 (proj2 fvit_star_values))))
        (conj (proj1 (proj2 (proj2 (proj2 (proj2 fvit_star_values))))) fvit_star_solution)))).
Qed.
Print Assumptions C08_float_viterbi_star.

(** record of F2 on floats: the old formula gave star(0.) = +inf although y = 0. solves
    y = max(0., 0. + y); away from zero old and new formula agree *)
Theorem C08_float_viterbi_star_old_zero_refuted :
  fvit_star_old fzero = finf /\ fvit_star_old fnzero = finf /\
  fvit_add fzero (fvit_mul fzero fzero) = fzero /\ fltb fzero (fvit_star_old fzero) = true.
Proof. exact fvit_star_old_zero_refuted. Qed.
Print Assumptions C08_float_viterbi_star_old_zero_refuted.
Theorem C08_float_viterbi_star_old_guarded :
  forall x, fiszero x = false -> fvit_star_old x = fvit_star x.
Proof. exact fvit_star_old_guarded. Qed.
Print Assumptions C08_float_viterbi_star_old_guarded.

(* ------------------------------------------------------------------------- *)
(** * (D) the executable oracles of the correspondence check are sound *)

Theorem C08_law_oracle_sound_real :
  forall n x y z, (n = 10%nat -> ele y x) ->
  let '(l, r, e) := law_table n in
  let X := xr_of_ereal x in let Y := xr_of_ereal y in let Z := xr_of_ereal z in
  lev (oracle_of 0) X Y Z l = lev (oracle_of 0) X Y Z e /\
  lev (oracle_of 0) X Y Z r = lev (oracle_of 0) X Y Z e.
Proof. exact law_oracle_sound_real. Qed.
Print Assumptions C08_law_oracle_sound_real.

Theorem C08_law_oracle_sound_viterbi :
  forall n x y z, (n = 10%nat -> tle y x) ->
  let '(l, r, e) := law_table n in
  let X := xr_of_trop x in let Y := xr_of_trop y in let Z := xr_of_trop z in
  lev (oracle_of 2) X Y Z l = lev (oracle_of 2) X Y Z e /\
  lev (oracle_of 2) X Y Z r = lev (oracle_of 2) X Y Z e.
Proof. exact law_oracle_sound_viterbi. Qed.
Print Assumptions C08_law_oracle_sound_viterbi.

Theorem C08_star_check_sound_viterbi :
  forall x r, c08_star_check (2%nat, x, r) = 0%nat ->
  exists a, trop_of_xr (w_xr x) = Some a /\ accept_x true 4 0 (xr_of_trop (tstar a)) r = true.
Proof. exact star_check_sound_viterbi. Qed.
Print Assumptions C08_star_check_sound_viterbi.

Theorem C08_binop_check_sound_real :
  forall op x y r, c08_binop_check (0%nat, op, x, y, r) = 0%nat ->
  exists a b, ereal_of_xr (w_xr x) = Some a /\ ereal_of_xr (w_xr y) = Some b /\
    accept_x true 1 0
      (xr_of_ereal (match op with 0%nat => eadd a b | 1%nat => emul a b | _ => esub a b end)) r = true.
Proof. exact binop_check_sound_real. Qed.
Print Assumptions C08_binop_check_sound_real.

Theorem C08_binop_check_sound_viterbi :
  forall op x y r, c08_binop_check (2%nat, op, x, y, r) = 0%nat ->
  exists a b, trop_of_xr (w_xr x) = Some a /\ trop_of_xr (w_xr y) = Some b /\
    accept_x true 1 0
      (xr_of_trop (match op with 0%nat => tmax a b | 1%nat => tplus a b | _ => tsub a b end)) r = true.
Proof. exact binop_check_sound_viterbi. Qed.
Print Assumptions C08_binop_check_sound_viterbi.

(** leastness oracle: verdict 0 means the implementation's star(x) lies below the exact solution y *)
Theorem C08_least_check_sound_viterbi :
  forall x y s, c08_least_check (2%nat, x, y, s) = 0%nat ->
  forall a b, trop_of_xr (w_xr x) = Some a -> trop_of_xr (w_xr y) = Some b ->
    b = add trop_ops (one trop_ops) (mul trop_ops a b) ->
    xle (w_xr s) (xr_of_trop b) = true.
Proof. exact least_check_sound_viterbi. Qed.
Print Assumptions C08_least_check_sound_viterbi.

Theorem C08_least_check_sound_real :
  forall x y s, c08_least_check (0%nat, x, y, s) = 0%nat ->
  forall a b, ereal_of_xr (w_xr x) = Some a -> ereal_of_xr (w_xr y) = Some b ->
    b = add ereal_ops (one ereal_ops) (mul ereal_ops a b) ->
    xle (w_xr s) (xr_of_ereal b) = true.
Proof. exact least_check_sound_real. Qed.
Print Assumptions C08_least_check_sound_real.

(* ------------------------------------------------------------------------- *)
(** * (E) the float level for EVERY IEEE-754 binary format (Flocq): binary32 AND binary64

    [ff_*] = the formulas of semirings.py over Flocq's one-NaN [binary_float prec emax],
    round-to-nearest-even (Model/FloatFormat.v); [fp_*] = the same over IEEE floats with NaN
    payloads, for any NaN-choosing function.  All theorems quantify over all values of the
    format and over every [prec], [emax] with [0 < prec < emax].
    These theorems (and only these) rest on Flocq, hence on the standard library's real-number
    assumptions; Print Assumptions lists them, harness/core.py names each one.
    Associativity of + and * and distributivity of * over + are NOT laws of floats: see the
    [_refuted] theorems; they are laws of the exact carriers of part (A) only. *)
Require Import Fggs.Model.FloatFormat Fggs.Proofs.FloatFormatLaws Fggs.Proofs.FloatFormatPayload
               Fggs.Proofs.FloatFormatPrim.

Section FloatFormatStatements.
Variable prec emax : Z.
Variable Hp : Flocq.Core.FLX.Prec_gt_0 prec.
Variable He : SN.Prec_lt_emax prec emax.
Notation bf := (SN.binary_float prec emax).
Notation fadd := (ff_add prec emax Hp He).
Notation fmul := (ff_mul prec emax Hp He).
Notation rmul := (ff_real_mul prec emax Hp He).
Notation vmul := (ff_vit_mul prec emax Hp He).
Notation fmx := (ff_max prec emax).
Notation fle := (ff_leb prec emax).
Notation f0 := (ff_zero prec emax).
Notation f1 := (ff_one prec emax Hp He).
Notation fninf := (ff_ninf prec emax).

(** commutativity of add / mul (bit for bit), hence of Real add/mul and Viterbi/Log mul *)
Definition C08_fmt_comm_stmt := forall x y : bf,
  fadd x y = fadd y x /\ fmul x y = fmul y x /\ rmul x y = rmul y x /\ vmul x y = vmul y x.
(** zero annihilates Real mul: the result is a zero for every x (inf and NaN included, thanks to
    nan_to_num), and +0 unless x carries a minus sign *)
Definition C08_fmt_real_annihilation_stmt := forall x : bf,
  (ff_is_zero prec emax (rmul f0 x) = true /\ ff_is_zero prec emax (rmul x f0) = true) /\
  (SN.Bsign x = false -> rmul f0 x = f0 /\ rmul x f0 = f0).
(** identities: x + 0 = x (x <> -0), x * 1 = x for EVERY x (rounding a representable value),
    Real mul by one on the carrier *)
Definition C08_fmt_identities_stmt := forall x : bf,
  (x <> ff_nzero prec emax -> fadd x f0 = x /\ fadd f0 x = x) /\
  (fmul x f1 = x /\ fmul f1 x = x) /\
  (SN.is_nan x = false -> x <> fninf -> rmul x f1 = x /\ rmul f1 x = x).
(** add and mul are monotone on [0, +inf] (rounding is monotone; overflow to +inf included) *)
Definition C08_fmt_real_monotone_stmt := forall a b c : bf,
  fle f0 a = true -> fle f0 c = true -> fle a b = true ->
  fle (fadd a c) (fadd b c) = true /\ fle (rmul a c) (rmul b c) = true.
(** maximum: idempotent, associative (exactly, NaN included), commutative up to the pair {+0,-0};
    -inf is its identity *)
Definition C08_fmt_max_laws_stmt := forall x y z : bf,
  fmx x x = x /\ fmx (fmx x y) z = fmx x (fmx y z) /\
  (fmx x y = fmx y x \/ (ff_is_zero prec emax x = true /\ ff_is_zero prec emax y = true)) /\
  fmx fninf x = x /\ fmx x fninf = x.
(** Viterbi/Log mul: -inf annihilates every x ((-inf) + (+inf) and NaN included), monotone on the
    whole format, distributes over maximum EXACTLY for non-NaN operands *)
Definition C08_fmt_viterbi_mul_stmt := forall a b c : bf,
  (vmul fninf a = fninf /\ vmul a fninf = fninf) /\
  (fle a b = true -> fle (vmul a c) (vmul b c) = true) /\
  (SN.is_nan a = false -> SN.is_nan b = false ->
     vmul (fmx a b) c = fmx (vmul a c) (vmul b c) /\ vmul c (fmx a b) = fmx (vmul c a) (vmul c b)).
(** Viterbi star law in floats, for every x *)
Definition C08_fmt_viterbi_star_stmt := forall x : bf,
  ff_vit_star prec emax x = fmx (ff_vit_one prec emax) (vmul x (ff_vit_star prec emax x)).
End FloatFormatStatements.

Theorem C08_fmt_comm : forall prec emax Hp He, C08_fmt_comm_stmt prec emax Hp He.
Proof. exact (fun prec emax Hp He => proj1 (ff_laws_hold prec emax Hp He)). Qed.
Print Assumptions C08_fmt_comm.

Theorem C08_fmt_real_annihilation : forall prec emax Hp He, C08_fmt_real_annihilation_stmt prec emax Hp He.
Proof. exact (fun prec emax Hp He x => conj (ff_real_mul_zero_is_zero prec emax Hp He x) (ff_real_mul_zero prec emax Hp He x)). Qed.
Print Assumptions C08_fmt_real_annihilation.

Theorem C08_fmt_identities : forall prec emax Hp He, C08_fmt_identities_stmt prec emax Hp He.
Proof. exact (fun prec emax Hp He x => conj (ff_add_zero prec emax Hp He x) (conj (ff_mul_one prec emax Hp He x) (ff_real_mul_one prec emax Hp He x))). Qed.
Print Assumptions C08_fmt_identities.

Theorem C08_fmt_real_monotone : forall prec emax Hp He, C08_fmt_real_monotone_stmt prec emax Hp He.
Proof. exact (fun prec emax Hp He a b c H1 H2 H3 => conj (ff_add_mono prec emax Hp He a b c H1 H2 H3) (ff_real_mul_mono prec emax Hp He a b c H1 H2 H3)). Qed.
Print Assumptions C08_fmt_real_monotone.

Theorem C08_fmt_max_laws : forall prec emax, C08_fmt_max_laws_stmt prec emax.
Proof. exact (fun prec emax x y z => conj (ff_max_idem prec emax x) (conj (ff_max_assoc prec emax x y z) (conj (ff_max_comm prec emax x y) (ff_max_ninf prec emax x)))). Qed.
Print Assumptions C08_fmt_max_laws.

Theorem C08_fmt_viterbi_mul : forall prec emax Hp He, C08_fmt_viterbi_mul_stmt prec emax Hp He.
Proof.
  exact (fun prec emax Hp He a b c =>
    conj (ff_vit_mul_ninf prec emax Hp He a)
   (conj (ff_vit_mul_mono prec emax Hp He a b c)
         (fun Na Nb => conj (ff_vit_mul_max_distr prec emax Hp He a b c Na Nb)
                            (ff_vit_mul_max_distr_l prec emax Hp He a b c Na Nb)))).
Qed.
Print Assumptions C08_fmt_viterbi_mul.

Theorem C08_fmt_viterbi_star : forall prec emax Hp He, C08_fmt_viterbi_star_stmt prec emax Hp He.
Proof. exact ff_vit_star_unfold. Qed.
Print Assumptions C08_fmt_viterbi_star.

(** the same laws for IEEE floats with NaN payloads, for every NaN-choosing function, stated up
    to "both sides NaN" ([fp_same]; the bundle [fp_laws] is spelled out in
    Proofs/FloatFormatPayload.v), and the two formats of the library explicitly *)
Theorem C08_fmt_payload_laws : forall prec emax Hp He, fp_laws prec emax Hp He.
Proof. exact fp_laws_hold. Qed.
Print Assumptions C08_fmt_payload_laws.

Theorem C08_float_binary32_laws : ff_laws 24 128 prec32 emax32 /\ fp_laws 24 128 prec32 emax32.
Proof. exact (conj ff_laws_binary32 fp_laws_binary32). Qed.
Print Assumptions C08_float_binary32_laws.

Theorem C08_float_binary64_laws : ff_laws 53 1024 prec64 emax64 /\ fp_laws 53 1024 prec64 emax64.
Proof. exact (conj ff_laws_binary64 fp_laws_binary64). Qed.
Print Assumptions C08_float_binary64_laws.

(** every IEEE operation of the check's model commutes with forgetting the payload, so the
    bit-level model evaluated by the correspondence check ([fp_*]) and the layer the laws are
    proved on ([ff_*]) are the same function up to NaN payloads *)
Theorem C08_fmt_payload_model_agrees :
  forall prec emax Hp He pnan x y,
    FB.B2BSN prec emax (fp_real_mul prec emax Hp He pnan x y) = ff_real_mul prec emax Hp He (FB.B2BSN prec emax x) (FB.B2BSN prec emax y) /\
    FB.B2BSN prec emax (fp_vit_mul prec emax Hp He pnan x y) = ff_vit_mul prec emax Hp He (FB.B2BSN prec emax x) (FB.B2BSN prec emax y) /\
    FB.B2BSN prec emax (fp_add prec emax Hp He pnan x y) = ff_add prec emax Hp He (FB.B2BSN prec emax x) (FB.B2BSN prec emax y) /\
    FB.B2BSN prec emax (fp_max prec emax x y) = ff_max prec emax (FB.B2BSN prec emax x) (FB.B2BSN prec emax y) /\
    FB.B2BSN prec emax (fp_real_sub prec emax Hp He pnan x y) = ff_real_sub prec emax Hp He (FB.B2BSN prec emax x) (FB.B2BSN prec emax y) /\
    FB.B2BSN prec emax (fp_real_star prec emax Hp He pnan x) = ff_real_star prec emax Hp He (FB.B2BSN prec emax x) /\
    FB.B2BSN prec emax (fp_vit_star prec emax x) = ff_vit_star prec emax (FB.B2BSN prec emax x).
Proof.
  exact (fun prec emax Hp He pnan x y =>
    conj (fp_real_mul_B2BSN prec emax Hp He pnan x y) (conj (fp_vit_mul_B2BSN prec emax Hp He pnan x y)
   (conj (fp_add_B2BSN prec emax Hp He pnan x y) (conj (fp_max_B2BSN prec emax x y)
   (conj (fp_real_sub_B2BSN prec emax Hp He pnan x y) (conj (fp_real_star_B2BSN prec emax Hp He pnan x)
         (fp_vit_star_B2BSN prec emax x))))))).
Qed.
Print Assumptions C08_fmt_payload_model_agrees.

(** ** FALSE in floating point (laws of the exact carriers only): concrete witnesses
    (binary32: 0.1f, 0.1f, 0.7f / 0.1f, 0.1f, 10f / 0.1f*(0.1f+0.7f);
     binary64: 0.1, 0.1, 1.1 / 0.1, 0.1, 0.3 / 0.1*(0.1+0.3)) *)
Theorem C08_float_assoc_distr_refuted_binary32 :
  (exists x y z, ff_add 24 128 prec32 emax32 (ff_add 24 128 prec32 emax32 x y) z
              <> ff_add 24 128 prec32 emax32 x (ff_add 24 128 prec32 emax32 y z)) /\
  (exists x y z, ff_real_mul 24 128 prec32 emax32 (ff_real_mul 24 128 prec32 emax32 x y) z
              <> ff_real_mul 24 128 prec32 emax32 x (ff_real_mul 24 128 prec32 emax32 y z)) /\
  (exists x y z, ff_real_mul 24 128 prec32 emax32 x (ff_add 24 128 prec32 emax32 y z)
              <> ff_add 24 128 prec32 emax32 (ff_real_mul 24 128 prec32 emax32 x y) (ff_real_mul 24 128 prec32 emax32 x z)).
Proof. exact (conj ff_add_assoc_refuted_binary32 (conj ff_mul_assoc_refuted_binary32 ff_real_distr_refuted_binary32)). Qed.
Print Assumptions C08_float_assoc_distr_refuted_binary32.

Theorem C08_float_assoc_distr_refuted_binary64 :
  (exists x y z, ff_add 53 1024 prec64 emax64 (ff_add 53 1024 prec64 emax64 x y) z
              <> ff_add 53 1024 prec64 emax64 x (ff_add 53 1024 prec64 emax64 y z)) /\
  (exists x y z, ff_real_mul 53 1024 prec64 emax64 (ff_real_mul 53 1024 prec64 emax64 x y) z
              <> ff_real_mul 53 1024 prec64 emax64 x (ff_real_mul 53 1024 prec64 emax64 y z)) /\
  (exists x y z, ff_real_mul 53 1024 prec64 emax64 x (ff_add 53 1024 prec64 emax64 y z)
              <> ff_add 53 1024 prec64 emax64 (ff_real_mul 53 1024 prec64 emax64 x y) (ff_real_mul 53 1024 prec64 emax64 x z)).
Proof. exact (conj ff_add_assoc_refuted_binary64 (conj ff_mul_assoc_refuted_binary64 ff_real_distr_refuted_binary64)). Qed.
Print Assumptions C08_float_assoc_distr_refuted_binary64.

(** ** the primitive-float model of part (C) is the binary64 instance (Flocq's Prim2B), so the
    former tier-B items hold on it: x*1 = x, monotonicity on [0,inf], exact Viterbi
    distributivity, the Viterbi star law *)
Theorem C08_float_prim_identity_monotone :
  (forall x, PrimFloat.mul x PrimFloat.one = x /\ PrimFloat.mul PrimFloat.one x = x) /\
  (forall x, PrimFloat.is_nan x = false -> x <> PrimFloat.neg_infinity ->
     freal_mul x PrimFloat.one = x /\ freal_mul PrimFloat.one x = x) /\
  (forall a b c, PrimFloat.leb PrimFloat.zero a = true -> PrimFloat.leb PrimFloat.zero c = true -> PrimFloat.leb a b = true ->
     PrimFloat.leb (freal_add a c) (freal_add b c) = true /\ PrimFloat.leb (freal_mul a c) (freal_mul b c) = true).
Proof. exact (conj prim_mul_one (conj prim_real_mul_one prim_real_mono)). Qed.
Print Assumptions C08_float_prim_identity_monotone.

Theorem C08_float_prim_viterbi :
  (forall a b c, PrimFloat.is_nan a = false -> PrimFloat.is_nan b = false ->
     fvit_mul (fvit_add a b) c = fvit_add (fvit_mul a c) (fvit_mul b c)) /\
  (forall a b c, PrimFloat.leb a b = true -> PrimFloat.leb (fvit_mul a c) (fvit_mul b c) = true) /\
  (forall x, fvit_star x = fvit_add PrimFloat.zero (fvit_mul x (fvit_star x))).
Proof. exact (conj prim_vit_mul_max_distr (conj prim_vit_mul_mono prim_vit_star_unfold)). Qed.
Print Assumptions C08_float_prim_viterbi.
