(** C07 -- patterned einsum equals the semiring einsum of the dense operands.
    Only property theorems live here, each closed by [exact] and followed by Print Assumptions.

    Reading guide.  [einsum_dense] is the specification (sum over the non-output indices of the
    product of the operand entries).  [einsum_run] is the model of fggs.indices.einsum, statement
    by statement; its record [erun] keeps the intermediate data: [er_ts] the operands after
    [default_to(zero)] / [freshen], [er_sigma] the substitution, [er_i2v] index_to_vaxis,
    [er_raw] the result before [__post_init__].  [dn t] = (shape, denotation) of a patterned
    tensor.  [coincs ts inputs i2v] = the physical environments of all operands on which every
    co-indexed axis evaluates like the first axis of its index; [g ... oidx pi] = the product of the
    physical elements at [pi] if the output axes evaluate to [oidx], else zero.  The decidable
    premises [cert_operands / cert_subst / cert_views / cert_complete] (Model/EinsumCert.v) are
    evaluated by the harness on every explored case. *)
From Coq Require Import List Arith Bool PArith Permutation.
Import ListNotations.
Require Import Fggs.Model.Semiring Fggs.Model.SumProduct.
Require Import Fggs.Model.Axis Fggs.Model.PTensor Fggs.Model.AxisCheck Fggs.Model.AxisEnum Fggs.Model.Einsum Fggs.Model.EinsumCheck Fggs.Model.EinsumCert.
Require Import Fggs.Proofs.Axis_sem Fggs.Proofs.PTensor_dense.
Require Import Fggs.Proofs.Einsum_dense Fggs.Proofs.Einsum_support Fggs.Proofs.Einsum_form Fggs.Proofs.Einsum_views Fggs.Proofs.Einsum_reduce.
Require Import Fggs.Proofs.Einsum_project Fggs.Proofs.Einsum_reindex Fggs.Proofs.Einsum_top.
Require Import Fggs.Model.Trop Fggs.Model.XVal Fggs.Proofs.Einsum_argmax Fggs.Proofs.Einsum_vit Fggs.Proofs.Einsum_examples Fggs.Proofs.Einsum_oracle Fggs.Proofs.Einsum_orig.
Require Import Fggs.Proofs.Axis_typed Fggs.Proofs.Axis_total Fggs.Proofs.Einsum_subst.
Require Import Fggs.Proofs.Einsum_typed_base Fggs.Proofs.Einsum_typed_prep Fggs.Proofs.Einsum_typed_loop Fggs.Proofs.Einsum_typed_cert.
Require Import Fggs.Proofs.Einsum_empty.
Require Import Fggs.Proofs.Einsum_typed_main Fggs.Proofs.Einsum_typed_vit Fggs.Proofs.Einsum_typed_ex Fggs.Proofs.Einsum_typed_inst Fggs.Model.EReal.
Local Open Scope nat_scope.

(** * (a) the dense specification *)
Theorem C07_dense_spec_empty : forall (R : Type) (o : sr_ops R), sr_ring o ->
  einsum_dense o [] [] [] [] = one o.
Proof. exact @einsum_dense_empty. Qed.
Print Assumptions C07_dense_spec_empty.

Theorem C07_dense_spec_zero_size : forall (R : Type) (o : sr_ops R) ops inputs output oidx l,
  In l (summed_labels inputs output) ->
  lval (label_sizes (map fst ops) inputs) l = 0 ->
  einsum_dense o ops inputs output oidx = Semiring.zero o.
Proof. exact @einsum_dense_zero_size. Qed.
Print Assumptions C07_dense_spec_zero_size.

(** permutation invariance of the operands (the summed-out indices being enumerated in the same order) *)
Theorem C07_dense_spec_perm : forall (R : Type) (o : sr_ops R), sr_ring o ->
  forall ops inputs ops' inputs' output oidx,
  length ops = length inputs -> length ops' = length inputs' ->
  Permutation (combine ops inputs) (combine ops' inputs') ->
  summed_labels inputs' output = summed_labels inputs output ->
  map (lval (label_sizes (map fst ops') inputs')) (summed_labels inputs output)
  = map (lval (label_sizes (map fst ops) inputs)) (summed_labels inputs output) ->
  einsum_dense o ops' inputs' output oidx = einsum_dense o ops inputs output oidx.
Proof. exact @einsum_dense_perm_same_order. Qed.
Print Assumptions C07_dense_spec_perm.

(** broadcast (expanded) operands are functions that ignore a coordinate: the specification only
    looks at the operand entries *)
Theorem C07_dense_spec_ext : forall (R : Type) (o : sr_ops R) ops ops' inputs output oidx,
  map fst ops = map fst ops' ->
  (forall j idx, j < length ops -> snd (nth j ops ([], fun _ => Semiring.zero o)) idx
                                   = snd (nth j ops' ([], fun _ => Semiring.zero o)) idx) ->
  einsum_dense o ops inputs output oidx = einsum_dense o ops' inputs output oidx.
Proof. exact @einsum_dense_ext. Qed.
Print Assumptions C07_dense_spec_ext.

(** the support form: for patterned operands with default zero the specification is a sum over
    the coinciding physical environments ("the zero default annihilates") *)
Theorem C07_dense_support_form : forall (R : Type) (o : sr_ops R), sr_ring o ->
  forall (ts : list (ptensor R)) inputs output i2v,
  length ts = length inputs -> Forall (wf R) ts -> Forall (fun t => default t = Semiring.zero o) ts ->
  Forall2 (fun t inp => length (vaxes t) = length inp) ts inputs ->
  NoDup (map fst (all_vars ts)) ->
  (forall l, In l output -> lassoc l i2v <> None) ->
  (forall l e0, lassoc l i2v = Some e0 -> In (l, e0) (occurrences ts inputs)) ->
  (forall l e, In (l, e) (occurrences ts inputs) -> exists e0, lassoc l i2v = Some e0 /\ numel e0 = numel e) ->
  forall oidx,
  einsum_dense o (map (dn (R:=R)) ts) inputs output oidx
  = sumS o (all_envs (all_vars ts))
         (fun pi => if coinc_b i2v (occurrences ts inputs) (env_of pi) && leqb (map (lv i2v (env_of pi)) output) oidx
                    then term o ts (env_of pi) else Semiring.zero o).
Proof. exact @dense_support_form. Qed.
Print Assumptions C07_dense_support_form.

(** * (b) the patterned algorithm *)
(** Full statement:
      forall typed operands ts, einsum_model ts inputs output = Ok r ->
        denote r = einsum_dense (map dn ts) inputs output.
    It is proved without certificate premises for operands typed in a common context over good
    index types: [C07_patterned_eq_dense_typed] (at the end of this file), which derives every
    premise below from typing ([C07_cert_premises_typed]).  The [_partial] theorems that follow
    remain the statement for everything else (zero-size indices, index types with a sum type of
    size 1, operands not typed alike), under the decidable premises evaluated per case:
    the same for the operands [er_ts] the algorithm works on (after [default_to(zero)] and
    [freshen]; [C07_prepared_operands]: these are [ts] themselves when the defaults are zero and
    the physical axes pairwise disjoint), for the result before [__post_init__]
    ([C07_post_init_identity]: which is then the identity), under the decidable premises
    evaluated per case; soundness half without the completeness premise. *)
Theorem C07_patterned_eq_dense_partial : forall (R : Type) (o : sr_ops R), sr_ring o ->
  forall veqb : R -> R -> bool, (forall a b, veqb a b = true -> a = b) ->
  forall genabled next ts0 inputs output r,
  einsum_run o veqb genabled next ts0 inputs output = Ok r ->
  er_failed r = false -> er_zero_axis r = false ->
  Forall (st_ok (R:=R)) (er_ts r) ->
  cert_operands o veqb r inputs output = true -> cert_subst r = true -> cert_views r = true ->
  forall oidx, length oidx = length output ->
  (exists L, NoDup L /\ incl L (coincs (operands_of r) inputs (er_i2v r)) /\
     denote R (er_raw r) oidx = sumS o L (g o (operands_of r) output (er_i2v r) oidx) /\
     einsum_dense o (map (dn (R:=R)) (operands_of r)) inputs output oidx
     = sumS o (coincs (operands_of r) inputs (er_i2v r)) (g o (operands_of r) output (er_i2v r) oidx)) /\
  (cert_complete r inputs = true ->
     denote R (er_raw r) oidx = einsum_dense o (map (dn (R:=R)) (operands_of r)) inputs output oidx).
Proof. exact @einsum_raw_correct. Qed.
Print Assumptions C07_patterned_eq_dense_partial.

(** failure of unification / a zero-size physical axis: the all-zero result is right when the
    supports are disjoint (no coincidence) *)
Theorem C07_zero_result_partial : forall (R : Type) (o : sr_ops R), sr_ring o ->
  forall veqb : R -> R -> bool, (forall a b, veqb a b = true -> a = b) ->
  forall genabled next ts0 inputs output r,
  einsum_run o veqb genabled next ts0 inputs output = Ok r ->
  er_failed r || er_zero_axis r = true ->
  cert_operands o veqb r inputs output = true -> cert_complete r inputs = true ->
  forall oidx, denote R (er_raw r) oidx = einsum_dense o (map (dn (R:=R)) (operands_of r)) inputs output oidx.
Proof. exact @einsum_zero_correct. Qed.
Print Assumptions C07_zero_result_partial.

Theorem C07_prepared_operands : forall (R : Type) (o : sr_ops R) (veqb : R -> R -> bool)
  genabled next (ts : list (stensor (R:=R))) inputs output r,
  einsum_run o veqb genabled next ts inputs output = Ok r ->
  length ts = length inputs ->
  forallb (fun t => veqb (default (st_pt t)) (Semiring.zero o)) ts = true ->
  NoDup (stkeys ts) ->
  er_ts r = ts.
Proof. exact @einsum_run_prepared. Qed.
Print Assumptions C07_prepared_operands.

Theorem C07_post_init_identity : forall (R : Type) (o : sr_ops R) (veqb : R -> R -> bool)
  genabled next ts0 inputs output r,
  einsum_run o veqb genabled next ts0 inputs output = Ok r ->
  er_failed r = false -> er_zero_axis r = false -> cert_views r = true ->
  post_init R (er_raw r) = Ok (er_raw r).
Proof. exact @einsum_post_init_id. Qed.
Print Assumptions C07_post_init_identity.

(** the premises are satisfiable: they hold for the dot product of every pair of typed axes of the
    bounded domain of C06_unify_complete_upto12 (all index types with <= 3 leaves / size <= 12) *)
Theorem C07_cert_holds_upto12 : forall t e f, In t (types_upto 12) -> In e (axes_of t 1) -> In f (axes_of t 50) ->
  exists r, einsum_run bool_ops Bool.eqb false 100 [pair_tensor e; pair_tensor f] [[0]; [0]] [] = Ok r /\
            cert_verdict bool_ops Bool.eqb r [[0]; [0]] [] = 0.
Proof. exact cert_holds_upto12. Qed.
Print Assumptions C07_cert_holds_upto12.

(** tensors read from torch storage through (offset, strides) satisfy [st_ok]: a stride-0
    (expanded) dimension is ignored *)
Theorem C07_wire_tensors_ok : forall (R W : Type) (ofw : W -> R) (w : wten (W:=W)),
  wire_ok w = true -> st_ok (st_of_wire ofw w).
Proof. exact @st_of_wire_ok. Qed.
Print Assumptions C07_wire_tensors_ok.

(** * project: the stride lemma for views *)
Theorem C07_project_view : forall (R : Type) sigma (t : stensor (R:=R)) v (rho rho' : env),
  project_view sigma t = Ok v -> models rho sigma ->
  (forall strs, mapM (stride (sfuel sigma (phys_axes (paxes (st_pt t)))) sigma) (phys_axes (paxes (st_pt t))) = Ok strs ->
     forall os k c, In os strs -> In (k, c) (snd os) -> rho k = rho' k /\ In k (map fst (vw_vars v))) ->
  vw_fn v (map rho' (map fst (vw_vars v))) = pget R (st_pt t) rho.
Proof. exact @project_view_spec. Qed.
Print Assumptions C07_project_view.

(** * (c) reduce_equation / post_einsum *)
Theorem C07_reduce_equation_sound : forall (R : Type) (o : sr_ops R), sr_ring o ->
  forall (views : list (view (R:=R))) (outp : list pn) (coords : list nat),
  Forall (view_ok (R:=R)) views ->
  NoDup (map fst outp) ->
  (forall k, In k (map fst outp) -> In k (map fst (flat_map (vw_vars (R:=R)) views))) ->
  (forall v kn n, In v views -> In kn (vw_vars v) -> In (fst kn, n) outp -> n = snd kn) ->
  Forall2 lt coords (map snd outp) ->
  post_einsum_model (einsum_views o (rd_views (reduce_equation_model views outp))
                                    (rd_out (reduce_equation_model views outp)))
                    (rd_unsq (reduce_equation_model views outp)) coords
  = einsum_views o views outp coords.
Proof. exact @reduce_equation_sound. Qed.
Print Assumptions C07_reduce_equation_sound.

(** the views made by [project] from tensors whose stride-0 dimensions are ignored satisfy the
    hypothesis of the previous theorem *)
Theorem C07_project_view_ok : forall (R : Type) sigma (t : stensor (R:=R)) v,
  st_ok t -> project_view sigma t = Ok v -> view_ok v.
Proof. exact @project_view_ok. Qed.
Print Assumptions C07_project_view_ok.

(** * mv / mm *)
Theorem C07_mv_mm_instances : forall (R : Type) (o : sr_ops R) veqb genabled next (a b : stensor (R:=R)),
  mv_model o veqb genabled next a b = einsum_model o veqb genabled next [a; b] [[0; 1]; [1]] [0] /\
  mm_model o veqb genabled next a b = einsum_model o veqb genabled next [a; b] [[0; 1]; [1; 2]] [0; 2].
Proof. exact @mv_mm_instances. Qed.
Print Assumptions C07_mv_mm_instances.

Theorem C07_mv_spec : forall (R : Type) (o : sr_ops R), sr_ring o -> forall (A v : list nat -> R) m n i,
  einsum_dense o [([m; n], A); ([n], v)] [[0; 1]; [1]] [0] [i]
  = sumS o (seq 0 n) (fun j => mul o (A [i; j]) (v [j])).
Proof. exact @einsum_dense_mv. Qed.
Print Assumptions C07_mv_spec.

Theorem C07_mm_spec : forall (R : Type) (o : sr_ops R), sr_ring o -> forall (A B : list nat -> R) m n p i k,
  einsum_dense o [([m; n], A); ([n; p], B)] [[0; 1]; [1; 2]] [0; 2] [i; k]
  = sumS o (seq 0 n) (fun j => mul o (A [i; j]) (B [j; k])).
Proof. exact @einsum_dense_mm. Qed.
Print Assumptions C07_mm_spec.

(** * (d) the Viterbi variant *)
(** the value is the einsum in the tropical semiring: [C07_patterned_eq_dense_partial] with
    [o := trop_ops].  Pointers: for every output cell with a backing element, the pointer tuple
    computed from the physical argmax through [Axis.stride] is [eval] of the summed-out axes at
    the physical pointer (extended through the substitution), and the product of the operand
    entries at the pointed indices equals the value of the cell (which is the maximum by the
    previous theorem). *)
Theorem C07_argmax : forall (R : Type) (o : sr_ops R), sr_ring o ->
  forall veqb : R -> R -> bool, (forall a b, veqb a b = true -> a = b) ->
  forall leb : R -> R -> bool, (forall a b, add o a b = if leb a b then b else a) ->
  forall genabled next ts0 inputs output r,
  einsum_run o veqb genabled next ts0 inputs output = Ok r ->
  er_failed r = false -> er_zero_axis r = false ->
  Forall (st_ok (R:=R)) (er_ts r) ->
  cert_operands o veqb r inputs output = true -> cert_subst r = true -> cert_views r = true ->
  cert_viterbi r inputs output = true ->
  forall oidx pi vp, length oidx = length output ->
  index_list (er_outv r) [] oidx = IOk pi ->
  viterbi_ptr_model o leb r output oidx = Ok vp ->
  (exists rest pi', pop_all output (er_i2v r) = Some rest /\ In pi' (all_envs (kvars r)) /\
      vp = map (eval (xt (er_sigma r) (cert_fuel (er_sigma r)) pi')) (map snd rest)) /\
  einsum_term o (map (dn (R:=R)) (operands_of r)) inputs (combine output oidx ++ combine (summed_labels inputs output) vp)
  = denote R (er_raw r) oidx.
Proof. exact @viterbi_ptr_correct. Qed.
Print Assumptions C07_argmax.

(** the argmax returned for a selective addition attains the sum (= the maximum) *)
Theorem C07_first_argmax_attains : forall (R : Type) (o : sr_ops R), sr_ring o ->
  forall leb : R -> R -> bool, (forall a b, add o a b = if leb a b then b else a) ->
  forall (l : list (list nat)) (f : list nat -> R) x,
  first_argmax leb l f = Some x -> In x l /\ f x = sumS o l f.
Proof. exact @first_argmax_attains. Qed.
Print Assumptions C07_first_argmax_attains.

(** a cell whose value is the semiring zero (no backing element: the default pointer 0) has only
    zero terms, so every in-range pointer attains it *)
Theorem C07_argmax_zero_cell : forall (R : Type) (o : sr_ops R),
  (forall a b, add o a b = Semiring.zero o -> a = Semiring.zero o /\ b = Semiring.zero o) ->
  forall ops inputs output oidx sv,
  out_consistent output oidx = true -> einsum_dense o ops inputs output oidx = Semiring.zero o ->
  In sv (all_assts (map (lval (label_sizes (map fst ops) inputs)) (summed_labels inputs output))) ->
  einsum_term o ops inputs (combine output oidx ++ combine (summed_labels inputs output) sv) = Semiring.zero o.
Proof. exact @einsum_dense_zero_terms. Qed.
Print Assumptions C07_argmax_zero_cell.

(** the tropical semiring satisfies both hypotheses *)
Theorem C07_trop_selective : forall a b, tmax a b = if tleb a b then b else a.
Proof. exact trop_selective. Qed.
Print Assumptions C07_trop_selective.
Theorem C07_trop_zero_sum_free : forall a b, tmax a b = NInf -> a = NInf /\ b = NInf.
Proof. exact trop_zero_sum_free. Qed.
Print Assumptions C07_trop_zero_sum_free.

(** F23: log_viterbi_einsum_forward adds log-weights with torch's plain addition: +inf + -inf = nan,
    where the semiring product (0 x inf = 0) is -inf.  Positive statement: [C07_argmax] (the model
    multiplies in the semiring); the check reports the defect as a known finding. *)
Theorem C07_viterbi_forward_add_refuted : xadd XPInf XNInf = XNaN /\ tplus TPInf NInf = NInf.
Proof. exact viterbi_forward_add_refuted. Qed.
Print Assumptions C07_viterbi_forward_add_refuted.

(** repeated output indices (F24, repaired in /repo 3f6a623; the model follows the repaired code):
    popping the output indices only fails for an index that does not occur in the inputs, and
    leaves exactly the entries of the summed-out indices; [C07_argmax] then applies as it stands
    (its premise [cert_viterbi] holds for such runs, e.g. [repeated_output_example]: "ij->ii") *)
Theorem C07_viterbi_repeated_output : forall output i2v,
  (forall l, In l output -> lassoc l i2v <> None) ->
  exists rest, pop_all output i2v = Some rest /\
    forall le, In le rest <-> In le i2v /\ ~ In (fst le) output.
Proof. exact pop_all_spec. Qed.
Print Assumptions C07_viterbi_repeated_output.

(** * the oracles of the check functions are sound *)
(** the brute-force denotation used by the oracle is the denotation *)
Theorem C07_oracle_dspec_is_denote : forall (R : Type) (t : ptensor R) idx,
  wf R t -> length idx = length (vaxes t) -> dspec t idx = denote R t idx.
Proof. exact @dspec_denote. Qed.
Print Assumptions C07_oracle_dspec_is_denote.

(** verdict 0 of the specification oracle: the implementation's result has the shape and, cell by
    cell (within the tolerance [okw]), the values of the dense specification on the denotations *)
Theorem C07_oracle_spec_verdict_sound : forall (R WO : Type) (o : sr_ops R) (okw : R -> WO -> bool)
  (ts : list (ptensor R)) inputs output i_shp (i_vals : list WO),
  Forall (wf R) ts -> Forall2 (fun t inp => length (vaxes t) = length inp) ts inputs ->
  spec_verdict o okw (map spec_operand ts) inputs output (0, i_shp, i_vals) = 0 ->
  i_shp = einsum_shape (map (dn (R:=R)) ts) inputs output /\
  Forall2 (fun x w => okw x w = true) (map (einsum_dense o (map (dn (R:=R)) ts) inputs output) (all_assts i_shp)) i_vals.
Proof. exact @spec_verdict_sound. Qed.
Print Assumptions C07_oracle_spec_verdict_sound.

(** the pointer oracle: an accepted pointer tuple is in range and the product of the operand
    entries at the pointed indices is the value *)
Theorem C07_oracle_argmax_ok_sound : forall (R : Type) (o : sr_ops R) (veqb : R -> R -> bool) ops inputs output oidx vp value,
  argmax_ok o veqb ops inputs output oidx vp value = true ->
  (forall n, In n (map (lval (label_sizes (map fst ops) inputs)) (summed_labels inputs output)) -> n <> 0) ->
  out_consistent output oidx = true ->
  In vp (all_assts (map (lval (label_sizes (map fst ops) inputs)) (summed_labels inputs output))) /\
  veqb (einsum_term o ops inputs (combine output oidx ++ combine (summed_labels inputs output) vp)) value = true.
Proof. exact @argmax_ok_sound. Qed.
Print Assumptions C07_oracle_argmax_ok_sound.

(** * the result against the specification on the GIVEN operands *)
(** the specification reads the operands only inside their shapes *)
Theorem C07_dense_spec_ext_bounds : forall (R : Type) (o : sr_ops R) (ops ops' : list (operand (R:=R))) inputs output oidx,
  map fst ops = map fst ops' ->
  Forall2 (fun op inp => fst op = map (lval (label_sizes (map fst ops) inputs)) inp) ops inputs ->
  Forall2 lt oidx (map (lval (label_sizes (map fst ops) inputs)) output) ->
  (forall j idx, j < length ops -> Forall2 lt idx (fst (nth j ops ([], fun _ => Semiring.zero o))) ->
     snd (nth j ops ([], fun _ => Semiring.zero o)) idx = snd (nth j ops' ([], fun _ => Semiring.zero o)) idx) ->
  einsum_dense o ops inputs output oidx = einsum_dense o ops' inputs output oidx.
Proof. exact @einsum_dense_ext_bounds. Qed.
Print Assumptions C07_dense_spec_ext_bounds.

(** all exits, the operands as given (any defaults, shared axes): [cert_pre] = what [default_to(zero)]
    and [freshen] produced denotes the given operands inside their shapes (decidable, evaluated per case) *)
Theorem C07_patterned_eq_dense_given_operands_partial : forall (R : Type) (o : sr_ops R) (veqb : R -> R -> bool),
  (forall a b, veqb a b = true -> a = b) -> sr_ring o ->
  forall genabled next (ts0 : list (stensor (R:=R))) inputs output r,
  einsum_run o veqb genabled next ts0 inputs output = Ok r ->
  Forall (st_ok (R:=R)) (er_ts r) ->
  cert_pre veqb r (map st_pt ts0) = true -> cert_operands o veqb r inputs output = true ->
  (er_failed r || er_zero_axis r = false -> cert_subst r = true /\ cert_views r = true) ->
  cert_complete r inputs = true ->
  forall oidx, Forall2 lt oidx (einsum_shape (map (dn (R:=R)) (operands_of r)) inputs output) ->
  denote R (er_raw r) oidx = einsum_dense o (map (dn (R:=R)) (map st_pt ts0)) inputs output oidx.
Proof. exact @einsum_correct_original. Qed.
Print Assumptions C07_patterned_eq_dense_given_operands_partial.

(** * typed operands: no certificate premises *)
(** Reading guide.  [ty G e ps] (Proofs/Axis_typed.v): axis [e] has the flattened product type [ps]
    (a list of primes) in the typing context [G : positive -> list ity], which gives every physical
    axis ONE type; [gprimes ps]: every prime is an atom of size >= 2 or a good sum type (size >= 2,
    good summands); [ctx_good G]: every type in the context is good; [ctx_below G next]: the axes the
    context types are below the counter of fresh axes.  [tys G es pss]: pointwise.  One index type
    [lty l] per einsum index [l]: the axis of every operand at index [l] has type [lty l].
    [typed_operands lty G next ts inputs] (Proofs/Einsum_typed_main.v) = [ctx_good G], [ctx_below G
    next] and, for every operand [t] with index list [inp]: [wf (st_pt t)] (the representation
    invariant), [tys G (vaxes (st_pt t)) (map lty inp)], [st_ok t] (a stride-0 dimension of the
    physical tensor is ignored; [C07_wire_tensors_ok]).  The operands may have any default and may
    share physical axes.  [veqb] is the semiring's equality test: sound, and true on (zero, zero).
    The premise [... = Ok _] says that the model answers (its only other answer on typed operands
    would be [Fail OutOfFuel]: the fuel is an artefact of the model, the Python code recurses). *)

(** the main theorem: the patterned einsum denotes the dense semiring einsum of the denotations of
    the given operands at every in-range output index, in every commutative semiring, on every exit
    (normal; failed unification = all-zero; the zero-size exit is not reachable for good types),
    [__post_init__] included *)
Theorem C07_patterned_eq_dense_typed : forall (R : Type) (o : sr_ops R), sr_ring o ->
  forall veqb : R -> R -> bool, (forall a b, veqb a b = true -> a = b) ->
  veqb (Semiring.zero o) (Semiring.zero o) = true ->
  forall lty : nat -> list ity, (forall l, gprimes (lty l)) ->
  forall (G : ctx) genabled next (ts : list (stensor (R:=R))) inputs output p,
  ctx_good G -> ctx_below G next ->
  Forall2 (fun (t : stensor (R:=R)) inp => wf R (st_pt t) /\ tys G (vaxes (st_pt t)) (map lty inp) /\ st_ok t) ts inputs ->
  einsum_model o veqb genabled next ts inputs output = Ok p ->
  forall oidx, Forall2 lt oidx (einsum_shape (map (dn (R:=R)) (map st_pt ts)) inputs output) ->
  denote R p oidx = einsum_dense o (map (dn (R:=R)) (map st_pt ts)) inputs output oidx.
Proof. exact @einsum_model_typed_explicit. Qed.
Print Assumptions C07_patterned_eq_dense_typed.

(** the same for the record of the run (the result before [__post_init__]) *)
Theorem C07_patterned_eq_dense_run_typed : forall (R : Type) (o : sr_ops R), sr_ring o ->
  forall veqb : R -> R -> bool, (forall a b, veqb a b = true -> a = b) ->
  veqb (Semiring.zero o) (Semiring.zero o) = true ->
  forall lty : nat -> list ity, (forall l, gprimes (lty l)) ->
  forall (G : ctx) genabled next (ts : list (stensor (R:=R))) inputs output r,
  typed_operands lty G next ts inputs ->
  einsum_run o veqb genabled next ts inputs output = Ok r ->
  forall oidx, Forall2 lt oidx (einsum_shape (map (dn (R:=R)) (map st_pt ts)) inputs output) ->
  denote R (er_raw r) oidx = einsum_dense o (map (dn (R:=R)) (map st_pt ts)) inputs output oidx.
Proof. exact @einsum_typed_correct. Qed.
Print Assumptions C07_patterned_eq_dense_run_typed.

(** every premise of the certificate holds for every run on typed operands: [cert_operands]
    (and [st_ok] of the prepared operands), [cert_subst] (the substitution is functional, acyclic
    within [cert_fuel], size preserving; from [wts] closed under the bindings of [unify]),
    [cert_views] (the strides mention only unbound axes of the view, labels and sizes of the
    equation, the result satisfies the representation invariant), [cert_complete] (the counting
    criterion, from C06_unify_complete lifted along the loop: every coincidence is an instance of the
    substitution, and the injectivity of the physical parametrisation); the zero-size exit is not taken *)
Theorem C07_cert_premises_typed : forall (R : Type) (o : sr_ops R) (veqb : R -> R -> bool),
  (forall a b, veqb a b = true -> a = b) -> veqb (Semiring.zero o) (Semiring.zero o) = true ->
  forall lty : nat -> list ity, (forall l, gprimes (lty l)) ->
  forall (G : ctx) genabled next (ts : list (stensor (R:=R))) inputs output r,
  typed_operands lty G next ts inputs ->
  einsum_run o veqb genabled next ts inputs output = Ok r ->
  Forall (st_ok (R:=R)) (er_ts r) /\
  cert_operands o veqb r inputs output = true /\
  er_zero_axis r = false /\
  (er_failed r = false -> cert_subst r = true /\ cert_views r = true) /\
  cert_complete r inputs = true.
Proof. exact @einsum_cert_typed. Qed.
Print Assumptions C07_cert_premises_typed.

(** what replaces [cert_pre]: [default_to(zero)] and [freshen] keep the operands well formed and
    typed (in an extension of the context) and do not change the dense tensors they denote
    ([same_dense]: same shape, same denotation inside the shape); the loop invariant [einv] holds at
    the end of the run (the state of the unifier is well typed: [wts]; completeness: every
    coincidence extends to an environment satisfying the substitution) *)
Theorem C07_run_invariant_typed : forall (R : Type) (o : sr_ops R) (veqb : R -> R -> bool),
  (forall a b, veqb a b = true -> a = b) ->
  forall lty : nat -> list ity, (forall l, gprimes (lty l)) ->
  forall (G : ctx) genabled next (ts : list (stensor (R:=R))) inputs output r,
  typed_operands lty G next ts inputs ->
  einsum_run o veqb genabled next ts inputs output = Ok r ->
  exists G' s nx1,
    einv lty nx1 (Semiring.zero o) G' s (er_ts r) inputs /\
    er_sigma r = us_subst (ls_u s) /\ er_i2v r = ls_i2v s /\ er_failed r = ls_zero s /\
    mapM (fun l => match lassoc l (er_i2v r) with
                   | Some e => clone (sfuel (er_sigma r) [e]) (er_sigma r) e
                   | None => Fail OtherError end) output = Ok (er_outv r) /\
    (er_failed r = false -> mapM (project_view (er_sigma r)) (er_ts r) = Ok (er_views r)) /\
    Forall2 (fun t t' : stensor (R:=R) => same_dense (st_pt t) (st_pt t')) ts (er_ts r).
Proof. exact @einsum_run_typed. Qed.
Print Assumptions C07_run_invariant_typed.

(** fuel sufficiency of the certificate's [resolve]: on a well-typed acyclic substitution every
    physical axis resolves to unbound axes within [cert_fuel] (rank induction: every binding is
    entered at most once) *)
Theorem C07_resolve_within_cert_fuel : forall (G : ctx) (s : subst), wts G s ->
  forall k n, closed s (resolve (cert_fuel s) s (Phys k n)) = true.
Proof. exact resolve_closed_cert_fuel. Qed.
Print Assumptions C07_resolve_within_cert_fuel.

(** mv / mm on typed operands: the usual matrix-vector / matrix-matrix product of the denotations *)
Theorem C07_mv_typed : forall (R : Type) (o : sr_ops R), sr_ring o ->
  forall veqb : R -> R -> bool, (forall a b, veqb a b = true -> a = b) ->
  veqb (Semiring.zero o) (Semiring.zero o) = true ->
  forall lty : nat -> list ity, (forall l, gprimes (lty l)) ->
  forall (G : ctx) genabled next (a v : stensor (R:=R)) p,
  typed_operands lty G next [a; v] [[0; 1]; [1]] ->
  mv_model o veqb genabled next a v = Ok p ->
  forall i, i < tsizes (lty 0) ->
  denote R p [i] = sumS o (seq 0 (tsizes (lty 1))) (fun j => mul o (denote R (st_pt a) [i; j]) (denote R (st_pt v) [j])).
Proof. exact @mv_typed. Qed.
Print Assumptions C07_mv_typed.

Theorem C07_mm_typed : forall (R : Type) (o : sr_ops R), sr_ring o ->
  forall veqb : R -> R -> bool, (forall a b, veqb a b = true -> a = b) ->
  veqb (Semiring.zero o) (Semiring.zero o) = true ->
  forall lty : nat -> list ity, (forall l, gprimes (lty l)) ->
  forall (G : ctx) genabled next (a m : stensor (R:=R)) p,
  typed_operands lty G next [a; m] [[0; 1]; [1; 2]] ->
  mm_model o veqb genabled next a m = Ok p ->
  forall i k, i < tsizes (lty 0) -> k < tsizes (lty 2) ->
  denote R p [i; k] = sumS o (seq 0 (tsizes (lty 1))) (fun j => mul o (denote R (st_pt a) [i; j]) (denote R (st_pt m) [j; k])).
Proof. exact @mm_typed. Qed.
Print Assumptions C07_mm_typed.

(** the Viterbi variant on typed operands.  The value is [C07_patterned_eq_dense_run_typed] with
    [o := trop_ops].  Pointers: [cert_viterbi] holds, and for every in-range output cell with a
    backing element the pointer tuple is in range (one virtual index per summed-out einsum index,
    in order of first appearance) and the product of the GIVEN operands' entries at the pointed
    indices equals the einsum of the given operands at that cell (for a selective addition: the
    maximum; [C07_trop_selective]).  Cells without backing element: [C07_argmax_zero_cell]. *)
Theorem C07_argmax_typed : forall (R : Type) (o : sr_ops R), sr_ring o ->
  forall veqb : R -> R -> bool, (forall a b, veqb a b = true -> a = b) ->
  veqb (Semiring.zero o) (Semiring.zero o) = true ->
  forall leb : R -> R -> bool, (forall a b, add o a b = if leb a b then b else a) ->
  forall lty : nat -> list ity, (forall l, gprimes (lty l)) ->
  forall (G : ctx) genabled next (ts : list (stensor (R:=R))) inputs output r,
  typed_operands lty G next ts inputs ->
  einsum_run o veqb genabled next ts inputs output = Ok r ->
  er_failed r = false ->
  forall oidx pi vp,
  Forall2 lt oidx (einsum_shape (map (dn (R:=R)) (map st_pt ts)) inputs output) ->
  index_list (er_outv r) [] oidx = IOk pi ->
  viterbi_ptr_model o leb r output oidx = Ok vp ->
  In vp (all_assts (map (lval (label_sizes (map fst (map (dn (R:=R)) (map st_pt ts))) inputs)) (summed_labels inputs output))) /\
  einsum_term o (map (dn (R:=R)) (map st_pt ts)) inputs (combine output oidx ++ combine (summed_labels inputs output) vp)
  = einsum_dense o (map (dn (R:=R)) (map st_pt ts)) inputs output oidx.
Proof. exact @viterbi_typed. Qed.
Print Assumptions C07_argmax_typed.

Theorem C07_cert_viterbi_typed : forall (R : Type) (o : sr_ops R) (veqb : R -> R -> bool),
  (forall a b, veqb a b = true -> a = b) ->
  forall lty : nat -> list ity, (forall l, gprimes (lty l)) ->
  forall (G : ctx) genabled next (ts : list (stensor (R:=R))) inputs output r,
  typed_operands lty G next ts inputs ->
  einsum_run o veqb genabled next ts inputs output = Ok r ->
  cert_viterbi r inputs output = true.
Proof. exact @viterbi_cert_typed. Qed.
Print Assumptions C07_cert_viterbi_typed.

(** the hypotheses are satisfiable: a product type (Z(6) against X(2) x Y(3)) and a sum type (the
    first summand of 2 + 3 against the whole index); the model answers and the result is [true] *)
Theorem C07_typed_operands_example :
  typed_operands ex_lty ex_G 10 [ex_a; ex_b] [[0]; [0]] /\
  exists p, einsum_model bool_ops Bool.eqb false 10 [ex_a; ex_b] [[0]; [0]] [] = Ok p /\ denote bool p [] = true.
Proof. exact typed_operands_ex. Qed.
Print Assumptions C07_typed_operands_example.

Theorem C07_typed_operands_sum_example :
  typed_operands ex_lty2 ex_G2 10 [ex_c; ex_d] [[0]; [0]] /\
  exists p, einsum_model bool_ops Bool.eqb false 10 [ex_c; ex_d] [[0]; [0]] [] = Ok p /\ denote bool p [] = true.
Proof. exact typed_operands_sum_ex. Qed.
Print Assumptions C07_typed_operands_sum_example.

(** the failed-unification exit is reached by typed operands (the two summands of 2 + 3) *)
Theorem C07_typed_failed_exit_example :
  typed_operands ex_lty2 ex_G3 10 [ex_c1; ex_e] [[0]; [0]] /\
  exists r, einsum_run bool_ops Bool.eqb false 10 [ex_c1; ex_e] [[0]; [0]] [] = Ok r /\ er_failed r = true /\
            denote bool (er_raw r) [] = false.
Proof. exact typed_operands_failed_ex. Qed.
Print Assumptions C07_typed_failed_exit_example.

(** the hypotheses about the semiring hold for the exact carriers of the check functions (Real / Log:
    [ereal]; Viterbi: [trop]; Bool) *)
Theorem C07_typed_carriers :
  (sr_ring ereal_ops /\ (forall a b, eeqb a b = true -> a = b) /\ eeqb (Semiring.zero ereal_ops) (Semiring.zero ereal_ops) = true) /\
  (sr_ring trop_ops /\ (forall a b, teqb a b = true -> a = b) /\ teqb (Semiring.zero trop_ops) (Semiring.zero trop_ops) = true) /\
  (sr_ring bool_ops /\ (forall a b, Bool.eqb a b = true -> a = b) /\ Bool.eqb (Semiring.zero bool_ops) (Semiring.zero bool_ops) = true).
Proof. exact typed_carriers. Qed.
Print Assumptions C07_typed_carriers.

(** ... and those of [C07_argmax_typed] on the first pair (Boolean semiring, selective addition) *)
Theorem C07_argmax_typed_example :
  exists r, einsum_run bool_ops Bool.eqb false 10 [ex_a; ex_b] [[0]; [0]] [] = Ok r /\ er_failed r = false /\
            index_list (er_outv r) [] [] = IOk [] /\
            viterbi_ptr_model bool_ops (fun x y => implb x y) r [] [] = Ok [1] /\
            (forall a b, Semiring.add bool_ops a b = if implb a b then b else a).
Proof. exact viterbi_typed_ex. Qed.
Print Assumptions C07_argmax_typed_example.

(** * an operand with an EMPTY physical axis is all-default (Proofs/Einsum_empty.v) *)
(** whatever the virtual shape (the empty axis may sit inside a sum-type axis [a + K(0) + b] of non-zero
    extent): every cell of the oracle's brute-force denotation is the default.  Such an operand is the
    semiring's zero tensor only if its default is the semiring's zero, so the zero-size exit of [einsum]
    is right only after [default_to(zero)]. *)
Theorem C07_empty_physical_is_all_default : forall (R : Type) (t : ptensor R) k idx,
  In (k, 0) (paxes t) -> dspec t idx = default t.
Proof. exact @dspec_empty_physical. Qed.
Print Assumptions C07_empty_physical_is_all_default.

Theorem C07_empty_physical_denote : forall (R : Type) (t : ptensor R) k idx,
  wf R t -> length idx = length (vaxes t) -> In (k, 0) (paxes t) -> denote R t idx = default t.
Proof. exact @denote_empty_physical. Qed.
Print Assumptions C07_empty_physical_denote.

(** a non-trivial instance: [1 + K(0) + 2] with default [true] denotes [true; true; true] *)
Theorem C07_empty_physical_example :
  let t := @mkPT bool (fun _ => false) [(1%positive, 0)] [Sum 1 (Phys 1%positive 0) 2] true in
  shape bool t = [3] /\ map (fun i => dspec t [i]) [0; 1; 2] = [true; true; true].
Proof. exact empty_in_sum_example. Qed.
Print Assumptions C07_empty_physical_example.

(** * unify respects the bindings it is handed (einsum's loop unifies every later attachment of an index under the
    substitution built so far): an axis that is already bound keeps its binding, also when the product loop has to
    split it against a smaller factor of another factorisation of the same index (12 = 2*6 against 4*3). *)
Require Import Fggs.Proofs.Axis_unify Fggs.Proofs.Axis_unify_keeps.
Theorem C07_unify_keeps_bindings : forall fuel e f st b st' k x,
  pos_sizes e = true -> pos_sizes f = true -> pos_subst (us_subst st) = true ->
  unify fuel e f st = Ok (b, st') ->
  assoc k (us_subst st) = Some x -> assoc k (us_subst st') = Some x.
Proof. exact unify_keeps_bindings. Qed.
Print Assumptions C07_unify_keeps_bindings.

Theorem C07_unify_loop_keeps_bindings : forall fuel esr fsr st b st' k x,
  forallb pos_sizes esr = true -> forallb pos_sizes fsr = true -> pos_subst (us_subst st) = true ->
  unify_loop fuel esr fsr st = Ok (b, st') ->
  assoc k (us_subst st) = Some x -> assoc k (us_subst st') = Some x.
Proof. exact unify_loop_keeps_bindings. Qed.
Print Assumptions C07_unify_loop_keeps_bindings.

Theorem C07_unify_list_keeps_bindings : forall fuel es fs st b st' k x,
  forallb pos_sizes es = true -> forallb pos_sizes fs = true -> pos_subst (us_subst st) = true ->
  unify_list fuel es fs st = Ok (b, st') ->
  assoc k (us_subst st) = Some x -> assoc k (us_subst st') = Some x.
Proof. exact unify_list_keeps_bindings. Qed.
Print Assumptions C07_unify_list_keeps_bindings.

(** Q(6), bound to U(2)*V(3), is the last factor of P(2)*Q(6) and meets R(4)*S(3): it is split through its binding *)
Theorem C07_bound_then_split_example :
  exists st', unify 40 (Prod [Phys 1 2; Phys 2 6]) (Prod [Phys 5 4; Phys 6 3]) bts_st = Ok (true, st') /\
    assoc 2%positive (us_subst st') = Some (Prod [Phys 3 2; Phys 4 3]) /\
    us_warn st' = false /\
    assoc 4%positive (us_subst st') = Some (Phys 6 3).
Proof. exact bound_then_split. Qed.
Print Assumptions C07_bound_then_split_example.
