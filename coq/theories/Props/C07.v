(** C07 -- patterned einsum equals the semiring einsum of the dense operands.
    Only property theorems live here, each closed by [exact] and followed by Print Assumptions. *)
From Coq Require Import List Arith Bool PArith Permutation.
Import ListNotations.
Require Import Fggs.Model.Semiring Fggs.Model.SumProduct.
Require Import Fggs.Model.Axis Fggs.Model.PTensor Fggs.Model.AxisCheck Fggs.Model.Einsum.
Require Import Fggs.Proofs.Einsum_dense.
Local Open Scope nat_scope.

(** * (a) the dense specification *)
Theorem C07_dense_spec_empty : forall (R : Type) (o : sr_ops R), sr_ring o ->
  einsum_dense o [] [] [] [] = one o.
Proof. exact @einsum_dense_empty. Qed.
Print Assumptions C07_dense_spec_empty.

Theorem C07_dense_spec_zero_size : forall (R : Type) (o : sr_ops R) ops inputs output oidx l,
  In l (summed_labels inputs output) ->
  lval (label_sizes (map fst ops) inputs) l = 0 ->
  einsum_dense o ops inputs output oidx = Semiring.zero o.
Proof. exact @einsum_dense_zero_size. Qed.
Print Assumptions C07_dense_spec_zero_size.
