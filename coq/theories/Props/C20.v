(** C20 — domains and factors index consistently and reject ill-shaped bindings. *)
From Coq Require Import List Arith Bool.
Import ListNotations.
Require Import Fggs.Model.Domain.

Theorem C20_size : forall k vs, dom_size (mk_finite k vs) = Some (length vs).
Proof. reflexivity. Qed.
Print Assumptions C20_size.
