(** C20 — domains and factors index consistently and reject ill-shaped bindings.
    Only property theorems live here, each closed by [exact] and followed by Print Assumptions.
    Model: Fggs.Model.Domain (follows fggs/domains.py, fggs/factors.py and
    fggs/fggs.py:InterpretationMixin statement by statement). *)
From Coq Require Import List Arith Bool ZArith QArith.
Import ListNotations.
Require Import Fggs.Model.Axis.
Require Import Fggs.Model.Domain Fggs.Proofs.Domain_dom Fggs.Proofs.Domain_fac Fggs.Proofs.Domain_bind.
Require Import Fggs.Model.DomainPat Fggs.Proofs.DomainPat_thm.
Local Open Scope nat_scope.

(** * C20_bijection *)

(** FiniteDomain over distinct values given as any iterable (list, tuple, dict, range, or a
    one-shot iterator / generator): numberize and denumberize are mutually inverse between the
    values and 0..size-1 (both round trips), contains is membership (= being some denumberize n,
    n < size), unknown values raise KeyError.  Sizes 0 and 1 are included (no hypothesis on the
    length). *)
Theorem C20_bijection : forall k vs, NoDup vs ->
  let d := mk_finite k vs in
  dom_size d = Some (length vs) /\
  (forall v, In v vs ->
     exists i, i < length vs /\ dom_numberize d v = Ok (vnat i) /\ dom_denumberize d (vnat i) = Ok v) /\
  (forall i, i < length vs ->
     exists v, In v vs /\ dom_denumberize d (vnat i) = Ok v /\ dom_numberize d v = Ok (vnat i)) /\
  (forall v b, dom_contains d v b = Ok true <->
               exists i, i < length vs /\ dom_denumberize d (vnat i) = Ok v) /\
  (forall v b, (dom_contains d v b = Ok true <-> In v vs) /\ (dom_contains d v b = Ok false <-> ~ In v vs)) /\
  (forall v, ~ In v vs -> dom_numberize d v = Err KeyErr).
Proof. exact finite_bijection. Qed.
Print Assumptions C20_bijection.

(** outside the guard 0 <= n < size: one negative wrap-around (Python list indexing), else IndexError *)
Theorem C20_denumberize_out_of_range : forall k vs z,
  let d := mk_finite k vs in
  ((- Z.of_nat (length vs) <= z < 0)%Z ->
     dom_denumberize d (vint z) = dom_denumberize d (vint (z + Z.of_nat (length vs)))) /\
  ((z < - Z.of_nat (length vs) \/ Z.of_nat (length vs) <= z)%Z ->
     dom_denumberize d (vint z) = Err IndexErr).
Proof. exact finite_denumberize_range. Qed.
Print Assumptions C20_denumberize_out_of_range.

(** with duplicate values (outside the property's hypothesis) numberize answers the LAST position *)
Theorem C20_numberize_duplicates : forall vs v,
  fin_numberize (build_index vs) v =
  match last_pos_from 0 vs v with Some j => Ok j | None => Err KeyErr end.
Proof. exact numberize_last_position. Qed.
Print Assumptions C20_numberize_duplicates.

(** equality is by content: same class and equal value lists / sizes (the index plays no role) *)
Theorem C20_domain_equality : forall a b, dom_eqb a b = true <-> dom_content a = dom_content b.
Proof. exact dom_eqb_content. Qed.
Print Assumptions C20_domain_equality.

Theorem C20_finite_equality : forall k1 k2 v1 v2,
  dom_eqb (mk_finite k1 v1) (mk_finite k2 v2) = true <-> v1 = v2.
Proof. exact finite_eq_by_content. Qed.
Print Assumptions C20_finite_equality.

(** the kind of iterable makes no difference (F15 repaired in /repo 7d2f845) ... *)
Theorem C20_iterable_kind_irrelevant : forall k k' vs, mk_finite k vs = mk_finite k' vs.
Proof. exact finite_iterkind_irrelevant. Qed.
Print Assumptions C20_iterable_kind_irrelevant.

(** ... in particular both round trips hold for a domain built from a one-shot iterator *)
Theorem C20_bijection_oneshot : forall vs v, NoDup vs -> In v vs ->
  exists i, i < length vs /\ dom_numberize (mk_finite OneShot vs) v = Ok (vnat i)
            /\ dom_denumberize (mk_finite OneShot vs) (vnat i) = Ok v.
Proof. exact finite_bijection_oneshot. Qed.
Print Assumptions C20_bijection_oneshot.

(** record of F15: for the constructor as it was ([mk_finite_old], index built from the exhausted
    argument) the statement failed *)
Theorem C20_bijection_refuted_old :
  ~ (forall k vs, NoDup vs -> forall v, In v vs ->
       exists i, dom_numberize (mk_finite_old k vs) v = Ok (vnat i)).
Proof. exact bijection_refuted_oneshot_old. Qed.
Print Assumptions C20_bijection_refuted_old.

(** RangeDomain of size n: the identity bijection on the ints 0..n-1 (no range check in
    numberize / denumberize); contains decides 0 <= z < n on ints and is False for everything
    that is not an int (a Python value = its equality class + the flag isinstance(_, int)) *)
Theorem C20_bijection_range : forall n,
  let d := DRange (Some n) in
  dom_size d = Some n /\
  (forall v, dom_numberize d v = Ok v /\ dom_denumberize d v = Ok v) /\
  (forall z, dom_contains d (vint z) true = Ok true <-> (0 <= z < Z.of_nat n)%Z) /\
  (forall i, i < n -> dom_contains d (vnat i) true = Ok true) /\
  (forall v, dom_contains d v false = Ok false) /\
  (forall c b, dom_contains d (VOther c) b = Ok false).
Proof. exact range_bijection. Qed.
Print Assumptions C20_bijection_range.

(** "contains agrees", full statement on the modelled universe of Python values: contains holds
    iff the value is an int that some denumberize n, n < size, yields (repaired in /repo 973b650) *)
Theorem C20_range_contains : forall n v b, int_flag_ok (v, b) = true ->
  (dom_contains (DRange (Some n)) v b = Ok true <->
   b = true /\ exists i, i < n /\ dom_denumberize (DRange (Some n)) (vnat i) = Ok v).
Proof. exact range_contains_iff. Qed.
Print Assumptions C20_range_contains.

(** record of the repaired finding: contains without the isinstance test ([range_contains_old])
    was true for RangeDomain(1).contains(0.5) *)
Theorem C20_range_contains_refuted_old :
  ~ (forall n v, range_contains_old (Some n) v = Ok true <-> exists i, i < n /\ v = vnat i).
Proof. exact range_contains_refuted_old. Qed.
Print Assumptions C20_range_contains_refuted_old.

(** soundness of the oracles that judge the implementation's answers *)
Theorem C20_bij_oracle_sound : forall items size tab den,
  bij_oracle items size tab den = true -> NoDup items ->
  size = length items /\ den = map Ok items /\
  (forall v, In v items -> exists c n, In (v, (c, n)) tab) /\
  (forall v c n, In (v, (c, n)) tab ->
     (In v items -> exists i, i < size /\ nth_error den i = Some (Ok v) /\ c = Ok true /\ n = Ok (vnat i)) /\
     (~ In v items -> c = Ok false /\ n = Err KeyErr)) /\
  (forall i v, nth_error den i = Some (Ok v) ->
     forall c n, In (v, (c, n)) tab -> c = Ok true /\ n = Ok (vnat i)).
Proof. exact bij_oracle_sound. Qed.
Print Assumptions C20_bij_oracle_sound.

Theorem C20_range_oracle_sound : forall n size tab,
  range_oracle n size tab = true ->
  size = Some n /\
  forall v b c nu de, In (v, b, (c, nu, de)) tab ->
    (c = Ok true <-> b = true /\ exists i, i < n /\ v = vnat i) /\
    (b = true -> (exists i, i < n /\ v = vnat i) -> nu = Ok v /\ de = Ok v) /\
    (c = Ok true \/ c = Ok false).
Proof. exact range_oracle_sound. Qed.
Print Assumptions C20_range_oracle_sound.

Theorem C20_eq_oracle_sound : forall d eqs,
  eq_oracle d eqs = true ->
  forall o ieq ine, In (o, (ieq, ine)) eqs ->
    (ieq = true <-> dom_content d = dom_content o) /\ ine = negb ieq.
Proof. exact eq_oracle_sound. Qed.
Print Assumptions C20_eq_oracle_sound.

(** * C20_shape *)

(** a FiniteFactor is constructed exactly when every domain is finite and the weights (nested
    lists / Tensor / PatternedTensor, converted to a tensor) have the shape [map size domains];
    the object then holds exactly these domains and weights *)
Theorem C20_shape : forall doms w f,
  mk_finite_factor doms w = Ok f <->
  forallb size_finite doms = true /\
  exists sh d, to_tensor w = Ok (sh, d) /\ sh = sizes_of doms /\ f = FFinite doms sh d.
Proof. exact finite_factor_accepts_iff. Qed.
Print Assumptions C20_shape.

Theorem C20_shape_sizes : forall doms, forallb size_finite doms = true ->
  map dom_size doms = map Some (sizes_of doms).
Proof. exact sizes_of_size. Qed.
Print Assumptions C20_shape_sizes.

(** the three forms of weights *)
Theorem C20_shape_forms : forall doms sh d, forallb size_finite doms = true ->
  ((exists f, mk_finite_factor doms (WTensor sh d) = Ok f) <-> sh = sizes_of doms) /\
  ((exists f, mk_finite_factor doms (WPatterned sh d) = Ok f) <-> sh = sizes_of doms) /\
  (forall n, has_shape sh n -> numel sh <> 0 ->
     ((exists f, mk_finite_factor doms (WNested n) = Ok f) <-> sh = sizes_of doms)).
Proof. exact finite_factor_shape_iff. Qed.
Print Assumptions C20_shape_forms.

(** which exception otherwise, in the order of the code *)
Theorem C20_shape_rejects : forall doms w,
  (forallb size_finite doms = false -> mk_finite_factor doms w = Err TypeErr) /\
  (forallb size_finite doms = true -> forall e, to_tensor w = Err e -> mk_finite_factor doms w = Err e) /\
  (forallb size_finite doms = true -> forall sh d, to_tensor w = Ok (sh, d) -> sh <> sizes_of doms ->
     mk_finite_factor doms w = Err ValueErr).
Proof. exact finite_factor_rejects. Qed.
Print Assumptions C20_shape_rejects.

(** nested lists: torch.tensor returns shape and row-major data of every regular non-empty
    nested list, and a non-empty result only for such a list *)
Theorem C20_nested_accepted : forall sh n, has_shape sh n -> numel sh <> 0 ->
  tensor_of_nested n = Ok (sh, nflat n).
Proof. exact nested_accepted. Qed.
Print Assumptions C20_nested_accepted.

Theorem C20_nested_accepted_only : forall n sh d, tensor_of_nested n = Ok (sh, d) -> numel sh <> 0 ->
  has_shape sh n /\ d = nflat n /\ length d = numel sh.
Proof. exact nested_accepted_only. Qed.
Print Assumptions C20_nested_accepted_only.

(** apply(values) on a complete tuple of values of the domains is the weight at the row-major
    position of the numberized values *)
Theorem C20_apply : forall doms sh d vs is,
  forallb good_dom doms = true -> sh = sizes_of doms -> length d = numel sh ->
  spec_indices doms vs = Some is ->
  exists w, nth_error d (rm_offset sh is 0) = Some w /\
            fac_apply (FFinite doms sh d) vs = Ok ([], [w]).
Proof. exact apply_spec. Qed.
Print Assumptions C20_apply.

Theorem C20_spec_indices : forall doms vs is,
  spec_indices doms vs = Some is <->
  length vs = length doms /\ length is = length doms /\
  forall k d v i, nth_error doms k = Some d -> nth_error vs k = Some v -> nth_error is k = Some i ->
                  spec_index d v = Some i.
Proof. exact spec_indices_iff. Qed.
Print Assumptions C20_spec_indices.

Theorem C20_apply_keyerror : forall d doms sh w v vs,
  (exists vals idx, d = DFinite vals idx /\ dget value_eqb idx v = None) ->
  fac_apply (FFinite (d :: doms) sh w) (v :: vs) = Err KeyErr.
Proof. exact apply_keyerror. Qed.
Print Assumptions C20_apply_keyerror.

(** factor equality is by class, domains (by content) and elementwise weights *)
Theorem C20_factor_equality : forall f g,
  fac_eqb f g = true <->
  match f, g with
  | FFinite d1 s1 w1, FFinite d2 s2 w2 =>
    Forall2 (fun a b => dom_content a = dom_content b) d1 d2 /\ s1 = s2 /\ Forall2 Qeq w1 w2
  | FConst d1 w1, FConst d2 w2 =>
    Forall2 (fun a b => dom_content a = dom_content b) d1 d2 /\ Qeq w1 w2
  | _, _ => False
  end.
Proof. exact fac_eq_by_content. Qed.
Print Assumptions C20_factor_equality.

Theorem C20_ctor_oracle_sound : forall doms w accepted, ctor_oracle doms w accepted = true ->
  (accepted = true <->
   forallb size_finite doms = true /\ exists sh d, to_tensor w = Ok (sh, d) /\ sh = sizes_of doms).
Proof. exact ctor_oracle_sound. Qed.
Print Assumptions C20_ctor_oracle_sound.

Theorem C20_apply_oracle_sound : forall doms t vs r, apply_oracle doms t vs r = true ->
  forall is, spec_indices doms vs = Some is ->
  exists w d', nth_error (snd t) (rm_offset (fst t) is 0) = Some w /\
               r = Ok ([], d') /\ Forall2 Qeq d' [w].
Proof. exact apply_oracle_sound. Qed.
Print Assumptions C20_apply_oracle_sound.

(** * C20_binding *)

(** add_factor succeeds iff: terminal label; no different label of that name in the label
    table; same arity; every node label mapped to a domain equal (by content) to the factor's;
    and the label is not already bound (F14 repaired in /repo 19d007a) *)
Theorem C20_binding : forall s e f,
  snd (add_factor s e f) = RNone <->
  el_terminal e = true /\
  (forall e', el_find (st_els s) (el_name e) = Some e' -> e' = e) /\
  length (fac_doms f) = length (el_type e) /\
  Forall2 (fun nl d => exists d', dget Nat.eqb (st_doms s) nl = Some d' /\ dom_content d = dom_content d')
          (el_type e) (fac_doms f) /\
  dmem Nat.eqb (st_facs s) (el_name e) = false.
Proof. exact add_factor_iff. Qed.
Print Assumptions C20_binding.

(** the same through the boolean specification the oracle evaluates, and its meaning *)
Theorem C20_binding_spec : forall s e f, snd (add_factor s e f) = RNone <-> bind_spec s e f = true.
Proof. exact add_factor_spec. Qed.
Print Assumptions C20_binding_spec.

Theorem C20_bind_spec_meaning : forall s e f,
  bind_spec s e f = true <->
  el_terminal e = true /\
  (forall e', el_find (st_els s) (el_name e) = Some e' -> e' = e) /\
  length (fac_doms f) = length (el_type e) /\
  Forall2 (fun nl d => exists d', dget Nat.eqb (st_doms s) nl = Some d' /\ dom_content d = dom_content d')
          (el_type e) (fac_doms f) /\
  dmem Nat.eqb (st_facs s) (el_name e) = false.
Proof. exact bind_spec_iff. Qed.
Print Assumptions C20_bind_spec_meaning.

(** a bound label is refused and nothing changes *)
Theorem C20_binding_bound : forall s e f, dmem Nat.eqb (st_facs s) (el_name e) = true ->
  add_factor s e f = (s, RErr ValueErr).
Proof. exact add_factor_bound. Qed.
Print Assumptions C20_binding_bound.

(** record of F14: add_factor as it was ([add_factor_old], `el in self.factors`) rebound a bound
    label; the present one refuses the same call *)
Theorem C20_binding_refuted_old :
  dmem Nat.eqb (st_facs f14_state) 0 = true /\
  snd (add_factor_old f14_state (0, [], true) (FConst [] 2)) = RNone /\
  dget Nat.eqb (st_facs (fst (add_factor_old f14_state (0, [], true) (FConst [] 2)))) 0 = Some (FConst [] 2) /\
  snd (add_factor f14_state (0, [], true) (FConst [] 2)) = RErr ValueErr.
Proof. exact binding_refuted_old. Qed.
Print Assumptions C20_binding_refuted_old.

(** a successful binding stores the factor and registers the label, and changes nothing else *)
Theorem C20_binding_post : forall s e f, snd (add_factor s e f) = RNone ->
  let s' := fst (add_factor s e f) in
  dget Nat.eqb (st_facs s') (el_name e) = Some f /\
  (forall m, m <> el_name e -> dget Nat.eqb (st_facs s') m = dget Nat.eqb (st_facs s) m) /\
  st_doms s' = st_doms s /\ st_nls s' = st_nls s /\
  el_find (st_els s') (el_name e) = Some e /\
  (forall m, m <> el_name e -> el_find (st_els s') m = el_find (st_els s) m).
Proof. exact add_factor_post. Qed.
Print Assumptions C20_binding_post.

(** a failing binding raises ValueError and leaves all four tables unchanged (the label is
    registered only on success, /repo 6c89611) *)
Theorem C20_binding_fails : forall s e f, snd (add_factor s e f) <> RNone ->
  add_factor s e f = (s, RErr ValueErr).
Proof. exact add_factor_fails. Qed.
Print Assumptions C20_binding_fails.

(** a node label's domain, by contrast, cannot be rebound *)
Theorem C20_add_domain : forall s n d,
  snd (add_domain s n d) = RNone <-> dmem Nat.eqb (st_doms s) n = false.
Proof. exact add_domain_iff. Qed.
Print Assumptions C20_add_domain.

Theorem C20_add_domain_fails : forall s n d, dmem Nat.eqb (st_doms s) n = true ->
  add_domain s n d = (s, RErr ValueErr).
Proof. exact add_domain_fails. Qed.
Print Assumptions C20_add_domain_fails.

Theorem C20_add_domain_post : forall s n d, dmem Nat.eqb (st_doms s) n = false ->
  let s' := fst (add_domain s n d) in
  dget Nat.eqb (st_doms s') n = Some d /\
  (forall m, m <> n -> dget Nat.eqb (st_doms s') m = dget Nat.eqb (st_doms s) m) /\
  st_facs s' = st_facs s /\ st_els s' = st_els s.
Proof. exact add_domain_post. Qed.
Print Assumptions C20_add_domain_post.

Theorem C20_new_finite_domain : forall s n k items,
  (snd (new_finite_domain s n k items) = RDom (mk_finite k items) <-> dmem Nat.eqb (st_doms s) n = false) /\
  (dmem Nat.eqb (st_doms s) n = true -> new_finite_domain s n k items = (s, RErr ValueErr)).
Proof. exact new_finite_domain_iff. Qed.
Print Assumptions C20_new_finite_domain.

(** shape(x) is the tuple of the sizes of the domains of x's node labels, for every kind of x *)
Theorem C20_shape_of : forall s a sh,
  shape_of s a = Ok sh <->
  Forall2 (fun nl sz => exists d, dget Nat.eqb (st_doms s) nl = Some d /\ dom_size d = sz) (shape_labels a) sh.
Proof. exact shape_of_iff. Qed.
Print Assumptions C20_shape_of.

Theorem C20_shape_after_binding : forall s e f, snd (add_factor s e f) = RNone ->
  shape_of (fst (add_factor s e f)) (SEdgeLabel e) = Ok (map dom_size (fac_doms f)).
Proof. exact shape_after_binding. Qed.
Print Assumptions C20_shape_after_binding.

Theorem C20_shape_after_binding_finite : forall s e doms w sh d,
  mk_finite_factor doms w = Ok (FFinite doms sh d) ->
  snd (add_factor s e (FFinite doms sh d)) = RNone ->
  shape_of (fst (add_factor s e (FFinite doms sh d))) (SEdgeLabel e) = Ok (map Some sh).
Proof. exact shape_after_binding_finite. Qed.
Print Assumptions C20_shape_after_binding_finite.

Theorem C20_new_finite_factor_fails : forall s n w,
  (forall f, snd (new_finite_factor s n w) <> RFac f) -> fst (new_finite_factor s n w) = s.
Proof. exact new_finite_factor_fails. Qed.
Print Assumptions C20_new_finite_factor_fails.

Theorem C20_new_finite_factor : forall s n w f,
  snd (new_finite_factor s n w) = RFac f <->
  exists e doms, el_find (st_els s) n = Some e /\ el_terminal e = true /\
    dmem Nat.eqb (st_facs s) n = false /\
    mapM (fun nl => match dget Nat.eqb (st_doms s) nl with Some d => Ok d | None => Err KeyErr end) (el_type e) = Ok doms /\
    mk_finite_factor doms w = Ok f.
Proof. exact new_finite_factor_iff. Qed.
Print Assumptions C20_new_finite_factor.

(** * The oracles are not stricter than the property: the model's own answers pass them *)
Require Import Fggs.Proofs.Domain_oracle.

Theorem C20_bij_oracle_complete : forall k items tprobes, NoDup items -> (forall v, In v items -> In v (map fst tprobes)) ->
  let d := mk_finite k items in
  let probes := map fst tprobes in
  bij_oracle items (length items)
             (combine probes (combine (map (fun p => dom_contains d (fst p) (snd p)) tprobes) (map (dom_numberize d) probes)))
             (map (fun i => dom_denumberize d (vnat i)) (seq 0 (length items))) = true.
Proof. exact bij_oracle_model. Qed.
Print Assumptions C20_bij_oracle_complete.

Theorem C20_range_oracle_complete : forall n tprobes, forallb int_flag_ok tprobes = true ->
  let d := DRange (Some n) in
  let probes := map fst tprobes in
  range_oracle n (dom_size d)
               (combine tprobes (combine (combine (map (fun p => dom_contains d (fst p) (snd p)) tprobes)
                                                  (map (dom_numberize d) probes))
                                         (map (dom_denumberize d) probes))) = true.
Proof. exact range_oracle_model. Qed.
Print Assumptions C20_range_oracle_complete.

Theorem C20_ctor_oracle_complete : forall doms w,
  ctor_oracle doms w (match mk_finite_factor doms w with Ok _ => true | Err _ => false end) = true.
Proof. exact ctor_oracle_model. Qed.
Print Assumptions C20_ctor_oracle_complete.

Theorem C20_apply_oracle_complete : forall doms sh d vs,
  forallb good_dom doms = true -> sh = sizes_of doms -> length d = numel sh ->
  apply_oracle doms (sh, d) vs (fac_apply (FFinite doms sh d) vs) = true.
Proof. exact apply_oracle_model. Qed.
Print Assumptions C20_apply_oracle_complete.

(** the verdict of the binding oracle on the model's own outcome is 0 *)
Theorem C20_step_oracle_add_factor : forall s e f,
  step_oracle s (OAddFactor e f) (snd (add_factor s e f)) = 0.
Proof. exact step_oracle_add_factor. Qed.
Print Assumptions C20_step_oracle_add_factor.

(** * Weights given as a PatternedTensor representation (Model.DomainPat) *)

(** the dense tensor computed from (paxes, physical data, vaxes, default) is well-formed and has
    the shape of the vaxes *)
Theorem C20_pat_dense_wf : forall p t, pat_dense p = Some t -> tensor_wf t = true /\ fst t = pat_shape p.
Proof. exact pat_dense_wf. Qed.
Print Assumptions C20_pat_dense_wf.

(** ... and at every in-range row-major position it holds the element the representation denotes *)
Theorem C20_pat_dense_at : forall p sh data idx, pat_dense p = Some (sh, data) -> Forall2 lt idx sh ->
  exists w, pat_at p idx = Some w /\ nth_error data (rm_offset sh idx 0) = Some w.
Proof. exact pat_dense_at. Qed.
Print Assumptions C20_pat_dense_at.

(** which is the DEFAULT wherever a vaxis reports the position as not stored (off the diagonal, in
    the padding of a SumAxis), and the stored element wherever all vaxes decode it *)
Theorem C20_pat_at_unstored : forall ps data vs d idx,
  Axis.index_list vs [] idx = IEmpty -> pat_at (ps, data, vs, d) idx = Some d.
Proof. exact pat_at_unstored. Qed.
Print Assumptions C20_pat_at_unstored.

Theorem C20_pat_at_stored : forall ps data vs d idx pi off,
  Axis.index_list vs [] idx = IOk pi -> phys_offset ps pi 0 = Some off ->
  pat_at (ps, data, vs, d) idx = nth_error data off.
Proof. exact pat_at_stored. Qed.
Print Assumptions C20_pat_at_stored.

(** a case accepted by facp_check: every apply on a complete tuple of domain values answered the
    element denoted by the representation at the numberized position (stored or not) *)
Theorem C20_apply_patterned : forall doms p p' f iapps ieqs,
  facp_check (doms, p, p', Ok f, iapps, ieqs) = 0 ->
  forallb good_dom doms = true ->
  forall vs r is, In (vs, r) iapps -> spec_indices doms vs = Some is ->
  exists w d', pat_at p is = Some w /\ r = Ok ([], d') /\ Forall2 Qeq d' [w].
Proof. exact facp_check_apply. Qed.
Print Assumptions C20_apply_patterned.

(** ... and apply / == left the representation of the weights as it was *)
Theorem C20_apply_patterned_unchanged : forall doms p p' ictor iapps ieqs,
  facp_check (doms, p, p', ictor, iapps, ieqs) = 0 -> pat_eqb p p' = true.
Proof. exact facp_check_unchanged. Qed.
Print Assumptions C20_apply_patterned_unchanged.
