(** C17 -- conjunction generates exactly the paired derivations.
    Only property theorems live here, each closed by [exact] and followed by Print Assumptions.
    Model: Model/Conj.v (follows fggs/conjunction.py and fggs/utils.py:unique_label_name). *)
From Coq Require Import List Arith Bool.
Import ListNotations.
Require Import Fggs.Model.Conj Fggs.Model.ConjOld Fggs.Proofs.ConjNames Fggs.Proofs.ConjRule Fggs.Proofs.ConjHrg
               Fggs.Proofs.ConjBij Fggs.Proofs.ConjOracle Fggs.Proofs.ConjTotal Fggs.Proofs.ConjEnum
               Fggs.Proofs.ConjExamples.

(** * C17_names *)
(** [unique_label_name]: the loop stops within |names|+1 probes (pigeonhole on the injective
    decimal suffix) ... *)
Theorem C17_unique_name_terminates :
  forall name names, exists o, unique_name name names = Some o.
Proof. exact unique_name_total. Qed.
Print Assumptions C17_unique_name_terminates.

(** ... returns the first of name, name_1, name_2, ... that is not among the names ... *)
Theorem C17_unique_name_first_free :
  forall name names o, unique_name name names = Some o ->
    unique_spec name names o /\ (o = name \/ exists j, 1 <= j <= length names /\ o = suffixed name j).
Proof. exact unique_name_spec. Qed.
Print Assumptions C17_unique_name_first_free.

(** ... does not depend on the order of the label *set* ... *)
Theorem C17_unique_name_set_order :
  forall name l l', (forall x, In x l <-> In x l') -> unique_name name l = unique_name name l'.
Proof. exact unique_name_ext. Qed.
Print Assumptions C17_unique_name_set_order.

(** ... and the executable specification that judges the implementation's result is sound and
    determines the result. *)
Theorem C17_unique_oracle_sound :
  forall name names out, unique_ok name names out = true -> unique_spec name names out.
Proof. exact unique_ok_sound. Qed.
Print Assumptions C17_unique_oracle_sound.

Theorem C17_unique_spec_unique :
  forall name names o o', unique_spec name names o -> unique_spec name names o' -> o = o'.
Proof. exact unique_spec_unique. Qed.
Print Assumptions C17_unique_spec_unique.

(** [nonterminal_pairs] never fails; nt_map is total on pairs of nonterminals, its values are
    nonterminal labels (typed like the first component) whose names collide with no label of either
    grammar and are pairwise distinct -- so nt_map is injective.  This holds for all label names,
    including "X"+"Y,Z" vs "X,Y"+"Z" and terminals called "<X,Y>". *)
Theorem C17_names_total :
  forall h1 h2, exists m, nonterminal_pairs_model h1 h2 = Ok m.
Proof. exact nonterminal_pairs_total. Qed.
Print Assumptions C17_names_total.

Theorem C17_names :
  forall h1 h2 m, nonterminal_pairs_model h1 h2 = Ok m -> ntmap_spec h1 h2 m.
Proof. exact nonterminal_pairs_spec. Qed.
Print Assumptions C17_names.

Theorem C17_names_injective :
  forall h1 h2 m k1 k2 v, nonterminal_pairs_model h1 h2 = Ok m ->
    nt_get m k1 = Some v -> nt_get m k2 = Some v -> k1 = k2.
Proof. exact nt_map_injective. Qed.
Print Assumptions C17_names_injective.

Theorem C17_names_oracle_sound :
  forall h1 h2 m, ntmap_ok h1 h2 m = true -> ntmap_spec h1 h2 m.
Proof. exact ntmap_ok_sound. Qed.
Print Assumptions C17_names_oracle_sound.

(** a genuine terminal/terminal label conflict is reported with ValueError *)
Theorem C17_terminal_conflict :
  forall h1 h2, NoDup (map el_name (h_elabels h2)) -> has_tt_conflict h1 h2 = true ->
    conjoin_hrgs_model h1 h2 = Err ValueErr.
Proof. exact tt_conflict_raises. Qed.
Print Assumptions C17_terminal_conflict.

(** * C17_rule *)
(** for conjoinable well-formed rules, whenever [conjoin_rules] returns, the result has the
    nodes and externals of the pair, one nonterminal edge per shared edge with the paired label
    and the shared attachment (keeping the id of edge 1 if it is explicit, under an implicit id
    otherwise), the terminal edges of both (those of rule 2 possibly re-created under an implicit
    id), and is a well-typed rule.  [base] is the bound used to number fresh implicit ids. *)
Theorem C17_rule :
  forall base r1 r2 m r,
    wf_rule r1 -> wf_rule r2 -> conjoinable_model r1 r2 = true -> nt_values m ->
    conjoin_rules_model base r1 r2 m = Ok r -> conj_rule_spec r1 r2 m r.
Proof. exact conjoin_rules_spec. Qed.
Print Assumptions C17_rule.

(** the "shared edges" of two conjoinable rules: the pairs of their id-sorted nonterminal edges
    are exactly the pairs of nonterminal edges with the same id; they have the same attachment ids *)
Theorem C17_shared_edges :
  forall r1 r2, wf_rule r1 -> wf_rule r2 -> conjoinable_model r1 r2 = true ->
    length (nt_sorted r1) = length (nt_sorted r2) /\
    (forall e1 e2, In (e1, e2) (combine (nt_sorted r1) (nt_sorted r2)) <->
       In e1 (nt_edges (r_rhs r1)) /\ In e2 (nt_edges (r_rhs r2)) /\ e_id e1 = e_id e2) /\
    (forall e1 e2, In (e1, e2) (combine (nt_sorted r1) (nt_sorted r2)) ->
       map n_id (e_att e1) = map n_id (e_att e2)).
Proof. exact shared_pairs. Qed.
Print Assumptions C17_shared_edges.

(** the executable checker of C17_rule's conclusion, applied to every rule the implementation
    produces, is sound *)
Theorem C17_rule_oracle_sound :
  forall r1 r2 m r, conj_rule_ok r1 r2 m r = true -> conj_rule_spec r1 r2 m r.
Proof. exact conj_rule_ok_sound. Qed.
Print Assumptions C17_rule_oracle_sound.

Theorem C17_grammar_oracle_sound :
  forall h1 h2 m g, conj_hrg_ok h1 h2 m g = true -> conj_hrg_spec h1 h2 m g.
Proof. exact conj_hrg_ok_sound. Qed.
Print Assumptions C17_grammar_oracle_sound.

(** * C17_bijection *)
(** [pair] and [unpair] are mutually inverse between the derivation trees of the conjunction and
    the pairable pairs (same shape, conjoinable rules at every position) of derivation trees of
    the two grammars; well-formedness and depth are preserved; every depth (induction on trees);
    derivations name rule occurrences, so a rule listed twice is two rules (multiplicity). *)
Theorem C17_bijection :
  forall h1 h2 g12,
    wf_hrg_b h1 = true -> wf_hrg_b h2 = true ->
    conjoin_hrgs_model h1 h2 = Ok g12 ->
    let prov := conj_prov h1 h2 in
    (forall t, wf_dtree g12 (h_start g12) t ->
       wf_dtree h1 (h_start h1) (fst (unpair_tree prov t)) /\
       wf_dtree h2 (h_start h2) (snd (unpair_tree prov t)) /\
       pairable_b h1 h2 (fst (unpair_tree prov t)) (snd (unpair_tree prov t)) = true /\
       pair_tree prov (fst (unpair_tree prov t)) (snd (unpair_tree prov t)) = Some t /\
       depth (fst (unpair_tree prov t)) = depth t /\ depth (snd (unpair_tree prov t)) = depth t) /\
    (forall t1 t2, wf_dtree h1 (h_start h1) t1 -> wf_dtree h2 (h_start h2) t2 ->
       pairable_b h1 h2 t1 t2 = true ->
       exists t, pair_tree prov t1 t2 = Some t /\ wf_dtree g12 (h_start g12) t /\
                 unpair_tree prov t = (t1, t2)) /\
    (forall t1 t2, pair_tree prov t1 t2 <> None <-> pairable_b h1 h2 t1 t2 = true).
Proof. exact conj_bijection. Qed.
Print Assumptions C17_bijection.

(** the enumerator used by the harness lists exactly the well-formed derivations up to the depth,
    each once ... *)
Theorem C17_enum_sound :
  forall h d X t, In t (enum h d X) -> wf_dtree h X t /\ depth t <= d.
Proof. exact enum_sound. Qed.
Print Assumptions C17_enum_sound.

Theorem C17_enum_complete :
  forall h d X t, wf_dtree h X t -> depth t <= d -> In t (enum h d X).
Proof. exact enum_complete. Qed.
Print Assumptions C17_enum_complete.

Theorem C17_enum_nodup : forall h d X, NoDup (enum h d X).
Proof. exact enum_nodup. Qed.
Print Assumptions C17_enum_nodup.

(** ... so, for every depth, the conjunction has exactly as many derivations as there are pairable
    pairs of derivations of the two grammars (the count checked on the implementation's output) *)
Theorem C17_count :
  forall h1 h2 g12,
    wf_hrg_b h1 = true -> wf_hrg_b h2 = true ->
    conjoin_hrgs_model h1 h2 = Ok g12 ->
    forall d, length (enum g12 d (h_start g12)) =
              count_pairable h1 h2 (enum h1 d (h_start h1)) (enum h2 d (h_start h2)).
Proof. exact conj_count. Qed.
Print Assumptions C17_count.

(** * when [conjoin_hrgs] returns *)
(** before /repo commit 00f91d1 the statement "for all HRGs without conflicting terminal labels
    conjoin_hrgs returns the conjunction" was false; the witnesses, about the old definitions
    (Model/ConjOld.v) only -- the current model returns on both: *)
Theorem C17_total_refuted_shared_terminal_id_old :
  exists h1 h2, wf_hrg_b h1 = true /\ wf_hrg_b h2 = true /\ has_tt_conflict h1 h2 = false /\
                defect_shared_terminal_id_old h1 h2 = true /\
                conjoin_hrgs_model_old h1 h2 = Err ValueErr /\
                exists g, conjoin_hrgs_model h1 h2 = Ok g.
Proof. exact shared_terminal_id_refuted_old. Qed.
Print Assumptions C17_total_refuted_shared_terminal_id_old.

Theorem C17_total_refuted_implicit_nt_id_old :
  exists h1 h2, wf_hrg_b h1 = true /\ wf_hrg_b h2 = true /\ has_tt_conflict h1 h2 = false /\
                defect_int_nt_id_old h1 h2 = true /\
                conjoin_hrgs_model_old h1 h2 = Err TypeErr /\
                exists g, conjoin_hrgs_model h1 h2 = Ok g.
Proof. exact int_nt_id_refuted_old. Qed.
Print Assumptions C17_total_refuted_implicit_nt_id_old.

(** rule level: [conjoin_rules] returns on well-formed conjoinable rules when nt_map covers the
    labels involved and [base] bounds the terminal-edge ids of rule 1 *)
Theorem C17_rule_total :
  forall base r1 r2 m,
    wf_rule r1 -> wf_rule r2 -> conjoinable_model r1 r2 = true ->
    (exists L, nt_get m (r_lhs r1, r_lhs r2) = Some L /\ el_term L = false /\
               el_type L = el_type (r_lhs r1)) ->
    (forall e1 e2, In e1 (nt_edges (r_rhs r1)) -> In e2 (nt_edges (r_rhs r2)) ->
       exists l, nt_get m (e_lab e1, e_lab e2) = Some l /\ el_type l = el_type (e_lab e1)) ->
    (forall e, In e (t_edges (r_rhs r1)) -> e_id e <= base) ->
    exists r, conjoin_rules_model base r1 r2 m = Ok r.
Proof. exact conjoin_rules_total. Qed.
Print Assumptions C17_rule_total.

(** [conjoin_hrgs] succeeds on every pair of well-formed grammars without a terminal label
    conflict (implicit ids, shared terminal-edge ids, conjoining a grammar with itself included) *)
Theorem C17_total :
  forall h1 h2,
    wf_hrg_b h1 = true -> wf_hrg_b h2 = true -> has_tt_conflict h1 h2 = false ->
    exists g, conjoin_hrgs_model h1 h2 = Ok g.
Proof. exact conjoin_hrgs_total. Qed.
Print Assumptions C17_total.

(** non-vacuity: a pair of recursive grammars satisfying every hypothesis above *)
Theorem C17_example :
  wf_hrg_b exA = true /\ wf_hrg_b exB = true /\ has_tt_conflict exA exB = false.
Proof. exact ex_wf. Qed.
Print Assumptions C17_example.
