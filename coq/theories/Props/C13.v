(** C13 -- equal and allclose decide (approximate) equality of the denoted tensors.
    Only property theorems live here, each closed by [exact] and followed by Print Assumptions. *)
From Coq Require Import List Arith Bool PArith QArith Qcanon.
Import ListNotations.
Require Import Fggs.Model.Axis Fggs.Model.AxisCheck Fggs.Model.XVal Fggs.Model.PTensor Fggs.Model.PTensorCheck Fggs.Model.PTEqual.
Local Open Scope nat_scope.

Example C13_placeholder : xisclose 0%Qc 0%Qc false XPInf XPInf = true.
Proof. exact eq_refl. Qed.
Print Assumptions C13_placeholder.
