(** C13 -- equal and allclose decide (approximate) equality of the denoted tensors.
    Only property theorems live here, each closed by [exact] and followed by Print Assumptions.

    Full statement of the property (open in this generality, see notes/C13.md):
      forall t u well typed over common index types,
        equal_model next t u = Ok true <-> same shape /\ forall idx, denote t idx = denote u idx
    What is proved: exactly this with the typing assumption replaced by the boolean premise
    [compare_pre_b next t u] (both operands satisfy the representation invariant, and the two views
    that the code builds from the unifier enumerate exactly the coincidences of the two patterns,
    each once) -- C13_equal_correct, C13_allclose_correct; the premise is discharged in the kernel on
    the bounded typed universes (C13_overlap_exact_upto12, C13_overlap_exact_2d_upto6) and it is what
    soundness + completeness of [unify] on typed axes give (C06_unify_sound, C06_unify_complete_upto12). *)
From Coq Require Import List Arith Bool PArith QArith Qcanon.
Import ListNotations.
Require Import Fggs.Model.Axis Fggs.Model.AxisCheck Fggs.Model.AxisEnum Fggs.Model.XVal Fggs.Model.PTensor Fggs.Model.PTensorCheck Fggs.Model.PTEqual.
Require Import Fggs.Proofs.PTensor_dense Fggs.Proofs.PTEqual_count Fggs.Proofs.PTEqual_sem Fggs.Proofs.PTEqual_freshen.
Require Import Fggs.Proofs.PTEqual_main Fggs.Proofs.PTEqual_multi Fggs.Proofs.PTEqual_bounded Fggs.Proofs.PTEqual_examples Fggs.Proofs.PTEqual_dense.
Require Import Fggs.Proofs.Axis_typed Fggs.Proofs.Axis_total Fggs.Proofs.PTEqual_typed Fggs.Proofs.PTEqual_typed_main Fggs.Proofs.PTEqual_typed_ex Fggs.Proofs.PTEqual_typed_total.
Local Open Scope nat_scope.

(** * supports and the counting argument (any carrier, any comparison) *)

(** the cells a tensor backs are the injective image of its physical index space:
    there are exactly as many as physical elements *)
Theorem C13_support_size : forall (V : Type) (t : ptensor V), wf V t ->
  length (filter (backedb V t) (all_idx (shape V t))) = pnumel (paxes t).
Proof. exact count_backed. Qed.
Print Assumptions C13_support_size.

(** the counting argument of the code: with [cs] the overlap list,
    [n + |cs| <= |t| + |u|] iff no cell is unbacked on both sides (inclusion-exclusion on the supports) *)
Theorem C13_counting_argument : forall (V : Type) (t u : ptensor V), wf V t -> wf V u -> shape V t = shape V u ->
  forall cs, overlap_ok V t u cs ->
  ((fold_right Nat.mul 1 (shape V t) + length cs <=? pnumel (paxes t) + pnumel (paxes u)) = true <->
   forallb (fun idx => backedb V t idx || backedb V u idx) (all_idx (shape V t)) = true).
Proof. exact count_argument. Qed.
Print Assumptions C13_counting_argument.

(** the body of [equal] / [allclose] (after the size test and the freshening) decides the cellwise
    comparison, for every carrier and every comparison [cmp] (self's side, other's side) *)
Theorem C13_compare_core_correct : forall (V : Type) (cmp : V -> V -> bool) (t u : ptensor V),
  wf V t -> wf V u -> shape V t = shape V u ->
  forall next b,
  (forall cs, overlap_cs V t u next = Ok cs -> overlap_ok V t u cs) ->
  compare_core V cmp next t u = Ok b ->
  (b = true <-> forall idx, in_bounds (shape V t) idx -> cmp (denote V t idx) (denote V u idx) = true).
Proof. exact compare_core_correct. Qed.
Print Assumptions C13_compare_core_correct.

(** which half needs what: both halves need the overlap list to be sound and complete (a missed
    coincidence is compared with the defaults instead of with its partner: C13_equal_mixed_types_refuted);
    only duplicate-freeness is dispensable, and only for "True -> the comparison holds in every cell" *)
Theorem C13_true_sound_without_nodup : forall (V : Type) (cmp : V -> V -> bool) (t u : ptensor V),
  wf V t -> wf V u -> shape V t = shape V u ->
  forall cs,
  (forall cc, In cc cs -> exists pi pj, In pi (all_envs (paxes t)) /\ In pj (all_envs (paxes u)) /\
       fst cc = map snd pi /\ snd cc = map snd pj /\ cell_of V t pi = cell_of V u pj) ->
  (forall pi pj, In pi (all_envs (paxes t)) -> In pj (all_envs (paxes u)) ->
       cell_of V t pi = cell_of V u pj -> In (map snd pi, map snd pj) cs) ->
  verdict V cmp t u (length cs) cs = true ->
  forall idx, in_bounds (shape V t) idx -> cmp (denote V t idx) (denote V u idx) = true.
Proof. exact verdict_sound_weak. Qed.
Print Assumptions C13_true_sound_without_nodup.

(** * freshening ([other = other.freshen()], also clone / detach) *)
Theorem C13_freshen_wf : forall (V : Type) (t : ptensor V) next, wf V t -> wf V (fst (pt_freshen V next t)).
Proof. exact pt_freshen_wf. Qed.
Print Assumptions C13_freshen_wf.

Theorem C13_freshen_denote : forall (V : Type) (t : ptensor V) next, wf V t ->
  forall idx, length idx = length (vaxes t) -> denote V (fst (pt_freshen V next t)) idx = denote V t idx.
Proof. exact pt_freshen_denote. Qed.
Print Assumptions C13_freshen_denote.

(** * equal / allclose on the concrete carrier *)

(** the executable premise means what it says *)
Theorem C13_premise_meaning : forall next (t u : pt), overlap_exact_b next t u = true ->
  exists cs, overlap_cs xval t u next = Ok cs /\ overlap_ok xval t u cs.
Proof. exact overlap_exact_sound. Qed.
Print Assumptions C13_premise_meaning.

Theorem C13_equal_correct : forall next (t u : pt) b,
  compare_pre_b next t u = true -> equal_model next t u = Ok b ->
  (b = true <-> shape xval t = shape xval u /\
                forall idx, in_bounds (shape xval t) idx -> denote xval t idx = denote xval u idx /\ denote xval t idx <> XNaN).
Proof. exact equal_correct. Qed.
Print Assumptions C13_equal_correct.

Theorem C13_equal_correct_nanfree : forall next (t u : pt) b, nan_free t ->
  compare_pre_b next t u = true -> equal_model next t u = Ok b ->
  (b = true <-> shape xval t = shape xval u /\
                forall idx, in_bounds (shape xval t) idx -> denote xval t idx = denote xval u idx).
Proof. exact equal_correct_nanfree. Qed.
Print Assumptions C13_equal_correct_nanfree.

(** torch's asymmetric closeness, infinities and NaN / equal_nan included *)
Theorem C13_allclose_correct : forall rtol atol en next (t u : pt) b,
  compare_pre_b next t u = true -> allclose_model rtol atol en next t u = Ok b ->
  (b = true <-> shape xval t = shape xval u /\
                forall idx, in_bounds (shape xval t) idx -> xisclose rtol atol en (denote xval t idx) (denote xval u idx) = true).
Proof. exact allclose_correct. Qed.
Print Assumptions C13_allclose_correct.

(** under the premise the model does not fail *)
Theorem C13_model_total : forall cmp next (t u : pt),
  compare_pre_b next t u = true -> exists b, compare_model xval cmp next t u = Ok b.
Proof. exact compare_model_total. Qed.
Print Assumptions C13_model_total.

Theorem C13_equal_symmetric : forall next (t u : pt) b1 b2,
  compare_pre_b next t u = true -> compare_pre_b next u t = true ->
  equal_model next t u = Ok b1 -> equal_model next u t = Ok b2 -> b1 = b2.
Proof. exact equal_symmetric. Qed.
Print Assumptions C13_equal_symmetric.

Theorem C13_allclose_symmetric_rtol0 : forall atol en next (t u : pt) b1 b2,
  compare_pre_b next t u = true -> compare_pre_b next u t = true ->
  allclose_model 0%Qc atol en next t u = Ok b1 -> allclose_model 0%Qc atol en next u t = Ok b2 -> b1 = b2.
Proof. exact allclose_symmetric_rtol0. Qed.
Print Assumptions C13_allclose_symmetric_rtol0.

Theorem C13_equal_reflexive : forall next (t : pt) b, nan_free t ->
  compare_pre_b next t t = true -> equal_model next t t = Ok b -> b = true.
Proof. exact equal_reflexive. Qed.
Print Assumptions C13_equal_reflexive.

(** whatever denotes the same (NaN-free) dense tensor is equal: densification, re-patterned copies *)
Theorem C13_equal_repr_insensitive : forall next (t u : pt) b, nan_free t ->
  shape xval t = shape xval u ->
  (forall idx, in_bounds (shape xval t) idx -> denote xval u idx = denote xval t idx) ->
  compare_pre_b next t u = true -> equal_model next t u = Ok b -> b = true.
Proof. exact equal_repr_insensitive. Qed.
Print Assumptions C13_equal_repr_insensitive.

Theorem C13_equal_clone : forall next next2 (t : pt) b, nan_free t -> wf xval t ->
  compare_pre_b next t (fst (pt_freshen xval next2 t)) = true ->
  equal_model next t (fst (pt_freshen xval next2 t)) = Ok b -> b = true.
Proof. exact equal_clone. Qed.
Print Assumptions C13_equal_clone.

(** [PatternedTensor(dense, default=d)] denotes the dense tensor it is built from, whatever [d] ... *)
Theorem C13_of_dense_denote : forall (V : Type) shp (f : list nat -> V) d next idx, in_bounds shp idx ->
  denote V (fst (pt_of_dense V shp f d next)) idx = f idx.
Proof. exact pt_of_dense_denote. Qed.
Print Assumptions C13_of_dense_denote.

(** ... hence a tensor equals its densification *)
Theorem C13_equal_densify : forall next next2 d (t : pt) b, nan_free t ->
  compare_pre_b next t (fst (pt_of_dense xval (shape xval t) (denote xval t) d next2)) = true ->
  equal_model next t (fst (pt_of_dense xval (shape xval t) (denote xval t) d next2)) = Ok b -> b = true.
Proof. exact equal_densify. Qed.
Print Assumptions C13_equal_densify.

(** equal_default / allclose_default: every cell against the tensor's own default *)
Theorem C13_default_correct : forall cmp (t : pt), wf xval t -> cmp (default t) (default t) = true ->
  (default_model xval cmp t = true <->
   forall idx, in_bounds (shape xval t) idx -> cmp (denote xval t idx) (default t) = true).
Proof. exact default_model_correct. Qed.
Print Assumptions C13_default_correct.

(** * MultiTensor.allclose: an absent block is the zero block *)
Theorem C13_multi_absent_is_zero : forall zero tol next (a b : multi) r,
  xisnan zero = false -> mt_pre next a b ->
  mt_allclose_model zero tol next a b = Ok r ->
  (r = true <-> mt_pointwise zero tol a b).
Proof. exact multi_absent_is_zero. Qed.
Print Assumptions C13_multi_absent_is_zero.

Theorem C13_multi_assert_meaning : forall zero tol (t : pt),
  mt_absent zero tol t = Fail OtherError <-> xeq_num (default t) zero = false.
Proof. exact multi_assert_meaning. Qed.
Print Assumptions C13_multi_assert_meaning.

(** * the oracle of the check function *)
Theorem C13_oracle_dspec_is_denote : forall (t : pt) idx, wf xval t -> in_bounds (shape xval t) idx ->
  dspec t idx = denote xval t idx.
Proof. exact dspec_denote. Qed.
Print Assumptions C13_oracle_dspec_is_denote.

Theorem C13_check_sound : forall mode rtol atol en wt wu impl,
  mode < 2 -> c13_check (mode, rtol, atol, en, wt, wu, impl) = 0 \/ c13_check (mode, rtol, atol, en, wt, wu, impl) = 30 ->
  wire_ok wt = true /\ wire_ok wu = true /\ (impl = 0 \/ impl = 1) /\
  (impl = 1 <-> cellwise (spec_cmp mode (Q2Qc rtol) (Q2Qc atol) en) (of_wire wt) (of_wire wu)).
Proof. exact c13_check_sound. Qed.
Print Assumptions C13_check_sound.

(** * the premise on the bounded typed universes (exhaustive in the kernel) *)
Theorem C13_overlap_exact_upto12 : forall ty e f (t u : pt),
  In ty (types_upto 12) -> In e (axes_of ty 1) -> In f (axes_of ty 50) ->
  vaxes t = [e] -> paxes t = fvn_list [e] -> vaxes u = [f] -> paxes u = fvn_list [f] ->
  compare_pre_b 100 t u = true.
Proof. exact overlap_exact_upto12. Qed.
Print Assumptions C13_overlap_exact_upto12.

Theorem C13_overlap_exact_self_upto12 : forall ty e (t : pt),
  In ty (types_upto 12) -> In e (axes_of ty 1) -> vaxes t = [e] -> paxes t = fvn_list [e] ->
  compare_pre_b 100 t t = true.
Proof. exact overlap_exact_self_upto12. Qed.
Print Assumptions C13_overlap_exact_self_upto12.

Theorem C13_overlap_exact_2d_upto6 : forall t1 t2 es fs (t u : pt),
  In t1 small_types -> In t2 small_types ->
  In es (patterns2 t1 t2 1) -> In fs (patterns2 t1 t2 50) ->
  vaxes t = es -> paxes t = fvn_list es -> vaxes u = fs -> paxes u = fvn_list fs ->
  compare_pre_b 100 t u = true.
Proof. exact overlap_exact_2d_upto6. Qed.
Print Assumptions C13_overlap_exact_2d_upto6.

Theorem C13_overlap_exact_self_2d_upto6 : forall t1 t2 es (t : pt),
  In t1 small_types -> In t2 small_types -> In es (patterns2 t1 t2 1) ->
  vaxes t = es -> paxes t = fvn_list es -> compare_pre_b 100 t t = true.
Proof. exact overlap_exact_self_2d_upto6. Qed.
Print Assumptions C13_overlap_exact_self_2d_upto6.

(** hence, without premise, on those universes *)
Theorem C13_equal_correct_upto12 : forall ty e f (t u : pt) b,
  In ty (types_upto 12) -> In e (axes_of ty 1) -> In f (axes_of ty 50) ->
  vaxes t = [e] -> paxes t = fvn_list [e] -> vaxes u = [f] -> paxes u = fvn_list [f] ->
  equal_model 100 t u = Ok b ->
  (b = true <-> shape xval t = shape xval u /\
                forall idx, in_bounds (shape xval t) idx -> denote xval t idx = denote xval u idx /\ denote xval t idx <> XNaN).
Proof. exact equal_correct_upto12. Qed.
Print Assumptions C13_equal_correct_upto12.

Theorem C13_equal_correct_2d_upto6 : forall t1 t2 es fs (t u : pt) b,
  In t1 small_types -> In t2 small_types ->
  In es (patterns2 t1 t2 1) -> In fs (patterns2 t1 t2 50) ->
  vaxes t = es -> paxes t = fvn_list es -> vaxes u = fs -> paxes u = fvn_list fs ->
  equal_model 100 t u = Ok b ->
  (b = true <-> shape xval t = shape xval u /\
                forall idx, in_bounds (shape xval t) idx -> denote xval t idx = denote xval u idx /\ denote xval t idx <> XNaN).
Proof. exact equal_correct_2d_upto6. Qed.
Print Assumptions C13_equal_correct_2d_upto6.

Theorem C13_allclose_correct_2d_upto6 : forall rtol atol en t1 t2 es fs (t u : pt) b,
  In t1 small_types -> In t2 small_types ->
  In es (patterns2 t1 t2 1) -> In fs (patterns2 t1 t2 50) ->
  vaxes t = es -> paxes t = fvn_list es -> vaxes u = fs -> paxes u = fvn_list fs ->
  allclose_model rtol atol en 100 t u = Ok b ->
  (b = true <-> shape xval t = shape xval u /\
                forall idx, in_bounds (shape xval t) idx -> xisclose rtol atol en (denote xval t idx) (denote xval u idx) = true).
Proof. exact allclose_correct_2d_upto6. Qed.
Print Assumptions C13_allclose_correct_2d_upto6.

(** the universe the correspondence enumerates (shapes (2), (3), (2,2), (3,3), (2,2,2), (6), (2,3), (4,2); index types with unit
    summands; 4 062 ordered pairs + 354 patterns against themselves): premise, and premise-free correctness *)
Theorem C13_overlap_exact_small_shapes : forall shp es fs (t u : pt),
  In shp small_shapes -> In (es, fs) (shape_pairs shp) ->
  vaxes t = es -> paxes t = fvn_list es -> vaxes u = fs -> paxes u = fvn_list fs ->
  compare_pre_b 100 t u = true.
Proof. exact overlap_exact_small_shapes. Qed.
Print Assumptions C13_overlap_exact_small_shapes.

Theorem C13_overlap_exact_self_small_shapes : forall shp es (t : pt),
  In shp small_shapes -> In es (shape_selfs shp) -> vaxes t = es -> paxes t = fvn_list es ->
  compare_pre_b 100 t t = true.
Proof. exact overlap_exact_self_small_shapes. Qed.
Print Assumptions C13_overlap_exact_self_small_shapes.

Theorem C13_equal_correct_small_shapes : forall shp es fs (t u : pt) b,
  In shp small_shapes -> In (es, fs) (shape_pairs shp) ->
  vaxes t = es -> paxes t = fvn_list es -> vaxes u = fs -> paxes u = fvn_list fs ->
  equal_model 100 t u = Ok b ->
  (b = true <-> shape xval t = shape xval u /\
                forall idx, in_bounds (shape xval t) idx -> denote xval t idx = denote xval u idx /\ denote xval t idx <> XNaN).
Proof. exact equal_correct_small_shapes. Qed.
Print Assumptions C13_equal_correct_small_shapes.

Theorem C13_allclose_correct_small_shapes : forall rtol atol en shp es fs (t u : pt) b,
  In shp small_shapes -> In (es, fs) (shape_pairs shp) ->
  vaxes t = es -> paxes t = fvn_list es -> vaxes u = fs -> paxes u = fvn_list fs ->
  allclose_model rtol atol en 100 t u = Ok b ->
  (b = true <-> shape xval t = shape xval u /\
                forall idx, in_bounds (shape xval t) idx -> xisclose rtol atol en (denote xval t idx) (denote xval u idx) = true).
Proof. exact allclose_correct_small_shapes. Qed.
Print Assumptions C13_allclose_correct_small_shapes.

(** * UNBOUNDED: the premise follows from typing (Proofs/PTEqual_typed.v, PTEqual_typed_main.v)

    [typed_pair V G next pss t u]: both operands well formed ([wf]), one typing context [G] below
    [next] for the physical axes of both, both patterns of the same types [pss] dimension by
    dimension ([tys], Proofs/Axis_typed.v), all primes good ([gprimes]: atoms >= 2, sum types >= 2).
    Sharing of physical axes between the operands is allowed ([equal] freshens [other] then).
    The [_correct_typed] theorems say "whenever the model answers [Ok b]"; that the model always
    answers on typed pairs is C13_equal_total_typed / C13_allclose_total_typed below (the fuel formula
    of the model of [unify] suffices: C06_unify_complete_model_fuel). *)

(** for operands over disjoint physical axes, the two views built with [stride] from the unifier
    enumerate exactly the coincidences of the two patterns, each once *)
Theorem C13_overlap_typed : forall (V : Type) (t u : ptensor V), wf V t -> wf V u ->
  forall G next pss, ctx_good G -> ctx_below G next -> tys G (vaxes t) pss -> tys G (vaxes u) pss -> Forall gprimes pss ->
  (forall k, In k (map fst (paxes t)) -> ~ In k (map fst (paxes u))) ->
  forall cs, overlap_cs V t u next = Ok cs -> overlap_ok V t u cs.
Proof. exact overlap_typed_ok. Qed.
Print Assumptions C13_overlap_typed.

(** the same for [t] and the possibly freshened [other] of a call [t.equal(u)] *)
Theorem C13_freshened_overlap_typed : forall (V : Type) (t u : ptensor V) G next pss,
  typed_pair V G next pss t u ->
  forall cs, overlap_cs V t (fst (freshened V next t u)) (snd (freshened V next t u)) = Ok cs ->
             overlap_ok V t (fst (freshened V next t u)) cs.
Proof. exact freshened_overlap_ok. Qed.
Print Assumptions C13_freshened_overlap_typed.

(** premise-free: [equal] decides equality of the denoted dense tensors on every typed pair *)
Theorem C13_equal_correct_typed : forall G next pss (t u : pt) b,
  typed_pair xval G next pss t u -> equal_model next t u = Ok b ->
  (b = true <-> shape xval t = shape xval u /\
                forall idx, in_bounds (shape xval t) idx -> denote xval t idx = denote xval u idx /\ denote xval t idx <> XNaN).
Proof. exact equal_correct_typed. Qed.
Print Assumptions C13_equal_correct_typed.

Theorem C13_allclose_correct_typed : forall rtol atol en G next pss (t u : pt) b,
  typed_pair xval G next pss t u -> allclose_model rtol atol en next t u = Ok b ->
  (b = true <-> shape xval t = shape xval u /\
                forall idx, in_bounds (shape xval t) idx -> xisclose rtol atol en (denote xval t idx) (denote xval u idx) = true).
Proof. exact allclose_correct_typed. Qed.
Print Assumptions C13_allclose_correct_typed.

(** any comparison (the skeleton shared by [equal] and [allclose]) *)
Theorem C13_compare_correct_typed : forall cmp G next pss (t u : pt) b,
  typed_pair xval G next pss t u -> compare_model xval cmp next t u = Ok b ->
  (b = true <-> cellwise cmp t u).
Proof. exact compare_model_correct_typed. Qed.
Print Assumptions C13_compare_correct_typed.

Theorem C13_equal_symmetric_typed : forall G next pss (t u : pt) b1 b2,
  typed_pair xval G next pss t u ->
  equal_model next t u = Ok b1 -> equal_model next u t = Ok b2 -> b1 = b2.
Proof. exact equal_symmetric_typed. Qed.
Print Assumptions C13_equal_symmetric_typed.

Theorem C13_equal_reflexive_typed : forall G next pss (t : pt) b, nan_free t ->
  typed_pair xval G next pss t t -> equal_model next t t = Ok b -> b = true.
Proof. exact equal_reflexive_typed. Qed.
Print Assumptions C13_equal_reflexive_typed.

(** the model does not fail on typed pairs: [unify] answers with the fuel the model gives it
    (C06_unify_complete_model_fuel: no side condition any more, notes/UNIFY.md section 6), [stride] /
    [fv] terminate within their fuel, every key of the accumulated stride dict is a free axis (no
    KeyError in [project]), the free axes of the second view are [subaxes] (the [__debug__]
    ValueError of [project] cannot fire) *)
Theorem C13_model_total_typed : forall (V : Type) (t u : ptensor V), wf V t -> wf V u ->
  forall G next pss, ctx_good G -> ctx_below G next -> tys G (vaxes t) pss -> tys G (vaxes u) pss -> Forall gprimes pss ->
  exists ov, overlap_model V next t u = Ok ov.
Proof. exact overlap_model_total. Qed.
Print Assumptions C13_model_total_typed.

(** hence the executable premise of C13_equal_correct / C13_allclose_correct holds on every typed pair *)
Theorem C13_compare_pre_typed : forall G next pss (t u : pt),
  typed_pair xval G next pss t u -> wf_b t = true -> wf_b u = true ->
  compare_pre_b next t u = true.
Proof. exact compare_pre_typed. Qed.
Print Assumptions C13_compare_pre_typed.

(** PREMISE-FREE, TOTAL: on every typed pair the model of [equal] / [allclose] answers, and the
    answer is the truth about the two denoted dense tensors *)
Theorem C13_equal_total_typed : forall G next pss (t u : pt),
  typed_pair xval G next pss t u ->
  exists b, equal_model next t u = Ok b /\
    (b = true <-> shape xval t = shape xval u /\
                  forall idx, in_bounds (shape xval t) idx -> denote xval t idx = denote xval u idx /\ denote xval t idx <> XNaN).
Proof. exact equal_total_typed. Qed.
Print Assumptions C13_equal_total_typed.

Theorem C13_allclose_total_typed : forall rtol atol en G next pss (t u : pt),
  typed_pair xval G next pss t u ->
  exists b, allclose_model rtol atol en next t u = Ok b /\
    (b = true <-> shape xval t = shape xval u /\
                  forall idx, in_bounds (shape xval t) idx -> xisclose rtol atol en (denote xval t idx) (denote xval u idx) = true).
Proof. exact allclose_total_typed. Qed.
Print Assumptions C13_allclose_total_typed.

Theorem C13_compare_total_typed : forall cmp G next pss (t u : pt),
  typed_pair xval G next pss t u ->
  exists b, compare_model xval cmp next t u = Ok b /\ (b = true <-> cellwise cmp t u).
Proof. exact compare_total_typed. Qed.
Print Assumptions C13_compare_total_typed.

(** the hypothesis is decidable given the context (executable, sound) *)
Theorem C13_typed_pair_checker_sound : forall cl next pss (t u : pt),
  typed_pair_tb cl next pss t u = true -> typed_pair xval (ctx_of_list cl) next pss t u.
Proof. exact typed_pair_tb_sound. Qed.
Print Assumptions C13_typed_pair_checker_sound.

(** * the premise cannot be dropped: operands typed by different sum decompositions of a dimension
    (the library warns "index type mismatch"): [equal] answers True on different dense tensors *)
Theorem C13_equal_mixed_types_refuted :
  wf_b mix_t = true /\ wf_b mix_u = true /\ shape xval mix_t = shape xval mix_u /\
  equal_model 10 mix_t mix_u = Ok true /\
  denote xval mix_t [1] <> denote xval mix_u [1] /\
  compare_pre_b 10 mix_t mix_u = false.
Proof. exact equal_mixed_types_refuted. Qed.
Print Assumptions C13_equal_mixed_types_refuted.
