(** C12 — results do not depend on how the grammar is written down. *)
From Coq Require Import List Permutation.
Require Import Fggs.Model.Semiring Fggs.Model.SumProduct Fggs.Proofs.Presentation.

(** permuting the rule list leaves every Kleene iterate (hence, by C01/C02, the sum over
    derivations and the least fixed point) unchanged, in every commutative semiring *)
Theorem C12_rules_perm :
  forall R (o : sr_ops R), sr_ring o ->
  forall G G' w k X xi,
    g_doms G = g_doms G' -> g_labels G = g_labels G' -> Permutation (g_rules G) (g_rules G') ->
    Zk o G w k X xi = Zk o G' w k X xi.
Proof. exact (@Zk_rules_perm). Qed.
Print Assumptions C12_rules_perm.
